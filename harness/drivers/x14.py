"""X14 (extra): image-plane meshes (image_mesh.Overlay / Hilbert / KMeans and their helpers) place their points where the
docstrings say and the bookkeeping between image pixels and mesh points is consistent.

S->C: TLC explores spec/ImageMesh.tla (every mask of small frames x overlay shapes, one action per helper call; the generalised
Hilbert curve on small rectangles and on the 193 x 193 lattice the Hilbert mesh uses; call histories on one cached curve) and dumps
its instances; every instance is replayed into the real API on several lattice geometries (anisotropic pixel scales, origins, dyadic
and decimal ticks).  C->S: what comes back is abstracted (rejecting alpha) and judged by spec/Trace_ImageMesh.tla, together with
seeded random larger instances (masks up to 15x15, overlay shapes with points on pixel boundaries, Hilbert / KMeans meshes,
threshold checks, sampling, call histories on one object)."""
import contextlib
import io
import json
import os

import numpy as np

from harness import core
from harness.exact import fp

OFFV = 999999

INVARIANTS = ["PixelOfOverlayPointAgrees", "OverlayInsideBox", "FineOverlayReachesEveryPixel", "CountsEqual", "MapsAreTheDocumentedOnes",
              "MapsInverse", "KeptAreThePointsInUnmaskedPixels", "CountsAddUp", "MinPerPixelMonotone"]
G_INVARIANTS = ["CurveFillsTheRectangle", "CurveIsContinuous", "CurveEndsInsideTheCircle"]

CFG_HEAD = """CONSTANTS
  Shapes <- MCShapes
  OvShapes <- MCOvShapes
  GilbertSizes <- MCGilbert
  HistArgs <- MCHistArgs
  HistDepth = {depth}
  AliasedCache = {alias}
"""
TRACE_CFG = """CONSTANTS
  Shapes = {}
  OvShapes = {}
  GilbertSizes = {}
  HistArgs = {}
  HistDepth = 0
  AliasedCache = FALSE
SPECIFICATION TraceSpec
POSTCONDITION TraceAccepted
"""
HIST_ARGS = "{[id |-> 0, key |-> 1, org |-> 0], [id |-> 1, key |-> 1, org |-> 7], [id |-> 2, key |-> 2, org |-> -4]}"

SCALES = [(2, 2), (4, 4), (2, 4), (4, 2), (6, 4), (2, 6), (4, 6)]          # pixel scales in half-ticks (even), anisotropic
ORIGINS = [(0, 0), (1, -3), (-5, 2), (8, 7), (-2, -9), (3, 0)]             # origins in half-ticks
HTS = [0.5, 0.25, 1.0, 0.125, 0.05, 0.1, 2.0]                              # the half-tick in real units (dyadic and decimal)


def _pairs(ps):
    return "{" + ", ".join(f"<<{a},{b}>>" for a, b in ps) + "}"


def _defs(shapes=(), ovs=(), gil=(), hargs="{}"):
    return f"MCShapes == {_pairs(shapes)}\nMCOvShapes == {_pairs(ovs)}\nMCGilbert == {_pairs(gil)}\nMCHistArgs == {hargs}"


# ================================================================================================================
# alpha (rejecting) and guarded calls
# ================================================================================================================
def _call(fn):
    """Run a call into the code under test; an exception becomes its class name (SystemExit included), prints are swallowed."""
    buf = io.StringIO()
    try:
        with contextlib.redirect_stdout(buf):
            return fn(), ""
    except KeyboardInterrupt:
        raise
    except BaseException as e:  # noqa
        return None, type(e).__name__


def a_ints(x, unit=1.0, tol=1e-6, lim=9e5):
    """Exact abstraction of numbers onto the integer lattice of `unit`; anything else is counted in `off` and replaced by OFFV."""
    try:
        a = np.asarray(x, dtype=float).ravel() / unit
    except Exception:
        return [], 1
    r = np.rint(a)
    ok = np.isfinite(a) & (np.abs(a - r) <= tol) & (np.abs(r) < lim)
    out = [int(v) if o else OFFV for v, o in zip(np.where(ok, r, 0), ok)]
    return out, int((~ok).sum())


def a_fix(x, unit, lim=2e4):
    """Fixed point: round(x / unit); non-finite or huge values become a value (1.5 lim) that no clause accepts and whose products
    in the trace specification still fit 32 bits."""
    try:
        a = np.asarray(x, dtype=float).ravel() / unit
    except Exception:
        return []
    ok = np.isfinite(a) & (np.abs(a) < lim)
    return [int(v) if o else int(lim * 1.5) for v, o in zip(np.rint(np.where(ok, a, 0)), ok)]


def a_points(val, uy, ux):
    """(n,2) array of (y,x) -> lattice pairs in units (uy, ux) + number of off-lattice coordinates."""
    try:
        a = np.asarray(val, dtype=float)
    except Exception:
        return [], 1
    if a.ndim != 2 or a.shape[1] != 2:
        return [], 1
    ys, o1 = a_ints(a[:, 0], uy)
    xs, o2 = a_ints(a[:, 1], ux)
    return [[y, x] for y, x in zip(ys, xs)], o1 + o2


def a_points_fix(val, oy, ox, unit):
    try:
        a = np.asarray(val, dtype=float)
    except Exception:
        return []
    if a.ndim != 2 or a.shape[1] != 2:
        return []
    return [[y, x] for y, x in zip(a_fix(a[:, 0] - oy, unit), a_fix(a[:, 1] - ox, unit))]


# ================================================================================================================
# gamma helpers (input generation on the lattice; never used as an expectation)
# ================================================================================================================
def geo_for(idx, seed):
    k = ((idx + 1) * 2654435761 + seed * 40503) & 0xFFFFFFFF       # a fixed scrambling of the instance number
    return list(SCALES[k % len(SCALES)]) + list(ORIGINS[(k // 7) % len(ORIGINS)]), HTS[(k // 42) % len(HTS)]


def _bbox(w, u):
    rows = [k // w for k in u]
    cols = [k % w for k in u]
    return min(rows), max(rows), min(cols), max(cols)


def no_tie(w, u, s0, s1):
    i0, i1, j0, j1 = _bbox(w, u)
    nr, nc = i1 - i0 + 1, j1 - j0 + 1
    return all(((2 * a + 1) * nr) % (2 * s0) for a in range(s0)) and all(((2 * b + 1) * nc) % (2 * s1) for b in range(s1))


def ov_lattice_points(h, w, u, s0, s1, geo):
    """the S0 x S1 cell centres of the bounding box, on the lattice scaled by the overlay shape, and their image pixels"""
    sy, sx, oy, ox = geo
    i0, i1, j0, j1 = _bbox(w, u)
    nr, nc = i1 - i0 + 1, j1 - j0 + 1
    top = oy + (h - 1 - 2 * i0) * (sy // 2) + sy // 2
    left = ox + (2 * j0 - w + 1) * (sx // 2) - sx // 2
    pts, cen = [], []
    for a in range(s0):
        for b in range(s1):
            pts.append([s0 * top - (2 * a + 1) * nr * (sy // 2), s1 * left + (2 * b + 1) * nc * (sx // 2)])
            cen.append([i0 + ((2 * a + 1) * nr) // (2 * s0), j0 + ((2 * b + 1) * nc) // (2 * s1)])
    return pts, cen


def _mask(h, w, u, geo, ht):
    import autoarray as aa

    sy, sx, oy, ox = geo
    m = np.ones((h, w), dtype=bool)
    m.ravel()[list(u)] = False
    return aa.Mask2D(mask=m, pixel_scales=(sy * ht, sx * ht), origin=(oy * ht, ox * ht)), m


def _real_points(pts, dy, dx, ht):
    a = np.asarray(pts, dtype=float).reshape(-1, 2)
    return np.stack([a[:, 0] * ht / dy, a[:, 1] * ht / dx], axis=1)


def _frac(n, d):
    return None if n < 0 else n / d


# ================================================================================================================
# records of one overlay instance
# ================================================================================================================
def overlay_records(inst):
    import autoarray as aa
    from autoarray.inversion.pixelization.image_mesh import overlay as ovm

    h, w, u, s0, s1 = inst["h"], inst["w"], list(inst["u"]), inst["s0"], inst["s1"]
    geo, ht = inst["geo"], inst["ht"]
    sy, sx, oy, ox = geo
    emit = inst.get("emit", ["overlay", "ovmaps"])
    base = dict(h=h, w=w, u=u, sy=sy, sx=sx, oy=oy, ox=ox, inst=inst, via=inst.get("via", "direct"))
    mask, m = _mask(h, w, u, geo, ht)
    recs = []
    if "overlay" in emit:
        shape = (s0, s1) if inst.get("idx", 0) % 3 else (float(s0), float(s1))      # the constructor converts with int()
        im = aa.image_mesh.Overlay(shape=shape)
        val, raised = _call(lambda: im.image_plane_mesh_grid_from(mask=mask, adapt_data=None))
        out, off = a_points(val, ht / s0, ht / s1) if raised == "" else ([], 0)
        recs.append(dict(base, api="overlay", s0=s0, s1=s1, typ=type(val).__name__, raised=raised, out=out, off=off,
                         mkept=bool(np.array_equal(np.array(mask), m))))
    if "ovmaps" in emit:
        cen = np.array(inst["cen"], dtype=int).reshape(-1, 2)
        mb = np.array(m)

        def maps():
            tot = ovm.total_pixels_2d_from(mask_2d=mb, overlaid_centres=cen)
            ofm = ovm.overlay_for_mask_from(total_pixels=tot, mask=mb, overlaid_centres=cen)
            mfo = ovm.mask_for_overlay_from(mask=mb, overlaid_centres=cen, total_pixels=tot)
            tags = np.array([[k + 1.0, -(k + 1.0)] for k in range(len(cen))]).reshape(-1, 2)
            sel = ovm.overlay_via_unmasked_overlaid_from(unmasked_overlay_grid=tags, overlay_for_mask=np.asarray(ofm).astype("int"))
            return tot, ofm, mfo, sel

        val, raised = _call(maps)
        if raised == "":
            t, o0 = a_ints([val[0]])
            ofm, o1 = a_ints(val[1])
            mfo, o2 = a_ints(val[2])
            sel, o3 = a_points(val[3], 1.0, 1.0)
            rec = dict(api="ovmaps", tot=t[0] if t else OFFV, ofm=ofm, mfo=mfo, sel=sel, off=o0 + o1 + o2 + o3)
        else:
            rec = dict(api="ovmaps", tot=OFFV, ofm=[], mfo=[], sel=[], off=0)
        recs.append(dict(base, cen=[[int(a), int(b)] for a, b in cen], raised=raised, **rec))
    if "count" in emit or "chk1" in emit or "chk2" in emit:
        pts, dy, dx = inst["pts"], inst["dy"], inst["dx"]
        grid = aa.Grid2DIrregular(values=_real_points(pts, dy, dx, ht))
        im = aa.image_mesh.Overlay(shape=(s0, s1)) if inst.get("idx", 0) % 2 else aa.image_mesh.Hilbert(pixels=8)
        pb = dict(base, pts=pts, dy=dy, dx=dx)
        if "count" in emit:
            val, raised = _call(lambda: im.mesh_pixels_per_image_pixels_from(mask=mask, mesh_grid=grid))
            native, slim, rmask, off = [], [], [], 0
            if raised == "":
                def read():
                    return np.array(val.native), np.array(val.slim), np.flatnonzero(~np.array(val.mask).ravel())
                rd, raised = _call(read)
                if raised == "":
                    native, o1 = a_ints(rd[0])
                    slim, o2 = a_ints(rd[1])
                    rmask = [int(k) for k in rd[2]]
                    off = o1 + o2
            recs.append(dict(pb, api="count", typ=type(val).__name__, raised=raised, native=native, slim=slim, rmask=rmask, off=off))
        cp = inst.get("cp", {})
        if "chk1" in emit:
            N, tn, td, nos = cp["N"], cp["tn"], cp["td"], cp.get("nos", False)
            st = None if nos else aa.SettingsInversion(image_mesh_min_mesh_pixels_per_pixel=_frac(tn, td), image_mesh_min_mesh_number=N)
            val, raised = _call(lambda: im.check_mesh_pixels_per_image_pixels(mask=mask, mesh_grid=grid, settings=st))
            recs.append(dict(pb, api="chk1", N=N, tn=tn, td=td, nos=nos, outcome="returned" if raised == "" else "raised:" + raised,
                             same=bool(val is grid)))
        if "chk2" in emit:
            ad, ex, cn, cd, tn, td, nos = cp["ad"], cp["ex"], cp["cn"], cp["cd"], cp["tn2"], cp["td2"], cp.get("nos", False)
            adapt = aa.Array2D(values=np.array(ad, dtype=float) * 2.0 ** ex, mask=mask)
            st = None if nos else aa.SettingsInversion(image_mesh_adapt_background_percent_threshold=_frac(tn, td),
                                                       image_mesh_adapt_background_percent_check=cn / cd)
            val, raised = _call(lambda: im.check_adapt_background_pixels(mask=mask, mesh_grid=grid, adapt_data=adapt, settings=st))
            recs.append(dict(pb, api="chk2", ad=ad, cn=cn, cd=cd, tn=tn, td=td, nos=nos,
                             outcome="returned" if raised == "" else "raised:" + raised))
    return recs


def check_params(rng, n_unmasked, npts):
    """settings for the two checks: N, minimum tn/td (small integers over powers of two), adapt image (distinct small integers
    times a power of two), background fraction cn/cd and threshold tn2/td2 (dyadic)"""
    td = int(rng.choice([1, 1, 2, 4]))
    tn = int(rng.integers(1, 3 * td + 1)) if rng.random() > 0.12 else -1
    cd = int(rng.choice([1, 2, 4, 8]))
    td2 = int(rng.choice([1, 2, 4, 8]))
    return {"N": int(rng.choice([1, 2, 3, 5, max(1, n_unmasked), n_unmasked + 2])), "tn": tn, "td": td, "nos": bool(rng.random() < 0.06),
            "ad": [int(v) for v in rng.permutation(n_unmasked + 3)[:n_unmasked]], "ex": int(rng.choice([-3, 0, 2])),
            "cn": int(rng.integers(0, cd + 1)), "cd": cd, "tn2": int(rng.integers(0, td2 + 1)) if rng.random() > 0.12 else -1, "td2": td2}


def make_overlay_inst(rng, idx, seed, h, w, u, s0, s1, cen=None, emit=None, via="direct", pts_mode=None):
    geo, ht = geo_for(idx, seed)
    inst = {"kind": "ov", "idx": idx, "h": h, "w": w, "u": [int(k) for k in u], "s0": s0, "s1": s1, "geo": geo, "ht": ht, "via": via}
    emit = list(emit or ["overlay", "ovmaps"])
    tie = not no_tie(w, u, s0, s1)
    if cen is not None:
        inst["cen"] = cen
    elif "ovmaps" in emit:
        if tie:
            emit.remove("ovmaps")
        else:
            inst["cen"] = ov_lattice_points(h, w, u, s0, s1, geo)[1]
    if {"count", "chk1", "chk2"} & set(emit):
        mode = pts_mode or ("overlay" if not tie and idx % 2 else "odd")
        if mode == "overlay":
            pts = ov_lattice_points(h, w, u, s0, s1, geo)[0]
            if idx % 4 == 1:    # only the kept ones
                c = inst.get("cen") or ov_lattice_points(h, w, u, s0, s1, geo)[1]
                us = set(inst["u"])
                pts = [p for p, q in zip(pts, c) if q[0] * w + q[1] in us] or pts
            inst.update(pts=pts, dy=s0, dx=s1)
        else:
            # random points strictly inside pixels of the frame (several per pixel, also in masked pixels): odd multiples of 1/2 half-tick
            sy, sx, oy, ox = geo
            n = int(rng.integers(1, 13))
            pts, cells = [], []
            for _ in range(n):
                if cells and rng.random() < 0.35:
                    i, j = cells[int(rng.integers(0, len(cells)))]                       # another point in an already used pixel
                elif rng.random() < 0.7:
                    k = inst["u"][int(rng.integers(0, len(inst["u"])))]
                    i, j = k // w, k % w
                else:
                    i, j = int(rng.integers(0, h)), int(rng.integers(0, w))             # any pixel, masked ones included
                cells.append((i, j))
                ylo = 2 * (oy + (h - 1 - 2 * i) * (sy // 2) - sy // 2)                   # in units of 1/2 half-tick
                xlo = 2 * (ox + (2 * j - w + 1) * (sx // 2) - sx // 2)
                pts.append([int(ylo + 1 + 2 * rng.integers(0, sy)), int(xlo + 1 + 2 * rng.integers(0, sx))])
            inst.update(pts=pts, dy=2, dx=2)
        inst["cp"] = check_params(rng, len(inst["u"]), len(inst["pts"]))
    inst["emit"] = emit
    return inst


# ================================================================================================================
# curves, sampling, weight maps
# ================================================================================================================
def gil_records(inst):
    from autoarray.inversion.pixelization.image_mesh import hilbert as hb

    w, h = inst["w"], inst["h"]
    val, raised = _call(lambda: list(hb.gilbert2d(w, h)))
    path = [[int(a), int(b)] for a, b in val] if raised == "" else []
    return [dict(api="gil", inst=inst, w=w, h=h, raised=raised, path=path)]


def hbo_records(inst):
    from autoarray.inversion.pixelization.image_mesh import hilbert as hb
    from autoarray.structures.grids import sparse_2d_util

    L, R = inst["L"], inst["R"]
    recs = []
    for fn, f in (("sparse_2d_util.create_grid_hb_order", sparse_2d_util.create_grid_hb_order), ("hilbert.grid_hilbert_order_from", hb.grid_hilbert_order_from)):
        val, raised = _call(lambda: f(length=L, mask_radius=R))
        pts, off = [], 0
        if raised == "":
            try:
                x, y = val
                kx, o1 = a_ints((np.asarray(x, dtype=float) / (2.0 * R) + 0.5) * L)
                ky, o2 = a_ints((np.asarray(y, dtype=float) / (2.0 * R) + 0.5) * L)
                pts, off = [[a, b] for a, b in zip(kx, ky)], o1 + o2 + (0 if len(kx) == len(ky) else 1)
            except Exception:
                pts, off = [], 1
        recs.append(dict(api="hbo", inst=inst, fn=fn, L=L, raised=raised, pts=pts, off=off))
    return recs


def make_its_inst(rng, idx):
    npx = int(rng.integers(2, 13))
    D = int(rng.choice([8, 16, 32, 64]))
    while True:
        inc = rng.multinomial(D, rng.dirichlet(np.ones(npx) * float(rng.choice([0.3, 1.0, 5.0]))))
        if inc[1] > 0:
            break
    C = [int(v) for v in np.cumsum(inc)]
    n = int(rng.choice([1, 2, 3, 5, 8, 13, 17]))
    gx, gy = [int(rng.integers(-4, 5))], [int(rng.integers(-4, 5))]
    for _ in range(npx - 1):
        step = [(0, 1), (1, 0), (0, -1), (-1, 0), (2, 1), (-3, 0)][int(rng.integers(0, 6 if idx % 3 == 0 else 4))]
        gx.append(gx[-1] + step[0])
        gy.append(gy[-1] + step[1])
    return {"kind": "its", "idx": idx, "C": C, "D": D, "n": n, "gx": gx, "gy": gy}


def its_records(inst):
    from autoarray.inversion.pixelization.image_mesh import hilbert as hb
    from autoarray.structures.grids import sparse_2d_util

    C, D, n = inst["C"], inst["D"], inst["n"]
    p = np.diff(np.array([0] + C, dtype=float)) / D
    recs = []
    for fn, f, nn in (("sparse_2d_util.inverse_transform_sampling_interpolated", sparse_2d_util.inverse_transform_sampling_interpolated, n),
                      ("hilbert.inverse_transform_sampling_interpolated", hb.inverse_transform_sampling_interpolated, float(n))):
        val, raised = _call(lambda: f(probabilities=p.copy(), n_samples=nn, gridx=np.array(inst["gx"], dtype=float), gridy=np.array(inst["gy"], dtype=float)))
        ids, xs, ys = [], [], []
        if raised == "":
            try:
                ids, xs, ys = (a_fix(v, 1.0 / 1024, lim=1e5) for v in val)
            except Exception:
                ids, xs, ys = [], [], []
        recs.append(dict(api="its", inst=inst, fn=fn, C=C, D=D, n=n, gx=inst["gx"], gy=inst["gy"], raised=raised, ids=ids, xs=xs, ys=ys))
    return recs


def make_wmap_inst(rng, idx):
    M = int(rng.choice([1, 2, 4, 8, 16]))
    n = int(rng.integers(1, 10))
    ad = [int(v) for v in rng.integers(0, M + 1, size=n)]
    ad[int(rng.integers(0, n))] = M
    fd = int(rng.choice([1, 2, 4, 8]))
    return {"kind": "wmap", "idx": idx, "ad": ad, "M": M, "p": int(rng.integers(0, 3)), "fn": int(rng.integers(0, fd + 1)), "fd": fd,
            "ex": int(rng.choice([-3, 0, 5])), "cls": ["Hilbert", "KMeans"][idx % 2], "arr": bool(idx % 3 == 0)}


def wmap_records(inst):
    import autoarray as aa

    ad, M, p, fn, fd = inst["ad"], inst["M"], inst["p"], inst["fn"], inst["fd"]
    D = M ** p * fd
    im = getattr(aa.image_mesh, inst["cls"])(pixels=5, weight_floor=fn / fd, weight_power=float(p) if inst["idx"] % 2 else p)
    x = np.array(ad, dtype=float) * 2.0 ** inst["ex"]
    if inst["arr"]:
        x = aa.Array2D.no_mask(values=x.reshape(1, -1), pixel_scales=1.0)
    x0 = np.array(x).copy()
    val, raised = _call(lambda: im.weight_map_from(adapt_data=x))
    out, off = a_ints(val, 1.0 / D) if raised == "" else ([], 0)
    return [dict(api="wmap", inst=inst, cls=inst["cls"], ad=ad, M=M, p=p, fn=fn, fd=fd, D=D, raised=raised, out=out, off=off,
                 inkept=bool(np.array_equal(np.array(x), x0)))]


# ================================================================================================================
# Hilbert / KMeans meshes
# ================================================================================================================
def disc_mask_cells(n, r2x4):
    """unmasked cells of an n x n frame: pixel centres within the circle about the frame centre; 4 d^2 <= r2x4 in pixel units
    (r2x4 is chosen so that no centre is exactly on the circle)"""
    u = []
    for i in range(n):
        for j in range(n):
            dy, dx = 2 * i - (n - 1), 2 * j - (n - 1)      # twice the offset in pixels
            if dy * dy + dx * dx <= r2x4:
                u.append(i * n + j)
    return u


def make_hil_inst(rng, idx, seed, kind="disc"):
    n = int(rng.integers(5, 14))
    s = int(rng.choice([2, 4]))
    ht = HTS[(idx + seed) % len(HTS)]
    org = list(ORIGINS[(idx * 5 + seed) % len(ORIGINS)])
    if kind == "disc":
        rmax = 2 * (n - 1) ** 2
        u = disc_mask_cells(n, int(rng.integers(max(2, rmax // 6), rmax + 1)))
        if len(u) < 4:
            u = disc_mask_cells(n, rmax)
    elif kind == "square":
        a = int(rng.integers(0, (n - 1) // 2))
        u = [i * n + j for i in range(a, n - a) for j in range(a, n - a)]
    elif kind == "noncirc":
        # a centred rectangle with different numbers of rows and columns
        a = int(rng.integers(0, (n - 1) // 2))
        c = int(rng.integers(0, (n - 1) // 2))
        if a == c:
            c = a + 1
        u = [i * n + j for i in range(a, n - a) for j in range(c, n - c)]
    else:   # anisotropic pixel scales
        u = disc_mask_cells(n, (n - 1) ** 2)
    geo = [s, s if kind != "aniso" else s + 2] + org
    fd = int(rng.choice([8, 16]))
    nun = len(u)
    M = int(rng.choice([4, 8, 16]))
    ad = [int(v) for v in rng.integers(0 if idx % 4 else 1, M + 1, size=nun)]
    ad[int(rng.integers(0, nun))] = M
    if idx % 5 == 0:
        ad = [M] * nun
    return {"kind": "hil", "idx": idx, "h": n, "w": n, "u": u, "geo": geo, "ht": ht, "pixels": int(rng.choice([1, 2, 5, 12, 30])),
            "wfn": int(rng.choice([0, 1, 2, 4])), "wfd": fd, "wp": int(rng.integers(0, 3)), "ad": ad, "ex": int(rng.choice([-2, 0, 3])), "sub": kind,
            # settings forwarded to the two checks, with outcomes that do not depend on where the points fall:
            # [minimum per pixel (-1 = None), N, background threshold numerator (-1 = None) over 2, background fraction numerator over 2]
            "st": [[-2, 1, -1, 1], [-1, 3, -1, 1], [0, 5, 0, 1], [None, 1, -1, 1], [-1, 1, 1, 0], [0, 2, 0, 2]][idx % 6]}


def _hil_call(inst, im=None):
    import autoarray as aa

    mask, m = _mask(inst["h"], inst["w"], inst["u"], inst["geo"], inst["ht"])
    adapt = aa.Array2D(values=np.array(inst["ad"], dtype=float) * 2.0 ** inst["ex"], mask=mask)
    if im is None:
        im = aa.image_mesh.Hilbert(pixels=inst["pixels"] if inst["idx"] % 2 else float(inst["pixels"]), weight_floor=inst["wfn"] / inst["wfd"],
                                   weight_power=float(inst["wp"]))
    st = None
    if inst.get("st") and inst["st"][0] != -2:
        mn = inst["pixels"] + 1 if inst["st"][0] is None else inst["st"][0]
        st = aa.SettingsInversion(image_mesh_min_mesh_pixels_per_pixel=None if mn < 0 else mn, image_mesh_min_mesh_number=inst["st"][1],
                                  image_mesh_adapt_background_percent_threshold=None if inst["st"][2] < 0 else inst["st"][2] / 2,
                                  image_mesh_adapt_background_percent_check=inst["st"][3] / 2)
    return _call(lambda: im.image_plane_mesh_grid_from(mask=mask, adapt_data=adapt, settings=st))


def hil_record(inst, val, raised, via):
    sy, sx, oy, ox = inst["geo"]
    ht = inst["ht"]
    out = a_points_fix(val, oy * ht, ox * ht, ht / 64.0) if raised == "" else []
    st = inst.get("st") or [-2, 1, -1, 1]
    st = [inst["pixels"] + 1 if st[0] is None else st[0]] + list(st[1:])
    return dict(api="hil", st=st, inst=inst, h=inst["h"], w=inst["w"], u=inst["u"], sy=sy, sx=sx, oy=oy, ox=ox, pixels=inst["pixels"], wfn=inst["wfn"],
                wfd=inst["wfd"], wp=inst["wp"], typ=type(val).__name__, raised=raised, out=out, via=via)


def hil_records(inst):
    val, raised = _hil_call(inst)
    return [hil_record(inst, val, raised, "direct")]


def make_km_inst(rng, idx, seed):
    h, w = int(rng.integers(1, 7)), int(rng.integers(1, 7))
    dens = float(rng.choice([0.3, 0.6, 1.0]))
    m = rng.random((h, w)) < dens
    if idx % 7 == 0:
        m[:] = False
        m[int(rng.integers(0, h)), :] = True        # a single row: collinear centres
    if not m.any():
        m[int(rng.integers(0, h)), int(rng.integers(0, w))] = True
    u = [int(k) for k in np.flatnonzero(m.ravel())]
    geo, ht = geo_for(idx, seed)
    nun = len(u)
    pixels = int(rng.integers(1, nun + 1)) if idx % 9 else nun + int(rng.integers(1, 3))
    if idx % 4 == 1:
        pixels = 1
    M = int(rng.choice([4, 8, 16]))
    ad = [int(v) for v in rng.integers(1, M + 1, size=nun)]
    ad[int(rng.integers(0, nun))] = M
    return {"kind": "km", "idx": idx, "h": h, "w": w, "u": u, "geo": geo, "ht": ht, "pixels": pixels, "wfn": int(rng.choice([0, 1, 2])), "wfd": 8,
            "wp": int(rng.integers(0, 3)), "ad": ad, "ex": int(rng.choice([-2, 0, 3]))}


def _km_call(inst, im=None):
    import autoarray as aa

    mask, m = _mask(inst["h"], inst["w"], inst["u"], inst["geo"], inst["ht"])
    adapt = aa.Array2D(values=np.array(inst["ad"], dtype=float) * 2.0 ** inst["ex"], mask=mask)
    if im is None:
        im = aa.image_mesh.KMeans(pixels=inst["pixels"], weight_floor=inst["wfn"] / inst["wfd"], weight_power=float(inst["wp"]))
    return _call(lambda: im.image_plane_mesh_grid_from(mask=mask, adapt_data=adapt))


def km_record(inst, val, raised, via):
    sy, sx, oy, ox = inst["geo"]
    ht = inst["ht"]
    out = a_points_fix(val, oy * ht, ox * ht, ht / 64.0) if raised == "" else []
    return dict(api="km", inst=inst, h=inst["h"], w=inst["w"], u=inst["u"], sy=sy, sx=sx, oy=oy, ox=ox, pixels=inst["pixels"],
                ad=inst["ad"], M=max(inst["ad"]), wp=inst["wp"], wfn=inst["wfn"], wfd=inst["wfd"],
                typ=type(val).__name__, raised=raised, out=out, via=via)


def km_records(inst):
    val, raised = _km_call(inst)
    return [km_record(inst, val, raised, "direct")]


# ================================================================================================================
# plumbing
# ================================================================================================================
def plumb_records(inst):
    import autoarray as aa

    rng = np.random.default_rng([inst["seed"], 77])
    flags = []
    for cls in ("Overlay", "Hilbert", "KMeans"):
        val, raised = _call(lambda: getattr(aa.image_mesh, cls)().uses_adapt_images)
        flags.append([cls, bool(val) if raised == "" and isinstance(val, (bool, np.bool_)) else (cls == "Overlay")])
    h = w = 6
    u = [k for k in range(h * w) if 0 < k // w < h - 1 and 0 < k % w < w - 1]
    geo, ht = geo_for(inst["seed"], 3)
    mask, m = _mask(h, w, u, geo, ht)
    grid = aa.Grid2D.from_mask(mask=mask)
    pix = []
    recs = []
    for mcls in ("Delaunay", "Voronoi"):
        for icls in ("Overlay", "Hilbert", "KMeans"):
            objs = {}

            def tag(o):
                for k, v in objs.items():
                    if v is o:
                        return k
                return -1

            im = getattr(aa.image_mesh, icls)()
            mesh = getattr(aa.mesh, mcls)()
            pts = [[int(rng.integers(-6, 7)), int(rng.integers(-6, 7))] for _ in range(7)]
            pts = [list(p) for p in {tuple(p) for p in pts}]
            while len(pts) < 5:
                pts.append([len(pts) * 2 - 5, (len(pts) * 3) % 7 - 3])
            ipg = aa.Grid2DIrregular(values=np.array(pts, dtype=float) * ht + np.array([0.013, 0.007]) * np.arange(len(pts))[:, None] * ht)
            ipg0 = np.array(ipg).copy()
            ad = aa.Array2D(values=np.arange(1.0, len(u) + 1.0), mask=mask)
            objs.update({1: im, 2: mesh, 3: ipg, 4: mask, 5: ad})
            e = dict(mesh_cls=mcls, im_cls=icls, im=1, mesh=2, grid=3, mask=4, ad=5, im_kept=-1, mesh_kept=-1, grid_kept=-1, mask_kept=-1, ad_kept=-1,
                     fn_of_mesh=False, raised="", pts=a_points(ipg0, ht / 1000.0, ht / 1000.0)[0], pts_kept=[])
            px, raised = _call(lambda: aa.Pixelization(image_mesh=im, mesh=mesh))
            if raised == "":
                rd, raised = _call(lambda: (px.image_mesh, px.mesh, px.mapper_grids_from == mesh.mapper_grids_from))
            if raised == "":
                e.update(im_kept=tag(rd[0]), mesh_kept=tag(rd[1]), fn_of_mesh=bool(rd[2]))
                spg = aa.Grid2DIrregular(values=np.array(ipg) * np.array([0.5, 0.75]) + np.array([0.25, -0.5]) * ht)      # a "lensed" copy
                mg, raised = _call(lambda: px.mapper_grids_from(mask=mask, source_plane_data_grid=grid, source_plane_mesh_grid=spg,
                                                                image_plane_mesh_grid=ipg, adapt_data=ad))
                if raised == "":
                    rd, raised = _call(lambda: (mg.image_plane_mesh_grid, mg.mask, mg.adapt_data))
                if raised == "":
                    e.update(grid_kept=tag(rd[0]), mask_kept=tag(rd[1]), ad_kept=tag(rd[2]),
                             pts_kept=a_points(rd[0], ht / 1000.0, ht / 1000.0)[0] if rd[0] is not None else [])
            e["raised"] = raised
            pix.append(e)
    none_refused = True
    for mcls in ("Delaunay", "Voronoi"):
        val, raised = _call(lambda: aa.Pixelization(mesh=getattr(aa.mesh, mcls)(), image_mesh=None))
        none_refused = none_refused and raised == "PixelizationException"
    recs.append(dict(api="plumb", inst=inst, cls="Pixelization", flags=flags, pix=pix, none_refused=bool(none_refused)))
    return recs


# ================================================================================================================
# call histories on one object
# ================================================================================================================
def hist_arg_tables(seed):
    """three arguments per class: 0 and 1 share the curve key (same frame, pixel scale and radius) at different origins, 2 differs"""
    rng = np.random.default_rng([seed, 1414])
    n = int(rng.choice([7, 9]))
    s, ht = 2, [0.5, 0.25, 1.0][seed % 3]
    u1 = disc_mask_cells(n, (n - 3) ** 2 + 1)
    u2 = disc_mask_cells(n + 2, (n - 1) ** 2 + 1)
    far = 40 + 2 * int(rng.integers(0, 5))
    def ad(k, nun):
        r = np.random.default_rng([seed, 15, k])
        v = [int(x) for x in r.integers(1, 9, size=nun)]
        v[int(r.integers(0, nun))] = 8
        return v
    hil = [dict(h=n, w=n, u=u1, geo=[s, s, 0, 0], ht=ht), dict(h=n, w=n, u=u1, geo=[s, s, far, -far - 3], ht=ht),
           dict(h=n + 2, w=n + 2, u=u2, geo=[s, s, -far - 5, 7], ht=ht)]
    for k, a in enumerate(hil):
        a.update(kind="hil", idx=1, pixels=9, wfn=1, wfd=8, wp=1, ad=ad(k, len(a["u"])), ex=0, sub="hist")
    km = []
    for k, a in enumerate(hil):
        b = dict(a, kind="km", pixels=4, geo=[2, 4] + a["geo"][2:])
        km.append(b)
    ovl = [dict(kind="ov", idx=1, h=n, w=n, u=u1, s0=3, s1=4, geo=[2, 4, 0, 0], ht=ht, emit=["overlay"], via="hist"),
           dict(kind="ov", idx=1, h=n, w=n, u=u1, s0=3, s1=4, geo=[2, 4, far, -far - 3], ht=ht, emit=["overlay"], via="hist"),
           dict(kind="ov", idx=1, h=n + 2, w=n + 2, u=u2[: len(u2) // 2], s0=3, s1=4, geo=[4, 2, -far - 5, 7], ht=ht, emit=["overlay"], via="hist")]
    return {"Hilbert": hil, "KMeans": km, "Overlay": ovl}


def _fp(val):
    try:
        return fp(np.asarray(val, dtype=float))
    except Exception:
        return "not-an-array:" + type(val).__name__


def hist_records(inst):
    """one object per history; every call of the history also yields its own judged record (via = hist)"""
    import autoarray as aa

    cls, ids, seed = inst["cls"], inst["ids"], inst["seed"]
    args = hist_arg_tables(seed)[cls]
    exps = [0, 3, -2, 1]
    recs, steps = [], []
    if cls == "Overlay":
        obj = aa.image_mesh.Overlay(shape=(3, 4))
    elif cls == "Hilbert":
        obj = aa.image_mesh.Hilbert(pixels=9, weight_floor=1 / 8, weight_power=1.0)
    else:
        obj = aa.image_mesh.KMeans(pixels=4, weight_floor=1 / 8, weight_power=1.0)

    def one(a, o):
        if cls == "Overlay":
            mask, m = _mask(a["h"], a["w"], a["u"], a["geo"], a["ht"])
            return _call(lambda: o.image_plane_mesh_grid_from(mask=mask, adapt_data=None))
        return (_hil_call if cls == "Hilbert" else _km_call)(a, im=o)

    for pos, k in enumerate(ids):
        a = dict(args[k], ex=exps[pos % 4] if cls != "Overlay" else 0)
        val, raised = one(a, obj)
        f = _fp(val) if raised == "" else "raised:" + raised
        fresh = ""
        if pos == len(ids) - 1:
            cold = {"Overlay": lambda: aa.image_mesh.Overlay(shape=(3, 4)), "Hilbert": lambda: aa.image_mesh.Hilbert(pixels=9, weight_floor=1 / 8, weight_power=1.0),
                    "KMeans": lambda: aa.image_mesh.KMeans(pixels=4, weight_floor=1 / 8, weight_power=1.0)}[cls]()
            v2, r2 = one(a, cold)
            fresh = _fp(v2) if r2 == "" else "raised:" + r2
        steps.append({"mk": k, "ad": k, "ex": a["ex"], "fp": f, "fresh": fresh})
        if cls == "Overlay":
            sy, sx, oy, ox = a["geo"]
            out, off = a_points(val, a["ht"] / 3, a["ht"] / 4) if raised == "" else ([], 0)
            recs.append(dict(api="overlay", inst=dict(a, hist=inst), h=a["h"], w=a["w"], u=a["u"], sy=sy, sx=sx, oy=oy, ox=ox, s0=3, s1=4,
                             typ=type(val).__name__, raised=raised, out=out, off=off, mkept=True, via="hist"))
        elif cls == "Hilbert":
            recs.append(hil_record(dict(a, hist=inst), val, raised, "hist"))
        else:
            recs.append(km_record(dict(a, hist=inst), val, raised, "hist"))
    recs.append(dict(api="hist", inst=inst, cls=cls, steps=steps))
    return recs


# ================================================================================================================
DISPATCH = {"ov": overlay_records, "gil": gil_records, "hbo": hbo_records, "its": its_records, "wmap": wmap_records, "hil": hil_records,
            "km": km_records, "plumb": plumb_records, "hist": hist_records}


def records_of(inst):
    return DISPATCH[inst["kind"]](inst)


def _many(insts):
    from harness import repo_env

    repo_env.setup()
    out = []
    for it in insts:
        out.extend(records_of(it))
    return out


KEEP_OUT = ("inst",)


def _slim(r):
    return {k: v for k, v in r.items() if k not in KEEP_OUT}


def _cost(r):
    return {"km": 40, "overlay": 3, "count": 2, "chk1": 2, "chk2": 2, "hbo": 5, "gil": 3}.get(r["api"], 1) * (1 + len(r.get("u", ())) // 40)


def validate(ctx, records, tag, chunk=2500):
    import concurrent.futures as cf

    for n, r in enumerate(records):
        r["id"] = n
    nchunks = max(1, min(14, (len(records) + chunk - 1) // chunk)) if len(records) <= 14 * chunk else (len(records) + chunk - 1) // chunk
    order = sorted(range(len(records)), key=lambda k: -_cost(records[k]))
    order = [k for k in order if records[k]["api"] != "hil"]
    chunks = [[records[k] for k in order[c::nchunks]] for c in range(nchunks)]
    # the Hilbert meshes go to one TLC run of their own: it evaluates the 193 x 193 curve once
    chunks.append([r for r in records if r["api"] == "hil"])
    rejects = []

    def one(a):
        k, ch = a
        if not ch:
            return []
        res, rej = ctx.validate_trace("Trace_ImageMesh", TRACE_CFG, [_slim(r) for r in ch], tag=f"{tag}-{k}", timeout=3000,
                                      env={"JAVA_TOOL_OPTIONS": "-XX:ParallelGCThreads=2 -XX:CICompilerCount=2"})
        return rej

    with cf.ThreadPoolExecutor(max_workers=min(14, len(chunks) or 1)) as ex:
        for rej in ex.map(one, list(enumerate(chunks))):
            rejects.extend(rej)
    for rj in rejects:
        rec = records[rj["id"]]
        inst = rec.get("inst", {})
        desc = {k: rec[k] for k in ("api", "fn", "cls", "via", "h", "w", "u", "s0", "s1", "sy", "sx", "oy", "ox", "L", "n", "N", "tn", "td", "cn", "cd",
                                    "pixels", "raised", "outcome") if k in rec and rec[k] not in ("", [])}
        desc["half_tick"] = inst.get("ht")
        what = f"{desc}: failed {rj['clauses']}; want={str(rj.get('want'))[:300]}"
        ctx.violation(rj["sig"], what, {"inst": inst, "api": rec["api"], "record": {k: v for k, v in rec.items() if k != "inst"},
                                        "failed_clauses": rj["clauses"], "spec_wanted": rj.get("want")}, cls=",".join(rj["clauses"]))
    return rejects


# ================================================================================================================
def bounds_for(quick):
    if quick:
        return {"frames_all_overlay_shapes_cells_up_to": 6, "overlay_shapes_up_to": [5, 6], "frames_3x3_overlay_shapes_up_to": [3, 4],
                "gilbert_rectangles_up_to": 12, "history_depth": 3,
                "random_masks_up_to_15x15": 260, "count_and_check_instances": 900, "sampling_instances": 120, "weight_map_instances": 120,
                "hilbert_meshes": 60, "kmeans_meshes": 90, "curve_lengths": [1, 2, 3, 4, 5, 7, 8, 12]}
    return {"frames_all_overlay_shapes_cells_up_to": 9, "overlay_shapes_up_to": [5, 6], "frames_3x3_overlay_shapes_up_to": [0, 0],
            "gilbert_rectangles_up_to": 24, "history_depth": 4,
            "random_masks_up_to_15x15": 4000, "count_and_check_instances": 12000, "sampling_instances": 2500, "weight_map_instances": 1500,
            "hilbert_meshes": 700, "kmeans_meshes": 1200, "curve_lengths": list(range(1, 25)) + [32, 193]}


def random_masks(rng, n):
    """masks up to 15x15: random densities, single pixels, single rows / columns, masks touching the frame edge, rings"""
    from harness.drivers import masks_common

    out = masks_common.random_masks(rng, n, max_side=15, min_side=3)
    extra = []
    for k in range(max(6, n // 5)):
        h, w = int(rng.integers(1, 16)), int(rng.integers(1, 16))
        style = k % 5
        m = np.zeros((h, w), dtype=bool)
        if style == 0:
            m[int(rng.integers(0, h)), int(rng.integers(0, w))] = True                     # a single pixel
        elif style == 1:
            m[int(rng.integers(0, h)), :] = True                                          # a single row
        elif style == 2:
            m[:, int(rng.integers(0, w))] = True                                          # a single column
        elif style == 3:
            m[0, :] = True
            m[:, w - 1] = True                                                            # touching two frame edges
        else:
            m[:, :] = True                                                                # nothing masked
        extra.append((h, w, [int(x) for x in np.flatnonzero(m.ravel())]))
    return out + extra


def enumerate_overlay(ctx, shapes, ovs, tag):
    cfg = CFG_HEAD.format(depth=0, alias="FALSE") + "SPECIFICATION Spec\n" + "".join(f"INVARIANT {i}\n" for i in INVARIANTS)
    res = ctx.tlc("ImageMesh", cfg, defs=_defs(shapes=shapes, ovs=ovs), tag=tag, timeout=3000)
    insts = res.by_kind("inst")
    want = 0
    for h, w in shapes:
        for bits in range(1, 2 ** (h * w)):
            u = [k for k in range(h * w) if bits >> k & 1]
            want += sum(1 for s0, s1 in ovs if no_tie(w, u, s0, s1))
    if len(insts) != want:
        raise core.MachineryError(f"ImageMesh.tla dumped {len(insts)} overlay instances, expected {want}")
    return insts, res


def run(ctx):
    import time
    import concurrent.futures as cf

    t0 = time.time()
    b = bounds_for(ctx.quick)
    ctx.bounds = dict(b, pixel_scales_half_ticks=SCALES, origins_half_ticks=ORIGINS, half_ticks=HTS)
    seed = ctx.seed
    rng = np.random.default_rng([seed, 14])
    mc = b["frames_all_overlay_shapes_cells_up_to"]
    shapes = [(h, w) for h in range(1, 10) for w in range(1, 10) if h * w <= mc]
    ovs = [(a, c) for a in range(1, b["overlay_shapes_up_to"][0] + 1) for c in range(1, b["overlay_shapes_up_to"][1] + 1)]
    ovs33 = [(a, c) for a in range(1, b["frames_3x3_overlay_shapes_up_to"][0] + 1) for c in range(1, b["frames_3x3_overlay_shapes_up_to"][1] + 1)]
    G = b["gilbert_rectangles_up_to"]

    # ---- the bounded machines (side by side) -------------------------------------------------------------------------------
    def m_overlay():
        return enumerate_overlay(ctx, shapes, ovs, "MC_overlay")

    def m_overlay33():
        return enumerate_overlay(ctx, [(3, 3)], ovs33, "MC_overlay33") if ovs33 else ([], None)

    def m_curve():
        cfg = CFG_HEAD.format(depth=0, alias="FALSE") + "SPECIFICATION GSpec\n" + "".join(f"INVARIANT {i}\n" for i in G_INVARIANTS)
        gil = [(a, c) for a in range(1, G + 1) for c in range(1, G + 1)] + [(193, 193)]
        res = ctx.tlc("ImageMesh", cfg, defs=_defs(gil=gil), tag="MC_curve", timeout=3000, workers=4)
        if res.distinct != 2 * len(gil):
            raise core.MachineryError(f"curve machine: {res.distinct} states for {len(gil)} rectangles")
        return res

    def m_hist():
        cfg = CFG_HEAD.format(depth=b["history_depth"], alias="FALSE") + "SPECIFICATION HSpec\nINVARIANT HistoryFree\n"
        res = ctx.tlc("ImageMesh", cfg, defs=_defs(hargs=HIST_ARGS), tag="MC_hist", timeout=3000, workers=2)
        hs = [r["ids"] for r in res.by_kind("hist")]
        if len(hs) != 3 ** b["history_depth"]:
            raise core.MachineryError(f"history machine dumped {len(hs)} histories")
        return hs

    def m_hist_aliased():
        # negative control: the once-seeded design (cache shifted in place) must violate HistoryFree
        cfg = CFG_HEAD.format(depth=3, alias="TRUE") + "SPECIFICATION HSpec\nINVARIANT HistoryFree\n"
        res = core.run_tlc("ImageMesh", cfg, ctx.work, defs=_defs(hargs=HIST_ARGS), tag="MC_hist_aliased", timeout=3000, workers=2, allow_errors=True)
        if not any("HistoryFree is violated" in e for e in res.errors):
            raise core.MachineryError("the aliased-cache design did not violate HistoryFree: the history theorem has no teeth")
        return True

    with cf.ThreadPoolExecutor(max_workers=5) as ex:
        futs = [ex.submit(f) for f in (m_overlay, m_overlay33, m_curve, m_hist, m_hist_aliased)]
        (insts, res_ov), (insts33, _), res_curve, hists, _ = [f.result() for f in futs]
    ctx.exhaustive = True
    t1 = time.time()

    # ---- enumerated instances -> real API ------------------------------------------------------------------------------------
    items = []
    ncc = b["count_and_check_instances"]
    allin = insts + insts33
    stride = max(1, len(allin) // max(1, ncc // 2))
    for k, it in enumerate(allin):
        emit = ["overlay", "ovmaps"]
        if k % stride == 0:
            emit += [["count", "chk1", "chk2"], ["count", "chk1"], ["count", "chk2"]][(k // stride) % 3]
        items.append(make_overlay_inst(rng, k, seed, it["h"], it["w"], it["u"], it["s0"], it["s1"], cen=it["cen"], emit=emit))
    ctx.replayed = len(items)
    n_enum_inst = len(items)

    # ---- seeded random larger instances: masks up to 15x15 x overlay shapes (points on pixel boundaries included) ----------------
    big = random_masks(rng, b["random_masks_up_to_15x15"])
    for k, (h, w, u) in enumerate(big):
        for rep in range(2):
            s0, s1 = int(rng.integers(1, 6)), int(rng.integers(1, 7))
            emit = ["overlay", "ovmaps"] + (["count", "chk1", "chk2"] if (k + rep) % 2 == 0 else [])
            items.append(make_overlay_inst(rng, 10 ** 6 + 2 * k + rep, seed, h, w, u, s0, s1, emit=emit))
        if k % 4 == 0:
            # the index maps on arbitrary pixel lists (repeats, all masked, all unmasked)
            n = int(rng.integers(1, 25))
            style = k % 3
            cells = [(int(rng.integers(0, h)), int(rng.integers(0, w))) for _ in range(n)]
            if style == 1:
                cells = [(c // w, c % w) for c in rng.choice(u, size=n)]
            elif style == 2 and len(u) < h * w:
                mk = sorted(set(range(h * w)) - set(u))
                cells = [(c // w, c % w) for c in rng.choice(mk, size=n)]
            items.append(make_overlay_inst(rng, 2 * 10 ** 6 + k, seed, h, w, u, 1, 1, cen=[[int(a), int(c)] for a, c in cells], emit=["ovmaps"]))
    # ---- more count / check instances on small and medium masks -----------------------------------------------------------------
    k = 0
    while len([1 for it in items if "cp" in it]) < ncc and k < 4 * ncc:
        h, w, u = big[int(rng.integers(0, len(big)))] if k % 3 else random_masks(rng, 1)[0]
        if h * w <= 100:
            items.append(make_overlay_inst(rng, 3 * 10 ** 6 + k, seed, h, w, u, int(rng.integers(1, 6)), int(rng.integers(1, 7)),
                                           emit=[["count", "chk1", "chk2"], ["chk1", "chk2"]][k % 2], pts_mode=["odd", None][k % 2]))
        k += 1
    for L in b["curve_lengths"]:
        items.append({"kind": "hbo", "L": L, "R": [1.0, 1.5, 0.3, 2.75][L % 4]})
    for wd in range(1, (9 if ctx.quick else 17)):
        for hg in range(1, (9 if ctx.quick else 17)):
            items.append({"kind": "gil", "w": wd, "h": hg})
    items += [make_its_inst(rng, k) for k in range(b["sampling_instances"])]
    items += [make_wmap_inst(rng, k) for k in range(b["weight_map_instances"])]
    nh = b["hilbert_meshes"]
    items += [make_hil_inst(rng, k, seed, kind=["disc", "disc", "square", "disc", "noncirc", "disc", "aniso", "disc"][k % 8]) for k in range(nh)]
    items += [make_km_inst(rng, k, seed) for k in range(b["kmeans_meshes"])]
    items.append({"kind": "plumb", "seed": seed})
    for cls in ("Overlay", "Hilbert", "KMeans"):
        for ids in hists:
            items.append({"kind": "hist", "cls": cls, "ids": ids, "seed": seed})

    order = list(rng.permutation(len(items)))
    groups = [[items[j] for j in order[k::64]] for k in range(64)]
    recs = []
    for part in core.pmap(_many, groups, chunksize=1):
        recs.extend(part)
    t2 = time.time()

    for api, pick in (("overlay", lambda r: r["s0"] * r["s1"] >= 6 and 2 <= len(r["out"]) < r["s0"] * r["s1"] and r["h"] * r["w"] <= 9),
                      ("ovmaps", lambda r: 0 < r["tot"] < len(r["cen"]) and len(r["cen"]) >= 6 and r["h"] * r["w"] <= 9),
                      ("chk2", lambda r: r["outcome"] != "returned"), ("hil", lambda r: r["raised"] == "" and r["pixels"] == 5)):
        smp = [r for r in recs if r["api"] == api and pick(r)]
        if smp:
            ctx.sample({api + "_record": {k: v for k, v in smp[len(smp) // 2].items() if k not in ("inst", "id")}})
    validate(ctx, recs, "X14")
    by = {}
    for r in recs:
        by[r["api"]] = by.get(r["api"], 0) + 1
    ties = sum(1 for it in items if it["kind"] == "ov" and "overlay" in it["emit"] and not no_tie(it["w"], it["u"], it["s0"], it["s1"]))
    ctx.note(f"phases: bounded machines {t1 - t0:.1f}s, real API + abstraction {t2 - t1:.1f}s, trace validation {time.time() - t2:.1f}s")
    ctx.note(f"overlay machine: every non-empty mask of the frames with <= {mc} cells x overlay shapes 1x1..{b['overlay_shapes_up_to'][0]}x{b['overlay_shapes_up_to'][1]}"
             f"{' + the 3x3 frame x shapes up to 3x4' if ovs33 else ''}: {n_enum_inst} (mask, shape) instances without a point on a pixel "
             f"boundary, 6 actions each; curve machine: every rectangle up to {G}x{G} and the 193x193 curve of the Hilbert mesh; history machine: "
             f"{len(hists)} call orders of depth {b['history_depth']} (+ the aliased-cache design as a negative control, violated as it must). "
             f"{len(items) - n_enum_inst} further seeded instances ({ties} overlays with points exactly on pixel boundaries, judged two-sidedly); records by api: {by}")
    ctx.note("observed, not judged (nothing documented): the overlay box is the bounding box of the unmasked pixel SQUARES (pixel edges, no buffer), "
             "centred on mask.mask_centre; an overlay point exactly on a pixel boundary falls to either side (floating-point noise); "
             "overlay_for_mask_from / mask_for_overlay_from return float arrays; check_mesh_pixels_per_image_pixels returns the mesh grid when it "
             "passes and None under PYAUTOFIT_TEST_MODE; mesh_pixels_per_image_pixels_from wraps points outside the frame to the opposite edge; "
             "the Hilbert mesh draws inside the circle of mask.circular_radius about mask.origin (not mask.mask_centre) and, with weight_power 0, "
             "also inside masked pixels of that circle; gilbert2d equals the model recursion of ImageMesh.tla on every rectangle tried")
    ctx.assumptions = [
        "coordinates are integers on the half-tick lattice times a tick (0.05 .. 2.0, dyadic and decimal); overlay points are integers on the "
        "lattice scaled by the overlay shape; alpha divides by the unit, demands a residual below 1e-6 units and counts anything else as off-lattice",
        "overlay instances of the bounded machine have no overlay point on an image-pixel boundary ((2a+1) nr not a multiple of 2 S0); seeded "
        "instances with such points are judged two-sidedly: points all of whose touching pixels are unmasked must be kept, points none of whose "
        "touching pixels is unmasked must not",
        "mesh points given to the counting function and the checks lie strictly inside pixels of the frame",
        "adapt images of the background check hold distinct values (the background set is then defined); fractions and thresholds are dyadic",
        "Hilbert / KMeans: only exact facts are judged (number of points, containment in the circle / convex hull in fixed point of 1/64 half-tick "
        "with the rounding bound, first and last point of the curve, determinism, independence of earlier calls, invariance under rescaling the "
        "adapt image by a power of two); the distribution of the points is not",
        "Hilbert masks are square frames with isotropic pixel scales whose circle is centred on the mask origin; a mask centre exactly on a pixel "
        "boundary with disagreeing central rows is not judged",
        "inverse transform sampling: probabilities are multiples of 1/D (D <= 64) with a positive second entry, at most 17 samples; positions are "
        "judged in fixed point 1/1024 with the bound derived in Trace_ImageMesh.tla (the 1e-8 shortening of the last quantile included)",
    ]


def replay(ctx, rp):
    inst = rp["inst"]
    if "hist" in inst:
        inst = inst["hist"]
    if inst.get("kind") not in DISPATCH:
        raise core.MachineryError(f"unknown instance kind in replay file: {inst.get('kind')}")
    recs = [r for r in records_of(inst) if r["api"] == rp.get("api", r["api"])]
    rej = validate(ctx, recs, "X14-replay")
    print("replayed", len(recs), "record(s); rejected:", [(r["sig"], r["clauses"]) for r in rej])
    return ctx.finish()
