"""C18 -- border relocation only pulls outliers radially inward to the border; sub-pixel border index selection.

Part A (selection), S->C: Relocation.tla enumerates every mask inside the bound with its sub-size maps (every map over
      {1,2,3,4} on the small frames, ten pattern maps on the bigger ones); TLC checks the design theorems (a farthest
      sub-pixel is a corner and separates per axis; ties exist exactly on the centre lines of the bounding box; the
      code-shaped formulation -- centre of the box of sub-pixel CENTRES, last-maximum scan -- always yields a valid
      choice) and dumps every instance; each is replayed through BorderRelocator(mask, sub_size).sub_border_slim /
      .sub_border_grid with seeded (anisotropic) pixel scales and origins.
Part B (relocation), S->C: the relocation machine enumerates every bag of 1..MaxBorder border points on a small lattice
      with every coordinate of a larger lattice, TLC checks never-outward / within-farthest-border / interior-untouched /
      border-points-fixed / determinism-without-ties on the admissible outcomes; every bag is replayed through the real
      relocated_grid_from / relocated_mesh_grid_from / mesh.mapper_grids_from entry points.
C->S: every recorded result is judged by Trace_Relocation.tla (exact integer lattice for the inputs, fixed point with a
      derived rounding bound for the real-valued results, bit-for-bit flag for untouched coordinates); seeded random
      larger masks and distortions (far outside, inside, exact copies of border coordinates, folded / collapsed /
      sheared grids with non-convex borders and off-centre centroids) extend the reach."""
import os

import numpy as np

from harness import core
from harness.drivers import masks_common as mc

LIMIT = 16000  # magnitude bound of all fixed-point quantities (Trace_Relocation.Limit)
CLAMP = 30000  # results beyond the representable range are recorded as +-CLAMP
FMAX = 1024
TICKS = [1.0, 0.5, 2.0 ** -6, 16.0, 0.1, 0.05, 1.0 / 3.0, 0.7]
SCALES = [(1.0, 1.0), (0.5, 2.0), (0.1, 0.3), (2.0, 0.25), (0.05, 0.05)]
ORIGINS = [(0.0, 0.0), (1.5, -2.0), (-0.3, 0.7)]

SEL_INVARIANTS = ["SelNonEmpty", "SelCorners", "SelSeparable", "SelTiesOnCentreLines", "SelCodeShapeAgrees",
                  "SelCodeCentreClose", "SelIndexing", "SelBorderSandwich"]
REL_INVARIANTS = ["RelTranslationInvariant", "RelScaleCovariant", "RelNeverOutward", "RelWithinFarthestBorder", "RelInteriorUntouched", "RelMovedStrictlyInward",
                  "RelBorderPointsFixed", "RelDeterministicWithoutTies", "RelOutcomeExists"]

SEL_CFG = """CONSTANTS
  Shapes <- MCShapes
  KernelShapes = {}
  SubSizes = {1, 2, 3, 4}
  AllMapsCells <- MCAllMapsCells
  Patterns <- MCPatterns
  BorderCells = {}
  MaxBorder = 0
  PointCells = {}
  HistOps = {}
  HistGrids = {}
  HistLen = 0
SPECIFICATION RSpec
""" + "".join(f"INVARIANT {n}\n" for n in SEL_INVARIANTS)

REL_CFG = """CONSTANTS
  Shapes = {}
  KernelShapes = {}
  SubSizes = {}
  AllMapsCells = 0
  Patterns = {}
  BorderCells <- MCBorderCells
  MaxBorder <- MCMaxBorder
  PointCells <- MCPointCells
  HistOps = {}
  HistGrids = {}
  HistLen = 0
SPECIFICATION RSpec
""" + "".join(f"INVARIANT {n}\n" for n in REL_INVARIANTS)

HIST_CFG = """CONSTANTS
  Shapes = {}
  KernelShapes = {}
  SubSizes = {}
  AllMapsCells = 0
  Patterns = {}
  BorderCells = {}
  MaxBorder = 0
  PointCells = {}
  HistOps <- MCHistOps
  HistGrids <- MCHistGrids
  HistLen <- MCHistLen
SPECIFICATION RSpec
INVARIANT HistOwnBorder
INVARIANT HistBounded
"""

TRACE_CFG = """CONSTANTS
  Shapes = {}
  KernelShapes = {}
  SubSizes = {}
  AllMapsCells = 0
  Patterns = {}
  BorderCells = {}
  MaxBorder = 0
  PointCells = {}
  HistOps = {}
  HistGrids = {}
  HistLen = 0
SPECIFICATION TraceSpec
POSTCONDITION TraceAccepted
"""


# ----------------------------------------------------------------------------------------------
# enumeration through the bounded machines
# ----------------------------------------------------------------------------------------------
def _pattern_sub(q, i, j):
    """Python twin of Relocation.PatternSub -- used ONLY to predict the number of instances TLC must enumerate."""
    if 1 <= q <= 4:
        return q
    return {5: 1 + (i + j) % 4, 6: 1 + (i + 2 * j) % 4, 7: 4 - (i % 4), 8: 1 + (3 * i + j) % 4,
            9: 1 if j % 2 == 0 else 4, 10: 1 + (i * j + j) % 4}.get(q, 1)


def _expected_selection_instances(shapes, all_maps_cells, patterns):
    total = 0
    for h, w in shapes:
        if h * w <= all_maps_cells:
            total += 5 ** (h * w) - 1  # sum over non-empty U of 4^|U|
            continue
        cells = [(i, j) for i in range(h) for j in range(w)]
        for bits in range(1, 2 ** (h * w)):
            us = [c for k, c in enumerate(cells) if bits >> k & 1]
            total += len({tuple(_pattern_sub(q, i, j) for i, j in us) for q in patterns})
    return total


def enumerate_selection(ctx, shapes, all_maps_cells, patterns, tag="MC_Selection", timeout=3000):
    defs = (f"MCShapes == {mc.tla_set_of_pairs(shapes)}\nMCAllMapsCells == {all_maps_cells}\n"
            f"MCPatterns == {{{', '.join(str(p) for p in patterns)}}}")
    res = ctx.tlc("Relocation", SEL_CFG, defs=defs, tag=tag, timeout=timeout, coverage=True, workers=max(2, (os.cpu_count() or 4) - 4))
    insts = [(r["h"], r["w"], r["u"], r["sub"]) for r in res.by_kind("inst")]
    want = _expected_selection_instances(shapes, all_maps_cells, patterns)
    if len(insts) != want or res.distinct != 2 * want:
        raise core.MachineryError(f"Relocation.tla (selection) enumerated {len(insts)} instances / {res.distinct} states, expected {want}")
    return insts


def enumerate_relocation(ctx, border_side, max_border, lo, hi, tag="MC_Relocation", timeout=3000):
    cells = lambda a, b: [(y, x) for y in range(a, b + 1) for x in range(a, b + 1)]
    defs = (f"MCBorderCells == {mc.tla_set_of_pairs(cells(0, border_side - 1))}\nMCMaxBorder == {max_border}\n"
            f"MCPointCells == {mc.tla_set_of_pairs(cells(lo, hi))}")
    res = ctx.tlc("Relocation", REL_CFG, defs=defs, tag=tag, timeout=timeout, coverage=True, workers=4)
    bags = {}
    stats = {"moved": 0, "unchanged": 0, "tie_dependent": 0}
    seen = set()
    for r in res.by_kind("rinst"):
        key = (tuple(map(tuple, r["b"])), tuple(r["p"]))
        bags.setdefault(key[0], set()).add(key[1])
        if key not in seen:
            seen.add(key)
            stats["tie_dependent"] += r["ties"] > 1
        stats["moved" if r["moved"] else "unchanged"] += 1
    from math import comb

    nb = border_side ** 2
    want_bags = sum(comb(nb + n - 1, n) for n in range(1, max_border + 1))
    npts = (hi - lo + 1) ** 2
    if len(bags) != want_bags or any(len(v) != npts for v in bags.values()):
        raise core.MachineryError(f"Relocation.tla (relocation) enumerated {len(bags)} border bags, expected {want_bags} x {npts} points")
    if not (stats["moved"] and stats["unchanged"] and stats["tie_dependent"]):
        raise core.MachineryError(f"relocation machine is vacuous: {stats}")
    return bags, stats


HIST_OPS = {"G": "relocated_grid_from", "M": "relocated_mesh_grid_from", "R": "mapper_grids_rectangular",
            "D": "mapper_grids_delaunay"}


def enumerate_histories(ctx, ops, n_grids, length, tag="MC_History", timeout=3000):
    """Every sequence of `length` calls (entry point x data grid identity) on one relocator instance."""
    ops_tla = ", ".join('"%s"' % o for o in ops)
    defs = f"MCHistOps == {{{ops_tla}}}\nMCHistGrids == 1 .. {n_grids}\nMCHistLen == {length}"
    res = ctx.tlc("Relocation", HIST_CFG, defs=defs, tag=tag, timeout=timeout, coverage=True, workers=2)
    hists = [tuple((c["op"], int(c["grid"])) for c in r["calls"]) for r in res.by_kind("hinst")]
    want = (len(ops) * n_grids) ** length
    if len(set(hists)) != want or len(hists) != want:
        raise core.MachineryError(f"Relocation.tla (history) enumerated {len(hists)} call sequences, expected {want}")
    return sorted(hists)


# ----------------------------------------------------------------------------------------------
# gamma / alpha
# ----------------------------------------------------------------------------------------------
def _mask_of(h, w, u, sy=1.0, sx=1.0, oy=0.0, ox=0.0):
    import autoarray as aa

    m = np.ones(h * w, dtype=bool)
    m[list(u)] = False
    return aa.Mask2D(mask=m.reshape(h, w), pixel_scales=(sy, sx), origin=(oy, ox))


def _relocator(mask, sub, form):
    """gamma for the sub-size map: int (uniform maps only), Array2D, or a plain integer ndarray."""
    import autoarray as aa

    sub = [int(s) for s in sub]
    if form == "int" and len(set(sub)) == 1:
        return aa.BorderRelocator(mask=mask, sub_size=sub[0])
    if form == "ndarray":
        return aa.BorderRelocator(mask=mask, sub_size=np.array(sub))
    return aa.BorderRelocator(mask=mask, sub_size=aa.Array2D(values=np.array(sub), mask=mask))


def _lattice_of_scaled(grid, h, w, sy, sx, oy, ox):
    """alpha: scaled coordinates -> 1/24-pixel lattice measured from the top-left corner of the array ([-2,-2] = off lattice)."""
    g = np.asarray(grid, dtype=float).reshape(-1, 2)
    yt = 12.0 * h - 24.0 * (g[:, 0] - oy) / sy
    xt = 12.0 * w + 24.0 * (g[:, 1] - ox) / sx
    out = []
    for a, b in zip(yt, xt):
        if not (np.isfinite(a) and np.isfinite(b)) or abs(a - round(a)) > 1e-6 or abs(b - round(b)) > 1e-6:
            out.append([-2, -2])
        else:
            out.append([int(round(a)), int(round(b))])
    return out


def _base_lattice(h, w, u, sub):
    """The image-plane sub-pixel centres on the 1/24-pixel lattice (array centre = 0, y up), computed WITHOUT the library."""
    out = []
    for c, s_ in zip(u, sub):
        i, j = divmod(int(c), w)
        for a in range(s_):
            for b in range(s_):
                out.append((12 * h - (24 * i + (2 * a + 1) * 12 // s_), 24 * j + (2 * b + 1) * 12 // s_ - 12 * w))
    return np.array(out, dtype=np.int64).reshape(-1, 2)


def _published_border(mask_spec, sub, form):
    """The relocator and its published sub-border indices, or (None, reason) when the library raises or publishes indices
    outside 0 .. total-1 -- inputs inside the property's domain, so that is a wrong answer (judged through a 'select'
    record by the caller), never a machinery failure."""
    try:
        br = _relocator(_mask_of(*mask_spec), sub, form)
        sbs = np.asarray(br.sub_border_slim).astype(int).ravel()
    except Exception as ex:
        return None, f"{type(ex).__name__}: {ex}"[:200]
    total = int(sum(int(x) ** 2 for x in sub))
    if len(sbs) and (sbs.min() < 0 or sbs.max() >= total):
        return None, "sub_border_slim out of range"
    return br, sbs


def select_record(inst, seed=0, geom=None, form=None):
    """One 'select' record: the published sub-border indices and coordinates of one mask with one sub-size map."""
    h, w, u, sub = inst
    rng = np.random.default_rng(seed + 31 * h + w + 977 * len(u) + 7 * sum(u) + 13 * sum(sub))
    if geom is None:
        sy, sx = SCALES[int(rng.integers(0, len(SCALES)))]
        oy, ox = ORIGINS[int(rng.integers(0, len(ORIGINS)))]
    else:
        sy, sx, oy, ox = geom
    form = form or ["int", "array2d", "ndarray"][int(rng.integers(0, 3))]
    mask = _mask_of(h, w, u, sy, sx, oy, ox)
    rec = {"api": "select", "h": h, "w": w, "u": [int(x) for x in u], "sub": [int(s) for s in sub],
           "geom": [sy, sx, oy, ox], "form": form, "sbs": [-1], "sbg": [], "bslim": []}
    try:
        br = _relocator(mask, sub, form)
        rec["sbs"] = [int(x) for x in np.asarray(br.sub_border_slim).ravel()]
        rec["sbg"] = _lattice_of_scaled(br.sub_border_grid, h, w, sy, sx, oy, ox)
        rec["bslim"] = [int(x) for x in np.asarray(mask.derive_indexes.border_slim).ravel()]
    except Exception as ex:  # an exception is a wrong answer (index -1 is out of range), not a machinery failure
        rec["error"] = f"{type(ex).__name__}: {ex}"[:200]
    return rec


def alpha_relocated(P, p, out, B, tick, O=(0, 0)):
    """alpha for relocated coordinates.  P: integer lattice inputs (N,2), UNtranslated; p: the float inputs as handed to the
    call (translated by O ticks); out: the float results; B: integer border points (untranslated).  Returns rows
    [same, Ry, Rx, F] with R = round(F * (n * (out/tick - O) - sum(B))): the result is taken back into the untranslated frame
    (out/tick - O is exact up to the granularity of `out` itself), so one expectation serves every translation and scale."""
    n = len(B)
    sb = B.sum(axis=0)
    q = n * P - sb
    mb = int(np.abs(n * B - sb).max())
    if mb > LIMIT or (len(q) and int(np.abs(q).max()) > LIMIT):
        raise core.MachineryError("driver produced a relocation instance beyond the fixed-point range")
    F = np.clip(LIMIT // np.maximum(np.maximum(np.abs(q).max(axis=1), mb), 1), 1, FMAX)
    with np.errstate(all="ignore"):
        R = F[:, None] * (n * (out / tick - np.asarray(O, dtype=float)) - sb)
        R = np.where(np.isfinite(R), R, CLAMP)
        R = np.clip(np.rint(R), -CLAMP, CLAMP).astype(np.int64)
    same = (np.ascontiguousarray(out).view(np.int64) == np.ascontiguousarray(p).view(np.int64)).all(axis=1)
    return [[int(s), int(r[0]), int(r[1]), int(f)] for s, r, f in zip(same, R, F)]


# Input representations of the SAME lattice coordinates (gamma has several concretisations; alpha and the expectation
# are identical for all of them).  "f64-*": float64 (Grid2DIrregular / plain ndarray); "i64-ndarray": integer-dtype ndarray;
# "int-irregular": Grid2DIrregular(values=[(int, int), ...]); "int-list": a plain Python list of int tuples (accepted for
# mesh vertices only: the data grid is fancy-indexed by the library); "f32-*": float32.
REPS_F64 = ("f64-irregular", "f64-ndarray")
_OLD_CONTAINER = {"irregular": "f64-irregular", "ndarray": "f64-ndarray"}
DYADIC_TICKS = (1.0, 0.5, 2.0 ** -6, 16.0, 2.0 ** -20, 2.0 ** 20, 2.0 ** -11, 2.0 ** 9)
NO_OFFSET = (0, 0, 0)
MAX_OFFSET_EXP = 30
INT_MAX_SPREAD = 2.0 ** 30  # largest coordinate difference realised with an integer dtype (squares stay below 2^62)


def offset_ticks(off):
    """off = (ky, kx, e): the translation (ky * 2^e, kx * 2^e) in ticks."""
    ky, kx, e = (int(v) for v in off)
    return np.array([ky * 2 ** e, kx * 2 ** e], dtype=np.int64)


def max_offset_exp(G, sbs, P=None):
    """Largest e such that a translation of the whole instance by up to 3 * 2^e ticks keeps every decision of a float64
    implementation that forms coordinate differences exact: the rounding of the centroid (<= 4 * 2^(e+2-53) ticks, generous)
    must stay 16x below the smallest possible gap between two different radii, 1 / (2 n * max(n r)) ticks."""
    n = len(sbs)
    sb = G[sbs].sum(axis=0)
    pts = G if P is None else np.concatenate([G, P])
    nr = float(np.sqrt(max(1, int(((n * pts - sb) ** 2).sum(axis=1).max()))))
    gap = 1.0 / (2.0 * n * nr)
    return int(min(MAX_OFFSET_EXP, np.floor(np.log2(gap)) + 43))


def pick_offset(rng, G, sbs, P=None, share=0.4):
    """A translation for this instance (or none): k * 2^e ticks per axis with e up to the exact range of the instance."""
    if rng.random() >= share:
        return NO_OFFSET
    emax = max_offset_exp(G, sbs, P)
    if emax < 8:
        return NO_OFFSET
    e = int(emax - rng.integers(0, 4)) if rng.random() < 0.7 else int(rng.integers(8, emax + 1))
    ky, kx = (int(v) for v in rng.integers(-3, 4, size=2))
    if ky == 0 and kx == 0:
        ky = 1
    return (ky, kx, e)


def pick_dyadic_tick(rng):
    return DYADIC_TICKS[int(rng.integers(0, len(DYADIC_TICKS)))]
F32_MAX_N2 = 20000  # float32 keeps every exact decision only while squared magnified radii stay this small (gap >= 5e-5)


def pick_tick(rng):
    """Tick length; a whole tick (1.0) for a good share of the instances so that integer representations exist."""
    return 1.0 if rng.random() < 0.35 else TICKS[int(rng.integers(0, len(TICKS)))]


def represent(rep, a_int, tick, role="grid"):
    """gamma: the lattice points a_int (N,2 integers) times tick in the representation `rep`."""
    import autoarray as aa

    a_int = np.asarray(a_int, dtype=np.int64).reshape(-1, 2)
    f64 = a_int.astype(float) * tick
    if rep == "f64-irregular":
        return aa.Grid2DIrregular(values=f64.copy())
    if rep == "f64-ndarray":
        return f64.copy()
    if rep in ("i64-ndarray", "int-irregular", "int-list"):
        if float(tick) != int(tick):
            raise core.MachineryError(f"integer representation asked for tick {tick}")
        whole = a_int * int(tick)
        if rep == "i64-ndarray":
            return whole.astype(np.int64)
        tuples = [(int(y), int(x)) for y, x in whole]
        if rep == "int-list" and role == "mesh":
            return tuples
        return aa.Grid2DIrregular(values=tuples)
    if rep == "f32-ndarray":
        return f64.astype(np.float32)
    if rep == "f32-irregular":
        return aa.Grid2DIrregular(values=f64.astype(np.float32))
    raise core.MachineryError(f"unknown representation {rep}")


def alternative_reps(call, G, sbs, tick, P=None, off=NO_OFFSET):
    """The non-float64 representations in which this instance can be realised exactly."""
    reps = []
    allpts = G if P is None else np.concatenate([G, P])
    spread = float((allpts.max(axis=0) - allpts.min(axis=0)).max()) * tick if len(allpts) else 0.0
    # integer dtype: the library squares coordinate DIFFERENCES in the input dtype, exact only below 2^31 per axis (int64)
    if float(tick) == int(tick) and tick >= 1 and spread < INT_MAX_SPREAD:
        reps += ["i64-ndarray", "int-irregular"]
        if P is not None and call == "relocated_mesh_grid_from":
            reps.append("int-list")
    if tick in DYADIC_TICKS and len(sbs) and tuple(off)[:2] == (0, 0) and 2.0 ** -12 <= tick <= 2.0 ** 12:
        B = G[sbs]
        n, sb = len(B), B.sum(axis=0)
        pts = G if P is None else np.concatenate([G[sbs], P])
        if int(((n * pts - sb) ** 2).sum(axis=1).max()) <= F32_MAX_N2:
            reps += ["f32-ndarray", "f32-irregular"]
    return reps


CALLS = ("relocated_grid_from", "mapper_grids_rectangular", "relocated_mesh_grid_from", "mapper_grids_delaunay",
         "mapper_grids_voronoi")


def reloc_record(call, mask_spec, sub, form, grid_int, tick, pts_int=None, container=None, br=None, hist=0,
                 prefix=None, rep=None, off=NO_OFFSET):
    """One 'relocate' record: run the real entry point `call` on the lattice data grid (and mesh points), all coordinates
    translated by off = (ky, kx, e) -> (ky, kx) * 2^e ticks and scaled by the tick.
    `br`: an existing relocator instance to be REUSED (history of `hist` earlier calls, listed in `prefix` for replay)."""
    import autoarray as aa

    h, w, u = mask_spec
    mask = _mask_of(h, w, u) if br is None else br.mask
    G = np.asarray(grid_int, dtype=np.int64).reshape(-1, 2)
    rep = rep or _OLD_CONTAINER.get(container or "irregular", container)
    container = rep
    rec = {"api": "relocate", "call": call, "rep": rep, "h": h, "w": w, "u": [int(x) for x in u], "sub": [int(s) for s in sub],
           "form": form, "tick": tick, "container": container, "grid": G.tolist(), "bidx": [], "own": pts_int is None,
           "pts": [] if pts_int is None else np.asarray(pts_int, dtype=np.int64).reshape(-1, 2).tolist(),
           "out": [], "raised": False, "hist": int(hist), "lat": all(int(x) in (1, 2, 3, 4, 6, 12) for x in sub),
           "prefix": prefix or [], "off": [int(v) for v in off]}
    O = offset_ticks(off)
    if (O != 0).any() and tick not in DYADIC_TICKS:
        raise core.MachineryError("translated instances need a dyadic tick")
    try:
        if br is None:
            br = _relocator(mask, sub, form)
        sbs = np.asarray(br.sub_border_slim).astype(int).ravel()
        rec["bidx"] = [int(x) for x in sbs]
        g = (G + O).astype(float) * tick
        # the data grid and the mesh vertices in the representation of this record (same coordinates in all of them)
        gwrap = lambda: represent(rep, G + O, tick, role="grid")
        if pts_int is None:
            P, p = G, g
            if call == "relocated_grid_from":
                out = br.relocated_grid_from(grid=gwrap())
            elif call == "mapper_grids_rectangular":
                out = aa.mesh.Rectangular(shape=(3, 3)).mapper_grids_from(
                    mask=mask, source_plane_data_grid=gwrap(), border_relocator=br).source_plane_data_grid
            elif call in ("mapper_grids_delaunay", "mapper_grids_voronoi"):
                mesh = aa.mesh.Delaunay() if call.endswith("delaunay") else aa.mesh.Voronoi()
                out = mesh.mapper_grids_from(mask=mask, source_plane_data_grid=gwrap(), border_relocator=br,
                                             source_plane_mesh_grid=aa.Grid2DIrregular(values=np.array([[0.0, 0.0], [1.0, 0.0], [0.0, 1.0], [1.0, 1.5]]))).source_plane_data_grid
            else:
                raise core.MachineryError(f"unknown call {call}")
        else:
            P = np.asarray(pts_int, dtype=np.int64).reshape(-1, 2)
            p = (P + O).astype(float) * tick
            if call == "relocated_mesh_grid_from":
                out = br.relocated_mesh_grid_from(grid=gwrap(), mesh_grid=represent(rep, P + O, tick, role="mesh"))
            elif call in ("mapper_grids_delaunay", "mapper_grids_voronoi"):
                mesh = aa.mesh.Delaunay() if call.endswith("delaunay") else aa.mesh.Voronoi()
                out = mesh.mapper_grids_from(mask=mask, source_plane_data_grid=gwrap(), border_relocator=br,
                                             source_plane_mesh_grid=represent(rep, P + O, tick, role="mesh")).source_plane_mesh_grid
            else:
                raise core.MachineryError(f"unknown call {call}")
        out = np.asarray(out, dtype=float)
        if out.ndim != 2 or out.shape[1] != 2 or out.shape[0] != P.shape[0]:
            # count / layout not preserved: a row count that differs from the input makes "count-preserved" fail
            rows = int(out.shape[0]) if out.ndim == 2 and out.shape[0] != P.shape[0] else P.shape[0] + 1
            rec["out"] = [[0, 0, 0, 1]] * rows
        elif len(sbs) == 0:
            raise core.MachineryError("driver used a mask with an empty border for relocation")
        else:
            rec["out"] = alpha_relocated(P, p, out, G[sbs], tick, O)
    except core.MachineryError:
        raise
    except Exception as ex:
        rec["raised"] = True
        rec["error"] = f"{type(ex).__name__}: {ex}"[:200]
    return rec


# ----------------------------------------------------------------------------------------------
# S->C for the relocation machine: one real call per enumerated border bag, all enumerated points at once
# ----------------------------------------------------------------------------------------------
def _strip_mask(nb, npts):
    """A mask with exactly nb border pixels (a horizontal strip) and enough sub-pixels to hold border + points."""
    s = next(x for x in (1, 2, 3, 4, 6, 12, 24) if nb * x * x >= nb + npts)
    h, w = 3, nb + 2
    u = [w + 1 + k for k in range(nb)]
    return (h, w, u), [s] * nb


def bag_records(args):
    bags, seed = args
    import autoarray as aa

    out = []
    for n_bag, (bag, pts) in enumerate(bags):
        rng = np.random.default_rng(seed + 101 * len(bag) + 7 * sum(sum(b) for b in bag) + n_bag)
        pts = sorted(pts)
        nb = len(bag)
        mask_spec, sub = _strip_mask(nb, len(pts))
        br, sbs = _published_border(mask_spec, sub, "int")
        if br is None or len(sbs) != nb:  # wrong answer of the library on the strip mask: judged as a selection
            out.append(select_record((*mask_spec, sub), seed, form="int"))
            continue
        N = nb * sub[0] ** 2
        G = np.tile(np.array(bag[0], dtype=np.int64), (N, 1))  # filler: copies of a border coordinate
        G[sbs] = np.array(bag, dtype=np.int64)[rng.permutation(nb)]
        taken = set(sbs.tolist())
        free = [k for k in range(N) if k not in taken]
        G[free[: len(pts)]] = np.array(pts, dtype=np.int64)
        tick = pick_tick(rng)
        style = int(rng.integers(0, 4))
        if style == 0:
            args_ = ("relocated_grid_from", mask_spec, sub, "int", G, tick, None, "f64-irregular")
        elif style == 1:
            args_ = ("mapper_grids_rectangular", mask_spec, sub, "array2d", G, tick, None, "f64-irregular")
        elif style == 2:
            # the enumerated points as MESH vertices against a data grid that only holds the border (and copies of it)
            G2 = np.tile(np.array(bag[0], dtype=np.int64), (N, 1))
            G2[sbs] = G[sbs]
            args_ = ("relocated_mesh_grid_from", mask_spec, sub, "int", G2, tick, np.array(pts), "f64-irregular")
        else:
            args_ = ("relocated_grid_from", mask_spec, sub, "ndarray", G, tick, None, "f64-ndarray")
        call, ms, sb_, fm, GG, tk, PP, rep0 = args_
        off = pick_offset(rng, GG, sbs, PP)  # a share of the instances far from the origin (and at extreme scales)
        if off != NO_OFFSET or rng.random() < 0.25:
            tk = pick_dyadic_tick(rng)
        for rep in [rep0] + alternative_reps(call, GG, sbs, tk, PP, off):  # the same instance in every exact representation
            out.append(reloc_record(call, ms, sb_, fm, GG, tk, pts_int=PP, rep=rep, off=off))
    return out


# ----------------------------------------------------------------------------------------------
# C->S: seeded random larger instances
# ----------------------------------------------------------------------------------------------
def random_selection_instances(rng, n, max_side=12):
    out = []
    for k, (h, w, u) in enumerate(mc.random_masks(rng, n, max_side=max_side, min_side=1)):
        style = k % 5
        if style == 0:
            sub = [int(rng.integers(1, 5))] * len(u)
        elif style == 1:
            sub = [int(x) for x in rng.integers(1, 5, size=len(u))]
        elif style == 2:
            sub = [int(x) for x in rng.choice([1, 4], size=len(u))]
        elif style == 3 and h * w <= 36:
            sub = [int(x) for x in rng.choice([1, 2, 3, 4, 6, 12], size=len(u), p=[0.3, 0.2, 0.2, 0.2, 0.07, 0.03])]
        else:
            # sub-size falling with the distance from the mask centre (the adaptive over-sampling use case)
            cy, cx = (h - 1) / 2.0, (w - 1) / 2.0
            sub = [int(max(1, 4 - int(np.hypot(c // w - cy, c % w - cx)))) for c in u]
        out.append((h, w, u, sub))
    return out


def _fit_range(P, sbs, limit=LIMIT - 500):
    """Pull coordinates that would leave the fixed-point range towards the border centroid (halving), keeping integers."""
    P = P.copy()
    n = len(sbs)
    for _ in range(40):
        sb = P[sbs].sum(axis=0)
        q = np.abs(n * P - sb).max(axis=1)
        bad = np.flatnonzero(q > limit)
        if len(bad) == 0:
            return P
        c = np.rint(sb / n).astype(np.int64)
        P[bad] = c + (P[bad] - c) // 2
    raise core.MachineryError("could not fit a random relocation instance into the fixed-point range")


def random_relocation_records(args):
    """A batch of random instances: mask + sub-size map + distorted lattice data grid (+ mesh points)."""
    specs, seed = args
    out = []
    for k, (h, w, u) in specs:
        rng = np.random.default_rng(seed * 7919 + k)
        nu = len(u)
        if nu * 16 <= 400 and k % 3 == 0:
            sub = [int(x) for x in rng.integers(1, 5, size=nu)]
        elif nu * 4 <= 400 and k % 3 == 1:
            sub = [2] * nu
        elif nu * 9 <= 400 and k % 7 == 2:
            sub = [3] * nu
        else:
            sub = [1] * nu
        form = ["int", "array2d", "ndarray"][k % 3]
        br, sbs = _published_border((h, w, u), sub, form)
        if br is None:  # the library raised / published indices out of range: judged as a wrong selection
            out.append(select_record((h, w, u, sub), seed, form=form))
            continue
        if len(sbs) == 0:
            continue
        base = _base_lattice(h, w, u, sub)  # 1/24-pixel lattice, array centre = 0
        N = base.shape[0]
        style = k % 6
        if style == 0:
            P = base.copy()
        elif style == 1:  # shear + magnification
            A = np.array([[int(rng.integers(1, 4)), int(rng.integers(-2, 3))], [int(rng.integers(-2, 3)), int(rng.integers(1, 4))]])
            P = (base @ A.T) // int(rng.integers(1, 4))
        elif style == 2:  # strong random jitter: the border becomes non-convex and unordered
            P = base // 2 + rng.integers(-40, 41, size=base.shape)
        elif style == 3:  # fold along a line (caustic-like): many coincident points, strongly non-convex border
            P = base.copy()
            P[:, 0] = np.abs(P[:, 0] - int(rng.integers(-30, 31)))
        elif style == 4:  # collapse onto a coarse lattice (duplicates; smallest border radius may be 0)
            P = (base // 48) * int(rng.integers(1, 9))
        else:  # anisotropic squeeze
            P = np.stack([base[:, 0] // 6, base[:, 1] * 2], axis=1)
        P = P + rng.integers(-200, 201, size=2)  # off-centre centroid
        nonborder = np.setdiff1d(np.arange(N), sbs)
        rng.shuffle(nonborder)
        m = len(nonborder)
        cut = [0, m // 6, m // 3, m // 2]
        far, copies, nearc = nonborder[cut[0]:cut[1]], nonborder[cut[1]:cut[2]], nonborder[cut[2]:cut[3]]
        c = np.rint(P[sbs].mean(axis=0)).astype(np.int64)
        if len(far):  # far outside, in all directions, from just outside to very far
            ang = rng.random(len(far)) * 2 * np.pi
            rad = rng.choice([150, 300, 600, 1500, 5000], size=len(far))
            P[far] = c + np.rint(np.stack([np.sin(ang), np.cos(ang)], axis=1) * rad[:, None]).astype(np.int64)
        if len(copies):  # exactly at the border: copies of border coordinates
            P[copies] = P[rng.choice(sbs, size=len(copies))]
        if len(nearc):  # deep inside: at and around the centroid
            P[nearc] = c + rng.integers(-3, 4, size=(len(nearc), 2))
        P = _fit_range(P, sbs)
        tick = pick_tick(rng)
        spec = (h, w, u)
        calls = ["relocated_grid_from", "mapper_grids_rectangular", "mapper_grids_delaunay", "relocated_grid_from"]
        off = pick_offset(rng, P, sbs)
        if off != NO_OFFSET or rng.random() < 0.25:
            tick = pick_dyadic_tick(rng)
        for rep in ["f64-irregular" if k % 4 else "f64-ndarray"] + alternative_reps(calls[k % 4], P, sbs, tick, None, off):
            out.append(reloc_record(calls[k % 4], spec, sub, form, P, tick, rep=rep, off=off))
        # mesh vertices: inside, far outside, copies of border and of interior data points
        nm = int(rng.integers(3, 25))
        if N <= 80 and k % 2 == 0:
            nm = N + int(rng.integers(0, 10))  # a mesh at least as long as the data grid (its own entries at the sub-border indices exist)
        M = c + rng.integers(-400, 401, size=(nm, 2))
        M[: nm // 3] = P[rng.choice(sbs, size=nm // 3)]
        M[nm // 3: nm // 2] = c + rng.integers(-5, 6, size=(nm // 2 - nm // 3, 2))
        Pm = _fit_range(np.concatenate([P[sbs], M]), np.arange(len(sbs)))[len(sbs):]
        mcall = ["relocated_mesh_grid_from", "mapper_grids_delaunay", "mapper_grids_voronoi"][k % 3]
        if len({tuple(x) for x in Pm.tolist()}) < 4:
            mcall = "relocated_mesh_grid_from"  # triangulations need distinct vertices
        off = pick_offset(rng, P, sbs, Pm)
        if off != NO_OFFSET and tick not in DYADIC_TICKS:
            tick = pick_dyadic_tick(rng)
        for rep in ["f64-irregular"] + alternative_reps(mcall, P, sbs, tick, Pm, off):
            out.append(reloc_record(mcall, spec, sub, form, P, tick, pts_int=Pm, rep=rep, off=off))
    return out


def _special_points(rng, P, sbs, n_far_div=6):
    """Overwrite some non-border entries of the lattice grid P: far outside, exact copies of border coordinates, at the centroid."""
    N = len(P)
    nonborder = np.setdiff1d(np.arange(N), sbs)
    rng.shuffle(nonborder)
    m = len(nonborder)
    far, copies, nearc = nonborder[: m // n_far_div], nonborder[m // n_far_div: m // 3], nonborder[m // 3: m // 2]
    c = np.rint(P[sbs].mean(axis=0)).astype(np.int64)
    if len(far):
        ang = rng.random(len(far)) * 2 * np.pi
        rad = rng.choice([150, 300, 600, 1500, 5000], size=len(far))
        P[far] = c + np.rint(np.stack([np.sin(ang), np.cos(ang)], axis=1) * rad[:, None]).astype(np.int64)
    if len(copies):
        P[copies] = P[rng.choice(sbs, size=len(copies))]
    if len(nearc):
        P[nearc] = c + rng.integers(-3, 4, size=(len(nearc), 2))
    return _fit_range(P, sbs)


def _mesh_points(rng, P, sbs, nm):
    """Mesh vertices for the data grid P: around and far from ITS border centroid, copies of its border points, deep inside."""
    c = np.rint(P[sbs].mean(axis=0)).astype(np.int64)
    spread = int(max(40, np.abs(P[sbs] - c).max() * 2))
    M = c + rng.integers(-spread, spread + 1, size=(nm, 2))
    M[: nm // 4] = P[rng.choice(sbs, size=nm // 4)]
    M[nm // 4: nm // 2] = c + rng.integers(-5, 6, size=(nm // 2 - nm // 4, 2))
    if nm > 4:
        M[-2:] = c + rng.choice([-1, 1], size=(2, 2)) * rng.integers(400, 3000, size=(2, 2))
    return _fit_range(np.concatenate([P[sbs], M]), np.arange(len(sbs)))[len(sbs):]


HIST_MAPS = [(np.array([[1, 0], [0, 1]]), 1, (0, 0)), (np.array([[3, 1], [0, 2]]), 1, (170, -90)),
             (np.array([[1, -1], [1, 1]]), 2, (-210, 60))]


def history_records(args):
    """S->C for the history machine: every enumerated call sequence is replayed on ONE BorderRelocator instance; the data
    grids with different identities are different distortions (different borders, centroids, scales); every call is
    recorded with the data grid passed to THAT call and judged against that grid's border."""
    hists, seed = args
    out = []
    for n, hist in hists:
        rng = np.random.default_rng(seed * 104729 + n)
        h, w, u = mc.random_masks(rng, 1, max_side=5, min_side=2)[0]
        if len(u) > 14:
            u = u[:14]
        sub = ([int(x) for x in rng.integers(1, 4, size=len(u))], [2] * len(u), [1] * len(u))[n % 3]
        form = ["array2d", "int", "ndarray"][n % 3]
        spec = (h, w, u)
        br, sbs = _published_border(spec, sub, form)
        if br is None:
            out.append(select_record((h, w, u, sub), seed, form=form))
            continue
        if len(sbs) == 0:
            continue
        base = _base_lattice(h, w, u, sub)
        grids = {}
        for g in sorted({g for _, g in hist}):
            A, d, t = HIST_MAPS[(g - 1) % len(HIST_MAPS)]
            P = (base @ A.T) // d + np.array(t) + rng.integers(-6, 7, size=base.shape)
            P = _special_points(rng, P, sbs)
            off = pick_offset(rng, P, sbs, None, share=0.5)
            emax = max_offset_exp(P, sbs) - 3  # mesh vertices reach further out than the data grid: keep a margin
            if off != NO_OFFSET and off[2] > emax:
                off = (off[0], off[1], max(emax, 0))
            grids[g] = (P, pick_dyadic_tick(rng) if off != NO_OFFSET or rng.random() < 0.25 else pick_tick(rng), off)
        prefix = []
        for k, (op, g) in enumerate(hist):
            P, tick, off = grids[g]
            call = HIST_OPS[op]
            M = _mesh_points(rng, P, sbs, int(rng.integers(6, 16))) if op in ("M", "D") else None
            off_k = off if (M is None or off == NO_OFFSET or off[2] <= max_offset_exp(P, sbs, M)) else NO_OFFSET
            reps = ["f64-irregular", "f64-ndarray"] + 2 * alternative_reps(call, P, sbs, tick, M, off_k)
            rep = reps[int(rng.integers(0, len(reps)))]
            out.append(reloc_record(call, spec, sub, form, P, tick, pts_int=M, br=br, hist=k, prefix=list(prefix), rep=rep,
                                    off=off_k))
            prefix.append({"call": call, "grid": P.tolist(), "tick": tick, "pts": None if M is None else M.tolist(), "rep": rep,
                           "off": list(off_k)})
    return out


def _select_many(args):
    insts, seed = args
    return [select_record(inst, seed) for inst in insts]


# ----------------------------------------------------------------------------------------------
# validation
# ----------------------------------------------------------------------------------------------
def validate(ctx, records, tag, chunk_sel=4000, chunk_rel=100):
    import concurrent.futures as cf

    for n, r in enumerate(records):
        r["id"] = n
    sel = [r for r in records if r["api"] == "select"]
    rel = [r for r in records if r["api"] != "select"]
    chunks = [sel[k: k + chunk_sel] for k in range(0, len(sel), chunk_sel)]
    chunks += [rel[k: k + chunk_rel] for k in range(0, len(rel), chunk_rel)]
    keep = ("api", "id", "h", "w", "u", "sub", "sbs", "sbg", "bslim", "call", "grid", "bidx", "own", "pts", "out", "raised", "hist", "lat", "rep", "off")
    rejects = []

    def one(a):
        k, ch = a
        slim = [{f: r[f] for f in keep if f in r} for r in ch]
        res, rej = ctx.validate_trace("Trace_Relocation", TRACE_CFG, slim, tag=f"{tag}-{k}", timeout=3000)
        return rej

    with cf.ThreadPoolExecutor(max_workers=min(12, len(chunks) or 1)) as ex:
        for rej in ex.map(one, list(enumerate(chunks))):
            rejects.extend(rej)
    for rj in rejects:
        rec = records[rj["id"]]
        if rec["api"] == "select":
            what = (f"sub_border_slim/sub_border_grid on {rec['h']}x{rec['w']} mask u={rec['u']} sub={rec['sub']} "
                    f"geom={rec['geom']}: got sbs={rec['sbs']}; failed {rj['clauses']}")
        else:
            what = (f"{rec['call']} [{rec.get('rep')}, translated by {rec.get('off', [0, 0, 0])[:2]} * 2^{rec.get('off', [0, 0, 0])[2]} ticks] (call #{rec.get('hist', 0) + 1} on this relocator instance) on {rec['h']}x{rec['w']} mask u={rec['u']} sub={rec['sub'][:8]}.. tick={rec['tick']} "
                    f"({len(rec['grid'])} grid points, {len(rec['bidx'])} border points): failed {rj['clauses']}; "
                    f"{rec.get('error', '')} want={str(rj.get('want'))[:400]}")
        ctx.violation(rj["sig"], what, {"record": rec, "failed_clauses": rj["clauses"], "spec_wanted": rj.get("want")},
                      cls=",".join(rj["clauses"]))
    return rejects


# ----------------------------------------------------------------------------------------------
def bounds_for(quick):
    if quick:
        return {"selection_exhaustive_masks_up_to_cells": 7, "selection_extra_shapes": [(3, 3), (2, 4), (4, 2)],
                "every_sub_size_map_up_to_cells": 4, "sub_size_patterns": list(range(1, 11)),
                "relocation_border_lattice_side": 3, "relocation_max_border_points": 3, "relocation_point_lattice": [-2, 4],
                "history_ops": ["G", "M", "R", "D"], "history_grids": 2, "history_calls": 3,
                "random_selection_masks": 150, "random_relocation_masks": 90, "random_relocation_max_side": 7}
    return {"selection_exhaustive_masks_up_to_cells": 10, "selection_extra_shapes": [(3, 4), (4, 3)],
            "every_sub_size_map_up_to_cells": 5, "sub_size_patterns": list(range(1, 11)),
            "relocation_border_lattice_side": 4, "relocation_max_border_points": 3, "relocation_point_lattice": [-3, 6],
            "history_ops": ["G", "M", "R", "D"], "history_grids": 3, "history_calls": 3,
            "random_selection_masks": 1500, "random_relocation_masks": 900, "random_relocation_max_side": 9}


def run(ctx):
    b = bounds_for(ctx.quick)
    ctx.bounds = b
    rng = np.random.default_rng(ctx.seed)
    shapes = mc.shapes_upto(b["selection_exhaustive_masks_up_to_cells"])
    shapes += [tuple(s) for s in b["selection_extra_shapes"] if tuple(s) not in shapes]
    # ---- S->C (the two bounded machines are explored concurrently) ---------------------------------
    import concurrent.futures as cf

    lo, hi = b["relocation_point_lattice"]
    with cf.ThreadPoolExecutor(max_workers=3) as ex:
        f_his = ex.submit(enumerate_histories, ctx, b["history_ops"], b["history_grids"], b["history_calls"])
        f_sel = ex.submit(enumerate_selection, ctx, shapes, b["every_sub_size_map_up_to_cells"], b["sub_size_patterns"])
        f_rel = ex.submit(enumerate_relocation, ctx, b["relocation_border_lattice_side"], b["relocation_max_border_points"], lo, hi)
        insts = f_sel.result()
        bags, stats = f_rel.result()
        hists = f_his.result()
    ctx.exhaustive = True
    # ---- real code ----------------------------------------------------------------------------
    rnd_sel = random_selection_instances(rng, b["random_selection_masks"])
    allsel = insts + rnd_sel
    recs = []
    for part in core.pmap(_select_many, [(allsel[k: k + 50], ctx.seed) for k in range(0, len(allsel), 50)]):
        recs.extend(part)
    bag_list = sorted(bags.items())
    bag_recs = []
    for part in core.pmap(bag_records, [(bag_list[k: k + 20], ctx.seed + k) for k in range(0, len(bag_list), 20)]):
        bag_recs.extend(part)
    masks = list(enumerate(mc.random_masks(rng, b["random_relocation_masks"], max_side=b["random_relocation_max_side"], min_side=1)))
    rnd_recs = []
    for part in core.pmap(random_relocation_records, [(masks[k: k + 6], ctx.seed) for k in range(0, len(masks), 6)]):
        rnd_recs.extend(part)
    hl = list(enumerate(hists))
    hist_recs = []
    for part in core.pmap(history_records, [(hl[k: k + 8], ctx.seed) for k in range(0, len(hl), 8)]):
        hist_recs.extend(part)
    ctx.replayed = len(insts) + sum(len(v) for v in bags.values()) + len(hists)
    ctx.sample({"selection_record": {k: v for k, v in recs[len(insts) // 2].items()}})
    small = [r for r in rnd_recs if r["api"] == "relocate" and len(r["grid"]) <= 12 and not r["own"]]
    if small:
        ctx.sample({"relocation_record": {k: v for k, v in small[0].items() if k != "prefix"}})
    ctx.sample({"history": [list(c) for c in hists[len(hists) // 2]]})
    ctx.sample({"relocation_machine_instance": {"border": list(bag_list[len(bag_list) // 2][0]), "points": len(bag_list[0][1])}})
    allrecs = recs + bag_recs + rnd_recs + hist_recs
    validate(ctx, allrecs, "C18")
    relrecs = [r for r in bag_recs + rnd_recs + hist_recs if r["api"] == "relocate"]
    moved = sum(1 for r in relrecs for o in r["out"] if not o[0])
    total = sum(len(r["out"]) for r in relrecs)
    ctx.note(f"selection: {len(insts)} enumerated (mask, sub-size map) instances + {len(rnd_sel)} random masks up to 12x12 -> "
             f"{len(recs)} records; relocation: {len(bags)} enumerated border bags x {len(bag_list[0][1])} points "
             f"(machine outcomes {stats}) -> {len(bag_recs)} calls, {len(rnd_recs)} calls on random distortions; histories: all {len(hists)} sequences of "
             f"{b['history_calls']} calls ({'/'.join(HIST_OPS[o] for o in b['history_ops'])} x {b['history_grids']} different data grids) "
             f"on ONE relocator instance -> {len(hist_recs)} calls, each judged against the border of the grid passed to it; "
             f"{total} relocated coordinates judged, {moved} of them changed by the implementation")
    ctx.note("the implementation takes the centre of the bounding box of the sub-pixel CENTRES (which depends on the sub-sizes "
             "of the extreme pixels); the statement names the bounding box of the unmasked region. TLC proves inside the bound "
             "(SelCodeShapeAgrees, SelCodeCentreClose) that the two centres differ by less than half a pixel and always select "
             "a valid farthest sub-pixel, so the difference is not observable")
    by_rep = {}
    for r in relrecs:
        by_rep[r["rep"]] = by_rep.get(r["rep"], 0) + 1
    ctx.note(f"input representations of the same lattice coordinates (calls per representation): {by_rep}; every representation "
             f"is judged against the same exact expectation (integer representations where the tick is a whole number, which "
             f"holds for about half of the instances; float32 where all squared magnified radii are <= {F32_MAX_N2} and the tick is dyadic)")
    far = [r for r in relrecs if r["off"][:2] != [0, 0]]
    ticks_used = sorted({r["tick"] for r in relrecs})
    ctx.note(f"translation and scale: {len(far)} of {len(relrecs)} relocation calls were made with every coordinate (data grid and "
             f"mesh) translated by (ky, kx) * 2^e ticks, e = {min((r['off'][2] for r in far), default=0)} .. "
             f"{max((r['off'][2] for r in far), default=0)}, |k| <= 3, with dyadic ticks so that every coordinate is exactly "
             f"representable and every coordinate difference is exact; ticks (scales) used: 2^-20 .. 2^20 among {ticks_used}; "
             f"results are taken back into the untranslated frame and judged against the ONE expectation of the lattice instance "
             f"(RelTranslationInvariant / RelScaleCovariant are checked by TLC on the relocation machine)")
    ctx.assumptions = [
        "translated instances: the exponent e of the offset is limited per instance so that the rounding of the float64 border "
        "centroid (about 2^(e-51) ticks) stays 16x below the smallest possible gap between two different radii of the instance, "
        "1 / (2 n max(n r)) ticks (n border points, n r <= 16000 in the magnified lattice): e <= 30 for the enumerated small "
        "instances (border and points within a few ticks), e <= about 23..27 for the random larger ones; beyond that range even "
        "the unchanged float64 implementation cannot decide interior / outside exactly. float32 realisations are untranslated",
        "integer-dtype realisations are limited to instances whose coordinate differences stay below 2^30 (in scaled units): the "
        "unchanged library squares coordinate differences in the input dtype, which overflows int64 from about 3.0e9 (observed "
        "with tick 2^20 and outliers 5000 ticks away: wrong nearest border point); float64 inputs have no such limit",
        "a plain Python list is used as a representation for mesh vertices only (the library fancy-indexes the data grid, "
        "which a list does not support on the unchanged tree); float32 realisations are restricted to small instances because "
        "float32 arithmetic inside the library cannot keep the exact interior / nearest-border decisions for larger coordinates",
        "relocation inputs are integer lattice points times a tick (dyadic and non-dyadic ticks); squared distances are exact "
        "integers, so interior / outside / nearest-border-tie decisions are exact; results are compared in fixed point with the "
        "rounding bound derived in Trace_Relocation.tla (float evaluation error < 1e-6 units is absorbed by the +1 slack)",
        "a coordinate that is NOT a copy of a border point but whose exact distance from the centroid equals the smallest border "
        "radius is judged to fixed-point accuracy rather than bit for bit: the implementation can only compare float radii "
        "about a rounded centroid (exact copies of border coordinates and everything strictly inside are judged bit for bit)",
        "the set of border pixels is judged two-sidedly as in C10 (pixels on the array boundary may or may not count as edge), "
        "and must coincide with mask.derive_indexes.border_slim",
        "sub-sizes divide 12 (1/24-pixel lattice); sub_border_grid is abstracted through the mask's own pixel scales / origin",
        "mesh relocation inside mapper_grids_from is run against the relocated data grid; by RelBorderPointsFixed its border is "
        "the border of the data grid",
    ]


def replay(ctx, rp):
    rec = rp["record"]
    if rec["api"] == "select":
        recs = [select_record((rec["h"], rec["w"], rec["u"], rec["sub"]), ctx.seed, geom=rec["geom"], form=rec["form"])]
    else:
        spec = (rec["h"], rec["w"], rec["u"])
        br = None
        if rec.get("prefix"):  # the earlier calls of the history, on the same relocator instance
            br = _relocator(_mask_of(*spec), rec["sub"], rec["form"])
            for k, c in enumerate(rec["prefix"]):
                reloc_record(c["call"], spec, rec["sub"], rec["form"], np.array(c["grid"]), c["tick"],
                             pts_int=None if c["pts"] is None else np.array(c["pts"]), br=br, hist=k, rep=c.get("rep"),
                             off=tuple(c.get("off", NO_OFFSET)))
        recs = [reloc_record(rec["call"], spec, rec["sub"], rec["form"], np.array(rec["grid"]), rec["tick"],
                             pts_int=None if rec["own"] else np.array(rec["pts"]),
                             container=rec.get("container", "irregular"), rep=rec.get("rep"), br=br,
                             hist=len(rec.get("prefix") or []), prefix=rec.get("prefix"), off=tuple(rec.get("off", NO_OFFSET)))]
    rej = validate(ctx, recs, "C18-replay")
    print("replayed", len(recs), "record(s); rejected:", [r["clauses"] for r in rej])
    return ctx.finish()
