"""X06 -- preload DETECTION is sound (extra; companion of C15, which covers the USE of filled slots).

PreloadSet.tla gives every set_X(fit_0, fit_1) of aa.Preloads a group of slots and states, from the X06 statement and the
docstrings, what the group may hold afterwards: nothing, or the value both reference fits agree on; nothing outside the group
changes; nothing written earlier survives; the result depends only on the last pair.  The machine runs the setters in the order
of the implementation (clear, early returns, compare, fill) and TLC checks SlotOnlyIfAgreed / NoStaleSlot / OrderIndependent /
NoCallRaises / UsingAgreedSlotsIsInvisible / FillsWhatIsDocumented on (1) every pair of abstract fits for every setter and
(2) every call sequence up to a bound over representative pairs.  Every transition TLC explores is replayed on a real
aa.Preloads object with fits made of the repository's mock classes (S->C), the slots are abstracted back by a rejecting alpha and
every call is judged by TLC against Trace_PreloadSet.tla (C->S), as are seeded random longer histories, check_via_fit calls on a
lattice of figure-of-merit differences, and -- with fits holding REAL inversions built by inv_common -- the seven setters followed
by third fits that use the slots (figure of merit / reconstruction compared with a fit without preloads)."""
import copy
import json
import os

import numpy as np

from harness import core
from harness.drivers import inv_common as ic

SETTERS = {"W": "set_w_tilde_imaging", "G": "set_relocated_grid", "M": "set_mapper_list",
           "O": "set_operated_mapping_matrix_with_preloads", "L": "set_linear_func_inversion_dicts", "C": "set_curvature_matrix",
           "R": "set_regularization_matrix_and_term"}
SLOTS_OF = {"W": ["w_tilde", "use_w_tilde"], "G": ["relocated_grid"], "M": ["mapper_list"], "O": ["operated_mapping_matrix"],
            "L": ["linear_func_operated_mapping_matrix_dict", "data_linear_func_matrix_dict"],
            "C": ["curvature_matrix", "data_vector_mapper", "curvature_matrix_mapper_diag", "mapper_operated_mapping_matrix_dict"],
            "R": ["regularization_matrix", "log_det_regularization_matrix_term"]}
OWN = [s for x in "WGMOLCR" for s in SLOTS_OF[x]]
OTHER = ["image_plane_mesh_grid_pg_list", "traced_mesh_grids_list_of_planes", "image_plane_mesh_grid_list"]
ALL = OWN + OTHER
QOF = {"w_tilde": "noise", "relocated_grid": "grid", "mapper_list": "mm", "operated_mapping_matrix": "omm",
       "linear_func_operated_mapping_matrix_dict": "lfd", "data_linear_func_matrix_dict": "dlf", "curvature_matrix": "cm",
       "data_vector_mapper": "dvm", "curvature_matrix_mapper_diag": "cmd", "mapper_operated_mapping_matrix_dict": "momm",
       "regularization_matrix": "reg", "log_det_regularization_matrix_term": "ld"}
QS = ["noise", "grid", "mm", "omm", "lfd", "dlf", "cm", "dvm", "cmd", "momm", "reg", "ld"]
QCODE = {q: k + 1 for k, q in enumerate(QS)}
RELQ = {x: [QOF[s] for s in SLOTS_OF[x] if s != "use_w_tilde"] for x in SLOTS_OF}
STRUCTS = [(False, 0, 0, 0)] + [(True, nm, nf, sh) for (nm, nf) in ((1, 0), (2, 0), (0, 1), (1, 1), (1, 2)) for sh in (0, 1)]
JENV = {"JAVA_TOOL_OPTIONS": "-XX:ParallelGCThreads=2 -XX:CICompilerCount=2"}


class _Stale:
    """what a caller (or an earlier model-fit) left in a slot: recognisable by identity only"""

    def __repr__(self):
        return "<stale>"


STALE = _Stale()

# ---- gamma: abstract fit -> objects of the repository's mock classes -------------------------------------------------------
_cache = {}


def _shape(q, sh):
    P = 2 + sh
    return {"grid": (3 + sh, 2), "mm": (3, P), "omm": (3, P), "lfd": (3, 1 + sh), "dlf": (3, P), "cm": (P, P), "dvm": (P,),
            "cmd": (P, P), "momm": (3, P), "reg": (P, P)}[q]


def content(q, idc, sh, k=0):
    """content id -> concrete value: distinct small integers; id 'b' is id 'a' with the LAST entry raised by one (so that a
    comparison that looks at part of the array, or forgets the absolute value, takes them for equal); entry k of a list + 1000 k"""
    base = 10.0 * QCODE[q] + 1000.0 * k
    if q == "ld":
        return base + {"a": 1.0, "b": 2.0}[idc]
    shp = _shape(q, sh)
    v = base + 100.0 * np.arange(int(np.prod(shp)), dtype=float)
    if idc == "b":
        v[-1] += 1.0
    return v.reshape(shp)


def decode(q, v, k=0):
    """alpha for one array: -> (id, sh) or None when the value is not one of the contents of quantity q"""
    try:
        if q == "ld":
            v = float(v)
            for idc in "ab":
                if v == content(q, idc, 0, k):
                    return idc, None
            return None
        v = np.asarray(v, dtype=float)
        for sh in (0, 1):
            if v.shape == _shape(q, sh):
                for idc in "ab":
                    if np.array_equal(v, content(q, idc, sh, k)):
                        return idc, sh
    except Exception:
        return None
    return None


def _mask(sh):
    import autoarray as aa

    key = ("mask", sh)
    if key not in _cache:
        m = np.ones((5 + sh, 5), dtype=bool)
        m[1:-1, 1:-1] = False
        _cache[key] = aa.Mask2D(mask=m, pixel_scales=1.0)
    return _cache[key]


def _noise(idc, sh):
    import autoarray as aa

    key = ("noise", idc, sh)
    if key not in _cache:
        mk = _mask(sh)
        n = int((~np.array(mk)).sum())
        v = 1.0 + np.arange(n) / 8.0
        if idc == "b":
            v[-1] += 1.0
        _cache[key] = aa.Array2D(values=v, mask=mk)
    return _cache[key]


def _dataset(sh):
    import autoarray as aa

    key = ("ds", sh)
    if key not in _cache:
        _cache[key] = aa.m.MockDataset(psf=aa.Kernel2D.no_blur(pixel_scales=1.0), mask=_mask(sh))
    return _cache[key]


def _classes():
    if "cls" in _cache:
        return _cache["cls"]
    import autoarray as aa

    class VInv(aa.m.MockInversion):
        """MockInversion plus the quantities that only the imaging inversions define"""

        def __init__(self, lfd=None, dlf=None, cmd=None, dvm=None, **kw):
            super().__init__(**kw)
            self._v_lfd, self._v_dlf, self._v_cmd, self._v_dvm = lfd, dlf, cmd, dvm

        @property
        def linear_func_operated_mapping_matrix_dict(self):
            return self._v_lfd

        @property
        def data_linear_func_matrix_dict(self):
            return self._v_dlf

        @property
        def _curvature_matrix_mapper_diag(self):
            return self._v_cmd  # None without a mapper, as the real inversions

        @property
        def _data_vector_mapper(self):
            return self._v_dvm

    class VCheckFit:
        """the part of a fit that check_via_fit touches"""

        def __init__(self, owner, c, thr, settings=None, mine=None):
            self.owner, self.c, self.thr, self.mine = owner, c, thr, mine
            self.settings_inversion = settings or aa.SettingsInversion()

        def refit_with_new_preloads(self, preloads, settings_inversion=None):
            return VCheckFit(self.owner, self.c, self.thr, settings_inversion, mine=preloads is self.owner)

        @property
        def figure_of_merit(self):
            if self.c["fomexc"]:
                raise aa.exc.InversionException()
            return 100.0 + (self.c["d4"] / 4.0 * self.thr if self.mine else 0.0)

        @property
        def inversion(self):
            fit = self

            class _I:
                data_vector = np.array([1.0, 2.0]) + (1e-2 if (fit.mine and fit.c["dvbig"]) else 0.0)
                curvature_reg_matrix = np.eye(2) + (1e-2 if (fit.mine and fit.c["crmbig"]) else 0.0)

            return _I()

    _cache["cls"] = (VInv, VCheckFit)
    return _cache["cls"]


def mock_fit(f):
    import autoarray as aa

    VInv, _ = _classes()
    sh, c = f["sh"], f["c"]
    nz = _noise(c["noise"], sh)
    if not f["inv"]:
        return aa.m.MockFitImaging(inversion=None, dataset=_dataset(sh), noise_map=nz)
    mappers = [aa.m.MockMapper(source_plane_data_grid=content("grid", c["grid"], sh, k), mapping_matrix=content("mm", c["mm"], sh, k),
                               regularization=aa.m.MockRegularization(regularization_matrix=content("reg", c["reg"], sh, k)))
               for k in range(f["nm"])]
    funcs = [aa.m.MockLinearObjFuncList(parameters=1, mapping_matrix=np.full((3, 1), 7.0 + k)) for k in range(f["nf"])]
    inv = VInv(linear_obj_list=mappers + funcs, operated_mapping_matrix=content("omm", c["omm"], sh),
               curvature_matrix=content("cm", c["cm"], sh), regularization_matrix=content("reg", c["reg"], sh),
               log_det_regularization_matrix_term=content("ld", c["ld"], sh),
               mapper_operated_mapping_matrix_dict={m: content("momm", c["momm"], sh, k) for k, m in enumerate(mappers)},
               lfd={o: content("lfd", c["lfd"], sh, k) for k, o in enumerate(funcs)},
               dlf={o: content("dlf", c["dlf"], sh, k) for k, o in enumerate(funcs)},
               cmd=content("cmd", c["cmd"], sh) if mappers else None, dvm=content("dvm", c["dvm"], sh) if mappers else None)
    return aa.m.MockFitImaging(inversion=inv, dataset=_dataset(sh), noise_map=nz)


# ---- alpha: slots of a Preloads object -> content strings ------------------------------------------------------------------
def _wt_table(idc, sh):
    key = ("wt", idc, sh)
    if key not in _cache:
        import autoarray as aa

        nz = _noise(idc, sh)
        ds = _dataset(sh)
        _cache[key] = aa.util.inversion_imaging.w_tilde_curvature_preload_imaging_from(
            noise_map_native=np.array(nz.native), kernel_native=np.array(ds.psf.native),
            native_index_for_slim_index=np.array(ds.mask.derive_indexes.native_for_slim))
    return _cache[key]


def mock_decoder(s, v):
    """rejecting alpha of the value of slot s for mock contents"""
    q = QOF[s]
    if s == "w_tilde":
        for sh in (0, 1):
            for idc in "ab":
                try:
                    pre, idx, lens = _wt_table(idc, sh)
                    if (np.array_equal(np.asarray(v.curvature_preload), pre) and np.array_equal(np.asarray(v.indexes), idx.astype("int"))
                            and np.array_equal(np.asarray(v.lengths), lens.astype("int")) and float(v.noise_map_value) == float(_noise(idc, sh)[0])):
                        return f"{idc}{sh}"
                except Exception:
                    pass
        return "?"
    if s in ("mapper_list", "mapper_operated_mapping_matrix_dict", "linear_func_operated_mapping_matrix_dict", "data_linear_func_matrix_dict"):
        if s == "mapper_list":
            if not isinstance(v, (list, tuple)) or not v:
                return "?"
            vals = [getattr(m, "mapping_matrix", None) for m in v]
        else:
            if not isinstance(v, dict) or not v:
                return "?"
            vals = list(v.values())
        ds_ = [decode(q, a, k) for k, a in enumerate(vals)]
        if any(d is None for d in ds_) or len(set(ds_)) != 1:
            return "?"
        return f"{ds_[0][0]}{ds_[0][1]}x{len(vals)}"
    d = decode(q, v)
    if d is None:
        return "?"
    return d[0] if q == "ld" else f"{d[0]}{d[1]}"


def alpha(p, decoder):
    out = {}
    for s in ALL:
        v = getattr(p, s, "?missing")
        if v is None:
            out[s] = "none"
        elif v is STALE:
            out[s] = "z"
        elif s == "use_w_tilde":
            out[s] = "true" if v is True else ("false" if v is False else "?")
        elif s in OTHER:
            out[s] = "?"
        else:
            out[s] = decoder(s, v)
    return out


def info_of(p):
    out = []
    try:
        lines = list(p.info)
    except Exception:
        return [{"label": "?raised", "on": False}]
    for ln in lines:
        a, sep, b = str(ln).rstrip("\n").partition(" = ")
        out.append({"label": a if sep and b in ("True", "False") else "?" + str(ln)[:40], "on": b == "True"})
    return out


def new_preloads(prefill):
    import autoarray as aa

    if prefill == "z":
        kw = {s: STALE for s in ALL}
        kw["use_w_tilde"] = True
        return aa.Preloads(**kw)
    return aa.Preloads()


# ---- replay of abstract behaviours on a real Preloads object with mock fits ----------------------------------------------
def run_events(events, record="all", cont=True):
    """events: [{"a":"new","prefill":..} | {"a":"set","x":..,"f0":..,"f1":..} | {"a":"check","c":{..}} | {"a":"use",..}]
    -> trace records (record='last': only the last set/check/new event is recorded, the others only executed)"""
    os.environ.pop("PYAUTOFIT_TEST_MODE", None)
    _, VCheckFit = _classes()
    recs = []
    p = None
    last = max((k for k, e in enumerate(events) if e["a"] in ("set", "check", "new")), default=-1)
    for k, ev in enumerate(events):
        want = record == "all" or k == last
        if ev["a"] == "new":
            p = new_preloads(ev["prefill"])
            if want:
                recs.append({"a": "new", "prefill": ev["prefill"], "post": alpha(p, mock_decoder), "info": info_of(p)})
        elif ev["a"] == "set":
            f0, f1 = mock_fit(ev["f0"]), mock_fit(ev["f1"])
            pre = alpha(p, mock_decoder) if want else None
            r = {"a": "set", "x": ev["x"], "f0": ev["f0"], "f1": ev["f1"], "raised": False, "err": "", "near": False,
                 "cont": bool(cont and record == "all" and recs), "src": "mock", "tag": ""}
            try:
                getattr(p, SETTERS[ev["x"]])(fit_0=f0, fit_1=f1)
            except Exception as e:
                r["raised"] = True
                r["err"] = f"{type(e).__name__}: {str(e)[:90]}"
            if want:
                r["pre"] = pre
                r["post"] = alpha(p, mock_decoder)
                r["info"] = info_of(p)
                q = new_preloads("none")
                try:
                    getattr(q, SETTERS[ev["x"]])(fit_0=mock_fit(ev["f0"]), fit_1=mock_fit(ev["f1"]))
                except Exception:
                    pass
                fa = alpha(q, mock_decoder)
                r["fresh"] = {s: fa[s] for s in SLOTS_OF[ev["x"]]}
                recs.append(r)
        elif ev["a"] == "check":
            c = ev["c"]
            pre = alpha(p, mock_decoder)
            r = {"a": "check", "c": c, "raised": False, "exc": "", "near": False, "src": "mock", "tag": ""}
            try:
                p.check_via_fit(fit=VCheckFit(p, c, float(p.check_threshold)))
            except Exception as e:
                r["raised"] = True
                r["exc"] = type(e).__name__
            r["pre"] = pre
            r["post"] = alpha(p, mock_decoder)
            if want:
                recs.append(r)
    return recs


def _run_many(jobs):
    out = []
    for events, mode in jobs:
        rr = run_events(events, record=mode)
        for r in rr:
            r["_replay"] = {"kind": "mock", "events": events, "record": mode}
        out.extend(rr)
    return out


# ---- real inversions (inv_common) ------------------------------------------------------------------------------------------
def _vfit_class():
    if "vfit" in _cache:
        return _cache["vfit"]
    import autoarray as aa

    class VFit(aa.FitImaging):
        """an imaging fit whose model image is the reconstruction of a real inversion of an inv_common lattice instance"""

        def __init__(self, inst, formalism, coeff=1.0, preloads=None, settings_inversion=None):
            ds, objs, skw = ic.build(inst, with_reg_coefficient=coeff)
            super().__init__(dataset=ds)
            self._inst, self._formalism, self._coeff, self._objs = inst, formalism, coeff, objs
            self.settings_inversion = settings_inversion or aa.SettingsInversion(use_w_tilde=(formalism == "w_tilde"), **skw)
            self.preloads = preloads if preloads is not None else aa.Preloads()
            self._inv = None

        @property
        def inversion(self):
            if self._inv is None:
                self._inv = aa.Inversion(dataset=self.dataset, linear_obj_list=self._objs, settings=self.settings_inversion,
                                         preloads=self.preloads)
            return self._inv

        @property
        def model_data(self):
            return self.inversion.mapped_reconstructed_data

        def refit_with_new_preloads(self, preloads, settings_inversion=None):
            return VFit(self._inst, self._formalism, self._coeff, preloads=preloads, settings_inversion=settings_inversion)

    _cache["vfit"] = VFit
    return VFit


def real_quantities(fit):
    """the quantities the setters compare, read from a twin of the fit (so that the fit given to the setters stays untouched)"""
    from autoarray.inversion.pixelization.mappers.abstract import AbstractMapper

    inv = fit.inversion
    mappers = inv.cls_list_from(cls=AbstractMapper)
    out = {}

    def put(q, fn):
        try:
            out[q] = fn()
        except Exception as e:  # a quantity the inversion cannot produce: recorded, the setter that needs it will be judged
            out[q] = ("!raised", f"{type(e).__name__}: {str(e)[:60]}")

    put("noise", lambda: [np.array(fit.noise_map)])
    put("grid", lambda: [np.array(mappers[0].source_plane_data_grid)] if mappers else [])
    put("mm", lambda: [np.array(inv.mapping_matrix)])
    put("omm", lambda: [np.array(inv.operated_mapping_matrix)])
    put("lfd", lambda: [np.array(v) for v in inv.linear_func_operated_mapping_matrix_dict.values()])
    put("dlf", lambda: [np.array(v) for v in inv.data_linear_func_matrix_dict.values()])
    put("cm", lambda: [np.array(inv.curvature_matrix)])
    put("dvm", lambda: [np.array(inv._data_vector_mapper)] if mappers else [])
    put("cmd", lambda: [np.array(inv._curvature_matrix_mapper_diag)] if mappers else [])
    put("momm", lambda: [np.array(v) for v in inv.mapper_operated_mapping_matrix_dict.values()])
    put("reg", lambda: [np.array(inv.regularization_matrix)])
    put("ld", lambda: [np.array(float(inv.log_det_regularization_matrix_term))])
    return out


def _cmp(a, b):
    """'same' (identical), 'diff' (differs by far more than the 1e-8 of the setters), 'shape', 'near'"""
    if isinstance(a, tuple) or isinstance(b, tuple):
        return "diff"
    if len(a) != len(b) or any(x.shape != y.shape for x, y in zip(a, b)):
        return "shape"
    d = max([float(np.max(np.abs(x - y))) if x.size else 0.0 for x, y in zip(a, b)] + [0.0])
    return "same" if d == 0.0 else ("diff" if d > 1e-6 else "near")


def real_abstract(layout, qs, refs):
    """abstract fit of a real fit: contents named relative to the reference fits (first 'a', then 'b', then 'c'); a quantity of
    another shape is another content (the shape class of the abstract fit stays 0: real fits differ in shape per quantity)"""
    c, near = {}, False
    for q in QS:
        idc = None
        for name, ref in zip("abc", refs + [None]):
            if ref is None:
                idc = name
                break
            k = _cmp(qs[q], ref[q])
            if k == "same":
                idc = name
                break
            if k == "near":
                near = True
        c[q] = idc
    return {"inv": True, "nm": layout.count("m"), "nf": layout.count("f"), "sh": 0, "c": c}, near


def _val_string(f, s):
    """Python twin of the naming convention of slot contents (a representation, not a judgement)"""
    idc = f["c"][QOF[s]]
    if s == "log_det_regularization_matrix_term":
        return idc
    if s in ("mapper_list", "mapper_operated_mapping_matrix_dict"):
        return f"{idc}{f['sh']}x{f['nm']}"
    if s in ("linear_func_operated_mapping_matrix_dict", "data_linear_func_matrix_dict"):
        return f"{idc}{f['sh']}x{f['nf']}"
    return f"{idc}{f['sh']}"


def real_decoder(cands):
    """cands: [(abstract fit, quantities, fit object)] -- a slot value is named after the first candidate fit whose quantity it equals"""

    def dec(s, v):
        q = QOF[s]
        for f, qs, obj in cands:
            try:
                if s == "w_tilde":
                    wt = obj.dataset.w_tilde
                    ok = (np.array_equal(np.asarray(v.curvature_preload), np.asarray(wt.curvature_preload))
                          and np.array_equal(np.asarray(v.lengths), np.asarray(wt.lengths))
                          and float(v.noise_map_value) == float(obj.noise_map[0]))
                elif s == "mapper_list":
                    from autoarray.inversion.pixelization.mappers.abstract import AbstractMapper

                    mine = obj.inversion.cls_list_from(cls=AbstractMapper)
                    ok = isinstance(v, list) and len(v) == len(mine) and all(
                        np.array_equal(np.asarray(a.mapping_matrix), np.asarray(b.mapping_matrix)) for a, b in zip(v, mine))
                else:
                    vals = [np.asarray(x) for x in v.values()] if isinstance(v, dict) else [np.asarray(v, dtype=float)]
                    ref = qs[q]
                    ok = (not isinstance(ref, tuple)) and len(vals) == len(ref) and all(
                        a.shape == b.shape and np.array_equal(a, b) for a, b in zip(vals, ref))
                if ok:
                    return _val_string(f, s)
            except Exception:
                continue
        return "?"

    return dec


def _same(a, b):
    a, b = np.asarray(a, dtype=float), np.asarray(b, dtype=float)
    if a.shape != b.shape:
        return "diff"
    if not a.size:
        return "same"
    scale = max(1.0, float(np.max(np.abs(b))))
    d = float(np.max(np.abs(a - b)))
    return "same" if d <= 1e-8 * scale else ("diff" if d > 1e-6 * scale else "unclear")


def _variant(rng, base, kind, step):
    """an instance that differs from `base` in exactly the named ingredient (step = 1, 2, ... gives distinct variants)"""
    inst = copy.deepcopy(base)
    coeff = 1.0
    if kind == "func":
        for o in inst["objs"]:
            if o["type"] == "func":
                o["M"] = (np.array(o["M"]) + step).tolist()
    elif kind == "mapper":
        for o in inst["objs"]:
            if o["type"] == "mapper":
                n = o["mesh"][0] * o["mesh"][1]
                o["cells"] = [int((c + step * (1 + (k % 3))) % n) for k, c in enumerate(o["cells"])]
    elif kind == "reg":
        coeff = float(2 ** step)
    elif kind == "noise":
        inst["sig_e"] = [int(((e + 1 + step * (1 + k % 2)) % 3) - 1) for k, e in enumerate(inst["sig_e"])]
    elif kind == "mesh":
        for o in inst["objs"]:
            if o["type"] == "mapper":
                my, mx = o["mesh"]
                o["mesh"] = [my, mx + step]
                o["cells"] = [int(c % (my * (mx + step))) for c in o["cells"]]
    return inst, coeff


def _base_instance(rng, layout):
    while True:
        inst = ic.random_instance(rng, H=7, W=7, interior=3, layouts=(layout,), kshapes=((3, 3), (1, 3), (3, 1)))
        for o in inst["objs"]:
            o["reg"] = o["type"] == "mapper"
        if len(inst["u"]) >= 5:
            return inst


def run_real(job):
    """one family: the seven setters on (fit_0, fit_1) in the given order, then third fits use the slots, then check_via_fit"""
    import autoarray as aa

    os.environ.pop("PYAUTOFIT_TEST_MODE", None)
    VFit = _vfit_class()
    layout, formalism, kind, order, prefill = job["layout"], job["formalism"], job["kind"], job["order"], job["prefill"]
    tag = f"{layout}:{formalism}"
    insts = [(job["base"], 1.0)] + [tuple(v) for v in job["variants"]]
    mk = lambda k, **kw: VFit(insts[k][0], formalism, coeff=insts[k][1], **kw)
    f0, f1 = mk(0), mk(1 if kind != "same" else 0)
    q0, q1 = real_quantities(mk(0)), real_quantities(mk(1 if kind != "same" else 0))
    a0, _ = real_abstract(layout, q0, [])
    a1, near = real_abstract(layout, q1, [q0])
    dec = real_decoder([(a0, q0, mk(0)), (a1, q1, mk(1 if kind != "same" else 0))])
    p = new_preloads(prefill)
    recs = []
    for x in order:
        pre = alpha(p, dec)
        r = {"a": "set", "x": x, "f0": a0, "f1": a1, "raised": False, "err": "", "near": near, "cont": bool(recs), "src": "real", "tag": tag}
        try:
            getattr(p, SETTERS[x])(fit_0=f0, fit_1=f1)
        except Exception as e:
            r["raised"] = True
            r["err"] = f"{type(e).__name__}: {str(e)[:90]}"
        r["pre"], r["post"], r["info"] = pre, alpha(p, dec), info_of(p)
        qn = new_preloads("none")
        try:
            getattr(qn, SETTERS[x])(fit_0=mk(0), fit_1=mk(1 if kind != "same" else 0))
        except Exception:
            pass
        fa = alpha(qn, dec)
        r["fresh"] = {s: fa[s] for s in SLOTS_OF[x]}
        recs.append(r)
    post = alpha(p, dec)
    # third fits: they share what the pair agrees on and differ (again) in the ingredient that distinguishes the pair
    thirds = [2, 3, 2] if len(insts) > 3 else [2, 2]
    for rep, k in enumerate(thirds):
        q2 = real_quantities(mk(k))
        a2, near2 = real_abstract(layout, q2, [q0, q1])
        r = {"a": "use", "f0": a0, "f1": a1, "f2": a2, "post": post, "raised": False, "err": "", "near": near2, "src": "real",
             "tag": tag, "rep": rep, "out": {}}
        try:
            fw, fo = mk(k, preloads=p), mk(k)
            r["out"]["figure_of_merit"] = _same(fw.figure_of_merit, fo.figure_of_merit)
            for o in ("reconstruction", "data_vector", "curvature_reg_matrix", "mapped_reconstructed_data"):
                r["out"][o] = _same(getattr(fw.inversion, o), getattr(fo.inversion, o))
        except Exception as e:
            r["raised"] = True
            r["err"] = f"{type(e).__name__}: {str(e)[:90]}"
            for o in ("figure_of_merit", "reconstruction", "data_vector", "curvature_reg_matrix", "mapped_reconstructed_data"):
                r["out"].setdefault(o, "unclear")
        recs.append(r)
    # check_via_fit on the third fit: raises exactly when the two figures of merit differ by more than the threshold
    thr = float(p.check_threshold)
    r = {"a": "check", "c": {"fomexc": False, "d4": 0, "dvbig": False, "crmbig": False}, "raised": False, "exc": "", "near": False,
         "src": "real", "tag": tag, "pre": alpha(p, dec)}
    try:
        d = abs(float(mk(2, preloads=p).figure_of_merit) - float(mk(2, preloads=aa.Preloads(use_w_tilde=False)).figure_of_merit))
        r["c"]["d4"] = 8 if d > thr else 0
        r["near"] = abs(d - thr) < 1e-6
    except Exception:
        r["c"]["fomexc"] = True  # cannot happen on these well-conditioned instances; judged by the fallback rule if it does
    try:
        p.check_via_fit(fit=mk(2))
    except Exception as e:
        r["raised"] = True
        r["exc"] = type(e).__name__
    r["post"] = alpha(p, dec)
    recs.append(r)
    for r in recs:
        r["_replay"] = {"kind": "real", "job": job}
    return recs


# ---- TLC configurations ----------------------------------------------------------------------------------------------------
INVS = ["SlotOnlyIfAgreed", "NoStaleSlot", "OrderIndependent", "NoCallRaises", "UsingAgreedSlotsIsInvisible", "FillsWhatIsDocumented",
        "InfoListsFilledSlots"]


def _cfg(kind, max_calls=1, as_built=False, invs=INVS):
    c = ("CONSTANTS\n  PairsOf <- MCPairs\n  ExtraThird <- MCThird\n  MaxCalls = %d\n  Prefills <- MCPrefills\n  AsBuilt = %s\n"
         % (max_calls, "TRUE" if as_built else "FALSE"))
    if kind == "trace":
        return c + "SPECIFICATION TraceSpec\nPOSTCONDITION TraceAccepted\n"
    return c + "SPECIFICATION Spec\nVIEW view\n" + "".join(f"INVARIANT {i}\n" for i in invs)


def _defs_pairs(first_ids, second_ids):
    """first fit: uniform contents over first_ids ('all': every fit of the family), second fit: every fit of the family"""
    b = "{" + ", ".join(f'"{i}"' for i in second_ids) + "}"
    if first_ids == "all":
        first = f"FitsFor(x, {b})"
    else:
        first = "UniformFits({" + ", ".join(f'"{i}"' for i in first_ids) + "})"
    return f'MCPairs == [ x \\in SetterSet |-> {first} \\X FitsFor(x, {b}) ]\nMCThird == {{}}\nMCPrefills == {{"none", "z"}}'


DEFS_SEQ = """St == [ inv |-> TRUE, nm |-> 1, nf |-> 1, sh |-> 0 ]
Fa == Mk(St, Uniform("a"))
Fb == Mk(St, Uniform("b"))
Fn == Mk([ inv |-> FALSE, nm |-> 0, nf |-> 0, sh |-> 0 ], Uniform("a"))
Fc == Mk(St, [ Uniform("a") EXCEPT !["cm"] = "b" ])
Reps(x) == { << Fa, Fa >>, %s << Fa, Fb >>, << Fn, Fa >> } \\cup (IF x = "C" THEN { << Fa, Fc >> } ELSE { })
MCPairs == [ x \\in SetterSet |-> Reps(x) ]
MCThird == { Fa, Fb, Fc }
MCPrefills == {"none", "z"}"""
DEFS_TRACE = 'MCPairs == [ x \\in SetterSet |-> {} ]\nMCThird == {}\nMCPrefills == {"none"}'


# ---- validation -------------------------------------------------------------------------------------------------------------
def validate(ctx, records, tag, chunk=3000):
    import concurrent.futures as cf

    replays = {}
    for n, r in enumerate(records):
        r["id"] = n
        replays[n] = r.pop("_replay", None)
    nch = max(1, (len(records) + chunk - 1) // chunk)
    chunks = []
    # chunks must keep histories together (continuity clause): split at records that do not continue a history
    starts = [k for k, r in enumerate(records) if not r.get("cont")] + [len(records)]
    cur = []
    target = max(1, len(records) // nch)
    for a, b in zip(starts, starts[1:]):
        cur.extend(records[a:b])
        if len(cur) >= target:
            chunks.append(cur)
            cur = []
    if cur:
        chunks.append(cur)
    rejects = []
    previewed = set()

    def one(kc):
        k, ch = kc
        res, rej = ctx.validate_trace("Trace_PreloadSet", _cfg("trace", 0), ch, tag=f"{tag}_{k}", defs=DEFS_TRACE, env=JENV, timeout=1800)
        return rej

    with cf.ThreadPoolExecutor(max_workers=min(16, len(chunks) or 1)) as ex:
        for rej in ex.map(one, list(enumerate(chunks))):
            rejects.extend(rej)
    for rj in rejects:
        rec = records[rj["id"]] if 0 <= rj["id"] < len(records) else {}
        if rec.get("a") == "set":
            fs = lambda f: f"(inv={f['inv']},m={f['nm']},f={f['nf']},shape={f['sh']},{''.join(f['c'][q] for q in RELQ[rec['x']])})"
            what = (f"{SETTERS[rec['x']]}{fs(rec['f0'])}{fs(rec['f1'])} [{rec['src']} {rec['tag']}] slots before "
                    f"{ {s: rec['pre'][s] for s in SLOTS_OF[rec['x']]} } after { {s: rec['post'][s] for s in SLOTS_OF[rec['x']]} }"
                    f"{' RAISED ' + rec['err'] if rec['raised'] else ''}: failed {rj['clauses']}")
        elif rec.get("a") == "use":
            what = f"third fit using the slots [{rec['tag']}] outputs {rec['out']}{' RAISED ' + rec['err'] if rec['raised'] else ''}: failed {rj['clauses']}"
        elif rec.get("a") == "check":
            what = f"check_via_fit {rec['c']} [{rec['src']} {rec['tag']}] raised={rec['raised']} {rec['exc']}: failed {rj['clauses']}"
        else:
            what = f"{rec.get('a')}: failed {rj['clauses']}"
        new = ctx.violation(rj["sig"], what, {"replay": replays.get(rj["id"]), "record": rec, "failed_clauses": rj["clauses"],
                                              "spec_wanted": rj.get("want")}, cls=",".join(rj["clauses"]))
        if new and rj["sig"] not in previewed and len(previewed) < 4:
            # the many KNOWN-FINDING lines of this check are printed first by the framework; name the new signatures up front
            previewed.add(rj["sig"])
            print(f"[{ctx.pid}] NEW (not a known finding; VIOLATION line follows below) # {rj['sig']}: {what[:220]}", flush=True)
    return rejects


# ---- seeded random histories and check lattices ---------------------------------------------------------------------------
def _rand_fit(rng, x, like=None):
    inv, nm, nf, sh = STRUCTS[int(rng.integers(0, len(STRUCTS)))] if (like is None or rng.random() < 0.25) else (like["inv"], like["nm"], like["nf"], like["sh"])
    c = {q: "a" for q in QS}
    for q in RELQ[x]:
        if like is not None and rng.random() < 0.75:
            c[q] = like["c"][q]
        else:
            c[q] = "ab"[int(rng.integers(0, 2))]
    return {"inv": bool(inv), "nm": int(nm), "nf": int(nf), "sh": int(sh), "c": c}


CHECKS = [{"fomexc": False, "d4": d, "dvbig": False, "crmbig": False} for d in (-400, -8, -5, -4, -3, 0, 1, 3, 4, 5, 8, 400)] + \
         [{"fomexc": True, "d4": d, "dvbig": a, "crmbig": b} for d in (0, 8) for a in (False, True) for b in (False, True)]


def random_history(rng, length):
    ev = [{"a": "new", "prefill": ["none", "z"][int(rng.integers(0, 2))]}]
    for _ in range(length):
        u = rng.random()
        if u < 0.08:
            ev.append({"a": "new", "prefill": ["none", "z"][int(rng.integers(0, 2))]})
        elif u < 0.2:
            ev.append({"a": "check", "c": CHECKS[int(rng.integers(0, len(CHECKS)))]})
        else:
            x = "WGMOLCR"[int(rng.integers(0, 7))]
            f0 = _rand_fit(rng, x)
            f1 = _rand_fit(rng, x, like=f0)
            if rng.random() < 0.5:
                f0, f1 = f1, f0
            ev.append({"a": "set", "x": x, "f0": f0, "f1": f1})
    return ev


def _fit_from_tlc(f):
    return {"inv": bool(f["inv"]), "nm": int(f["nm"]), "nf": int(f["nf"]), "sh": int(f["sh"]), "c": {q: f["c"][q] for q in QS}}


def _events_from_hist(hist):
    ev = []
    for h in hist:
        if h["a"] == "new":
            ev.append({"a": "new", "prefill": h["prefill"]})
        elif h["a"] == "set":
            ev.append({"a": "set", "x": h["x"], "f0": _fit_from_tlc(h["f0"]), "f1": _fit_from_tlc(h["f1"])})
    return ev


def real_jobs(rng, quick):
    jobs = []
    layouts = ["m", "mf", "fm", "mm"]
    kinds = ["same", "func", "mapper", "reg", "noise", "mesh"]
    n = 0
    for layout in layouts:
        for formalism in ("mapping", "w_tilde"):
            for kind in kinds:
                if kind == "func" and "f" not in layout:
                    continue
                reps = 1 if quick else 3
                if quick and kind in ("mesh", "noise") and layout in ("mm", "fm"):
                    continue
                for _ in range(reps):
                    base = _base_instance(rng, layout)
                    variants = [_variant(rng, base, kind, k) for k in (1, 2, 3)] if kind != "same" else [(base, 1.0)] * 2
                    order = list("WGMOLCR")
                    rng.shuffle(order)
                    jobs.append({"layout": layout, "formalism": formalism, "kind": kind, "base": base, "variants": variants,
                                 "order": [str(o) for o in order], "prefill": "none"})
                    n += 1
    return jobs


def run(ctx):
    quick = ctx.quick
    rng = np.random.default_rng(ctx.seed)
    max_calls = 3 if quick else 4
    ctx.bounds = {"fit_make_ups": "no inversion | (mappers, function lists) in (1,0) (2,0) (0,1) (1,1) (1,2) x 2 shape classes",
                  "content_ids_per_quantity": ["a", "b"], "prefills": ["none", "stale"],
                  "pair_machine": "every setter x every pair (first fit uniform 'a'; thorough: every first fit)" if quick else
                                  "every setter x every pair of abstract fits",
                  "sequence_machine_calls": max_calls, "random_histories": 150 if quick else 3000,
                  "real_families": "layouts m/mf/fm/mm x mapping/w_tilde x same/func/mapper/reg/noise/mesh"}
    import concurrent.futures as cf

    # 1. pair machine: one call, every pair (split by setter -- and the large curvature group by content of the first fit -- so
    #    that several TLC processes share the work: within one process the pairs of one action are enumerated by one thread)
    full = _defs_pairs(["a"] if quick else "all", ["a", "b"])
    parts = []
    if quick:
        parts.append(("rest", 'IF x # "C" THEN Full[x] ELSE {}'))
        parts.append(("C", 'IF x = "C" THEN Full[x] ELSE {}'))
    else:
        for x in "WGMOLR":
            parts.append((x, f'IF x = "{x}" THEN Full[x] ELSE {{}}'))
        for i0 in "ab":
            for i1 in "ab":
                parts.append((f"C{i0}{i1}", f'IF x = "C" THEN {{ p \\in Full[x] : p[1].c["cm"] = "{i0}" /\\ p[1].c["cmd"] = "{i1}" }} ELSE {{}}'))
    runs = []
    for name, expr in parts:
        defs = full.replace("MCPairs ==", "Full ==") + f"\nMCPairs == [ x \\in SetterSet |-> {expr} ]"
        runs.append(("mc", f"MC_pairs_{name}", _cfg("mc", 1), defs))
    # 2. sequence machine: every call sequence up to max_calls over representative pairs
    runs.append(("mc", "MC_sequences", _cfg("mc", max_calls), DEFS_SEQ % ("" if quick else "<< Fb, Fb >>,")))
    # 3. the pinned implementation's deviations, exhibited by TLC on the design level (first counterexample per run)
    sets = [["SlotOnlyIfAgreed", "NoStaleSlot", "OrderIndependent", "NoCallRaises", "UsingAgreedSlotsIsInvisible"]] if quick else \
           [["SlotOnlyIfAgreed"], ["NoStaleSlot"], ["OrderIndependent"], ["NoCallRaises"], ["UsingAgreedSlotsIsInvisible"]]
    for invs in sets:
        runs.append(("bug", f"MC_asbuilt_{len(invs)}_{invs[0]}", _cfg("mc", 2, as_built=True, invs=invs), DEFS_SEQ % "<< Fa, Fn >>,"))

    def one(rn):
        kind, tag, cfg, defs = rn
        if kind == "mc":
            return kind, tag, ctx.tlc("PreloadSet", cfg, defs=defs, tag=tag, timeout=3000, workers=4, coverage=(tag == "MC_sequences"),
                                      env={"_JAVA_OPTIONS": "-Xmx4g"})
        return kind, tag, core.run_tlc("PreloadSet", cfg, ctx.work, defs=defs, tag=tag, timeout=600, allow_errors=True, workers=2)

    behs = []
    with cf.ThreadPoolExecutor(max_workers=4 if quick else 8) as ex:
        for kind, tag, res in ex.map(one, runs):
            if kind == "mc":
                behs += [r["hist"] for r in res.by_kind("beh")]
            else:
                ctx.note(f"AsBuilt=TRUE (the pinned tree's deviations switched on) {tag}: "
                         f"{[e for e in res.errors if 'is violated' in e][:1] or 'no invariant violated'}")
    ctx.exhaustive = True
    behs.sort(key=lambda h: json.dumps(h, sort_keys=True))
    jobs = [(_events_from_hist(h), "last") for h in behs]
    # a few constructor records, the check_via_fit lattice on empty and on filled objects, seeded random longer histories
    fa = {"inv": True, "nm": 1, "nf": 1, "sh": 0, "c": {q: "a" for q in QS}}
    for pf in ("none", "z"):
        jobs.append(([{"a": "new", "prefill": pf}], "all"))
        for c in CHECKS:
            jobs.append(([{"a": "new", "prefill": pf}, {"a": "set", "x": "O", "f0": fa, "f1": fa}, {"a": "check", "c": c}], "last"))
    nrand = ctx.bounds["random_histories"]
    for _ in range(nrand):
        jobs.append((random_history(rng, int(rng.integers(6, 16))), "all"))
    groups = [jobs[k::64] for k in range(64)]
    records = []
    for part in core.pmap(_run_many, [g for g in groups if g]):
        records.extend(part)
    ctx.replayed = len(jobs)
    # 3. real inversions
    rjobs = real_jobs(rng, quick)
    real = []
    for part in core.pmap(run_real, rjobs, chunksize=1):
        real.extend(part)
    ctx.replayed += len(rjobs)
    ctx.bounds["real_families_run"] = len(rjobs)
    ex = next((r for r in records if r["a"] == "set" and r["post"]["curvature_matrix_mapper_diag"] != "none"), records[0])
    ctx.sample({k: v for k, v in ex.items() if k not in ("_replay", "pre", "info")})
    ex = next((r for r in real if r["a"] == "use"), None)
    if ex:
        ctx.sample({k: v for k, v in ex.items() if k not in ("_replay",)})
    rejects = validate(ctx, records + real, "X06")
    ctx.note(f"{len(behs)} transitions enumerated by TLC replayed on aa.Preloads with mock fits, {nrand} seeded random histories, "
             f"{len(rjobs)} families of real inversions ({sum(1 for r in real if r['a'] == 'use')} third-fit uses); {len(rejects)} records rejected")
    ctx.assumptions = [
        "content ids are realised as distinct small integer arrays ('b' = 'a' with the last entry raised by 1): agreement is exact equality, disagreement is far more than the 1e-8 of the setters",
        "quantities of real inversions are read from twins built from the same lattice instance; two quantities are 'equal' only if bitwise identical and 'different' only if they differ by more than 1e-6",
        "outputs of a third real fit with and without preloads are 'the same' within 1e-8 relative (w-tilde and mapping formalisms may be mixed by use_w_tilde)",
        "in-place changes of preloaded buffers by the fits that use them are C15's subject and not judged here",
    ]


def replay(ctx, rp):
    c = rp["replay"]
    if c["kind"] == "mock":
        recs = run_events(c["events"], record=c.get("record", "all"))
        for r in recs:
            r["_replay"] = c
    else:
        recs = run_real(c["job"])
    rej = validate(ctx, recs, "replay")
    print("replayed", len(recs), "records; rejected:", [(r["sig"], r["clauses"]) for r in rej])
    return ctx.finish()
