"""C08 -- fit statistics and evidence follow their definitions on unmasked pixels only.

Fit.tla defines residual, normalized residual, chi-squared (map and sum over the unmasked set), noise normalization (through a
constant table of ln(2 pi sigma^2) for sigma in {1/2,1,2}), likelihood, signal-to-noise, residual flux fraction, and - with an
inversion over an ordered list of linear objects - the regularization term and the two determinants restricted to the
parameters of regularised objects, the evidence and the figure of merit.  Its second formulation is the masked-native
evaluation mode (native arrays with arbitrary junk in masked cells, `where`-masked operations) and np.delete of the
no-regularization index list.  TLC checks SlimModeEqualsNativeMode, MaskedValuesNeverMatter, the element-wise identities,
ReductionSelectsRegularisedParameters ... on every instance of the bounded family and dumps the instances.

S->C: every instance is built with real objects (Mask2D, Array2D slim / native-stored with skip_mask junk, Imaging with and
      without apply_mask, DatasetModel sky, a FitImaging subclass with settable model image, an inversion object made of
      AbstractInversion code fed with the instance's matrices) and every public quantity is read.
C->S: every record is judged by Trace_Fit.tla: exact integers for maps and chi-squared, fixed point with derived rounding
      bounds for normalization / likelihood / evidence compositions, exp-abstraction + exact integer determinants for the
      log-determinant terms.  Seeded random larger datasets and REAL aa.Inversion objects (mappers on 1x2..2x2 meshes with
      Zeroth / ConstantZeroth regularization, regularised and unregularised function lists, both formalisms, positive-only
      solver on/off; plus generic 3x3-mesh instances for the compositions) extend the reach."""
import math

import numpy as np

from harness import core
from harness.drivers import inv_common as ic

S = 100000  # LogScale
OFF = 2_000_000_000
RFF_DEN = 840  # lcm(1..8): data values after sky subtraction stay within -8..8
LOG_TABLE = {e: int(round(S * math.log(2.0 * math.pi * 4.0 ** e))) for e in (-1, 0, 1)}
LN2_HI = int(math.floor(S * math.log(2.0)))  # S ln 2 = LN2_HI + LN2_LO / 1000
LN2_LO = int(round((S * math.log(2.0) - LN2_HI) * 1000))

INVARIANTS = ["SlimModeEqualsNativeMode", "MaskedValuesNeverMatter", "ElementwiseDefinitions", "SkyShiftsDataOnly", "Homogeneity",
              "ReductionSelectsRegularisedParameters", "RegTermUnchangedByReduction", "DeterminantsPositive", "FigureOfMeritChoice",
              "DatasetHistoryNeverMatters", "PredecessorDiffers", "ScaleShiftMatchesTable", "SharedInstancesNeverMatter"]

MC_CFG = """CONSTANTS
  FullShapes <- MCFullShapes
  FullMax = %d
  PatShapes <- MCPatShapes
  InvShapes <- MCInvShapes
  Vals <- MCVals
  Exps <- MCExps
  Skies <- MCSkies
  Patterns <- MCPatterns
  LogTable <- MCLogTable
  LogScale = %d
  Layouts <- MCLayouts
  MVals <- MCMVals
  NRows = %d
  RegKinds <- MCRegKinds
  SPats <- MCSPats
  JunkFills <- MCJunkFills
  HistShapes <- MCHistShapes
  HistKinds <- MCHistKinds
  Memoise = %s
  ScaleSeq <- MCScaleSeq
  ScaleRot = %d
  Ln2Hi = %d
  Ln2Lo = %d
  RegByInstance = %s
SPECIFICATION Spec
"""
MC_CFG_TAIL = "".join(f"INVARIANT {x}\n" for x in INVARIANTS)

TRACE_CFG = """CONSTANTS
  FullShapes = {}
  FullMax = 0
  PatShapes = {}
  InvShapes = {}
  Vals = {}
  Exps = {}
  Skies = {}
  Patterns <- MCPatterns
  LogTable <- MCLogTable
  LogScale = %d
  Layouts = {}
  MVals = {}
  NRows = 1
  RegKinds = {}
  SPats = {}
  JunkFills = {}
  HistShapes = {}
  HistKinds = {}
  Memoise = FALSE
  ScaleSeq <- MCScaleSeq
  ScaleRot = 0
  Ln2Hi = %d
  Ln2Lo = %d
  RegByInstance = FALSE
SPECIFICATION TraceSpec
POSTCONDITION TraceAccepted
""" % (S, LN2_HI, LN2_LO)

LOG_DEF = "MCLogTable == (" + " @@ ".join(f"({e}) :> {v}" for e, v in sorted(LOG_TABLE.items())) + ")"
TRACE_DEFS = LOG_DEF + "\nMCPatterns == << >>\nMCScaleSeq == << 0 >>"

LAYOUTS = {"R2": [(2, True)], "R1N1": [(1, True), (1, False)], "N1R2": [(1, False), (2, True)], "N2": [(2, False)],
           "R1N1R1": [(1, True), (1, False), (1, True)], "R3": [(3, True)], "R2N1R1": [(2, True), (1, False), (1, True)],
           "N1R2N1": [(1, False), (2, True), (1, False)], "R2R2": [(2, True), (2, True)], "R1N2": [(1, True), (2, False)],
           "N2R2": [(2, False), (2, True)]}


# ------------------------------------------------------------------------------------------------------------
# TLC side: the bounded family
# ------------------------------------------------------------------------------------------------------------
def _tla_set(items):
    return "{" + ", ".join(items) + "}"


def _tla_seq(items):
    return "<<" + ", ".join(items) + ">>"


def mc_defs(b, patterns):
    lay = _tla_set(_tla_seq(f"[p |-> {p}, reg |-> {'TRUE' if r else 'FALSE'}]" for p, r in LAYOUTS[name]) for name in b["layouts"])
    pats = _tla_seq(_tla_seq(f"<<{d}, {m}, {e}>>" for d, m, e in p) for p in patterns)
    return "\n".join([
        "MCFullShapes == " + _tla_set(f"<<{h},{w}>>" for h, w in b["full_shapes"]),
        "MCPatShapes == " + _tla_set(f"<<{h},{w}>>" for h, w in b["pattern_shapes"]),
        "MCInvShapes == " + _tla_set(f"<<{h},{w}>>" for h, w in b["inversion_shapes"]),
        f"MCVals == {b['values'][0]} .. {b['values'][1]}",
        "MCExps == " + _tla_set(str(e) for e in b["noise_exponents"]),
        "MCSkies == " + _tla_set(str(s) for s in b["skies"]),
        "MCPatterns == " + pats,
        LOG_DEF,
        "MCLayouts == " + lay,
        "MCMVals == " + _tla_set(str(v) for v in b["design_matrix_values"]),
        "MCRegKinds == " + _tla_set(f"[z |-> {z}, c |-> {c}]" for z, c in b["reg_kinds"]),
        "MCSPats == " + _tla_set(_tla_seq(str(x) for x in sp) for sp in b["reconstruction_patterns"]),
        "MCJunkFills == " + _tla_set(str(j) for j in b["junk_fills"]),
        "MCScaleSeq == " + _tla_seq(str(k) for k in b["unit_exponents"]),
        "MCHistShapes == " + _tla_set(f"<<{h},{w}>>" for h, w in b["history_shapes"]),
        "MCHistKinds == " + _tla_set(f'"{k}"' for k in b["history_kinds"]),
    ])


def make_patterns(rng, count, cells, vals, exps):
    lo, hi = vals
    pats = []
    for k in range(count):
        pats.append([(int(rng.integers(lo, hi + 1)), int(rng.integers(lo, hi + 1)), int(exps[int(rng.integers(0, len(exps)))]))
                     for _ in range(cells)])
    # the first pattern: every cell has non-zero data and a non-zero residual, all noise levels occur
    ds = [1, 3, -2, 2, -1, 3, 1, -2, 2, 3, -1, 1]
    ms = [0, 1, 1, -1, 2, 0, 3, 0, -2, 1, 1, -2]
    pats[0] = [(max(lo, min(hi, ds[c % 12])), max(lo, min(hi, ms[c % 12])), exps[c % len(exps)]) for c in range(cells)]
    return pats


def expected_fit_instances(b, patterns):
    """number of distinct instances without inversion that the machine must enumerate"""
    nv = (b["values"][1] - b["values"][0] + 1) ** 2 * len(b["noise_exponents"])
    total = 0
    for h, w in b["full_shapes"]:
        total += sum(math.comb(h * w, k) * nv ** k for k in range(1, min(h * w, b["full_max_unmasked"]) + 1))
    for h, w in b["pattern_shapes"]:
        for bits in range(1, 2 ** (h * w)):
            cells = [c for c in range(h * w) if bits >> c & 1]
            total += len({tuple(p[c] for c in cells) for p in patterns})
    return total * len(b["skies"])


# ------------------------------------------------------------------------------------------------------------
# alpha
# ------------------------------------------------------------------------------------------------------------
def fx(x, scale=S):
    try:
        v = float(np.asarray(x, dtype=float).reshape(-1)[0]) if np.ndim(x) else float(x)
    except Exception:
        return OFF
    v *= scale
    if not math.isfinite(v) or abs(v) >= 1e9:
        return OFF
    return int(round(v))


def ai(arr, scale, tol=1e-6):
    """array -> integers arr*scale; anything not within tol of an integer (or not finite, or huge) becomes OFF"""
    a = np.asarray(arr, dtype=float) * scale
    flat = a.ravel()
    r = np.rint(flat)
    with np.errstate(invalid="ignore"):
        ok = np.isfinite(flat) & (np.abs(flat - r) <= tol) & (np.abs(r) < 1e9)
    out = np.where(ok, np.where(ok, r, 0.0), float(OFF)).astype(np.int64)
    return out.reshape(a.shape).tolist()


def afx(arr, scale=S):
    a = np.asarray(arr, dtype=float) * scale
    flat = a.ravel()
    with np.errstate(invalid="ignore"):
        ok = np.isfinite(flat) & (np.abs(flat) < 1e9)
    out = np.where(ok, np.rint(np.where(ok, flat, 0.0)), float(OFF)).astype(np.int64)
    return out.reshape(a.shape).tolist()


# ------------------------------------------------------------------------------------------------------------
# gamma: real objects
# ------------------------------------------------------------------------------------------------------------
MAPS = ("residual_map", "normalized_residual_map", "chi_squared_map", "residual_flux_fraction_map", "signal_to_noise_map")
SCALARS = ("chi_squared", "reduced_chi_squared", "noise_normalization", "log_likelihood", "log_likelihood_with_regularization",
           "log_evidence", "figure_of_merit")
READ_ORDER = ("residual_map", "normalized_residual_map", "chi_squared_map", "chi_squared", "reduced_chi_squared", "noise_normalization",
              "log_likelihood", "log_likelihood_with_regularization", "log_evidence", "figure_of_merit", "residual_flux_fraction_map",
              "signal_to_noise_map")

JUNK = {  # (data, model, noise) junk per filling, cycled over the masked cells
    1: ([1.0e30, -12345.678, 777.25, 0.0], [-3.3e10, 55.5, 1.0e-30, 9.0], [0.0, -3.0, 1.0e-20, 7.7]),
    2: ([float("nan"), 4321.5, -1.0e15, float("inf")], [11.1, float("nan"), -float("inf"), 1.0e25], [float("nan"), 0.0, -1.0, float("inf")]),
}
JUNK_POSITIVE_NOISE = [3.0, 1.0e-3, 7.7, 1.0e6]  # for the apply_mask route the whole (unmasked) frame must be a valid dataset


def _native(h, w, u, slim_vals, junk_vals):
    a = np.zeros(h * w, dtype=float)
    msk = np.ones(h * w, dtype=bool)
    msk[u] = False
    if junk_vals is not None:
        idx = np.flatnonzero(msk)
        a[idx] = [junk_vals[k % len(junk_vals)] for k in range(len(idx))]
    a[u] = slim_vals
    return a.reshape(h, w)


def make_parts(h, w, u, d, m_real, e, mode, junk, k=0):
    """Real arrays / dataset for one abstract dataset.  -> dict(mask, ds, model, use, arr) where arr(values, which) builds an
    array in the same storage format (which in data / noise / model selects the junk that fills masked cells)."""
    import autoarray as aa

    msk = np.ones(h * w, dtype=bool)
    msk[u] = False
    msk = msk.reshape(h, w)
    mask = aa.Mask2D(mask=msk, pixel_scales=1.0)
    unit = 2.0 ** k  # the dataset in units 2^k: data, model, noise (and the sky level, see _fit_on) times 2^k, exactly
    dv = np.asarray(d, dtype=float) * unit
    nv = 2.0 ** np.asarray(e, dtype=float) * unit
    mv = np.asarray(m_real, dtype=float) * unit
    if mode == "slim":
        arr = lambda v, which: aa.Array2D(values=np.asarray(v, dtype=float), mask=mask)
        if junk == 0:
            ds = aa.Imaging(data=arr(dv, "data"), noise_map=arr(nv, "noise"))
            model = arr(mv, "model")
        else:
            # the usual route: a full frame (values everywhere) masked afterwards
            jd, jm, _ = JUNK[1]
            full = aa.Imaging(data=aa.Array2D.no_mask(values=_native(h, w, u, dv, [x for x in jd if x != 0.0] + [0.0]), pixel_scales=1.0),
                              noise_map=aa.Array2D.no_mask(values=_native(h, w, u, nv, JUNK_POSITIVE_NOISE), pixel_scales=1.0))
            ds = full.apply_mask(mask=mask)
            model = aa.Array2D(values=_native(h, w, u, mv, jm), mask=mask)
        use = False
    else:
        if junk == 0:
            arr = lambda v, which: aa.Array2D(values=_native(h, w, u, np.asarray(v, dtype=float), None), mask=mask, store_native=True)
        else:
            jk = dict(zip(("data", "model", "noise"), JUNK[junk]))
            arr = lambda v, which: aa.Array2D(values=_native(h, w, u, np.asarray(v, dtype=float), jk[which]), mask=mask, store_native=True,
                                              skip_mask=True)
        ds = aa.Imaging(data=arr(dv, "data"), noise_map=arr(nv, "noise"))
        model = arr(mv, "model")
        use = True
    return {"mask": mask, "ds": ds, "model": model, "use": use, "arr": arr, "unit": unit}


def _fit_on(ds, parts, sky, junk, inversion, **kw):
    import autoarray as aa

    dm = aa.DatasetModel(background_sky_level=float(sky) * parts["unit"]) if sky != 0 or junk == 1 else None
    return aa.m.MockFitImaging(dataset=ds, use_mask_in_fit=parts["use"], model_data=kw.pop("model", parts["model"]), inversion=inversion,
                               dataset_model=dm, **kw)


def build_fit(h, w, u, d, m_real, e, sky, mode, junk, inversion, k=0):
    """-> FitImaging subclass instance.  d, e integers per unmasked pixel; m_real floats per unmasked pixel; units 2^k."""
    parts = make_parts(h, w, u, d, m_real, e, mode, junk, k)
    return _fit_on(parts["ds"], parts, sky, junk, inversion)


# ---- dataset histories (gamma of PredDataset / Precede in Fit.tla) -------------------------------------------
SAME_FRAME_KINDS = ("same-object-other-noise-map", "copy-with-reassigned-arrays", "same-object-reassigned-arrays")
HIST_KINDS = SAME_FRAME_KINDS + ("derived-by-apply-mask", "derived-by-trimming")


def alt_e(e):
    return [-1] * len(e) if all(x == 1 for x in e) else [1 if x == 1 else x + 1 for x in e]


def fill_e(lin):
    return (lin % 3) - 1


def fill_d(lin):
    return (2 * lin) % 6 - 2


def fill_m(lin):
    return (lin % 4) - 1


def pred_dataset(kind, h, w, u, d, m, e):
    """the dataset fitted BEFORE the judged one (mirror of PredDataset in Fit.tla, plus data and model values)"""
    if kind in SAME_FRAME_KINDS:
        d0 = list(d) if kind == "same-object-other-noise-map" else [3 - x for x in d]
        return {"h": h, "w": w, "u": list(u), "d": d0, "m": list(m), "e": alt_e(e)}
    if kind == "derived-by-apply-mask":
        pos = {c: k for k, c in enumerate(u)}
        cells = list(range(h * w))
        return {"h": h, "w": w, "u": cells, "d": [d[pos[c]] if c in pos else fill_d(c) for c in cells],
                "m": [m[pos[c]] if c in pos else fill_m(c) for c in cells], "e": [e[pos[c]] if c in pos else fill_e(c) for c in cells]}
    H2, W2 = h + 2, w + 2
    inner = {(c // w + 1) * W2 + (c % w + 1): k for k, c in enumerate(u)}
    ring = [i * W2 + j for i in range(H2) for j in range(W2) if (i in (0, H2 - 1) or j in (0, W2 - 1)) and (i * W2 + j) % 2 == 0]
    u0 = sorted(set(inner) | set(ring))
    return {"h": H2, "w": W2, "u": u0, "d": [d[inner[c]] if c in inner else fill_d(c) for c in u0],
            "m": [m[inner[c]] if c in inner else fill_m(c) for c in u0], "e": [e[inner[c]] if c in inner else fill_e(c) for c in u0]}


def history_fits(kind, h, w, u, d, m_real, e, sky, mode, junk, k=0):
    """-> [(earlier fit, its own abstract dataset), (judged fit, None)]; the earlier fit must be READ before the judged fit is built
    where the history says so - the caller reads each fit as soon as it is yielded (generator)."""
    import copy
    import autoarray as aa

    p = pred_dataset(kind, h, w, u, [int(x) for x in d], [int(round(x)) for x in m_real], list(e))
    if kind == "same-object-other-noise-map":
        parts = make_parts(h, w, u, d, m_real, e, mode, junk, k)
        yield _fit_on(parts["ds"], parts, sky, junk, None, noise_map=parts["arr"](2.0 ** np.asarray(p["e"], dtype=float) * parts["unit"], "noise")), p
        yield _fit_on(parts["ds"], parts, sky, junk, None), None
    elif kind in ("copy-with-reassigned-arrays", "same-object-reassigned-arrays"):
        parts = make_parts(h, w, u, p["d"], p["m"], p["e"], mode, junk, k)
        yield _fit_on(parts["ds"], parts, sky, junk, None), p
        ds = copy.copy(parts["ds"]) if kind.startswith("copy") else parts["ds"]
        ds.data = parts["arr"](np.asarray(d, dtype=float) * parts["unit"], "data")
        ds.noise_map = parts["arr"](2.0 ** np.asarray(e, dtype=float) * parts["unit"], "noise")
        yield _fit_on(ds, parts, sky, junk, None, model=parts["arr"](np.asarray(m_real, dtype=float) * parts["unit"], "model")), None
    elif kind == "derived-by-apply-mask":
        full = make_parts(p["h"], p["w"], p["u"], p["d"], p["m"], p["e"], "slim", 0, k)
        yield _fit_on(full["ds"], full, sky, 0, None), p
        own = make_parts(h, w, u, d, m_real, e, "slim", 0, k)
        yield _fit_on(full["ds"].apply_mask(mask=own["mask"]), own, sky, 0, None), None
    else:  # derived-by-trimming
        H2, W2 = p["h"], p["w"]
        big = aa.Imaging(data=aa.Array2D.no_mask(values=_native(H2, W2, p["u"], np.asarray(p["d"], dtype=float) * 2.0 ** k, [7.0, -3.0]), pixel_scales=1.0),
                         noise_map=aa.Array2D.no_mask(values=_native(H2, W2, p["u"], 2.0 ** np.asarray(p["e"], dtype=float) * 2.0 ** k, JUNK_POSITIVE_NOISE),
                                                      pixel_scales=1.0))
        bp = make_parts(H2, W2, p["u"], p["d"], p["m"], p["e"], "slim", 0, k)
        ds0 = big.apply_mask(mask=bp["mask"])
        yield _fit_on(ds0, bp, sky, 0, None), p
        own = make_parts(h, w, u, d, m_real, e, "slim", 0, k)
        ds = ds0.trimmed_after_convolution_from(kernel_shape=(3, 3))
        yield _fit_on(ds, own, sky, 0, None), None


# read orders: the definitions do not depend on which quantity a caller looks at first, nor on how often
ORDERS = {
    "canonical": READ_ORDER,
    "maps-first": ("signal_to_noise_map", "residual_flux_fraction_map", "normalized_residual_map", "chi_squared_map", "residual_map",
                   "figure_of_merit", "log_evidence", "log_likelihood_with_regularization", "log_likelihood", "noise_normalization",
                   "reduced_chi_squared", "chi_squared"),
    "reversed": tuple(reversed(READ_ORDER)),
    "twice": ("signal_to_noise_map", "figure_of_merit") + READ_ORDER,  # then everything once more (see records_for)
}
ORDER_NAMES = ("canonical", "maps-first", "reversed", "twice")


def read_fit(fit, order="canonical"):
    raw = {}
    with np.errstate(all="ignore"):
        for nm in ORDERS[order]:
            v = getattr(fit, nm)
            if nm in MAPS:
                v = np.array(v.array if hasattr(v, "array") else v, dtype=float).ravel()
            raw[nm] = v
    return raw


def _eq(a, b):
    if a is None or b is None:
        return a is None and b is None
    a = np.asarray(a, dtype=float)
    b = np.asarray(b, dtype=float)
    return a.shape == b.shape and bool(np.array_equal(a, b, equal_nan=True))


def same_as(raw, ref, sel):
    """bit-for-bit: every statistic, every map on the unmasked cells (masked cells too, except signal-to-noise)"""
    for nm in READ_ORDER:
        a, b = raw[nm], ref[nm]
        if nm == "signal_to_noise_map" and sel is not None and np.ndim(a) == 1 and np.ndim(b) == 1 and len(a) == len(b) and len(a) > max(sel):
            a, b = np.asarray(a)[sel], np.asarray(b)[sel]
        if not _eq(a, b):
            return False
    return True


# ---- inversions ---------------------------------------------------------------------------------------------
def mock_inversion(spec):
    """AbstractInversion code fed with the instance's matrices: spec = {objs:[{p,reg}], FH, H, s, sc, ss}"""
    import autoarray as aa

    sc, ss = float(spec["sc"]), float(spec["ss"])
    Hm = np.array(spec["H"], dtype=float).reshape(len(spec["s"]), len(spec["s"])) / sc
    lin, off, instances = [], 0, {}
    rid = spec.get("rid") or [j + 1 if o["reg"] else 0 for j, o in enumerate(spec["objs"])]
    for o, ri in zip(spec["objs"], rid):
        p = o["p"]
        reg = None
        if o["reg"]:
            # objects with the same instance id share ONE regularization object (Fit.tla only shares identical blocks)
            if ri not in instances:
                instances[ri] = aa.m.MockRegularization(regularization_matrix=Hm[off:off + p, off:off + p].copy())
            reg = instances[ri]
        lin.append(aa.m.MockLinearObj(parameters=p, regularization=reg))
        off += p
    return aa.m.MockInversion(linear_obj_list=lin, curvature_reg_matrix=np.array(spec["FH"], dtype=float) / sc,
                              reconstruction=np.array(spec["s"], dtype=float) / ss)


def real_inversion(spec):
    """spec = {inst: inv_common instance, regs: [None | ["zeroth", c] | ["constant_zeroth", cn, cz] | ["constant", c]],
               w_tilde: bool, positive_only: bool}"""
    import autoarray as aa

    ds, objs, skw = ic.build(spec["inst"])
    shared = {}
    for lo, rg in zip(objs, spec["regs"]):
        if rg is None:
            lo.regularization = None
            continue
        if spec.get("share") and tuple(rg) in shared:
            lo.regularization = shared[tuple(rg)]  # the SAME regularization instance given to several linear objects
            continue
        if rg[0] == "zeroth":
            lo.regularization = aa.reg.Zeroth(coefficient=rg[1])
        elif rg[0] == "constant_zeroth":
            lo.regularization = aa.reg.ConstantZeroth(coefficient_neighbor=rg[1], coefficient_zeroth=rg[2])
        else:
            lo.regularization = aa.reg.Constant(coefficient=rg[1])
        shared[tuple(rg)] = lo.regularization
    st = aa.SettingsInversion(use_w_tilde=spec["w_tilde"], use_positive_only_solver=spec["positive_only"], **skw)
    return aa.Inversion(dataset=ds, linear_obj_list=objs, settings=st), ds


def _pow2_floor(x):
    return 2 ** int(math.floor(math.log2(x))) if x >= 1 else 1


def read_inversion(inv, objs_abs, lat, sc, sx, ss_given):
    """alpha of what the inversion object reports"""
    out = {"objs": objs_abs, "lat": bool(lat), "sc": int(sc), "sx": bool(sx)}
    ids = {}
    out["rid"] = [0 if lo.regularization is None else ids.setdefault(id(lo.regularization), j + 1) for j, lo in enumerate(inv.linear_obj_list)]
    with np.errstate(all="ignore"):
        reg = inv.regularization_term
        ldc = inv.log_det_curvature_reg_matrix_term
        ldr = inv.log_det_regularization_matrix_term
        FH = np.array(inv.curvature_reg_matrix, dtype=float)
        Hm = np.array(inv.regularization_matrix, dtype=float)
        FHr = np.array(inv.curvature_reg_matrix_reduced, dtype=float)
        Hr = np.array(inv.regularization_matrix_reduced, dtype=float)
        s = np.array(inv.reconstruction, dtype=float).ravel()
    P = sum(o["p"] for o in objs_abs)
    nr = sum(o["p"] for o in objs_abs if o["reg"])
    mat = (lambda a: ai(a, sc, tol=1e-5)) if lat else (lambda a: afx(a, sc))
    out["FH"], out["H"] = mat(FH), mat(Hm)
    out["FHr"] = mat(FHr) if FHr.size else []
    out["Hr"] = mat(Hr) if Hr.size else []
    # scale of the reconstruction: a power of two keeping s' |H| s below 2^29 in the units of the record
    if sx:
        ss = ss_given
        out["s"] = ai(s, ss, tol=1e-9)
    else:
        habs = float(np.sum(np.abs(Hm))) * sc + 1.0
        smax = float(np.max(np.abs(s))) if s.size and np.all(np.isfinite(s)) else 1.0
        ss = max(1, min(4096, _pow2_floor(math.sqrt(2.0 ** 29 / habs) / (smax + 1e-3) * 0.9 + 1e-9)))
        out["s"] = afx(s, ss)
    out["ss"] = int(ss)
    out["regq"] = fx(reg, ss * ss * sc) if lat else 0
    if lat:
        # exp abstraction of the log determinants (scale sc^nr makes the determinant of the integer matrix)
        def ex(ld):
            try:
                v = math.exp(float(ld)) * float(sc) ** nr
            except Exception:
                return OFF
            return int(round(v)) if math.isfinite(v) and v < 2.0e9 else OFF
        out["detc"], out["detr"] = ex(ldc), ex(ldr)
    else:
        out["detc"], out["detr"] = 0, 0
    out["reg_fix"], out["ldc_fix"], out["ldr_fix"] = fx(reg), fx(ldc), fx(ldr)
    return out


# ------------------------------------------------------------------------------------------------------------
# one instance -> records
# ------------------------------------------------------------------------------------------------------------
def _inv_for(src):
    """-> (inversion object or None, abstract object list, lat, sc, sx, ss, real model or None)"""
    k = src["inv"]["kind"]
    if k == "none":
        return None, [], False, 1, False, 1
    if k == "mock":
        sp = src["inv"]
        return mock_inversion(sp), sp["objs"], True, sp["sc"], True, sp["ss"]
    sp = src["inv"]
    inv, _ = real_inversion(sp)
    objs_abs = []
    for o, rg in zip(sp["inst"]["objs"], sp["regs"]):
        p = o["mesh"][0] * o["mesh"][1] if o["type"] == "mapper" else len(o["M"][0])
        objs_abs.append({"p": int(p), "reg": rg is not None})
    return inv, objs_abs, bool(sp["lat"]), int(sp["sc"]), False, 1


def records_for(src):
    """src: {h,w,u,d,e,sky,m (ints) | mk:"real", inv:{kind:...}, modes:[[mode,junk],...]}"""
    h, w, u, d, e, sky = src["h"], src["w"], src["u"], src["d"], src["e"], src["sky"]
    n = len(u)
    k = int(src.get("k", 0)) if src.get("mk", "int") == "int" else 0  # units 2^k (a real-valued model has its own units)
    inversion, objs_abs, lat, sc, sx, ss = _inv_for(src)
    invrec = None
    if src["inv"]["kind"] == "real":
        # the solver and its failure modes belong to C05: an instance it cannot solve is not a C08 instance
        try:
            with np.errstate(all="ignore"):
                s0 = np.asarray(inversion.reconstruction, dtype=float)
            if not np.all(np.isfinite(s0)):
                return []
        except Exception:
            return []
    mk = src.get("mk", "int")
    if mk == "real":
        with np.errstate(all="ignore"):
            mimg = inversion.mapped_reconstructed_image
            m_real = np.array(mimg.slim.array if hasattr(mimg, "slim") else mimg, dtype=float).ravel()
        if len(m_real) != n:
            raise core.MachineryError("mapped reconstructed image does not have one value per unmasked pixel")
    else:
        m_real = np.asarray(src["m"], dtype=float)
    recs = []
    # src["plan"]: evaluations {mode, junk, order, second, hist}.  Orders rotate over instances and evaluations; "twice" reads
    # everything a second time (the record carries the LAST read, `stable` says the reads agree bit for bit); `second` builds a
    # second fit on the SAME dataset object afterwards; `hist` runs the evaluation after a dataset history (the earlier fit is
    # read completely first and judged against ITS arrays).
    evals = []  # (judged dataset dict, mode, junk, order, nth, hist, step, raw, stable, same, exception)
    own = {"h": h, "w": w, "u": list(u), "d": list(d), "e": list(e)}
    for pl in src["plan"]:
        mode, junk, order, hist = pl["mode"], pl["junk"], pl["order"], pl.get("hist", "none")
        try:
            if hist != "none":
                step = 0
                for fit, pred in history_fits(hist, h, w, u, d, m_real, e, sky, mode, junk, k):
                    # (the planner gives derived histories to slim, junk-free evaluations only)
                    raw = read_fit(fit, order if pred is None else "canonical")
                    evals.append((pred if pred is not None else own, mode, junk, order if pred is None else "canonical", 1, hist, step, raw,
                                  True, True, None))
                    step += 1
                continue
            fit = build_fit(h, w, u, d, m_real, e, sky, mode, junk, inversion, k)
            raw = read_fit(fit, order)
            stable = True
            if order == "twice":
                raw2 = read_fit(fit, "canonical")
                stable = same_as(raw2, raw, None)
                raw = raw2
            if inversion is not None and invrec is None:
                invrec = read_inversion(inversion, objs_abs, lat, sc, sx, ss)
            same = True
            if junk != 0:
                # bit-for-bit against a clean evaluation of the same mode (not recorded again)
                ref = read_fit(build_fit(h, w, u, d, m_real, e, sky, mode, 0, inversion, k), "canonical")
                same = bool(same_as(raw, ref, u if mode == "native" else None))
            evals.append((own, mode, junk, order, 1, "none", 0, raw, stable, same, None))
            if pl.get("second"):
                import autoarray as aa

                fit_b = aa.m.MockFitImaging(dataset=fit.dataset, use_mask_in_fit=fit.use_mask_in_fit, model_data=fit.model_data,
                                            inversion=inversion, dataset_model=fit.dataset_model)
                evals.append((own, mode, junk, "canonical", 2, "none", 0, read_fit(fit_b, "canonical"), True, True, None))
        except Exception as ex:  # the property gives no licence to raise on a valid dataset
            evals.append((own, mode, junk, order, 1, hist, 1 if hist != "none" else 0, None, True, True, ex))
    for jd, mode, junk, order, nth, hist, step, raw, stable, same, ex in evals:
        is_pred = hist != "none" and step == 0
        has_inv = inversion is not None and hist == "none"
        rec = {"p": "C08", "api": "fit", "h": jd["h"], "w": jd["w"], "u": list(jd["u"]), "mode": mode, "junk": int(junk), "mk": mk,
               "d": list(jd["d"]), "e": list(jd["e"]), "sky": int(sky), "hasinv": has_inv, "raised": "", "same": bool(same), "order": order,
               "nth": nth, "stable": bool(stable), "hist": hist, "step": int(step), "scale": k}
        if mk == "int":
            rec["m"] = [int(x) for x in (jd["m"] if is_pred else src["m"])]
        if ex is not None:
            rec["raised"] = type(ex).__name__ + ": " + str(ex)[:120]
            if has_inv:
                rec["inv"] = {"objs": objs_abs}
            rec.update({"res": [], "nres2": [], "chi2map4": [], "sn2": [], "chi2q": OFF, "chi2_fix": OFF, "rchi2_fix": OFF,
                        "nn_fix": OFF, "ll_fix": OFF, "fom_fix": OFF, "res_fix": [], "chi2map_fix": [], "m_fix": []})
            recs.append(rec)
            continue
        if mk == "int":
            rec["res"] = ai(raw["residual_map"], 2.0 ** (-k))  # exact: the only map that carries the unit
            rec["nres2"] = ai(raw["normalized_residual_map"], 2)
            rec["chi2map4"] = ai(raw["chi_squared_map"], 4)
            rec["sn2"] = ai(raw["signal_to_noise_map"], 2)
            rff = {k: rec[k] for k in ("p", "h", "w", "u", "mode", "junk", "mk", "d", "e", "sky", "m", "raised", "order", "nth", "hist", "step", "scale")}
            rff.update({"api": "rff", "hasinv": False, "rff": ai(raw["residual_flux_fraction_map"], RFF_DEN, tol=1e-6)})
            c4 = ai([raw["chi_squared"]], 4)[0] if raw["chi_squared"] is not None else OFF
            rec["chi2q"] = c4
        else:
            rec["m_fix"] = afx(m_real)
            rec["res_fix"] = afx(raw["residual_map"])
            rec["chi2map_fix"] = afx(raw["chi_squared_map"])
        rec["chi2_fix"] = fx(raw["chi_squared"]) if raw["chi_squared"] is not None else OFF
        rec["rchi2_fix"] = fx(raw["reduced_chi_squared"]) if raw["reduced_chi_squared"] is not None else OFF
        rec["nn_fix"] = fx(raw["noise_normalization"]) if raw["noise_normalization"] is not None else OFF
        rec["ll_fix"] = fx(raw["log_likelihood"]) if raw["log_likelihood"] is not None else OFF
        rec["fom_fix"] = fx(raw["figure_of_merit"]) if raw["figure_of_merit"] is not None else OFF
        if has_inv:
            iv = dict(invrec)
            iv["ev_fix"] = fx(raw["log_evidence"]) if raw["log_evidence"] is not None else OFF
            iv["llreg_fix"] = fx(raw["log_likelihood_with_regularization"]) if raw["log_likelihood_with_regularization"] is not None else OFF
            rec["inv"] = iv
        recs.append(rec)
        if mk == "int":
            recs.append(rff)
    for r in recs:
        r["_src"] = src
    return recs


def _many(srcs):
    out = []
    for s in srcs:
        out.extend(records_for(s))
    return out


# ------------------------------------------------------------------------------------------------------------
# instance sources
# ------------------------------------------------------------------------------------------------------------
def _key(src, seed):
    """deterministic rotation key of an instance (content and VERIF_SEED, not the order in which TLC printed it)"""
    import zlib

    txt = repr((src["h"], src["w"], tuple(src["u"]), tuple(src["d"]), tuple(src.get("m", ())), tuple(src["e"]), src["sky"], src["inv"].get("kind"),
                str(src["inv"].get("FH")), str(src["inv"].get("s")), str(src["inv"].get("rid")), seed))
    return zlib.crc32(txt.encode())


def make_plan(src, seed, hist=None, both_modes=False):
    """Which evaluations of an instance are replayed.  Every instance is evaluated in slim mode and in masked-native mode; junk
    fillings, the apply_mask route, read orders, the second fit on the same dataset object and (for a share, or as TLC says)
    dataset histories ROTATE over the instances instead of multiplying them."""
    k = _key(src, seed)
    h, w, u = src["h"], src["w"], src["u"]
    masked = len(u) < h * w
    o1, o2 = ORDER_NAMES[k % 4], ORDER_NAMES[(k // 4 + 1 + k % 4) % 4]
    slim = {"mode": "slim", "junk": (k // 16) % 2, "order": o1, "second": o1 == "twice" and (k // 32) % 2 == 0, "hist": "none"}
    nat = {"mode": "native", "junk": (k // 64) % 3 if masked else 0, "order": o2, "second": o2 == "twice" and (k // 32) % 2 == 1, "hist": "none"}
    if src["inv"]["kind"] != "none" and not both_modes:
        return [dict(slim, junk=0) if (k // 128) % 2 else dict(nat, junk=0)]
    plan = [slim, nat]
    plain = src["inv"]["kind"] == "none" and src.get("mk", "int") == "int"
    if hist is None and plain and (k // 256) % 4 == 0:
        hist = HIST_KINDS[(k // 1024) % len(HIST_KINDS)]
    if hist == "derived-by-apply-mask" and not masked:
        hist = "derived-by-trimming"  # a parent differs from its apply_mask child only if the child masks something
    if hist is not None and hist != "none" and plain:
        if hist in SAME_FRAME_KINDS:
            tgt = plan[(k // 8192) % 2]
            plan.append(dict(tgt, hist=hist, second=False))
        else:
            plan.append({"mode": "slim", "junk": 0, "order": o2, "second": False, "hist": hist})
    return plan


def src_from_tlc(r, k, seed):
    src = {"h": r["h"], "w": r["w"], "u": r["u"], "d": r["d"], "m": r["m"], "e": r["e"], "sky": r["sky"], "mk": "int",
           "inv": {"kind": "none"}, "origin": "tlc", "k": int(r["scale"])}
    hist = "none"
    if r["hist"]:
        st = r["hist"][0]
        hist = st["op"]
        p = pred_dataset(hist, r["h"], r["w"], r["u"], r["d"], r["m"], r["e"])
        if (p["h"], p["w"], p["u"], p["e"]) != (st["h"], st["w"], st["u"], st["e"]):
            raise core.MachineryError(f"driver and Fit.tla disagree on the dataset fitted before ({hist}): {p} vs {st}")
    if r["hasinv"]:
        v = r["inv"]
        kk = _key(src, 0) + len(str(v["FH"]))
        # gamma: matrices at scale sc (1 or 4), reconstruction at scale 2 (dyadic, exact)
        src["inv"] = {"kind": "mock", "objs": [{"p": o["p"], "reg": bool(o["reg"])} for o in v["objs"]], "FH": v["FH"], "H": v["H"],
                      "s": v["s"], "rid": v["rid"], "sc": 4 if kk % 2 else 1, "ss": 2 if kk % 3 else 1}
    if hist != "none":
        # the history instance as enumerated by TLC: only the evaluation after the history (the plain evaluations of this
        # dataset come with its history-free twin)
        pl = make_plan(src, seed, hist=hist)
        src["plan"] = [x for x in pl if x["hist"] != "none"]
    else:
        src["plan"] = make_plan(src, seed, hist="none" if (r["h"], r["w"]) in HIST_SHAPES_SEEN else None)
    return src


HIST_SHAPES_SEEN = set()
# units 2^k: from far below the absolute tolerances people write (1e-8 ~ 2^-27) to large counts
UNIT_EXPONENTS = [0, -40, 30, -27, 11, -33, 1, -9, 22, -37]


def random_fit_sources(rng, count, max_side, seed):
    out = []
    for k in range(count):
        h = int(rng.integers(2, max_side + 1))
        w = int(rng.integers(2, max_side + 1))
        dens = [0.2, 0.5, 0.8, 1.0][k % 4]
        m = rng.random(h * w) < dens
        if k % 7 == 3:
            m[:] = False
            m[-1] = True  # a single unmasked pixel in the last cell
        if not m.any():
            m[int(rng.integers(0, h * w))] = True
        u = [int(x) for x in np.flatnonzero(m)]
        n = len(u)
        src = {"h": h, "w": w, "u": u, "d": [int(x) for x in rng.integers(-2, 4, size=n)], "m": [int(x) for x in rng.integers(-2, 4, size=n)],
               "e": [int(x) for x in rng.integers(-1, 2, size=n)], "sky": int(rng.integers(-2, 3)) if n <= 36 else int(rng.integers(-1, 2)),
               "mk": "int", "inv": {"kind": "none"}, "origin": "random", "k": UNIT_EXPONENTS[(k + seed) % len(UNIT_EXPONENTS)]}
        # larger frames: a history for every second dataset (the trimmed parent stays within the fixed-point range: <= 8x8 parents)
        hist = HIST_KINDS[(k // 2) % len(HIST_KINDS)] if k % 2 == 0 else "none"
        if hist == "derived-by-trimming" and (h > 6 or w > 6):
            hist = "derived-by-apply-mask"
        src["plan"] = make_plan(src, seed, hist=hist)
        out.append(src)
    return out


def plan_from_modes(src, modes, seed):
    k = _key(src, seed)
    return [{"mode": mo, "junk": ju, "order": ORDER_NAMES[(k + j) % 4], "second": False, "hist": "none"} for j, (mo, ju) in enumerate(modes)]


def lattice_inversion_source(rng, k):
    """a REAL inversion whose (F+H) and H are small integers / sc: 1x1 (or two-entry) PSF, sub size 1, meshes with <= 4 cells,
    Zeroth / ConstantZeroth regularization with dyadic coefficients, at most 4 regularised parameters"""
    H = W = 5
    kernel = [[[1]], [[1]], [[0, 1, 1]], [[1], [1], [0]]][k % 4]
    kh, kw = len(kernel), len(kernel[0])
    cand = [(i, j) for i in range(max(1, kh // 2), H - max(1, kh // 2)) for j in range(max(1, kw // 2), W - max(1, kw // 2))]
    while True:
        sel = [c for c in cand if rng.random() < 0.6]
        if len(sel) >= 2:
            break
    u = sorted(i * W + j for i, j in sel)
    n = len(u)
    layout = ["m", "mf", "fm", "fmf", "mm", "f", "mF", "Fm", "F"][k % 9]  # F = regularised function list
    objs, regs, nreg = [], [], 0
    for ch in layout:
        if ch == "m":
            my, mx = [(1, 2), (2, 1), (2, 2), (1, 3)][int(rng.integers(0, 4))]
            if nreg + my * mx > 4:
                my, mx = 1, 2
            if nreg + my * mx > 4:
                continue
            nreg += my * mx
            objs.append({"type": "mapper", "mesh": [my, mx], "sub": 1, "cells": [int(x) for x in rng.integers(0, my * mx, size=n)], "reg": True})
            c = [0.5, 1.0, 2.0]
            regs.append(["zeroth", c[int(rng.integers(0, 3))]] if rng.random() < 0.5
                        else ["constant_zeroth", c[int(rng.integers(0, 2))], c[int(rng.integers(0, 3))]])
        else:
            p = int(rng.integers(1, 3))
            isreg = ch == "F" and nreg + p <= 4
            nreg += p if isreg else 0
            objs.append({"type": "func", "M": rng.integers(-1, 3, size=(n, p)).astype(int).tolist(), "me": 0, "reg": bool(isreg)})
            regs.append(["zeroth", [0.5, 1.0, 2.0][int(rng.integers(0, 3))]] if isreg else None)
    if not objs:
        return lattice_inversion_source(rng, k + 1)
    inst = {"H": H, "W": W, "u": [int(x) for x in u], "K": kernel, "sig_e": [int(x) for x in rng.integers(0, 2, size=n)],
            "d": [int(x) for x in rng.integers(0, 6, size=n)], "E": int(rng.integers(1, 3)), "objs": objs}
    sc = 4 * 4 ** (-ic.kernel_ke(kernel))
    # one regularization INSTANCE shared by all regularised objects of the list (every second list with >= 2 of them)
    reg_objs = [j for j, rg in enumerate(regs) if rg is not None]
    share = len(reg_objs) >= 2 and (k // 9) % 2 == 0
    if share:
        r0 = regs[reg_objs[0]]
        if any(objs[j]["type"] == "func" for j in reg_objs) or r0[0] != "zeroth":
            r0 = ["zeroth", [0.5, 1.0, 2.0][k % 3]] if any(objs[j]["type"] == "func" for j in reg_objs) else r0
        for j in reg_objs:
            regs[j] = list(r0)
    real_model = bool(k % 3 == 0)
    src = {"h": H, "w": W, "u": inst["u"], "d": inst["d"], "e": inst["sig_e"], "sky": int([0, 0, 1, -2][k % 4]),
           "mk": "real" if real_model else "int",
           "inv": {"kind": "real", "inst": inst, "regs": regs, "w_tilde": bool((k // 2) % 2), "positive_only": bool(k % 5 != 0), "lat": True, "sc": int(sc),
                   "share": bool(share)},
           "origin": "real-lattice", "k": UNIT_EXPONENTS[(k // 2) % len(UNIT_EXPONENTS)]}
    if not real_model:
        src["m"] = [int(x) for x in rng.integers(-2, 4, size=n)]
    src["modes"] = [("slim", 0)] if real_model else [("slim", 0), ("native", [0, 1, 2][k % 3])]
    return src


def generic_inversion_source(rng, k):
    """inv_common's general family (3x3 / 3x4 meshes, Constant regularization, function lists, PSFs, sub sizes): compositions and
    the reduced index set only (matrices in fixed point)"""
    inst = ic.random_instance(rng, H=7, W=7, interior=3, layouts=("m", "mf", "fm", "fmf", "mm"), kshapes=((1, 1), (3, 3), (1, 3)), signed_kernel=False)
    inst["d"] = [abs(int(x)) for x in inst["d"]]
    regs = [(["constant", 1.0] if o["reg"] else None) for o in inst["objs"]]
    if all(r is None for r in regs):
        regs[0] = ["constant", 1.0]
    n = len(inst["u"])
    real_model = bool(k % 2)
    src = {"h": 7, "w": 7, "u": inst["u"], "d": inst["d"], "e": inst["sig_e"], "sky": int([0, 1][k % 2]), "mk": "real" if real_model else "int",
           "inv": {"kind": "real", "inst": inst, "regs": regs, "w_tilde": bool(k % 2), "positive_only": True, "lat": False, "sc": 1024},
           "origin": "real-generic", "modes": [("slim", 0)]}
    if not real_model:
        src["m"] = [int(x) for x in rng.integers(-2, 4, size=n)]
        src["modes"] = [("slim", 0), ("native", 2)]
    return src


# ------------------------------------------------------------------------------------------------------------
# validation
# ------------------------------------------------------------------------------------------------------------
def _describe(rec):
    s = f"{'residual_flux_fraction_map of ' if rec['api'] == 'rff' else ''}fit[units 2^{rec.get('scale')}, {rec['mode']}, junk={rec['junk']}, model={rec['mk']}, read order={rec.get('order')}, fit #{rec.get('nth')} on its dataset, history={rec.get('hist')}/{rec.get('step')}] on {rec['h']}x{rec['w']} u={rec['u']} d={rec['d']} e={rec['e']} sky={rec['sky']}"
    if rec.get("mk") == "int":
        s += f" m={rec.get('m')}"
    if rec["hasinv"]:
        s += f" inversion objs={[(o['p'], o['reg']) for o in rec['inv']['objs']]} ({rec['_src']['inv']['kind']})"
    if rec["raised"]:
        s += f" RAISED {rec['raised']}"
    return s


def validate(ctx, records, tag, chunk=3000):
    import concurrent.futures as cf

    for n, r in enumerate(records):
        r["id"] = n
    clean = [{k: v for k, v in r.items() if k != "_src"} for r in records]
    chunks = [clean[k: k + chunk] for k in range(0, len(clean), chunk)]
    rejects = []

    def one(args):
        k, ch = args
        _, rej = ctx.validate_trace("Trace_Fit", TRACE_CFG, ch, tag=f"{tag}-{k}", timeout=1800, defs=TRACE_DEFS)
        return rej

    with cf.ThreadPoolExecutor(max_workers=min(16, len(chunks) or 1)) as ex:
        for rej in ex.map(one, list(enumerate(chunks))):
            rejects.extend(rej)
    for rj in rejects:
        rec = records[rj["id"]]
        ctx.violation(rj["sig"], f"{_describe(rec)}: failed {rj['clauses']}",
                      {"source": rec["_src"], "record": clean[rj["id"]], "failed_clauses": rj["clauses"], "spec_wanted": rj.get("want")},
                      cls=",".join(rj["clauses"]))
    return rejects


def _det_decidable(iv):
    """mirror of DetSafe in Fit.tla (only for reporting how many records the determinant clauses decided)"""
    idx, off = [], 0
    for o in iv["objs"]:
        if o["reg"]:
            idx += list(range(off, off + o["p"]))
        off += o["p"]
    nr = len(idx)
    if nr > 4:
        return False
    lim = 20000 if nr <= 2 else (500 if nr == 3 else 96)
    for M in (iv["FH"], iv["H"]):
        if any(abs(M[a][b_]) > lim for a in idx for b_ in idx):
            return False
    return True


# ------------------------------------------------------------------------------------------------------------
def run(ctx):
    quick = ctx.quick
    rng = np.random.default_rng(ctx.seed)
    b = {
        "full_shapes": [(1, 1), (1, 2), (2, 2)] if quick else [(1, 1), (1, 2), (2, 1)],
        "full_max_unmasked": 1 if quick else 2,
        "pattern_shapes": [(2, 3), (1, 4), (3, 3)] if quick else [(2, 2), (2, 3), (3, 2), (1, 4), (3, 3), (2, 4)],
        "inversion_shapes": [(1, 2)],
        "values": [-2, 3], "noise_exponents": [-1, 0, 1],
        "skies": [-1, 0, 2],
        "patterns": 4 if quick else 8,
        "layouts": ["R2", "R1N1", "N1R2", "N2", "R1N1R1", "R1N2"] if quick
        else ["R2", "R1N1", "N1R2", "N2", "R1N1R1", "R1N2", "R3", "R2N1R1", "N1R2N1", "R2R2", "N2R2"],
        "design_matrix_values": [0, 1], "design_matrix_rows": 2,
        "reg_kinds": [(1, 0), (4, 0), (4, 1)],
        "reconstruction_patterns": [[1, 2, 3, 1], [3, 0, 2, 5]],
        "junk_fills": [0, 1, 2],
        "unit_exponents": UNIT_EXPONENTS,
        "history_shapes": [(2, 3)] if quick else [(2, 2), (2, 3), (1, 4)], "history_kinds": list(HIST_KINDS),
        "random_datasets": 250 if quick else 6000, "random_max_side": 6 if quick else 8,
        "real_lattice_inversions": 90 if quick else 1500, "real_generic_inversions": 16 if quick else 120,
    }
    ctx.bounds = b
    patterns = make_patterns(rng, b["patterns"], 12, b["values"], b["noise_exponents"])
    cfg = lambda memo, tail=MC_CFG_TAIL, by_inst="FALSE": MC_CFG % (b["full_max_unmasked"], S, b["design_matrix_rows"], memo, ctx.seed % 1000,
                                                                     LN2_HI, LN2_LO, by_inst) + tail
    res = ctx.tlc("Fit", cfg("FALSE"), defs=mc_defs(b, patterns), tag="MC_Fit", timeout=3000)
    insts = res.by_kind("inst")
    plain = [r for r in insts if not r["hist"]]
    n_fit = sum(1 for r in plain if not r["hasinv"])
    n_inv = len(plain) - n_fit
    n_hist = len(insts) - len(plain)
    want = expected_fit_instances(b, patterns)
    J = len(b["junk_fills"])
    # states: instance + its evaluations; per history of a history-shape instance: the state after the earlier fit + evaluations
    states = len(plain) * (2 + J) + sum(2 + (J if r["hist"][0]["op"] in SAME_FRAME_KINDS else 0) for r in insts if r["hist"])
    hist_twins = sum(1 for r in plain if not r["hasinv"] and (r["h"], r["w"]) in {tuple(x) for x in b["history_shapes"]})
    hist_twins = sum(len(b["history_kinds"]) - (1 if len(r["u"]) == r["h"] * r["w"] and "derived-by-apply-mask" in b["history_kinds"] else 0)
                     for r in plain if not r["hasinv"] and (r["h"], r["w"]) in {tuple(x) for x in b["history_shapes"]})
    if n_fit != want or res.distinct != states or n_inv == 0 or n_hist != hist_twins:
        raise core.MachineryError(f"Fit.tla enumerated {n_fit} fit instances (expected {want}) + {n_inv} with inversion + {n_hist} after a "
                                  f"dataset history (expected {hist_twins}); {res.distinct} states (expected {states})")
    if not quick:
        # the design that stores the noise normalization with the dataset object: TLC must exhibit a history that breaks it
        bm = dict(b, full_shapes=[], inversion_shapes=[], pattern_shapes=b["history_shapes"][:1], layouts=["R2"])
        bad = ctx.tlc("Fit", cfg("TRUE", "INVARIANT DatasetHistoryNeverMatters\n"), defs=mc_defs(bm, patterns), tag="MC_Fit_memoise", timeout=600, allow_errors=True)
        if not any("DatasetHistoryNeverMatters" in x for x in bad.errors):
            raise core.MachineryError(f"Memoise=TRUE was expected to violate DatasetHistoryNeverMatters: {bad.errors[:2]}")
        ctx.note("Memoise=TRUE (noise normalization stored with the dataset object): TLC exhibits a history violating DatasetHistoryNeverMatters")
        # the design that looks the block of the regularization matrix up by regularization instance: wrong when instances are shared
        bi = dict(b, full_shapes=[], pattern_shapes=[], history_shapes=[], layouts=["R1N1R1"])
        bad = ctx.tlc("Fit", cfg("FALSE", "INVARIANT SharedInstancesNeverMatter\n", "TRUE"), defs=mc_defs(bi, patterns), tag="MC_Fit_by_instance",
                      timeout=600, allow_errors=True)
        if not any("SharedInstancesNeverMatter" in x for x in bad.errors):
            raise core.MachineryError(f"RegByInstance=TRUE was expected to violate SharedInstancesNeverMatter: {bad.errors[:2]}")
        ctx.note("RegByInstance=TRUE (block looked up by regularization instance): TLC exhibits a shared instance violating SharedInstancesNeverMatter")
    ctx.exhaustive = True
    HIST_SHAPES_SEEN.clear()
    HIST_SHAPES_SEEN.update(tuple(x) for x in b["history_shapes"])
    srcs = [src_from_tlc(r, k, ctx.seed) for k, r in enumerate(insts)]
    rnd = random_fit_sources(rng, b["random_datasets"], b["random_max_side"], ctx.seed)
    real = [lattice_inversion_source(rng, k) for k in range(b["real_lattice_inversions"])]
    gen = [generic_inversion_source(rng, k) for k in range(b["real_generic_inversions"])]
    for sid, sc_ in enumerate(srcs + rnd + real + gen):
        sc_["sid"] = sid
        if "plan" not in sc_:
            sc_["plan"] = plan_from_modes(sc_, sc_.pop("modes"), ctx.seed)
    # cheap sources in big groups, real inversions in small ones
    groups = [srcs[k: k + 200] for k in range(0, len(srcs), 200)] + [rnd[k: k + 20] for k in range(0, len(rnd), 20)]
    groups += [real[k: k + 4] for k in range(0, len(real), 4)] + [gen[k: k + 1] for k in range(0, len(gen), 1)]
    recs = []
    for part in core.pmap(_many, groups, chunksize=1):
        recs.extend(part)
    ctx.replayed = len(insts)
    mid = next(r for r in recs if r["api"] == "fit" and r["_src"]["origin"] == "tlc" and r["mode"] == "native" and r["junk"] == 2 and len(r["u"]) >= 3
               and r["hist"] == "none")
    ctx.sample({"tlc_instance_replayed": {k: v for k, v in mid.items() if k not in ("_src", "id")}})
    rl = next(r for r in recs if r["api"] == "fit" and r["_src"]["origin"] == "real-lattice" and any(x is None for x in r["_src"]["inv"]["regs"])
              and any(x is not None for x in r["_src"]["inv"]["regs"]))
    ctx.sample({"real_inversion_record": {k: v for k, v in rl.items() if k not in ("_src", "id")},
                "regularizations": rl["_src"]["inv"]["regs"], "layout": [o["type"] for o in rl["_src"]["inv"]["inst"]["objs"]]})
    rejects = validate(ctx, recs, "C08")
    lat = [r for r in recs if r["hasinv"] and r["inv"].get("lat")]
    decided = sum(1 for r in lat if _det_decidable(r["inv"]))
    decided_real = sum(1 for r in lat if r["_src"]["inv"]["kind"] == "real" and _det_decidable(r["inv"]))
    solved = len({r["_src"]["sid"] for r in recs if r["_src"]["inv"]["kind"] == "real"})
    ctx.note(f"{solved} of {len(real) + len(gen)} generated real inversions were solvable by the library's solver (the others are left to C05) and "
             f"contributed records")
    ctx.note(f"{sum(1 for r in recs if r['api'] == 'fit' and r['hist'] != 'none' and r['step'] > 0)} fits judged after a dataset history "
             f"({n_hist} histories enumerated by TLC, the others rotated over instances / random datasets; kinds {b['history_kinds']}), "
             f"{sum(1 for r in recs if r['api'] == 'fit' and r['nth'] == 2)} second fits on an already fitted dataset object, read orders "
             f"{ {o: sum(1 for r in recs if r['api'] == 'fit' and r['order'] == o) for o in ORDER_NAMES} }")
    ctx.note(f"TLC enumerated {n_fit} datasets x models x skies and {n_inv} inversion cases; {len(recs)} records "
             f"({sum(1 for r in recs if r['mode'] == 'native')} masked-native, {sum(1 for r in recs if r['junk'])} with junk in masked cells, "
             f"{sum(1 for r in recs if r['hasinv'])} with an inversion of which {sum(1 for r in recs if r['hasinv'] and r['_src']['inv']['kind'] == 'real')} "
             f"on real aa.Inversion objects; determinant/quadratic-form clauses decided on {decided} of {len(lat)} lattice records, {decided_real} of them real) validated by Trace_Fit; "
             f"{len(rejects)} rejected")
    ctx.assumptions = [
        "ln(2 pi sigma^2) enters as a constant table computed by math.log at scale 1e5; fixed-point compositions carry the derived rounding bounds "
        "(n/2+1 units for sums of n table entries, 2-3 units for the likelihood/evidence compositions)",
        "log-determinant terms are decided through round(exp(term)*sc^nr) against exact integer determinants for at most 4 regularised parameters "
        "(entries <= 96 for 4x4); the 1e-8 ridge of ConstantZeroth is bounded by the sum of principal minors; beyond that only the compositions "
        "and the reduced index set are decided",
        "the residual flux fraction is pinned only where data (after sky subtraction) is non-zero; signal-to-noise in masked cells of native "
        "arrays is not constrained; the sky level is subtracted from the data",
        "model images are whatever the fit subclass supplies (integers, or the mapped reconstruction of the real inversion)",
    ]


def replay(ctx, rp):
    src = rp["source"]
    recs = records_for(src)
    want = rp.get("record", {})
    sel = ("api", "mode", "junk", "nth", "hist", "step", "order")
    keep = [r for r in recs if all(r.get(k) == want.get(k) for k in sel)] or recs
    rej = validate(ctx, keep, "C08-replay")
    print("replayed", len(keep), "records; rejected:", [(r["sig"], r["clauses"]) for r in rej])
    return ctx.finish()
