"""X02 -- irregular coordinate containers and distance queries are order-preserving and exact on the lattice.

S->C: Irregular.tla enumerates (list machine) every ordered list of 1..OrderedLen lattice coordinates and every bag of up to
      MaxLen coordinates on a 5x5 lattice, with every query (summaries, squared distances, furthest, closest, removal,
      deflection, upscaling) over small parameter sets, and (grid machine) every mask of every small shape with a few
      geometries and every removal; TLC checks the design theorems (views round-trip, removal is an ordered split and
      composes over reference coordinates, the code-shaped furthest / closest / mask-based removal formulations agree with
      the definitions, summaries bracket the entries wherever the list lies relative to zero, ...) and dumps every
      instance; each is replayed through the real Grid2DIrregular / Grid2DIrregularUniform / ArrayIrregular / Grid2D API.
C->S: every recorded result is abstracted onto the integer lattice (value / tick, rejecting abstraction) and judged by
      Trace_Irregular.tla: equality for containers, squared distances, kept coordinates and summaries; fixed point with
      a derived rounding bound (exact on perfect squares) for distances; any-nearest for the closest query.  Seeded
      random larger lists (length up to 40: repeated points, collinear points, one-sided lists, all signs), masks up to
      9x9, dyadic and decimal tick lengths extend the reach."""
import math

import numpy as np

from harness import core
from harness.drivers import masks_common as mc

OFF = 99999
TICKS = [1.0, 0.5, 2.0 ** -6, 16.0, 0.1, 0.05, 1.0 / 3.0, 0.7]
REFS = [(0, 0), (1, -2), (3, 1)]
DIST2S = [1, 5, 13]
BUFFERS = [0, 1, 3]
UPSCALES = [1, 2, 3]
GEOMS = [(1, 1, 0, 0), (1, 2, 1, -1), (2, 1, -1, 2)]
REFSEQS = [[c] for c in REFS] + [[c, d] for c in REFS for d in REFS]

INVARIANTS = ["ViewsRoundTrip", "GroupsConcatenate", "SqDistSane", "RemoveIsOrderedSplit", "RemoveComposes",
              "FurthestCodeShapeAgrees", "FurthestIsDiameterTwice", "ClosestValid", "ClosestCodeShapeValid",
              "SummariesBracket", "SummariesOneSided", "DeflectInverse", "UpscaleSane", "GridRemovalIsKeep"]

MC_CFG = """CONSTANTS
  Shapes <- MCShapes
  KernelShapes = {}
  Lattice <- MCLattice
  OrderedLen <- MCOrderedLen
  MaxLen <- MCMaxLen
  RefCells <- MCRefCells
  Dist2s <- MCDist2s
  Buffers <- MCBuffers
  Upscales <- MCUpscales
  Geoms <- MCGeoms
SPECIFICATION ISpec
""" + "".join(f"INVARIANT {n}\n" for n in INVARIANTS)

TRACE_CFG = """CONSTANTS
  Shapes = {}
  KernelShapes = {}
  Lattice = {}
  OrderedLen = 0
  MaxLen = 0
  RefCells = {}
  Dist2s = {}
  Buffers = {}
  Upscales = {}
  Geoms = {}
SPECIFICATION TraceSpec
POSTCONDITION TraceAccepted
"""


# ----------------------------------------------------------------------------------------------
# enumeration through the bounded machines
# ----------------------------------------------------------------------------------------------
def _tla_tuples(ts):
    return "{" + ", ".join("<<" + ",".join(str(int(v)) for v in t) + ">>" for t in ts) + "}"


def _tla_ints(vs):
    return "{" + ", ".join(str(int(v)) for v in vs) + "}"


def enumerate_lists(ctx, lattice, ordered_len, max_len, tag="MC_Irregular_lists", timeout=3000):
    defs = "\n".join([
        "MCShapes == {}", f"MCLattice == {_tla_ints(lattice)}", f"MCOrderedLen == {ordered_len}", f"MCMaxLen == {max_len}",
        f"MCRefCells == {_tla_tuples(REFS)}", f"MCDist2s == {_tla_ints(DIST2S)}", f"MCBuffers == {_tla_ints(BUFFERS)}",
        f"MCUpscales == {_tla_ints(UPSCALES)}", "MCGeoms == {}"])
    res = ctx.tlc("Irregular", MC_CFG, defs=defs, tag=tag, timeout=timeout, coverage=True, env={"_JAVA_OPTIONS": "-Xmx6g"})
    insts = sorted([tuple(p) for p in r["pts"]] for r in res.by_kind("inst"))  # TLC's workers print in no fixed order
    m = len(lattice) ** 2
    expect = sum(m ** n for n in range(1, ordered_len + 1)) + sum(math.comb(m + n - 1, n) for n in range(ordered_len + 1, max_len + 1))
    if len(insts) != expect or res.init_states != expect:
        raise core.MachineryError(f"Irregular.tla (list machine) enumerated {len(insts)} lists / {res.init_states} initial states, expected {expect}")
    return insts, res


def enumerate_grids(ctx, shapes, tag="MC_Irregular_grids", timeout=3000):
    defs = "\n".join([
        f"MCShapes == {_tla_tuples(shapes)}", "MCLattice == {}", "MCOrderedLen == 0", "MCMaxLen == 0",
        f"MCRefCells == {_tla_tuples(REFS)}", f"MCDist2s == {_tla_ints(DIST2S)}", f"MCBuffers == {_tla_ints(BUFFERS)}",
        f"MCUpscales == {_tla_ints(UPSCALES)}", f"MCGeoms == {_tla_tuples(GEOMS)}"])
    res = ctx.tlc("Irregular", MC_CFG, defs=defs, tag=tag, timeout=timeout, coverage=True, env={"_JAVA_OPTIONS": "-Xmx6g"})
    insts = sorted((r["h"], r["w"], list(r["u"]), tuple(r["g"])) for r in res.by_kind("ginst"))
    expect = sum(2 ** (h * w) - 1 for h, w in shapes) * len(GEOMS)
    if len(insts) != expect or res.init_states != expect:
        raise core.MachineryError(f"Irregular.tla (grid machine) enumerated {len(insts)} grids / {res.init_states} initial states, expected {expect}")
    return insts, res


# ----------------------------------------------------------------------------------------------
# alpha: float results -> lattice integers (rejecting)
# ----------------------------------------------------------------------------------------------
def a_int(x, unit, tol=1e-6, lim=90000, off=OFF):
    """Every entry of x / unit must be within tol of an integer of magnitude <= lim; anything else becomes `off`."""
    try:
        a = np.asarray(x, dtype=float) / unit
    except Exception:
        return off
    r = np.rint(a)
    ok = np.isfinite(a) & (np.abs(a - r) <= tol) & (np.abs(r) <= lim)
    out = np.where(ok, r, off).astype(np.int64)
    return out.tolist()


def a_pairs(x, tick):
    """An (n, 2) array of coordinates -> list of [y, x] lattice integers; a wrong shape is reported as one OFF pair."""
    try:
        a = np.asarray(x, dtype=float)
    except Exception:
        return [[OFF, OFF]]
    if a.size == 0:
        return []
    if a.ndim != 2 or a.shape[1] != 2:
        return [[OFF, OFF]]
    return a_int(a, tick)


def a_nonneg(x, unit, tol=1e-6, lim=2_000_000_000):
    try:
        a = np.asarray(x, dtype=float).ravel() / unit
    except Exception:
        return [-2]
    r = np.rint(a)
    ok = np.isfinite(a) & (np.abs(a - r) <= tol * np.maximum(1.0, np.abs(r))) & (r >= 0) & (r <= lim)
    return np.where(ok, r, -2).astype(np.int64).tolist()


def a_root(d, tick, F):
    """Distances d -> (R, dint): R = round(F d / tick) clamped to [-1, 50000]; dint = d / tick if within 1e-9 (relative) of an integer."""
    try:
        a = np.asarray(d, dtype=float).ravel() / tick
    except Exception:
        return [-1], [-2]
    fin = np.isfinite(a)
    R = np.where(fin, np.clip(np.rint(np.where(fin, a, 0.0) * F), -1, 50000), -1).astype(np.int64).tolist()
    r = np.rint(np.where(fin, a, 0.0))
    ok = fin & (np.abs(a - r) <= 1e-9 * np.maximum(1.0, np.abs(r))) & (r >= 0) & (r <= 100000)
    return R, np.where(ok, r, -2).astype(np.int64).tolist()


def scale_for(nmax):
    F = 1024
    while F > 1 and F * F * (nmax + 1) > 2 ** 30:
        F //= 2
    return F


def a_default_extent(ext, tick):
    """extent_with_buffer_from() with the documented default buffer 1e-8: lattice part and offset in units of 1e-8."""
    try:
        v = np.asarray(ext, dtype=float).ravel()
        lat = np.rint(v / tick)
        off = (v - lat * tick) / 1.0e-8
        ro = np.rint(off)
        ok = np.isfinite(v) & (np.abs(off - ro) <= 1e-3) & (np.abs(lat) <= 90000) & (np.abs(ro) <= 1000)
        return np.where(ok, lat, OFF).astype(np.int64).tolist(), np.where(ok, ro, OFF).astype(np.int64).tolist()
    except Exception:
        return [OFF], [OFF]


def _bits(a):
    a = np.ascontiguousarray(np.asarray(a, dtype=float))
    return a.shape, a.tobytes()


def _same(a, b):
    try:
        return _bits(a) == _bits(b)
    except Exception:
        return False


def _try(fn, default=None):
    try:
        return fn()
    except Exception as e:  # the library raised: the record carries sentinels, which the trace spec rejects
        return default


# ----------------------------------------------------------------------------------------------
# gamma + the real calls: list instances
# ----------------------------------------------------------------------------------------------
def _forms(P, tick):
    """The documented input forms of one list of coordinates."""
    import autoarray as aa

    f = [[float(y) * tick, float(x) * tick] for y, x in P]
    return {
        "tuples": lambda: [tuple(r) for r in f],
        "lists": lambda: [list(r) for r in f],
        "ndarray": lambda: np.array(f, dtype=float),
        "rows": lambda: [np.array(r, dtype=float) for r in f],
        "grid": lambda: aa.Grid2DIrregular(values=np.array(f, dtype=float)),
    }


def _views(g, tick):
    out = {}
    for name, fn in (("array", lambda: g.array), ("in_list", lambda: np.array([list(t) for t in g.in_list], dtype=float).reshape(-1, 2)),
                     ("slim", lambda: g.slim.array), ("native", lambda: g.native.array), ("values", lambda: g.values)):
        out[name] = a_pairs(_try(fn, np.full((1, 2), np.nan)), tick)
    return out


def _real_views_ok(g, real):
    try:
        return bool(_same(g.array, real) and _same(np.array([list(t) for t in g.in_list], dtype=float).reshape(-1, 2), real)
                    and _same(g.slim.array, real) and _same(g.native.array, real) and _same(g.values, real))
    except Exception:
        return False


def _queries_leave_unchanged(g, tick):
    """Ask every query of one Grid2DIrregular instance; its entries must be bit for bit what they were."""
    before = np.array(g.array, dtype=float).copy()
    c = (before[0, 0] + tick, before[0, 1] - 2 * tick)
    g.squared_distances_to_coordinate_from(coordinate=c)
    g.distances_to_coordinate_from(coordinate=c)
    g.furthest_distances_to_other_coordinates
    g.grid_of_closest_from(grid_pair=before[::-1] + tick)
    g.grid_2d_via_deflection_grid_from(deflection_grid=before[::-1].copy())
    g.scaled_minima, g.scaled_maxima, g.geometry.extent, g.extent_with_buffer_from(buffer=tick), g.in_list, g.slim, g.native
    return bool(_same(g.array, before))


def container_records(P, tick, rng, which, fixed=None):
    """Grid2DIrregular / Grid2DIrregularUniform built from every documented input form (rotating subset `which`);
    `fixed` = (cls, form, groups) rebuilds exactly one recorded construction (replay)."""
    import autoarray as aa

    recs = []
    n = len(P)
    forms = _forms(P, tick)
    names = list(forms)
    real = rng.standard_normal((n, 2)) * float(rng.choice([1e-200, 1.0, 1e200]))
    rforms = {"tuples": [tuple(r) for r in real.tolist()], "lists": real.tolist(), "ndarray": real.copy(),
              "rows": [r.copy() for r in real], "grid": None}
    for form in ([names[(which + k) % len(names)] for k in range(2)] if fixed is None else [fixed[1]] if fixed[0] == "Grid2DIrregular" else []):
        g = _try(lambda: aa.Grid2DIrregular(values=forms[form]()))
        rec = {"api": "container", "cls": "Grid2DIrregular", "form": form, "groups": [[list(p) for p in P]], "tick": tick,
               "meta_in": [], "meta_out": [], "pure_ok": True}
        if g is None:
            rec.update({k: [[OFF, OFF]] for k in ("array", "in_list", "slim", "native", "values")})
            rec["payload_ok"] = False
        else:
            rec.update(_views(g, tick))
            rec["pure_ok"] = _try(lambda: _queries_leave_unchanged(g, tick), False)
            rv = aa.Grid2DIrregular(values=real.copy()) if form == "grid" else rforms[form]
            rec["payload_ok"] = _try(lambda: _real_views_ok(aa.Grid2DIrregular(values=rv), real), False)
        recs.append(rec)
    # Grid2DIrregularUniform: flat forms and nested groups, pixel scales and shape kept
    py, px = int(rng.integers(1, 5)), int(rng.integers(1, 5))
    shp = (int(rng.integers(1, 9)), int(rng.integers(1, 9)))
    uforms = ["tuples", "lists", "ndarray", "groups", "groups_lists"] + (["single"] if n == 1 else [])
    f = [[float(y) * tick, float(x) * tick] for y, x in P]
    for form in ([uforms[(which + k) % len(uforms)] for k in range(2)] if fixed is None else [fixed[1]] if fixed[0] == "Grid2DIrregularUniform" else []):
        groups = [list(P)]
        if fixed is not None:
            groups = [[tuple(p) for p in grp] for grp in fixed[2]]
        elif form in ("groups", "groups_lists") and n >= 2:
            cuts = sorted({int(c) for c in rng.integers(1, n, size=int(rng.integers(1, 3)))})
            bounds = [0] + cuts + [n]
            groups = [list(P[a:b]) for a, b in zip(bounds[:-1], bounds[1:])]

        def build(vals):
            if form == "tuples":
                v = [tuple(r) for r in vals]
            elif form == "lists":
                v = [list(r) for r in vals]
            elif form == "ndarray":
                v = np.array(vals, dtype=float)
            elif form == "single":
                v = (vals[0][0], vals[0][1])
            else:
                v, k0 = [], 0
                for grp in groups:
                    rows = vals[k0:k0 + len(grp)]
                    v.append([tuple(r) for r in rows] if form == "groups" else [list(r) for r in rows])
                    k0 += len(grp)
            return aa.Grid2DIrregularUniform(values=v, pixel_scales=(py * tick, px * tick), shape_native=shp)

        g = _try(lambda: build(f))
        rec = {"api": "container", "cls": "Grid2DIrregularUniform", "form": form, "groups": [[list(p) for p in grp] for grp in groups],
               "tick": tick, "meta_in": [py, px, shp[0], shp[1]], "pure_ok": True}
        if g is None:
            rec.update({k: [[OFF, OFF]] for k in ("array", "in_list", "slim", "native", "values")})
            rec["payload_ok"] = False
            rec["meta_out"] = [OFF]
        else:
            rec.update(_views(g, tick))
            rec["meta_out"] = _try(lambda: a_int(list(g.pixel_scales), tick) + [int(g.shape_native[0]), int(g.shape_native[1])], [OFF])
            rec["payload_ok"] = _try(lambda: _real_views_ok(build(real.tolist()), real), False)
        recs.append(rec)
    return recs


def values_record(vals, tick, rng, form):
    import autoarray as aa

    v = [float(x) * tick for x in vals]
    real = rng.standard_normal(len(vals)) * float(rng.choice([1e-200, 1.0, 1e200]))
    mk = (lambda a: list(a)) if form == "list" else (lambda a: np.array(a, dtype=float))
    a = _try(lambda: aa.ArrayIrregular(values=mk(v)))
    rec = {"api": "values", "cls": "ArrayIrregular", "form": form, "vals": [int(x) for x in vals], "tick": tick}
    if a is None:
        rec.update({k: [OFF] for k in ("array", "in_list", "slim", "native", "values")})
        rec["payload_ok"] = False
        return rec
    rec["array"] = _try(lambda: a_int(np.asarray(a.array, dtype=float).ravel(), tick), [OFF])
    rec["in_list"] = _try(lambda: a_int(np.array(a.in_list, dtype=float).ravel(), tick), [OFF])
    rec["slim"] = _try(lambda: a_int(np.asarray(a.slim.array, dtype=float).ravel(), tick), [OFF])
    rec["native"] = _try(lambda: a_int(np.asarray(a.native.array, dtype=float).ravel(), tick), [OFF])
    rec["values"] = _try(lambda: a_int(np.asarray(a.values, dtype=float).ravel(), tick), [OFF])

    def payload():
        b = aa.ArrayIrregular(values=mk(real.tolist()))
        return bool(_same(b.array, real) and _same(np.array(b.in_list, dtype=float), real) and _same(b.slim.array, real)
                    and _same(b.native.array, real) and _same(b.values, real))

    rec["payload_ok"] = _try(payload, False)
    return rec


def _irregular(P, tick, form="ndarray"):
    import autoarray as aa

    src = _forms(P, tick)[form]()
    return aa.Grid2DIrregular(values=src), src


def sqdist_record_irregular(P, tick, c, cform="tuple"):
    g, src = _irregular(P, tick)
    before = g.array.copy()
    nmax = max((p[0] - c[0]) ** 2 + (p[1] - c[1]) ** 2 for p in P)
    F = scale_for(nmax)
    if cform == "default":
        sq = _try(lambda: g.squared_distances_to_coordinate_from())
        d = _try(lambda: g.distances_to_coordinate_from())
    else:
        cc = (c[0] * tick, c[1] * tick) if cform == "tuple" else np.array([c[0] * tick, c[1] * tick])
        sq = _try(lambda: g.squared_distances_to_coordinate_from(coordinate=cc))
        d = _try(lambda: g.distances_to_coordinate_from(coordinate=cc))
    R, dint = a_root(_try(lambda: d.array, [np.nan]), tick, F)
    return {"api": "sqdist", "cls": "Grid2DIrregular", "pts": [list(p) for p in P], "c": list(c), "cform": cform, "tick": tick,
            "sq": a_nonneg(_try(lambda: sq.array, [np.nan]), tick * tick), "R": R, "F": F, "dint": dint, "u": [], "out_u": [],
            "pure_ok": bool(_same(g.array, before) and _same(src, before)),
            "types": [type(sq).__name__, type(d).__name__]}


def furthest_record(P, tick):
    g, src = _irregular(P, tick)
    nmax = max((p[0] - q[0]) ** 2 + (p[1] - q[1]) ** 2 for p in P for q in P)
    F = scale_for(nmax)
    d = _try(lambda: g.furthest_distances_to_other_coordinates.array, [np.nan])
    R, dint = a_root(d, tick, F)
    return {"api": "furthest", "cls": "Grid2DIrregular", "pts": [list(p) for p in P], "tick": tick, "R": R, "F": F, "dint": dint}


def closest_record(P, tick, pair, pform):
    import autoarray as aa

    g, src = _irregular(P, tick)
    q = np.array([[a * tick, b * tick] for a, b in pair], dtype=float)
    qq = q if pform == "ndarray" else aa.Grid2DIrregular(values=q.copy())
    out = _try(lambda: np.asarray(g.grid_of_closest_from(grid_pair=qq).array, dtype=float), np.full((1, 2), np.nan))
    rows = {np.asarray(r, dtype=float).tobytes() for r in np.asarray(src, dtype=float)}
    bitwise = bool(out.ndim == 2 and all(np.ascontiguousarray(r).tobytes() in rows for r in out))
    return {"api": "closest", "cls": "Grid2DIrregular", "pts": [list(p) for p in P], "pair": [list(p) for p in pair], "tick": tick,
            "pform": pform, "out": a_pairs(out, tick), "bitwise": bitwise}


def summary_record_irregular(P, tick, b, form="ndarray"):
    g, src = _irregular(P, tick, form)
    rec = {"api": "summary", "cls": "Grid2DIrregular", "stored": "list", "pts": [list(p) for p in P], "tick": tick, "b": int(b),
           "raised": False}
    try:
        rec["minima"] = a_int(list(g.scaled_minima), tick)
        rec["maxima"] = a_int(list(g.scaled_maxima), tick)
        geo = g.geometry
        rec["interior"] = a_int(list(geo.shape_native_scaled), tick)
        rec["gext"] = a_int(list(geo.extent), tick)
        rec["gmin"] = a_int(list(geo.scaled_minima), tick)
        rec["gmax"] = a_int(list(geo.scaled_maxima), tick)
        rec["extb"] = a_int(list(g.extent_with_buffer_from(buffer=b * tick)), tick)
        rec["extd"], rec["extd_off"] = a_default_extent(g.extent_with_buffer_from(), tick)
    except Exception as e:
        rec["raised"] = True
        rec["error"] = repr(e)[:200]
        for k in ("minima", "maxima", "interior", "gext", "gmin", "gmax", "extb", "extd", "extd_off"):
            rec.setdefault(k, [])
    return rec


def yx_record(P, tick, form):
    import autoarray as aa

    ys = [p[0] * tick for p in P]
    xs = [p[1] * tick for p in P]
    if form == "ndarray":
        ys, xs = np.array(ys), np.array(xs)
    out = _try(lambda: aa.Grid2DIrregular.from_yx_1d(y=ys, x=xs).array, np.full((1, 2), np.nan))
    return {"api": "yx1d", "cls": "Grid2DIrregular", "form": form, "ys": [int(p[0]) for p in P], "xs": [int(p[1]) for p in P], "tick": tick,
            "out": a_pairs(out, tick)}


def deflect_record(P, tick, D, cls, rng):
    import autoarray as aa

    f = np.array([[p[0] * tick, p[1] * tick] for p in P], dtype=float)
    d = np.array([[p[0] * tick, p[1] * tick] for p in D], dtype=float)
    rec = {"api": "deflect", "cls": cls, "pts": [list(p) for p in P], "defl": [list(p) for p in D], "tick": tick}
    try:
        if cls == "Grid2DIrregular":
            g = aa.Grid2DIrregular(values=f.copy())
            dd = d if len(P) % 2 else aa.Grid2DIrregular(values=d.copy())
            out = g.grid_2d_via_deflection_grid_from(deflection_grid=dd)
            rec["meta_in"], rec["meta_out"] = [1], [int(type(out) is aa.Grid2DIrregular)]
        else:
            py, px = int(rng.integers(1, 5)), int(rng.integers(1, 5))
            shp = (int(rng.integers(1, 9)), int(rng.integers(1, 9)))
            g = aa.Grid2DIrregularUniform(values=f.copy(), pixel_scales=(py * tick, px * tick), shape_native=shp)
            out = g.grid_2d_via_deflection_grid_from(deflection_grid=d)
            rec["meta_in"] = [1, py, px, shp[0], shp[1]]
            rec["meta_out"] = [int(type(out) is aa.Grid2DIrregularUniform)] + a_int(list(out.pixel_scales), tick) + [int(out.shape_native[0]), int(out.shape_native[1])]
        rec["out"] = a_pairs(out.array, tick)
        rec["pure_ok"] = bool(_same(g.array, f))
    except Exception as e:
        rec.update({"out": [[OFF, OFF]], "meta_in": [1], "meta_out": [OFF], "pure_ok": True, "error": repr(e)[:200]})
    return rec


def upscale_record(P, tick, f, e, rng):
    import autoarray as aa

    vals = [(p[0] * tick, p[1] * tick) for p in P]
    ps = (2 * f * e[0] * tick, 2 * f * e[1] * tick)
    shp = (int(rng.integers(1, 9)), int(rng.integers(1, 9)))
    rec = {"api": "upscale", "cls": "Grid2DIrregularUniform", "pts": [list(p) for p in P], "f": int(f), "e": [int(e[0]), int(e[1])], "tick": tick,
           "meta_in": [shp[0], shp[1]]}
    try:
        sparse = aa.Grid2DIrregularUniform(values=vals, pixel_scales=ps, shape_native=shp)
        up = aa.Grid2DIrregularUniform.from_grid_sparse_uniform_upscale(grid_sparse_uniform=sparse, upscale_factor=f, pixel_scales=ps, shape_native=shp)
        rec["out"] = a_pairs(up.array, tick)
        rec["ps_out"] = a_int(list(up.pixel_scales), tick)
        rec["meta_out"] = [int(up.shape_native[0]), int(up.shape_native[1])]
    except Exception as ex:
        rec.update({"out": [[OFF, OFF]], "ps_out": [OFF], "meta_out": [OFF], "error": repr(ex)[:200]})
    return rec


def gridfrom_record(P, tick, rng):
    import autoarray as aa

    py, px = int(rng.integers(1, 5)), int(rng.integers(1, 5))
    shp = (int(rng.integers(1, 9)), int(rng.integers(1, 9)))
    rec = {"api": "gridfrom", "cls": "Grid2DIrregularUniform", "pts": [list(p) for p in P], "tick": tick, "meta_in": [py, px, shp[0], shp[1]]}
    try:
        base = aa.Grid2DIrregularUniform(values=[(7.0 * tick, -3.0 * tick)], pixel_scales=(py * tick, px * tick), shape_native=shp)
        out = base.grid_from(grid_slim=np.array([[p[0] * tick, p[1] * tick] for p in P], dtype=float))
        rec["out"] = a_pairs(out.array, tick)
        rec["meta_out"] = a_int(list(out.pixel_scales), tick) + [int(out.shape_native[0]), int(out.shape_native[1])]
    except Exception as ex:
        rec.update({"out": [[OFF, OFF]], "meta_out": [OFF], "error": repr(ex)[:200]})
    return rec


# ----------------------------------------------------------------------------------------------
# gamma + the real calls: uniform grids (Grid2D)
# ----------------------------------------------------------------------------------------------
def _mask(h, w, u, g, tick):
    import autoarray as aa

    m = np.ones(h * w, dtype=bool)
    m[list(u)] = False
    return aa.Mask2D(mask=m.reshape(h, w), pixel_scales=(2 * g[0] * tick, 2 * g[1] * tick), origin=(g[2] * tick, g[3] * tick))


def _centres(h, w, u, g):
    return [(g[2] + g[0] * ((h - 1) - 2 * (k // w)), g[3] + g[1] * (2 * (k % w) - (w - 1))) for k in u]


def _grid2d(h, w, u, g, tick, vals=None, stored="slim"):
    """Grid2D.from_mask (vals None) or a Grid2D whose values are the given lattice coordinates (slim order)."""
    import autoarray as aa

    mask = _mask(h, w, u, g, tick)
    if vals is None:
        grid = aa.Grid2D.from_mask(mask=mask)
    else:
        grid = aa.Grid2D(values=np.array([[p[0] * tick, p[1] * tick] for p in vals], dtype=float), mask=mask)
    if stored == "native":
        grid = aa.Grid2D(values=np.array(grid.native.array), mask=mask, store_native=True)
    return grid, mask


def _coords_arg(cs, tick, cform):
    if cform == "tuple":
        return (cs[0][0] * tick, cs[0][1] * tick)
    if cform == "ndarray":
        return np.array([cs[0][0] * tick, cs[0][1] * tick])
    return [(c[0] * tick, c[1] * tick) for c in cs]


def remove_record(h, w, u, g, tick, cs, dd2, vals=None, cform="list"):
    if len(cs) > 1:
        cform = "list"
    rec = {"api": "remove", "cls": "Grid2D", "h": h, "w": w, "u": [int(x) for x in u], "g": [int(x) for x in g], "tick": tick,
           "cs": [list(c) for c in cs], "dd2": int(dd2), "cform": cform, "valued": vals is not None, "stored": "slim", "raised": False,
           "vals": None if vals is None else [list(p) for p in vals]}
    if vals is None:
        rec.pop("vals")
    try:
        grid, mask = _grid2d(h, w, u, g, tick, vals)
        before = np.array(grid.array).copy()
        rec["pts"] = a_pairs(before, tick)
        out = grid.grid_with_coordinates_within_distance_removed_from(coordinates=_coords_arg(cs, tick, cform), distance=math.sqrt(dd2 / 2.0) * tick)
        rec["out"] = a_pairs(np.asarray(out.slim.array, dtype=float).reshape(-1, 2), tick)
        om = np.asarray(out.mask.array if hasattr(out.mask, "array") else out.mask).astype(bool)
        rec["out_u"] = [int(x) for x in np.flatnonzero(~om.ravel())] if om.shape == (h, w) else [-2]
        ps, org = out.mask.pixel_scales, out.mask.origin
        gy, gx = a_int([ps[0], ps[1]], 2 * tick)
        rec["out_g"] = [gy, gx] + a_int([org[0], org[1]], tick)
        rec["pure_ok"] = bool(_same(grid.array, before))
    except Exception as e:
        rec["raised"] = True
        rec["error"] = repr(e)[:200]
        rec.setdefault("pts", [list(p) for p in (vals if vals is not None else _centres(h, w, u, g))])
        for k in ("out", "out_u", "out_g"):
            rec.setdefault(k, [])
        rec.setdefault("pure_ok", True)
    return rec


def sqdist_record_grid(h, w, u, g, tick, c, vals=None):
    grid, mask = _grid2d(h, w, u, g, tick, vals)
    before = np.array(grid.array).copy()
    P = a_pairs(before, tick)
    known = vals if vals is not None else _centres(h, w, u, g)
    nmax = max((p[0] - c[0]) ** 2 + (p[1] - c[1]) ** 2 for p in known)
    F = scale_for(nmax)
    cc = (c[0] * tick, c[1] * tick)
    sq = _try(lambda: grid.squared_distances_to_coordinate_from(coordinate=cc))
    d = _try(lambda: grid.distances_to_coordinate_from(coordinate=cc))
    R, dint = a_root(_try(lambda: d.slim.array, [np.nan]), tick, F)

    def out_u():
        a, b = np.asarray(sq.mask).astype(bool), np.asarray(d.mask).astype(bool)
        return [int(x) for x in np.flatnonzero(~a.ravel())] if a.shape == (h, w) and np.array_equal(a, b) else [-2]

    return {"api": "sqdist", "cls": "Grid2D", "h": h, "w": w, "u": [int(x) for x in u], "g": [int(x) for x in g], "tick": tick,
            "pts": P, "c": list(c), "cform": "tuple", "sq": a_nonneg(_try(lambda: sq.slim.array, [np.nan]), tick * tick),
            "R": R, "F": F, "dint": dint, "out_u": _try(out_u, [-2]), "pure_ok": bool(_same(grid.array, before)),
            "valued": vals is not None, "types": [type(sq).__name__, type(d).__name__]}


def summary_record_grid(h, w, u, g, tick, b, vals=None, stored="slim"):
    known = vals if vals is not None else _centres(h, w, u, g)
    rec = {"api": "summary", "cls": "Grid2D", "stored": stored, "h": h, "w": w, "u": [int(x) for x in u], "g": [int(x) for x in g],
           "tick": tick, "b": int(b), "raised": False, "pts": [list(p) for p in known], "valued": vals is not None,
           "gext": [], "gmin": [], "gmax": []}
    if vals is not None:
        rec["vals"] = [list(p) for p in vals]
    try:
        grid, mask = _grid2d(h, w, u, g, tick, vals, stored)
        rec["pts"] = a_pairs(np.asarray(grid.slim.array, dtype=float).reshape(-1, 2), tick)
        rec["minima"] = a_int(list(grid.scaled_minima), tick)
        rec["maxima"] = a_int(list(grid.scaled_maxima), tick)
        rec["interior"] = a_int(list(grid.shape_native_scaled_interior), tick)
        rec["extb"] = a_int(list(grid.extent_with_buffer_from(buffer=b * tick)), tick)
        rec["extd"], rec["extd_off"] = a_default_extent(grid.extent_with_buffer_from(), tick)
    except Exception as e:
        rec["raised"] = True
        rec["error"] = repr(e)[:200]
        for k in ("minima", "maxima", "interior", "extb", "extd", "extd_off"):
            rec.setdefault(k, [])
    return rec


def deflect_record_grid(h, w, u, g, tick, D):
    import autoarray as aa

    P = _centres(h, w, u, g)
    rec = {"api": "deflect", "cls": "Grid2D", "h": h, "w": w, "u": [int(x) for x in u], "g": [int(x) for x in g], "tick": tick,
           "pts": [list(p) for p in P], "defl": [list(p) for p in D]}
    try:
        grid, mask = _grid2d(h, w, u, g, tick)
        before = np.array(grid.array).copy()
        rec["pts"] = a_pairs(before, tick)
        dg = aa.Grid2D(values=np.array([[p[0] * tick, p[1] * tick] for p in D], dtype=float), mask=mask)
        out = grid.grid_2d_via_deflection_grid_from(deflection_grid=dg)
        om = np.asarray(out.mask).astype(bool)
        rec["meta_in"] = [1] + [int(x) for x in u]
        rec["meta_out"] = [int(type(out) is aa.Grid2D)] + [int(x) for x in np.flatnonzero(~om.ravel())]
        rec["out"] = a_pairs(np.asarray(out.slim.array, dtype=float).reshape(-1, 2), tick)
        rec["pure_ok"] = bool(_same(grid.array, before))
    except Exception as e:
        rec.update({"out": [[OFF, OFF]], "meta_in": [1], "meta_out": [OFF], "pure_ok": True, "error": repr(e)[:200]})
    return rec


def pixels_record(h, w, u, g, tick, pixels, form):
    import autoarray as aa

    mask = _mask(h, w, u, g, tick)
    px = [tuple(int(v) for v in p) for p in pixels] if form == "tuples" else np.array(pixels, dtype=int)
    out = _try(lambda: aa.Grid2DIrregular.from_pixels_and_mask(pixels=px, mask=mask).array, np.full((1, 2), np.nan))
    return {"api": "pixels", "cls": "Grid2DIrregular", "form": form, "h": h, "w": w, "u": [int(x) for x in u], "g": [int(x) for x in g],
            "tick": tick, "pixels": [[int(p[0]), int(p[1])] for p in pixels], "out": a_pairs(out, tick)}


# ----------------------------------------------------------------------------------------------
# per-instance record sets
# ----------------------------------------------------------------------------------------------
def list_instance_records(P, n, seed, full=False):
    """Replay of one enumerated / random list.  `n` rotates which parameter of each query family is used (every list is
    replayed through every query; across lists every parameter value enumerated by TLC is used)."""
    rng = np.random.default_rng(seed * 1000003 + n)
    tick = TICKS[n % len(TICKS)]
    L = len(P)
    recs = []
    recs += container_records(P, tick, rng, n)
    c = REFS[n % len(REFS)] if not full else (int(rng.integers(-150, 151)), int(rng.integers(-150, 151)))
    recs.append(sqdist_record_irregular(P, tick, c, ["tuple", "ndarray"][n % 2]))
    if n % 5 == 0:
        recs.append(sqdist_record_irregular(P, tick, (0, 0), "default"))
    recs.append(furthest_record(P, tick))
    if full:
        k = int(rng.integers(1, 12))
        pair = [(int(a), int(b)) for a, b in rng.integers(-150, 151, size=(k, 2))]
        pair += [P[int(rng.integers(0, L))], ((P[0][0] + P[-1][0]) // 2, (P[0][1] + P[-1][1]) // 2)]
    else:
        pair = list(REFS) + [P[0]]
    recs.append(closest_record(P, tick, pair, ["ndarray", "irregular"][n % 2]))
    recs.append(summary_record_irregular(P, tick, BUFFERS[n % len(BUFFERS)], ["ndarray", "tuples", "lists"][n % 3]))
    recs.append(yx_record(P, tick, ["list", "ndarray"][n % 2]))
    defl = [[REFS[n % 3]] * L, list(P), list(P[::-1])][(n // 3) % 3]
    if full:
        defl = [(int(a), int(b)) for a, b in rng.integers(-60, 61, size=(L, 2))]
    recs.append(deflect_record(P, tick, defl, ["Grid2DIrregular", "Grid2DIrregularUniform"][n % 2], rng))
    f = UPSCALES[n % len(UPSCALES)]
    e = (1, 2) if not full else (int(rng.integers(1, 4)), int(rng.integers(1, 4)))
    if L * f * f <= 200:
        recs.append(upscale_record(P, tick, f, e, rng))
    if n % 4 == 0:
        recs.append(gridfrom_record(P, tick, rng))
        recs.append(values_record([p[0] for p in P] + [p[1] for p in P], tick, rng, ["list", "ndarray"][(n // 4) % 2]))
    # the list machine's removal and distance queries on a Grid2D that HOLDS the list (values need not be pixel centres:
    # "it is not a requirement that grid is uniform", class docstring) on a 1 x L or 2 x ceil(L/2) frame
    h, w = (1, L) if (n % 2 == 0 or L < 2) else (2, (L + 1) // 2)
    u = list(range(L))
    g = (1, 1, 0, 0)
    for k in range(2):
        if full:
            cs = [(int(a), int(b)) for a, b in rng.integers(-150, 151, size=(int(rng.integers(1, 4)), 2))]
            cs[0] = P[int(rng.integers(0, L))] if k == 0 else cs[0]
            dd2 = 2 * int(rng.integers(0, 40000)) + 1 if k else 2 * int(rng.integers(0, 50)) + 1
        else:
            cs = REFSEQS[(2 * n + k) % len(REFSEQS)]
            dd2 = DIST2S[(n + k) % len(DIST2S)]
        recs.append(remove_record(h, w, u, g, tick, cs, dd2, vals=P, cform=["list", "tuple", "ndarray"][(n + k) % 3]))
    recs.append(sqdist_record_grid(h, w, u, g, tick, c, vals=P))
    recs.append(summary_record_grid(h, w, u, g, tick, BUFFERS[(n + 1) % len(BUFFERS)], vals=P, stored="slim"))
    for r in recs:
        r["inst"] = n
    return recs


def grid_instance_records(inst, n, seed, full=False):
    h, w, u, g = inst
    rng = np.random.default_rng(seed * 1000003 + 7 * n + 1)
    tick = TICKS[(n + 3) % len(TICKS)]
    recs = []
    cen = _centres(h, w, u, g)
    for k in range(2):
        if full:
            cs = [(int(a), int(b)) for a, b in rng.integers(-6, 7, size=(int(rng.integers(1, 4)), 2)) + np.array(cen[int(rng.integers(0, len(cen)))])]
            dd2 = 2 * int(rng.integers(0, 4 * (h * g[0]) ** 2 + 4 * (w * g[1]) ** 2 + 2)) + 1
        else:
            cs = REFSEQS[(2 * n + k) % len(REFSEQS)]
            dd2 = DIST2S[(n + k) % len(DIST2S)]
        recs.append(remove_record(h, w, u, g, tick, cs, dd2, cform=["list", "tuple", "ndarray"][(n + k) % 3]))
    c = REFS[n % len(REFS)] if not full else (int(rng.integers(-30, 31)), int(rng.integers(-30, 31)))
    recs.append(sqdist_record_grid(h, w, u, g, tick, c))
    recs.append(summary_record_grid(h, w, u, g, tick, BUFFERS[n % len(BUFFERS)], stored="slim"))
    if n % 3 == 0:
        recs.append(summary_record_grid(h, w, u, g, tick, BUFFERS[n % len(BUFFERS)], stored="native"))
    if n % 2 == 0:
        D = [(int(a), int(b)) for a, b in rng.integers(-9, 10, size=(len(u), 2))]
        recs.append(deflect_record_grid(h, w, u, g, tick, D))
    if n % 2 == 1:
        px = [(int(rng.integers(-1, h + 1)), int(rng.integers(-1, w + 1))) for _ in range(int(rng.integers(1, 6)))]
        recs.append(pixels_record(h, w, u, g, tick, px, ["tuples", "ndarray"][(n // 2) % 2]))
    for r in recs:
        r["inst"] = n
    return recs


def _list_many(args):
    items, seed, full = args
    out = []
    for n, P in items:
        out.extend(list_instance_records(P, n, seed, full))
    return out


def _grid_many(args):
    items, seed, full = args
    out = []
    for n, inst in items:
        out.extend(grid_instance_records(inst, n, seed, full))
    return out


# ----------------------------------------------------------------------------------------------
# C->S: seeded random larger instances
# ----------------------------------------------------------------------------------------------
def random_lists(rng, count, max_len=40):
    out = []
    for k in range(count):
        L = int(rng.integers(1, max_len + 1))
        style = k % 8
        spread = int(rng.choice([3, 12, 60]))
        P = rng.integers(-spread, spread + 1, size=(L, 2))
        if style == 1:  # repeated points
            P = P[rng.integers(0, max(1, L // 3), size=L)]
        elif style == 2:  # collinear (a lattice line through a random point)
            d = rng.integers(-3, 4, size=2)
            if not d.any():
                d = np.array([1, 2])
            P = rng.integers(-10, 11, size=2) + np.outer(rng.integers(-15, 16, size=L), d)
        elif style == 3:  # all entries strictly on the positive side
            P = np.abs(P) + rng.integers(1, 60, size=2)
        elif style == 4:  # all entries strictly on the negative side
            P = -np.abs(P) - rng.integers(1, 60, size=2)
        elif style == 5:  # y positive, x negative; one coordinate constant
            P = np.stack([np.abs(P[:, 0]) + 5, np.full(L, -int(rng.integers(1, 50)))], axis=1)
        elif style == 6:  # descending / unsorted with the extreme entries in the middle
            P = P[np.argsort(-P[:, 0], kind="stable")]
            if L > 2:
                P[L // 2] = [int(P[:, 0].max()) + 7, int(P[:, 1].min()) - 9]
        elif style == 7:  # points of a circle-like ring around an off-centre point (many near-ties)
            ang = rng.random(L) * 2 * np.pi
            P = rng.integers(-40, 41, size=2) + np.rint(np.stack([np.sin(ang), np.cos(ang)], axis=1) * int(rng.integers(5, 50))).astype(int)
        P = np.clip(P, -140, 140)
        out.append([(int(a), int(b)) for a, b in P])
    return out


def random_grids(rng, count, max_side=9):
    out = []
    for h, w, u in mc.random_masks(rng, count, max_side=max_side, min_side=1):
        g = (int(rng.integers(1, 4)), int(rng.integers(1, 4)), int(rng.integers(-25, 26)), int(rng.integers(-25, 26)))
        if rng.random() < 0.3:  # the whole grid on one side of zero
            g = (g[0], g[1], int(rng.choice([-1, 1])) * (g[0] * h + 5), int(rng.choice([-1, 1])) * (g[1] * w + 5))
        out.append((h, w, u, g))
    return out


# ----------------------------------------------------------------------------------------------
# validation
# ----------------------------------------------------------------------------------------------
KEEP = ("api", "id", "cls", "form", "groups", "array", "in_list", "slim", "native", "values", "meta_in", "meta_out", "payload_ok", "pure_ok",
        "vals", "pts", "c", "sq", "R", "F", "dint", "u", "out_u", "pair", "out", "bitwise", "h", "w", "g", "cs", "dd2", "out_g", "valued",
        "stored", "raised", "minima", "maxima", "interior", "b", "extb", "extd", "extd_off", "gext", "gmin", "gmax", "pixels", "ys", "xs",
        "defl", "f", "e", "ps_out")


def _slim(r):
    s = {k: r[k] for k in KEEP if k in r and r[k] is not None}
    if r["api"] in ("remove", "summary") and "vals" in s:
        s.pop("vals")
    return s


def validate(ctx, records, tag, chunk=2500):
    import concurrent.futures as cf

    for n, r in enumerate(records):
        r["id"] = n
    nchunks = max(1, min(16, (len(records) + chunk - 1) // chunk)) if len(records) <= 16 * chunk else (len(records) + chunk - 1) // chunk
    chunks = [records[k::nchunks] for k in range(nchunks)]
    rejects = []

    def one(a):
        k, ch = a
        res, rej = ctx.validate_trace("Trace_Irregular", TRACE_CFG, [_slim(r) for r in ch], tag=f"{tag}-{k}", timeout=3000,
                                      env={"JAVA_TOOL_OPTIONS": "-XX:ParallelGCThreads=2 -XX:CICompilerCount=2"})
        return rej

    with cf.ThreadPoolExecutor(max_workers=min(12, len(chunks) or 1)) as ex:
        for rej in ex.map(one, list(enumerate(chunks))):
            rejects.extend(rej)
    for rj in rejects:
        rec = records[rj["id"]]
        desc = {k: rec[k] for k in ("api", "cls", "form", "cform", "stored", "tick", "h", "w", "u", "g", "c", "cs", "dd2", "b", "f", "e") if k in rec}
        pts = rec.get("pts") or rec.get("groups") or rec.get("vals") or rec.get("pixels")
        what = f"{desc} on {str(pts)[:160]}: failed {rj['clauses']}; {rec.get('error', '')} want={str(rj.get('want'))[:300]}"
        ctx.violation(rj["sig"], what, {"record": rec, "failed_clauses": rj["clauses"], "spec_wanted": rj.get("want")},
                      cls=",".join(rj["clauses"]))
    return rejects


# ----------------------------------------------------------------------------------------------
def bounds_for(quick):
    if quick:
        return {"lattice": [-2, -1, 0, 1, 2], "ordered_lists_up_to": 2, "bags_up_to": 3,
                "grid_shapes_up_to_cells": 6, "grid_extra_shapes": [(3, 3)],
                "random_lists": 250, "random_list_max_len": 40, "random_grids": 120, "random_grid_max_side": 9}
    return {"lattice": [-2, -1, 0, 1, 2], "ordered_lists_up_to": 3, "bags_up_to": 4,
            "grid_shapes_up_to_cells": 9, "grid_extra_shapes": [(2, 5), (5, 2), (3, 4), (4, 3)],
            "random_lists": 4000, "random_list_max_len": 40, "random_grids": 1500, "random_grid_max_side": 9}


def run(ctx):
    import concurrent.futures as cf

    b = bounds_for(ctx.quick)
    ctx.bounds = dict(b, reference_coordinates=REFS, removal_distance_squared_times_2=DIST2S, buffers=BUFFERS, upscales=UPSCALES,
                      geometries_sy_sx_oy_ox=GEOMS, ticks=TICKS)
    rng = np.random.default_rng(ctx.seed)
    shapes = mc.shapes_upto(b["grid_shapes_up_to_cells"]) + [tuple(s) for s in b["grid_extra_shapes"]]
    with cf.ThreadPoolExecutor(max_workers=2) as ex:
        f_l = ex.submit(enumerate_lists, ctx, b["lattice"], b["ordered_lists_up_to"], b["bags_up_to"])
        f_g = ex.submit(enumerate_grids, ctx, shapes)
        lists, res_l = f_l.result()
        grids, res_g = f_g.result()
    ctx.exhaustive = True
    rl = random_lists(rng, b["random_lists"], b["random_list_max_len"])
    rg = random_grids(rng, b["random_grids"], b["random_grid_max_side"])
    recs = []
    li = list(enumerate(lists))
    for part in core.pmap(_list_many, [(li[k: k + 40], ctx.seed, False) for k in range(0, len(li), 40)]):
        recs.extend(part)
    gi = list(enumerate(grids))
    for part in core.pmap(_grid_many, [(gi[k: k + 40], ctx.seed, False) for k in range(0, len(gi), 40)]):
        recs.extend(part)
    n_enum = len(recs)
    ri = list(enumerate(rl))
    for part in core.pmap(_list_many, [(ri[k: k + 10], ctx.seed + 1, True) for k in range(0, len(ri), 10)]):
        recs.extend(part)
    rgi = list(enumerate(rg))
    for part in core.pmap(_grid_many, [(rgi[k: k + 10], ctx.seed + 1, True) for k in range(0, len(rgi), 10)]):
        recs.extend(part)
    ctx.replayed = len(lists) + len(grids)
    ctx.sample({"list_machine_instance": lists[len(lists) // 2], "records_of_it": [r["api"] for r in recs if r["inst"] == len(lists) // 2][:14]})
    smp = [r for r in recs if r["api"] == "sqdist" and r["cls"] == "Grid2DIrregular" and len(r["pts"]) == 3]
    if smp:
        ctx.sample({"squared_distance_record": {k: v for k, v in smp[len(smp) // 2].items()}})
    smp = [r for r in recs if r["api"] == "remove" and not r["valued"] and 3 <= len(r["pts"]) <= 6 and len(r.get("out", [])) not in (0, len(r["pts"]))]
    if smp:
        ctx.sample({"removal_record": {k: v for k, v in smp[len(smp) // 2].items()}})
    ctx.sample({"random_list": rl[1] if len(rl) > 1 else rl[0]})
    validate(ctx, recs, "X02")
    by = {}
    for r in recs:
        by[r["api"]] = by.get(r["api"], 0) + 1
    ctx.note(f"list machine: {len(lists)} lists (every ordered list of <= {b['ordered_lists_up_to']} and every bag of <= {b['bags_up_to']} "
             f"coordinates on a {len(b['lattice'])}x{len(b['lattice'])} lattice), {res_l.distinct} states; grid machine: {len(grids)} (mask, geometry) "
             f"instances, {res_g.distinct} states; {n_enum} records from the enumerated instances + {len(recs) - n_enum} records from "
             f"{len(rl)} random lists (length <= {b['random_list_max_len']}) and {len(rg)} random masks (<= {b['random_grid_max_side']}^2); by api: {by}")
    ctx.note("queries covered: Grid2DIrregular(values) in the forms list of tuples / list of lists / ndarray / list of 1D arrays / "
             "Grid2DIrregular, .array .values .slim .native .in_list; Grid2DIrregularUniform (flat forms, nested groups, single tuple; "
             "pixel_scales / shape_native kept; grid_from; from_grid_sparse_uniform_upscale; grid_2d_via_deflection_grid_from); "
             "ArrayIrregular views; Grid2DIrregular.from_yx_1d / from_pixels_and_mask / grid_2d_via_deflection_grid_from / "
             "squared_distances_to_coordinate_from / distances_to_coordinate_from / furthest_distances_to_other_coordinates / "
             "grid_of_closest_from / scaled_minima / scaled_maxima / extent_with_buffer_from / geometry (extent, shape_native_scaled, "
             "scaled_minima, scaled_maxima); Grid2D.squared_distances_to_coordinate_from / distances_to_coordinate_from / "
             "grid_with_coordinates_within_distance_removed_from / grid_2d_via_deflection_grid_from / scaled_minima / scaled_maxima / "
             "shape_native_scaled_interior / extent_with_buffer_from (slim- and native-stored). grid_with_coordinates_within_distance_"
             "removed_from exists on Grid2D only; structure_2d_from_result-style helpers do not exist in this tree")
    ctx.assumptions = [
        "coordinates are integer lattice points times a tick (dyadic and decimal ticks); alpha divides by the tick, demands a residual "
        "below 1e-6 lattice units and rejects anything else; squared distances are judged as exact integers",
        "distances are judged in fixed point (R = round(F d / tick), |R^2 - F^2 n| <= R + 1, derived in Trace_Irregular.tla) and must be "
        "the exact integer (to 1e-9 relative) where the squared distance is a perfect square",
        "removal distances have half-integer squares on the lattice, so no coordinate is at the threshold; reference coordinates are "
        "passed as a list of tuples, one tuple, or one 1D ndarray (the documented forms)",
        "furthest_distances_to_other_coordinates of a single coordinate is not pinned (there is no other coordinate)",
        "the closest query accepts any nearest coordinate on exact ties and demands a bit-for-bit copy of a grid coordinate",
        "distance queries of a native-stored Grid2D raise ArrayException (loud, not judged); its summaries are judged",
    ]


def replay(ctx, rp):
    rec = rp["record"]
    api, tick = rec["api"], rec["tick"]
    rng = np.random.default_rng(ctx.seed)
    T = lambda s: [tuple(p) for p in s]
    if api == "container":
        P = [tuple(p) for grp in rec["groups"] for p in grp]
        recs = container_records(P, tick, rng, 0, fixed=(rec["cls"], rec["form"], rec["groups"]))
    elif api == "values":
        recs = [values_record(rec["vals"], tick, rng, rec["form"])]
    elif api == "sqdist" and rec["cls"] == "Grid2DIrregular":
        recs = [sqdist_record_irregular(T(rec["pts"]), tick, tuple(rec["c"]), rec["cform"])]
    elif api == "sqdist":
        recs = [sqdist_record_grid(rec["h"], rec["w"], rec["u"], rec["g"], tick, tuple(rec["c"]), vals=T(rec["pts"]) if rec.get("valued") else None)]
    elif api == "furthest":
        recs = [furthest_record(T(rec["pts"]), tick)]
    elif api == "closest":
        recs = [closest_record(T(rec["pts"]), tick, T(rec["pair"]), rec["pform"])]
    elif api == "remove":
        recs = [remove_record(rec["h"], rec["w"], rec["u"], rec["g"], tick, T(rec["cs"]), rec["dd2"],
                              vals=T(rec["vals"]) if rec.get("valued") else None, cform=rec["cform"])]
    elif api == "summary" and rec["cls"] == "Grid2DIrregular":
        recs = [summary_record_irregular(T(rec["pts"]), tick, rec["b"])]
    elif api == "summary":
        recs = [summary_record_grid(rec["h"], rec["w"], rec["u"], rec["g"], tick, rec["b"], vals=T(rec["vals"]) if rec.get("valued") else None,
                                    stored=rec["stored"])]
    elif api == "pixels":
        recs = [pixels_record(rec["h"], rec["w"], rec["u"], rec["g"], tick, T(rec["pixels"]), rec["form"])]
    elif api == "yx1d":
        recs = [yx_record(list(zip(rec["ys"], rec["xs"])), tick, rec["form"])]
    elif api == "deflect" and rec["cls"] == "Grid2D":
        recs = [deflect_record_grid(rec["h"], rec["w"], rec["u"], rec["g"], tick, T(rec["defl"]))]
    elif api == "deflect":
        recs = [deflect_record(T(rec["pts"]), tick, T(rec["defl"]), rec["cls"], rng)]
    elif api == "upscale":
        recs = [upscale_record(T(rec["pts"]), tick, rec["f"], rec["e"], rng)]
    elif api == "gridfrom":
        recs = [gridfrom_record(T(rec["pts"]), tick, rng)]
    else:
        raise core.MachineryError(f"unknown api in replay file: {api}")
    for r in recs:
        r.setdefault("inst", -1)
    rej = validate(ctx, recs, "X02-replay")
    print("replayed", len(recs), "record(s); rejected:", [r["clauses"] for r in rej])
    return ctx.finish()
