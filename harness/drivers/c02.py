"""C02 -- pixel indices and scaled (y,x) coordinates are consistent inverse maps; shape-based mask constructors.

S->C: Geometry.tla enumerates every (shape, anisotropic scales, origin) geometry and every constructor call inside the
      bound (half-tick lattice, radii tight around every pixel); each instance is replayed through the real
      Mask2D.geometry / Grid2D / Grid1D / Mask1D / Mask2D.circular... API with concrete tick lengths (gamma).
C->S: what comes back is abstracted to integer half-ticks (alpha rejects off-lattice values) and validated by
      Trace_Geometry.tla; seeded random larger frames (up to 40x31) with random tick lengths extend the reach."""
import json
import math
import os

import numpy as np

from harness import core

OFFV = 2000000001  # sentinel for "not on the lattice" (never a legitimate value; < 2^31)
TOL = 1e-6  # residual allowed by alpha, in half-ticks
TAUS = [("dyadic", 0.125), ("decimal", 0.05), ("third", 1.0 / 3.0)]
INT31 = 2**31 - 1

ALL_KINDS = ["circular", "annular", "anti_annular", "elliptical", "elliptical_annular"]
ROTATIONS = [(1, 0, 1), (0, 1, 1), (3, 4, 5), (4, 3, 5), (5, 12, 13)]
AXIS_RATIOS = [(1, 1), (1, 2), (3, 4)]
ELL_PAIRS = [((1, 2, 3, 4, 5), (3, 4, 1, 0, 1)), ((3, 5, 0, 1, 1), (1, 2, 5, 12, 13)), ((1, 1, 1, 0, 1), (1, 3, 4, 3, 5))]
SHAPE_ORIGINS = [(0, 0), (10, -6), (-2, 2), (-6, 10)]

MC_CFG = """CONSTANTS
  Shapes <- MCShapes
  Scales <- MCScales
  Origins <- MCOrigins
  Sizes1D <- MCSizes1D
  MaskShapes <- MCMaskShapes
  MaskScalePairs <- MCMaskScalePairs
  MaskCentres <- MCMaskCentres
  FixedR2 <- MCFixedR2
  AxisRatios <- MCAxisRatios
  Rotations <- MCRotations
  EllPairs <- MCEllPairs
  Kinds <- MCKinds
SPECIFICATION Spec
INVARIANT InputsWellFormed
INVARIANT CentreThenIndexIsIdentity
INVARIANT IndexCellContainsPoint
INVARIANT ContinuousRoundTrip
INVARIANT ExtentIsUnionOfSquares
INVARIANT FlatIndex
INVARIANT CodeFormulationAgrees
INVARIANT OneDConsistent
INVARIANT ShapeMaskIsRadialSet
"""

TRACE_CFG = """CONSTANTS
  Shapes = {}
  Scales = {}
  Origins = {}
  Sizes1D = {}
  MaskShapes = {}
  MaskScalePairs = {}
  MaskCentres = {}
  FixedR2 = {}
  AxisRatios = {}
  Rotations = {}
  EllPairs = {}
  Kinds = {}
SPECIFICATION TraceSpec
POSTCONDITION TraceAccepted
"""


# ---------------------------------------------------------------------------------------------
# TLA+ constant syntax
# ---------------------------------------------------------------------------------------------
def _tup(t):
    return "<<" + ", ".join(_tup(x) if isinstance(x, (tuple, list)) else str(x) for x in t) + ">>"


def _set(items):
    return "{" + ", ".join(_tup(x) if isinstance(x, (tuple, list)) else (f'"{x}"' if isinstance(x, str) else str(x)) for x in items) + "}"


def mc_defs(*, shapes=(), scales=(), origins=(), sizes1d=(), mask_shapes=(), mask_scale_pairs=(), mask_centres=(),
            fixed_r2=(), axis_ratios=AXIS_RATIOS, rotations=ROTATIONS, ell_pairs=ELL_PAIRS, kinds=ALL_KINDS):
    return "\n".join([
        f"MCShapes == {_set(shapes)}", f"MCScales == {_set(scales)}", f"MCOrigins == {_set(origins)}",
        f"MCSizes1D == {_set(sizes1d)}", f"MCMaskShapes == {_set(mask_shapes)}",
        f"MCMaskScalePairs == {_set(mask_scale_pairs)}", f"MCMaskCentres == {_set(mask_centres)}",
        f"MCFixedR2 == {_set(fixed_r2)}", f"MCAxisRatios == {_set(axis_ratios)}", f"MCRotations == {_set(rotations)}",
        f"MCEllPairs == {_set(ell_pairs)}", f"MCKinds == {_set(kinds)}"])


# ---------------------------------------------------------------------------------------------
# alpha: floats -> integer half-ticks (rejecting).  Whatever the code under test hands back is turned into a
# VERDICT: a value that is not on the lattice, has the wrong shape or is not numeric at all becomes the sentinel
# OFFV and is counted in `off` (clause "offlattice"); an exception raised by a call is recorded in `raised`
# (clause "no-exception").  Nothing the implementation returns or raises may end in a machinery failure.
# ---------------------------------------------------------------------------------------------
class _Alpha:
    def __init__(self, tau):
        self.tau = tau
        self.off = 0
        self.where = []

    def _bad(self, name, n=1):
        self.off += n
        if name not in self.where:
            self.where.append(name)

    def _conv(self, x, name, ncomp, div=None, mul=None):
        try:
            a = np.asarray(x, dtype=float)
            a = a / div if div is not None else a * mul
            a = a.reshape(-1, ncomp) if ncomp > 1 else a.reshape(-1)
            r = np.rint(a)
            ok = np.isfinite(a) & (np.abs(a - r) <= TOL) & (np.abs(r) < 1.0e9)
            bad = int(np.size(ok) - np.count_nonzero(ok))
            if bad:
                self._bad(name, bad)
            return np.where(ok, r, OFFV).astype(np.int64).tolist()
        except Exception:
            self._bad(name)
            return [[OFFV] * ncomp] if ncomp > 1 else [OFFV]

    def ticks(self, x, name, ncomp):
        """scaled coordinates -> half-ticks; ncomp = 2 for (y,x) pairs, 1 for a flat list"""
        return self._conv(x, name, ncomp, div=self.tau)

    def ints(self, x, name, ncomp, scale=1.0):
        """values that must be integers (pixel indices; continuous pixel coordinates times `scale`)"""
        return self._conv(x, name, ncomp, mul=scale)


def _geo_tuple(g):
    return g["h"], g["w"], g["sy"], g["sx"], g["oy"], g["ox"]


def _msg(e):
    return f"{type(e).__name__}: {str(e)[:100]}".encode("ascii", "replace").decode()


class _Rec:
    """One record.  Every group of calls into the code under test (and the abstraction of what it returns) runs
    through `do`: if anything in the group raises, the group's fields get their defaults and the record says so."""

    def __init__(self, base, tau):
        self.rec = dict(base)
        self.rec["raised"] = []
        self.al = _Alpha(tau)

    def do(self, name, fn, defaults):
        try:
            out = fn()
        except core.MachineryError:
            raise
        except Exception as e:  # noqa: BLE001 -- a verdict, see above
            self.rec["raised"].append(f"{name}: {_msg(e)}")
            self.rec.update(defaults)
            return False
        self.rec.update(out)
        return True

    def done(self):
        self.rec["off"] = int(self.al.off)
        self.rec["offw"] = self.al.where
        return self.rec


# ---------------------------------------------------------------------------------------------
# gamma + the real calls + alpha, one record per instance
# ---------------------------------------------------------------------------------------------
def rec_g2(g, qs, tau, seed, jitter, cells=None):
    """2D geometry instance g (half-ticks) with query points qs (odd half-ticks inside the extent)."""
    import autoarray as aa

    h, w, sy, sx, oy, ox = _geo_tuple(g)
    rng = np.random.default_rng([seed, h, w, sy, sx, oy + 1000, ox + 1000])
    ps = (sy * tau, sx * tau)
    org = (oy * tau, ox * tau)
    R = _Rec({"p": "C02", "api": "g2", "g": dict(g), "tau": repr(float(tau)), "seed": int(seed), "jitter": bool(jitter)}, tau)
    al = R.al
    # inputs (all chosen here, none derived from what the implementation returns)
    q = np.asarray(qs, dtype=float).reshape(-1, 2)
    n = q.shape[0]
    qexact = q * tau
    qj = qexact + (rng.uniform(-0.49, 0.49, size=q.shape) * tau if jitter else 0.0)
    if cells is None:
        cells = [[a, b] for a in range(h) for b in range(w)]
    cells = [[int(a), int(b)] for a, b in cells]
    nc = len(cells)
    m = rng.random((h, w)) < rng.choice([0.3, 0.6])  # True = masked
    if rng.random() < 0.25:
        m[:, :] = False
    if m.all():
        m[int(rng.integers(0, h)), int(rng.integers(0, w))] = False
    k4 = min(max(n, 4), 24)
    p4 = np.stack([rng.integers(1, 4 * h - 2, size=k4), rng.integers(1, 4 * w - 2, size=k4)], axis=1)
    R.rec.update({"qs": [[int(a), int(b)] for a, b in q], "cells": cells,
                  "u": [int(k) for k in np.flatnonzero(~m.ravel())], "p4": p4.astype(int).tolist()})

    full = aa.Mask2D.all_false(shape_native=(h, w), pixel_scales=ps, origin=org)
    geo = full.geometry

    R.do("geometry.extent", lambda: {"extent": al.ticks(list(geo.extent), "extent", 1)}, {"extent": []})

    def index_calls():
        out = {"px": [], "cen": [], "idx": []}
        if n:
            out["px"] = al.ints([list(geo.pixel_coordinates_2d_from(scaled_coordinates_2d=(float(y), float(x)))) for y, x in qj], "px", 2)
            gq = aa.Grid2D.no_mask(values=qj.copy(), shape_native=(1, n), pixel_scales=1.0)
            out["cen"] = al.ints(geo.grid_pixel_centres_2d_from(grid_scaled_2d=gq), "cen", 2)
            out["idx"] = al.ints(geo.grid_pixel_indexes_2d_from(grid_scaled_2d=gq), "idx", 1)
        return out

    R.do("pixel_coordinates_2d_from / grid_pixel_centres_2d_from / grid_pixel_indexes_2d_from", index_calls,
         {"px": [], "cen": [], "idx": []})

    def continuous_calls():
        if not n:
            return {"cont_back": []}
        ge = aa.Grid2D.no_mask(values=qexact.copy(), shape_native=(1, n), pixel_scales=1.0)
        pix = geo.grid_pixels_2d_from(grid_scaled_2d=ge)
        return {"cont_back": al.ticks(geo.grid_scaled_2d_from(grid_pixels_2d=pix), "cont_back", 2)}

    R.do("grid_pixels_2d_from -> grid_scaled_2d_from", continuous_calls, {"cont_back": []})

    # pixel centres and back (the pixel index as a tuple, as returned by pixel_coordinates_2d_from, as a Python list and
    # as a numpy integer array)
    def centre_calls():
        ctr_f = [geo.scaled_coordinates_2d_from(pixel_coordinates_2d=(a, b)) for a, b in cells]
        out = {"ctr": al.ticks([list(c) for c in ctr_f], "ctr", 2)}
        cidx = [geo.pixel_coordinates_2d_from(scaled_coordinates_2d=c) for c in ctr_f]
        out["cidx"] = al.ints([list(c) for c in cidx], "cidx", 2)
        out["cback"] = al.ticks([list(geo.scaled_coordinates_2d_from(pixel_coordinates_2d=c)) for c in cidx], "cback", 2)
        out["ctr_list"] = al.ticks([list(geo.scaled_coordinates_2d_from(pixel_coordinates_2d=[a, b])) for a, b in cells], "ctr_list", 2)
        out["ctr_npint"] = al.ticks([list(geo.scaled_coordinates_2d_from(pixel_coordinates_2d=np.array([a, b], dtype=np.int64))) for a, b in cells], "ctr_npint", 2)
        return out

    R.do("scaled_coordinates_2d_from / pixel_coordinates_2d_from", centre_calls,
         {"ctr": [], "cidx": [], "cback": [], "ctr_list": [], "ctr_npint": []})

    # INTEGER pixel coordinates fed back through the continuous conversion: the exact centres of `cells` (gamma's own
    # values, not the implementation's) go through grid_pixel_centres_2d_from; what it returns (integer dtype, as
    # returned) goes through grid_scaled_2d_from and back through grid_pixels_2d_from.  The same whole numbers as floats
    # and as a freshly built integer grid must give the same scaled coordinates (a conversion of pixel coordinates
    # cannot depend on their dtype).
    def integer_pixel_calls():
        cy = np.array([(oy + (h - 1 - 2 * a) * (sy // 2)) * tau for a, b in cells], dtype=float)
        cx = np.array([(ox + (2 * b - w + 1) * (sx // 2)) * tau for a, b in cells], dtype=float)
        gc = aa.Grid2D.no_mask(values=np.stack([cy, cx], axis=1), shape_native=(1, nc), pixel_scales=1.0)
        ip = geo.grid_pixel_centres_2d_from(grid_scaled_2d=gc)
        ipa = np.array(ip)
        out = {"ip": al.ints(ipa, "ip", 2), "ip_dtype_int": bool(np.issubdtype(ipa.dtype, np.integer))}
        sc_int = geo.grid_scaled_2d_from(grid_pixels_2d=ip)
        out["ip_scaled_int"] = al.ticks(sc_int, "ip_scaled_int", 2)
        out["ip_back"] = al.ints(geo.grid_pixels_2d_from(grid_scaled_2d=sc_int), "ip_back", 2)
        gfl = aa.Grid2D.no_mask(values=np.asarray(cells, dtype=float).reshape(-1, 2), shape_native=(1, nc), pixel_scales=1.0)
        out["ip_scaled_float"] = al.ticks(geo.grid_scaled_2d_from(grid_pixels_2d=gfl), "ip_scaled_float", 2)
        gin = aa.Grid2D(values=np.asarray(cells, dtype=np.int64).reshape(-1, 2), mask=gc.mask)
        out["ip_scaled_newint"] = al.ticks(geo.grid_scaled_2d_from(grid_pixels_2d=gin), "ip_scaled_newint", 2)
        return out

    R.do("grid_pixel_centres_2d_from -> grid_scaled_2d_from -> grid_pixels_2d_from (integer pixels)", integer_pixel_calls,
         {"ip": [], "ip_dtype_int": False, "ip_scaled_int": [], "ip_back": [], "ip_scaled_float": [], "ip_scaled_newint": []})

    # grids of pixel centres.  Every grid is requested twice and the first result (the caller's own object) is edited in
    # place before the second request: the judged grid must still be the closed-form one (no result may be handed out
    # from a shared buffer)
    def _twice(make):
        first = make()
        try:
            first._array[...] = 12345.678
        except Exception:
            pass
        return make()

    mask = aa.Mask2D(mask=m, pixel_scales=ps, origin=org)
    R.do("Grid2D.from_mask", lambda: {"grid_mask": al.ticks(_twice(lambda: aa.Grid2D.from_mask(mask=mask)).slim, "grid_mask", 2)},
         {"grid_mask": []})
    R.do("Grid2D.uniform", lambda: {"grid_uniform": al.ticks(
        _twice(lambda: aa.Grid2D.uniform(shape_native=(h, w), pixel_scales=ps, origin=org)).slim, "grid_uniform", 2)},
         {"grid_uniform": []})
    R.do("derive_grid.all_false", lambda: {"grid_all_false": al.ticks(_twice(lambda: mask.derive_grid.all_false).slim, "grid_all_false", 2)},
         {"grid_all_false": []})

    # continuous pixel coordinates -> scaled -> continuous pixel coordinates: quarters of a pixel in [0.25, H-0.75] x
    # [0.25, W-0.75], which is inside the frame whether pixel centres sit at half-integers or at integers
    def p4_calls():
        gp = aa.Grid2D.no_mask(values=p4 / 4.0, shape_native=(1, k4), pixel_scales=1.0)
        sc = geo.grid_scaled_2d_from(grid_pixels_2d=gp)
        return {"p4_back": al.ints(geo.grid_pixels_2d_from(grid_scaled_2d=sc), "p4_back", 2, scale=4.0)}

    R.do("grid_scaled_2d_from -> grid_pixels_2d_from", p4_calls, {"p4_back": []})
    return R.done()


def rec_g1(w, s, o, tau, seed):
    import autoarray as aa

    rng = np.random.default_rng([seed, w, s, o + 1000])
    m = rng.random(w) < 0.4
    if rng.random() < 0.3 or m.all():
        m[:] = False
    R = _Rec({"p": "C02", "api": "g1", "w": int(w), "s": int(s), "o": int(o), "tau": repr(float(tau)), "seed": int(seed),
              "u": [int(k) for k in np.flatnonzero(~m)]}, tau)
    al = R.al
    mask = aa.Mask1D(mask=m, pixel_scales=(s * tau,), origin=(o * tau,))
    R.do("Mask1D.geometry.extent", lambda: {"extent": al.ticks(list(mask.geometry.extent), "extent", 1)}, {"extent": []})
    R.do("Grid1D.from_mask", lambda: {"grid": al.ticks(aa.Grid1D.from_mask(mask=mask).slim, "grid", 1)}, {"grid": []})
    return R.done()


def _ell(e):
    return (e["qn"], e["qd"], e["c"], e["s"], e["n"])


def fits32(g, par):
    """all integers the specification evaluates for this constructor call stay below 2^31"""
    h, w, sy, sx = g["h"], g["w"], g["sy"], g["sx"]
    dy = max(abs((h - 1) * (sy // 2) - par["cy"]), abs(-(h - 1) * (sy // 2) - par["cy"]))
    dx = max(abs((w - 1) * (sx // 2) - par["cx"]), abs(-(w - 1) * (sx // 2) - par["cx"]))
    worst = 2 * (dy * dy + dx * dx) + 2
    for e in (par["e1"], par["e2"]):
        qn, qd, c, s, n = _ell(e)
        m = (dx + dy) * max(abs(c), abs(s), 1)
        worst = max(worst, 2 * (qn * qn + qd * qd) * m * m + 2, (max(par["r"]) + 2) * n * n * qn * qn)
    return worst < INT31


def rec_shape(g, par, tau, variant=0):
    """one constructor call; g carries the origin handed to the constructor (it only labels the returned mask)"""
    import autoarray as aa

    h, w, sy, sx, oy, ox = _geo_tuple(g)
    kw = dict(shape_native=(h, w), pixel_scales=(sy * tau, sx * tau), origin=(oy * tau, ox * tau),
              centre=(par["cy"] * tau, par["cx"] * tau))
    rad = lambda r2: math.sqrt(r2 / 2.0) * tau  # noqa: E731

    def ang(e, k):
        # the same ellipse is described by angle + any multiple of 180 degrees
        return math.degrees(math.atan2(e["s"], e["c"])) + 180.0 * [0, 1, -1, 2][k % 4]

    kind, r = par["kind"], par["r"]
    if kind not in ALL_KINDS:
        raise core.MachineryError(f"unknown constructor kind {kind}")

    def call():
        if kind == "circular":
            return aa.Mask2D.circular(radius=rad(r[0]), **kw)
        if kind == "annular":
            return aa.Mask2D.circular_annular(inner_radius=rad(r[0]), outer_radius=rad(r[1]), **kw)
        if kind == "anti_annular":
            return aa.Mask2D.circular_anti_annular(inner_radius=rad(r[0]), outer_radius=rad(r[1]), outer_radius_2=rad(r[2]), **kw)
        if kind == "elliptical":
            e = par["e1"]
            return aa.Mask2D.elliptical(major_axis_radius=rad(r[0]), axis_ratio=e["qn"] / e["qd"], angle=ang(e, variant), **kw)
        e1, e2 = par["e1"], par["e2"]
        return aa.Mask2D.elliptical_annular(
            inner_major_axis_radius=rad(r[0]), inner_axis_ratio=e1["qn"] / e1["qd"], inner_phi=ang(e1, variant),
            outer_major_axis_radius=rad(r[1]), outer_axis_ratio=e2["qn"] / e2["qd"], outer_phi=ang(e2, variant + 1), **kw)

    rec = {"p": "C02", "api": "shape", "g": dict(g), "par": par, "tau": repr(float(tau)), "variant": int(variant), "raised": []}
    try:
        a = np.asarray(call())
        # -2: the returned mask does not have the requested shape / is not boolean-like
        rec["out"] = [int(k) for k in np.flatnonzero(~a.astype(bool).ravel())] if a.shape == (h, w) else [-2]
    except Exception as e:  # noqa: BLE001 -- an exception of a constructor on a well-formed call is a verdict
        rec["raised"].append(f"Mask2D.{kind}: {_msg(e)}")
        rec["out"] = [-3]
    return rec


def _raised_in_repo(e):
    """the innermost frame of the exception lies in the tree under test"""
    tb = e.__traceback__
    while tb is not None and tb.tb_next is not None:
        tb = tb.tb_next
    f = os.path.abspath(tb.tb_frame.f_code.co_filename) if tb is not None else ""
    return f.startswith(os.path.abspath(os.environ.get("VERIF_REPO", "/repo")) + os.sep)


def run_task(t):
    kind = t[0]
    fn = {"g2": rec_g2, "g1": rec_g1, "shape": rec_shape}.get(kind)
    if fn is None:
        raise core.MachineryError(f"unknown task {kind}")
    try:
        return fn(*t[1:])
    except core.MachineryError:
        raise
    except Exception as e:  # noqa: BLE001
        # an exception that escapes from the tree under test while the instance is being built from public
        # constructors (Mask2D, Mask1D, Grid2D.no_mask) on well-formed inputs is a verdict too; anything raised by
        # the harness itself stays a machinery failure
        if not _raised_in_repo(e):
            raise
        return {"p": "C02", "api": "crash", "call": kind, "raised": [f"building the {kind} instance: {_msg(e)}"],
                "task": json.dumps(t)}


def _run_tasks(ts):
    return [run_task(t) for t in ts]


def task_of_record(rec):
    if rec["api"] == "crash":
        return tuple(json.loads(rec["task"]))
    tau = float(rec["tau"])
    if rec["api"] == "g2":
        return ("g2", rec["g"], rec["qs"], tau, rec["seed"], rec["jitter"], rec["cells"])
    if rec["api"] == "g1":
        return ("g1", rec["w"], rec["s"], rec["o"], tau, rec["seed"])
    return ("shape", rec["g"], rec["par"], tau, rec.get("variant", 0))


# ---------------------------------------------------------------------------------------------
# random larger instances (beyond the exhaustive bound)
# ---------------------------------------------------------------------------------------------
def _odd_in(rng, lo, hi, n):
    """n odd integers strictly between the even numbers lo < hi"""
    return lo + 1 + 2 * rng.integers(0, (hi - lo) // 2, size=n)


def random_tasks(rng, n_geo, n_shape, seed):
    ts = []
    for k in range(n_geo):
        h, w = int(rng.integers(1, 41)), int(rng.integers(1, 32))
        if k % 5 == 0:
            h, w = 40, 31
        sy, sx = (int(x) for x in rng.choice([4, 8, 12, 20, 36], size=2))
        oy, ox = (int(2 * x) for x in rng.integers(-60, 61, size=2))
        g = {"h": h, "w": w, "sy": sy, "sx": sx, "oy": oy, "ox": ox}
        tau = float(np.exp(rng.uniform(np.log(1e-3), np.log(50.0))))
        nq = 40
        ys = _odd_in(rng, oy - h * (sy // 2), oy + h * (sy // 2), nq)
        xs = _odd_in(rng, ox - w * (sx // 2), ox + w * (sx // 2), nq)
        # always include the four points nearest to the corners of the extent
        qs = [[int(a), int(b)] for a, b in zip(ys, xs)]
        T, B, L, R = oy + h * (sy // 2), oy - h * (sy // 2), ox - w * (sx // 2), ox + w * (sx // 2)
        qs += [[T - 1, L + 1], [T - 1, R - 1], [B + 1, L + 1], [B + 1, R - 1]]
        nc = min(h * w, 30)
        cells = [[int(a), int(b)] for a, b in zip(rng.integers(0, h, size=nc), rng.integers(0, w, size=nc))]
        cells += [[0, 0], [h - 1, w - 1], [0, w - 1], [h - 1, 0]]
        ts.append(("g2", g, qs, tau, seed + k, bool(k % 2), cells))
        ts.append(("g1", int(rng.integers(1, 60)), sx, ox, tau, seed + k))
    made = 0
    while made < n_shape:
        h, w = int(rng.integers(2, 41)), int(rng.integers(2, 32))
        if made % 7 == 0:
            h, w = 40, 31
        sy, sx = (int(x) for x in rng.choice([4, 8], size=2))
        oy, ox = SHAPE_ORIGINS[made % len(SHAPE_ORIGINS)]
        g = {"h": h, "w": w, "sy": sy, "sx": sx, "oy": oy, "ox": ox}
        cy, cx = (int(x) for x in rng.integers(-12, 13, size=2))
        kind = ALL_KINDS[made % 5]
        e1 = dict(zip(("qn", "qd"), AXIS_RATIOS[int(rng.integers(0, 3))]))
        e1.update(dict(zip(("c", "s", "n"), ROTATIONS[int(rng.integers(0, 5))])))
        e2 = dict(zip(("qn", "qd"), [(1, 1), (1, 2), (3, 4), (3, 5), (1, 3)][int(rng.integers(0, 5))]))
        e2.update(dict(zip(("c", "s", "n"), ROTATIONS[int(rng.integers(0, 5))])))
        noell = {"qn": 1, "qd": 1, "c": 1, "s": 0, "n": 1}
        if kind in ("circular", "annular", "anti_annular"):
            e1, e2 = noell, noell
        elif kind == "elliptical":
            e2 = noell
        nr = {"circular": 1, "annular": 2, "anti_annular": 3, "elliptical": 1, "elliptical_annular": 2}[kind]
        # radii: tight around randomly chosen pixels (2 d^2 +- 1), sorted, distinct
        rr = set()
        while len(rr) < nr:
            i, j = int(rng.integers(0, h)), int(rng.integers(0, w))
            dy = (h - 1 - 2 * i) * (sy // 2) - cy
            dx = (2 * j - w + 1) * (sx // 2) - cx
            v = 2 * (dy * dy + dx * dx) + int(rng.choice([-1, 1]))
            if v >= 1:
                rr.add(v)
        par = {"kind": kind, "cy": cy, "cx": cx, "r": sorted(rr), "e1": e1, "e2": e2}
        if not fits32(g, par):
            continue
        # tau >= 1e-2 keeps every pixel centre further than 1e-9 (in scaled units) from every radius
        tau = float(np.exp(rng.uniform(np.log(1e-2), np.log(50.0))))
        ts.append(("shape", g, par, tau, made))
        made += 1
    return ts


# ---------------------------------------------------------------------------------------------
# validation through Trace_Geometry
# ---------------------------------------------------------------------------------------------
def _describe(rec):
    if rec["api"] == "crash":
        return f"building a {rec['call']} instance {rec['task'][:200]}"
    if rec["api"] == "g2":
        g = rec["g"]
        return f"geometry of {g['h']}x{g['w']} scales ({g['sy']},{g['sx']})u origin ({g['oy']},{g['ox']})u tau={rec['tau']}"
    if rec["api"] == "g1":
        return f"1D geometry w={rec['w']} scale {rec['s']}u origin {rec['o']}u tau={rec['tau']}"
    g, p = rec["g"], rec["par"]
    meth = {"annular": "circular_annular", "anti_annular": "circular_anti_annular"}.get(p["kind"], p["kind"])
    return (f"Mask2D.{meth} on {g['h']}x{g['w']} scales ({g['sy']},{g['sx']})u origin ({g['oy']},{g['ox']})u "
            f"centre ({p['cy']},{p['cx']})u R2={p['r']} e1={_ell(p['e1'])} e2={_ell(p['e2'])} tau={rec['tau']}")


def validate(ctx, records, tag, chunk=4000):
    import concurrent.futures as cf

    for n, r in enumerate(records):
        r["id"] = n
    chunks = [records[k: k + chunk] for k in range(0, len(records), chunk)]
    rejects = []

    def one(args):
        k, ch = args
        _, rej = ctx.validate_trace("Trace_Geometry", TRACE_CFG, ch, tag=f"{tag}-{k}", timeout=1800)
        return rej

    with cf.ThreadPoolExecutor(max_workers=min(16, len(chunks) or 1)) as ex:
        for rej in ex.map(one, list(enumerate(chunks))):
            rejects.extend(rej)
    for rj in rejects:
        rec = records[rj["id"]]
        extra = f" off-lattice in {rec.get('offw')}" if rec.get("off") else ""
        if rec.get("raised"):
            extra += f" raised: {rec['raised']}"
        ctx.violation(rj["sig"], f"{_describe(rec)}: failed {rj['clauses']}{extra}",
                      {"record": rec, "failed_clauses": rj["clauses"], "spec_wanted": rj.get("want")},
                      cls=",".join(rj["clauses"]))
    return rejects


# ---------------------------------------------------------------------------------------------
def _bounds(quick):
    shapes = [(h, w) for h in range(1, 6) for w in range(1, 6)]
    if quick:
        return {
            "geometry": dict(shapes=shapes, scales=[4, 8, 12], origins=[-6, -2, 0, 2, 10], sizes1d=list(range(1, 8))),
            "masks": [
                dict(mask_shapes=[(7, 6)], mask_scale_pairs=[(4, 12), (8, 8)], mask_centres=[(0, 0), (-3, 1)],
                     fixed_r2=[9, 129, 1201]),
                dict(mask_shapes=[(4, 5), (3, 3), (5, 2), (1, 4), (2, 2)], mask_scale_pairs=[(4, 4), (12, 8)],
                     mask_centres=[(0, 0), (2, -4), (-3, 1)], fixed_r2=[9, 129, 1201]),
            ],
            "random_geometries": 60, "random_shape_masks": 150,
        }
    return {
        "geometry": dict(shapes=shapes + [(6, 7), (7, 6), (8, 3), (2, 9)], scales=[4, 8, 12, 20], origins=[-6, -2, 0, 2, 10],
                         sizes1d=list(range(1, 13))),
        "masks": [
            dict(mask_shapes=[(7, 6), (6, 7)], mask_scale_pairs=[(4, 4), (4, 12), (12, 4), (8, 12)],
                 mask_centres=[(0, 0), (-3, 1), (5, 6), (-8, -2)], fixed_r2=[9, 129, 1201, 3001]),
            dict(mask_shapes=[(4, 5), (5, 4), (3, 3), (5, 2), (1, 4), (2, 2), (6, 6), (5, 5), (1, 1)],
                 mask_scale_pairs=[(4, 4), (4, 12), (12, 4), (8, 12)],
                 mask_centres=[(0, 0), (2, -4), (-3, 1), (5, 6)], fixed_r2=[9, 129, 1201, 3001]),
        ],
        "random_geometries": 600, "random_shape_masks": 2500,
    }


def run(ctx):
    import concurrent.futures as cf

    quick = ctx.quick
    b = _bounds(quick)
    ctx.bounds = {"unit": "half-tick u; pixel scales multiples of 4u, origins multiples of 2u, queries odd",
                  "tick_lengths": [t for _, t in TAUS] + ["random in [1e-3, 50] (geometry) / [1e-2, 50] (constructors) for the random instances"], **b}

    # 1. TLC on the bounded machine (the geometry family and the constructor families run side by side)
    jobs = [("MC_Geometry_g", mc_defs(**b["geometry"]))]
    jobs += [(f"MC_Geometry_m{k}", mc_defs(**m)) for k, m in enumerate(b["masks"])]
    ncpu = max(2, (os.cpu_count() or 4) // 2)

    def mc(job):
        tag, defs = job
        return ctx.tlc("Geometry", MC_CFG, defs=defs, tag=tag, timeout=3000, workers=ncpu)

    with cf.ThreadPoolExecutor(max_workers=len(jobs)) as ex:
        results = list(ex.map(mc, jobs))
    insts = [r for res in results for r in res.by_kind("inst")]
    g2 = [r for r in insts if r["mode"] == "g2"]
    g1 = [r for r in insts if r["mode"] == "g1"]
    mk = [r for r in insts if r["mode"] == "mask"]
    gb = b["geometry"]
    want_g2 = len(gb["shapes"]) * len(gb["scales"]) ** 2 * len(gb["origins"]) ** 2
    want_g1 = len(gb["sizes1d"]) * len(gb["scales"]) * len(gb["origins"])
    if len(g2) != want_g2 or len(g1) != want_g1 or not mk:
        raise core.MachineryError(f"Geometry.tla enumerated {len(g2)} 2D / {len(g1)} 1D / {len(mk)} constructor instances, "
                                  f"expected {want_g2} / {want_g1} / >0")
    if sum(res.distinct for res in results) < 2 * len(insts):
        raise core.MachineryError("Geometry.tla: fewer states than instances x 2")
    ctx.exhaustive = True

    # 2. S->C: every enumerated instance through the real API
    tasks = []
    for n, r in enumerate(g2):
        for k, (_, tau) in enumerate(TAUS):
            tasks.append(("g2", r["g"], r["qs"], tau, ctx.seed + n, (n + k) % 2 == 0, None))
        if not quick:
            g = r["g"]
            T, B = g["oy"] + g["h"] * (g["sy"] // 2), g["oy"] - g["h"] * (g["sy"] // 2)
            L, R = g["ox"] - g["w"] * (g["sx"] // 2), g["ox"] + g["w"] * (g["sx"] // 2)
            allq = [[y, x] for y in range(B + 1, T, 2) for x in range(L + 1, R, 2)]
            if len(allq) <= 1200:  # every odd query point inside the extent
                tasks.append(("g2", g, allq, TAUS[n % 3][1], ctx.seed + n, n % 2 == 1, None))
    for n, r in enumerate(g1):
        for _, tau in TAUS:
            tasks.append(("g1", r["g"]["w"], r["g"]["sx"], r["g"]["ox"], tau, ctx.seed + n))
    for n, r in enumerate(mk):
        g = dict(r["g"])
        g["oy"], g["ox"] = SHAPE_ORIGINS[n % len(SHAPE_ORIGINS)]
        if not fits32(g, r["par"]):
            raise core.MachineryError(f"constructor instance exceeds 32-bit arithmetic: {r}")
        for k, (_, tau) in enumerate(TAUS):
            # one tick length per constructor call in the quick tier, two in the thorough tier (rotating)
            if (quick and k != n % 3) or (not quick and k == n % 3):
                continue
            tasks.append(("shape", g, r["par"], tau, n + k))
    n_exh = len(tasks)
    # 3. seeded random larger instances
    rng = np.random.default_rng(ctx.seed)
    tasks += random_tasks(rng, b["random_geometries"], b["random_shape_masks"], ctx.seed)

    size = 60
    groups = [tasks[k: k + size] for k in range(0, len(tasks), size)]
    recs = []
    for part in core.pmap(_run_tasks, groups):
        recs.extend(part)
    ctx.replayed = len(insts)
    by_api = {}
    for r in recs:
        by_api.setdefault(r["api"], []).append(r)
    for api in ("g2", "shape", "g1"):
        if by_api.get(api):
            ctx.sample(by_api[api][len(by_api[api]) // 3])
    ctx.sample(recs[-1])

    # 4. C->S: every record judged by Trace_Geometry
    validate(ctx, recs, "C02")
    ctx.note(f"{len(g2)} 2D geometries, {len(g1)} 1D geometries, {len(mk)} constructor calls enumerated by TLC; "
             f"{n_exh} replays of them + {len(tasks) - n_exh} random larger instances -> {len(recs)} records validated by Trace_Geometry")
    ctx.assumptions = [
        "half-tick lattice: query coordinates are odd multiples of u (>= 1/12 pixel from any pixel boundary); radii have "
        "2 r^2 odd so no pixel centre is at distance exactly r (the statement's excluded band)",
        "alpha divides by the tick length, rounds, and rejects residuals > 1e-6 half-ticks (clause 'offlattice')",
        "the continuous pixel-coordinate conversion is only required to invert (both orders), as the statement says",
        "constructors: the origin handed to the constructor does not enter the radial test (centres relative to the mask origin)",
        "TLC 1.8 / SANY / CommunityModules",
    ]


def replay(ctx, rp):
    rec = rp["record"]
    new = run_task(task_of_record(rec))
    rej = validate(ctx, [new], "C02-replay")
    print("replayed 1 record; rejected clauses:", [r["clauses"] for r in rej])
    return ctx.finish()
