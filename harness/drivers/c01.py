"""C01 -- slim and native forms are exact, order-preserving inverses under any mask.

S->C: Masks.tla enumerates every mask of every shape inside the bound; each is replayed through the real
      Mask2D / Array2D / Grid2D / VectorYX2D / Array1D / Grid1D API with tagged contents.
C->S: the abstracted outputs (source cell of every output position) are validated by Trace_Masks.tla,
      also for seeded random larger masks."""
import numpy as np

from harness import core, exact
from harness.drivers import masks_common as mc


def _mask2d(h, w, u, rng=None):
    import autoarray as aa

    m = np.ones(h * w, dtype=bool)
    m[u] = False
    m = m.reshape(h, w)
    # the boolean array handed over is, for two thirds of the instances, not C-contiguous (Fortran order / a transposed view):
    # the meaning of a mask is its entries, not its memory layout
    k = (len(u) + 2 * h + w) % 3
    given = m if k == 0 else (np.asfortranarray(m) if k == 1 else np.ascontiguousarray(m.T).T)
    return aa.Mask2D(mask=given, pixel_scales=(1.0, 1.0)), m


def _src2(out, ncomp, ncells):
    """alpha: array of tags -> source cell per position (components must agree)."""
    a = np.asarray(out, dtype=float)
    if ncomp == 1:
        return exact.tags_to_src(a, base=1, n_cells=ncells)
    a = a.reshape(-1, 2)
    s0 = exact.tags_to_src(a[:, 0], base=1, n_cells=ncells)
    s1 = exact.tags_to_src(a[:, 1], base=1 + ncells, n_cells=ncells)
    return [x if x == y else exact.OFF for x, y in zip(s0, s1)]


def _unshift(arr, K):
    """Tags of an object made by adding K: exact 0 stays 0 (a zeroed masked position), K + tag -> tag, a bare K (the shifted
    content of a masked position that was not zeroed) -> an unknown tag."""
    a = np.asarray(arr, dtype=float).copy()
    nz = a != 0
    a[nz] -= K
    a[nz & (a == 0)] = -7.0
    return a


def _build(kind, values, mask, store_native):
    import autoarray as aa

    if kind == "array":
        return aa.Array2D(values=values, mask=mask, store_native=store_native)
    if kind == "grid":
        return aa.Grid2D(values=values, mask=mask, store_native=store_native)
    if kind == "vector":
        return aa.VectorYX2D(values=values, grid=aa.Grid2D.from_mask(mask), mask=mask, store_native=store_native)
    raise ValueError(kind)


def _reads(obj):
    return {
        "stored": np.array(obj.array),
        "slim": np.array(obj.slim.array),
        "native": np.array(obj.native.array),
        "sns": np.array(obj.slim.native.slim.array),
        "nsn": np.array(obj.native.slim.native.array),
    }


def records_for(inst, seed=0):
    import autoarray as aa

    h, w, u = inst
    n = h * w
    rng = np.random.default_rng(seed + 7919 * (h * 131 + w) + len(u))
    recs = []
    mask, m = _mask2d(h, w, u)
    tag1 = np.arange(1, n + 1, dtype=float).reshape(h, w)
    real1 = rng.standard_normal((h, w)) * rng.choice([1e-300, 1.0, 1e300 / 8]) + 0.0
    real1[real1 == 0] = 1.0
    for kind in ("array", "grid", "vector"):
        ncomp = 1 if kind == "array" else 2
        if ncomp == 1:
            tagn, realn = tag1, real1
        else:
            tagn = np.stack([tag1, tag1 + n], axis=-1)
            realn = np.stack([real1, -real1 * 3.0], axis=-1)
        for given in ("native", "slim"):
            for store_native in (False, True):
                def mk(full):
                    if given == "native":
                        v = full.copy()
                    else:
                        v = full[~m].copy()  # row-major gather of the unmasked cells: the documented slim order
                    return _build(kind, v, mask, store_native)

                ot, orr = mk(tagn), mk(realn)
                rt = _reads(ot)
                rr = _reads(orr)
                # a construction history: masking further (a child object) and building a second object from the same
                # caller array must leave what the parent reports unchanged
                child_ok = True
                if kind == "array" and len(u) > 1:
                    m2 = m.copy()
                    m2.reshape(-1)[u[0]] = True
                    mask2 = aa.Mask2D(mask=m2, pixel_scales=(1.0, 1.0))
                    for o_ in (ot, orr):
                        before = {k_: v_.copy() for k_, v_ in _reads(o_).items()}
                        o_.apply_mask(mask=mask2)
                        aa.Array2D(values=o_.native, mask=mask2, store_native=store_native)
                        after = _reads(o_)
                        if any(not np.array_equal(before[k_], after[k_]) for k_ in before):
                            child_ok = False
                rec = {"p": "C01", "api": "structure", "h": h, "w": w, "u": u, "kind": kind, "given": given,
                       "store_native": store_native}
                # a derivation history: an object made by arithmetic from the judged one (its buffer holds K at masked
                # positions when it is stored native) must report the same two forms, masked positions exactly zero
                K = float(4 * n)
                for op, f in (("add", lambda o: o + K), ("radd", lambda o: K + o)):
                    try:
                        dobj = f(ot)
                        dn, ds = np.array(dobj.native.array), np.array(dobj.slim.array)
                    except Exception:  # noqa: BLE001
                        rec["d_native_" + op], rec["d_slim_" + op] = [exact.OFF], [exact.OFF]
                        continue
                    rec["d_native_" + op] = _src2(_unshift(dn, K), ncomp, n)
                    rec["d_slim_" + op] = _src2(_unshift(ds, K), ncomp, n)
                ok = True
                flat_real = realn.reshape(n, ncomp) if ncomp == 2 else realn.reshape(n, 1)
                for name, arr in rt.items():
                    src = _src2(arr, ncomp, n)
                    rec[name] = src
                    # payload independence: the same source map must explain the run on arbitrary reals, bit for bit
                    got = np.asarray(rr[name], dtype=float).reshape(-1, ncomp)
                    if len(src) != got.shape[0]:
                        ok = False
                        continue
                    s = np.array(src, dtype=int)
                    want = np.where((s >= 0)[:, None], flat_real[np.clip(s, 0, n - 1)], 0.0)
                    if not np.array_equal(want.view(np.int64) if want.size else want, got.view(np.int64) if got.size else got):
                        # -0.0 vs 0.0 at masked positions is not a property violation
                        if not (np.array_equal(want, got)):
                            ok = False
                rec["payload_ok"] = bool(ok)
                rec["parent_ok"] = bool(child_ok)
                recs.append(rec)
    di = mask.derive_indexes

    def lst(fn, ndim):
        """alpha for a published index list: a 1D list of ints (or [N,2] pairs); anything else (a 0-d scalar, an exception,
        a wrong rank) is an unknown value that no clause accepts"""
        try:
            a = np.asarray(fn())
            if a.ndim != ndim or (ndim == 2 and a.shape[1] != 2):
                return [[exact.OFF, exact.OFF]] if ndim == 2 else [exact.OFF]
            return a.astype(int).tolist()
        except Exception:  # noqa: BLE001
            return [[exact.OFF, exact.OFF]] if ndim == 2 else [exact.OFF]

    recs.append({"p": "C01", "api": "indexes", "h": h, "w": w, "u": u,
                 "nfs": lst(lambda: di.native_for_slim, 2),
                 "uslim": lst(lambda: di.unmasked_slim, 1),
                 "mslim": lst(lambda: di.masked_slim, 1)})
    if len(u) > 1:
        # history: same Mask2D object, edited in place after its index tables (and edge/border tables) were read
        di.edge_native, di.border_native
        k0 = u[len(u) // 2]
        mask[k0 // w, k0 % w] = True
        u2 = [x for x in u if x != k0]
        # ... read through a fresh derive_indexes object and through the one HELD since before the edit
        for di2, held in ((mask.derive_indexes, False), (di, True)):
            recs.append({"p": "C01", "api": "indexes", "h": h, "w": w, "u": u2, "edited_in_place": True, "held_object": held,
                         "nfs": lst(lambda: di2.native_for_slim, 2),
                         "uslim": lst(lambda: di2.unmasked_slim, 1),
                         "mslim": lst(lambda: di2.masked_slim, 1)})
        m = np.asarray(mask).astype(bool).copy()
    if h == 1:
        m1 = aa.Mask1D(mask=m[0], pixel_scales=1.0)
        t1 = np.arange(1, w + 1, dtype=float)
        r1 = real1[0]
        for kind in ("array1d", "grid1d"):
            cls = aa.Array1D if kind == "array1d" else aa.Grid1D
            for given in ("native", "slim"):
                def mk1(full):
                    v = full.copy() if given == "native" else full[~m[0]].copy()
                    return cls(values=v, mask=m1)

                ot, orr = mk1(t1), mk1(r1)

                def rd(o):
                    return {"slim": np.array(o.slim.array), "native": np.array(o.native.array),
                            "sns": np.array(o.slim.native.slim.array), "nsn": np.array(o.native.slim.native.array)}

                a, b = rd(ot), rd(orr)
                rec = {"p": "C01", "api": "structure1d", "h": 1, "w": w, "u": u, "kind": kind, "given": given}
                ok = True
                for name in a:
                    src = exact.tags_to_src(a[name], base=1, n_cells=w)
                    rec[name] = src
                    s = np.array(src, dtype=int)
                    got = np.asarray(b[name], dtype=float).ravel()
                    if len(s) != len(got):
                        ok = False
                        continue
                    want = np.where(s >= 0, r1[np.clip(s, 0, w - 1)], 0.0)
                    if not np.array_equal(want, got):
                        ok = False
                rec["payload_ok"] = bool(ok)
                recs.append(rec)
    return recs


def big_index_records(big):
    """index tables of very long frames (only the few unmasked pixels are listed; the masked list is not materialised)"""
    import autoarray as aa

    out = []
    for h, w, u in big:
        m = np.ones(h * w, dtype=bool)
        m[u] = False
        di = aa.Mask2D(mask=m.reshape(h, w), pixel_scales=(1.0, 1.0)).derive_indexes
        try:
            nfs = np.asarray(di.native_for_slim)
            nfs = nfs.astype(np.int64).tolist() if nfs.ndim == 2 and nfs.shape[1] == 2 else [[exact.OFF, exact.OFF]]
        except Exception:  # noqa: BLE001
            nfs = [[exact.OFF, exact.OFF]]
        try:
            us = np.asarray(di.unmasked_slim)
            us = us.astype(np.int64).tolist() if us.ndim == 1 else [exact.OFF]
        except Exception:  # noqa: BLE001
            us = [exact.OFF]
        out.append({"p": "C01", "api": "indexes_big", "h": h, "w": w, "u": [int(x) for x in u], "nfs": nfs, "uslim": us})
    return out


def _records_many(args):
    insts, seed = args
    out = []
    for inst in insts:
        out.extend(records_for(inst, seed))
    return out


def run(ctx):
    quick = ctx.quick
    max_cells = 9 if quick else 12
    shapes = mc.shapes_upto(max_cells)
    extra = [] if quick else [(4, 4), (2, 7), (7, 2)]
    ctx.bounds = {"exhaustive_masks_up_to_cells": max_cells, "extra_exhaustive_shapes": extra,
                  "random_masks": 150 if quick else 1500, "random_max_side": 12}
    insts = mc.enumerate_masks(ctx, shapes + extra)
    ctx.exhaustive = True
    rng = np.random.default_rng(ctx.seed)
    rnd = mc.random_masks(rng, ctx.bounds["random_masks"])
    # long one-row masks: the 1D structures (Array1D / Grid1D) on lines far longer than the exhaustive bound
    for k in range(40 if quick else 400):
        w1 = int(rng.integers(13, 70))
        m1 = rng.random(w1) < rng.choice([0.2, 0.5, 0.8])
        m1[int(rng.integers(0, w1))] = True
        if k % 3 == 0:
            m1[int(rng.integers(0, w1))] = False
        rnd.append((1, w1, [int(x) for x in np.flatnonzero(m1)]))
    # two very long, almost fully masked frames: index arithmetic beyond 2^15 (and 2^16) pixels per side
    big = [(2, 40000, [3, 32767, 32768, 39999, 40000 + 32769, 79999]), (70000, 1, [0, 32768, 65535, 65536, 69999])]
    allinst = insts + rnd
    groups = [(allinst[k : k + 50], ctx.seed) for k in range(0, len(allinst), 50)]
    recs = []
    for part in core.pmap(_records_many, groups):
        recs.extend(part)
    recs.extend(big_index_records(big))
    ctx.replayed = len(insts)
    ctx.sample({"mask": {"h": insts[len(insts) // 2][0], "w": insts[len(insts) // 2][1], "unmasked": insts[len(insts) // 2][2]},
                "record": {k: v for k, v in recs[len(recs) // 2].items()}})
    ctx.sample({"random_mask": {"h": rnd[0][0], "w": rnd[0][1], "unmasked": rnd[0][2]}})
    mc.validate(ctx, recs, "C01")
    ctx.note(f"{len(insts)} exhaustive masks + {len(rnd)} random masks -> {len(recs)} records validated by Trace_Masks")
    ctx.assumptions = [
        "data movement is value-independent: checked per record by re-running with random real payloads (bit-for-bit)",
        "TLC 1.8 / SANY / CommunityModules; alpha maps tag -> source cell and rejects unknown tags",
    ]


def replay(ctx, rp):
    rec = rp["record"]
    if rec.get("api") == "indexes_big":
        rej = mc.validate(ctx, big_index_records([(rec["h"], rec["w"], rec["u"])]), "C01-replay")
        print("replayed 1 record; rejected:", [(r["clauses"]) for r in rej])
        return ctx.finish()
    recs = [r for r in records_for((rec["h"], rec["w"], rec["u"]), ctx.seed)
            if r["api"] == rec["api"] and all(r.get(k) == rec.get(k) for k in ("kind", "given", "store_native"))]
    rej = mc.validate(ctx, recs, "C01-replay")
    print("replayed", len(recs), "records; rejected:", [(r["clauses"]) for r in rej])
    return ctx.finish()
