"""X03 -- one-dimensional structures (Mask1D / Array1D / Grid1D / Geometry1D / 1D derive objects / 1D FITS / Header).

S->C: Line1D.tla enumerates every mask (every subset, the fully masked one included) of every line length inside the
      bound, with a few (pixel scale, origin) geometries, both input forms (slim / native) and both stored forms, and
      every history of up to MaxReads reads (slim, native, slim of native, native of slim, copy, 2*a, a+a); TLC checks
      the design theorems (stored form independent of the given form, ascending gather, scatter with zeros, the two round
      trips, every read after any history equals the answer of the instance, reads change nothing, centres symmetric /
      equally spaced / half a pixel inside the frame edges, the code-shaped centre and from-zero formulations agree with
      the definitions, calendar anchors) and dumps every instance; each instance is replayed through the real API with
      tagged contents and concrete tick lengths (gamma), and `tlc -simulate` behaviours (longer read histories) are
      replayed read by read on one object.
C->S: everything that comes back is abstracted (alpha: source tag per position, integer ticks per coordinate; off-lattice
      values are rejected, never rounded away) and judged by Trace_Line1D.tla with total, named verdicts; seeded random
      longer lines (up to 60 pixels, random masks / scales / origins / tick lengths / histories) extend the reach."""
import os
import shutil
import tempfile

import numpy as np

from harness import core, exact

OFFV = 2000000001  # sentinel for "not on the lattice / not an integer" (< 2^31, never legitimate)
TOL = 1e-6  # residual allowed by alpha, in ticks
TAUS = ["0.125", "0.05", "0.015625", "0.1", "4.0", "0.3333333333333333", "1.0", "0.7"]
GEOMS_QUICK = [(1, 0), (2, -3), (3, 7)]
GEOMS_THOROUGH = [(1, 0), (2, -3), (3, 7), (5, -12)]
READS = ["slim", "native", "slim_of_native", "native_of_slim", "copy", "twice", "sum"]
ACTION_OF = {"ReadSlim": "slim", "ReadNative": "native", "ReadSlimOfNative": "slim_of_native",
             "ReadNativeOfSlim": "native_of_slim", "ReadCopy": "copy", "ReadTwice": "twice", "ReadSum": "sum"}
INVARIANTS = ["InputsWellFormed", "StoredIndependentOfGiven", "SlimIsAscendingGather", "NativeIsScatterWithZeros",
              "RoundTripSlim", "RoundTripNative", "ReadAgreesWithInstance", "CentresAreCentred", "FrameEdges",
              "CodeFormulationAgrees", "CalendarAnchors"]

MC_CFG = """CONSTANTS
  MaxN <- MCMaxN
  Geoms <- MCGeoms
  MaxReads <- MCMaxReads
SPECIFICATION Spec
""" + "".join(f"INVARIANT {n}\n" for n in INVARIANTS) + "PROPERTY ReadsArePure\n"

SIM_CFG = """CONSTANTS
  MaxN <- MCMaxN
  Geoms <- MCGeoms
  MaxReads <- MCMaxReads
SPECIFICATION Spec
INVARIANT ReadAgreesWithInstance
INVARIANT StoredIndependentOfGiven
"""

TRACE_CFG = """CONSTANTS
  MaxN = 1
  Geoms = {}
  MaxReads = 0
SPECIFICATION TraceSpec
POSTCONDITION TraceAccepted
"""

JVM = {"JAVA_TOOL_OPTIONS": "-XX:ParallelGCThreads=2 -XX:CICompilerCount=2 -Xmx3g"}


def _defs(max_n, geoms, max_reads):
    gs = "{" + ", ".join(f"<<{p}, {o}>>" for p, o in geoms) + "}"
    return f"MCMaxN == {max_n}\nMCGeoms == {gs}\nMCMaxReads == {max_reads}"


# ---------------------------------------------------------------------------------------------
# alpha
# ---------------------------------------------------------------------------------------------
class _Alpha:
    """floats -> integers, rejecting: a value off the lattice becomes OFFV and is counted."""

    def __init__(self, tau):
        self.tau = tau
        self.off = 0

    def _conv(self, a):
        a = np.atleast_1d(np.asarray(a, dtype=float))
        r = np.rint(a)
        ok = np.isfinite(a) & (np.abs(a - r) <= TOL) & (np.abs(r) < 1.0e9)
        self.off += int(a.size - np.count_nonzero(ok))
        return np.where(ok, r, OFFV).astype(np.int64).tolist()

    def ticks(self, x):
        return self._conv(np.asarray(x, dtype=float) / self.tau)

    def tick(self, x):
        return self.ticks([x])[0]

    def ints(self, x):
        return self._conv(x)


def _src(arr, n):
    """tags k+1 -> source pixel k; exact 0 -> -1; anything else -> -2"""
    return exact.tags_to_src(np.asarray(arr, dtype=float), base=1, n_cells=n)


def _src_odd(arr, n):
    """history tags 2k+1 (odd, so that a factor two is decidable). Returns (src list, factor): factor 1 or 2, 0 if undecidable,
    -1 if there is no non-zero entry (no evidence)."""
    a = np.asarray(arr, dtype=float).ravel()
    nz = a[a != 0]
    if nz.size == 0:
        return [-1] * a.size, -1
    if not np.all(np.isfinite(nz)) or not np.all(nz == np.rint(nz)):
        return [exact.OFF if v != 0 else -1 for v in a], 0
    iv = np.rint(nz).astype(np.int64)
    if np.all(iv % 2 == 1):
        mul = 1
    elif np.all(iv % 2 == 0) and np.all((iv // 2) % 2 == 1):
        mul = 2
    else:
        return [exact.OFF if v != 0 else -1 for v in a], 0
    out = []
    for v in a:
        if v == 0:
            out.append(-1)
        else:
            t = int(round(v)) // mul
            k = (t - 1) // 2
            out.append(k if 0 <= k < n and t == 2 * k + 1 else exact.OFF)
    return out, mul


def _um(mask):
    return [int(x) for x in np.flatnonzero(~np.asarray(mask).astype(bool).ravel())]


# ---------------------------------------------------------------------------------------------
# gamma + the calls
# ---------------------------------------------------------------------------------------------
def _mask1d(n, u, ps, og, variant=0):
    """the Mask1D of the instance, built in one of the documented ways"""
    import autoarray as aa

    m = np.ones(n, dtype=bool)
    m[u] = False
    v = variant % 4
    if v == 0:
        return aa.Mask1D(mask=m.copy(), pixel_scales=(ps,), origin=(og,)), m
    if v == 1:
        return aa.Mask1D(mask=[bool(x) for x in m], pixel_scales=ps, origin=(og,)), m
    if v == 2:
        return aa.Mask1D(mask=np.invert(m), pixel_scales=ps, origin=(og,), invert=True), m
    return aa.Mask1D(mask=[int(x) for x in m], pixel_scales=(ps,), origin=(og,)), m


def _geom_fields(obj, al):
    """pixel scale / origin as carried by a mask or a structure"""
    try:
        ps = obj.pixel_scales
        ps2 = al.tick(ps[0]) if len(ps) == 1 else OFFV
    except Exception:
        ps2 = OFFV
        al.off += 1
    try:
        og = al.tick(obj.origin[0])
    except Exception:
        og = OFFV
        al.off += 1
    return ps2, og


def _cls(kind):
    import autoarray as aa

    return aa.Array1D if kind == "Array1D" else aa.Grid1D


def _base(inst, api):
    return {"api": api, "n": inst["n"], "u": list(inst["u"]), "p": inst["p"], "o": inst["o"], "tau": inst["tau"],
            "given": inst["given"], "store": bool(inst["store"]), "rot": inst.get("rot", 0)}


def _payload(rng, n):
    r = rng.standard_normal(n) * float(rng.choice([1e-300, 1.0, 1e300 / 8]))
    r[r == 0] = 1.0
    return r


def rec_structure(inst, kind, rng):
    n, u = inst["n"], inst["u"]
    tau = float(inst["tau"])
    al = _Alpha(tau)
    mask, m = _mask1d(n, u, 2 * inst["p"] * tau, inst["o"] * tau, inst.get("rot", 0))
    tags = np.arange(1, n + 1, dtype=float)
    real = _payload(rng, n)
    as_list = (inst.get("rot", 0) // 4) % 2 == 1

    def mk(full):
        v = full.copy() if inst["given"] == "native" else full[~m].copy()
        if as_list:
            v = [float(x) for x in v]
        return _cls(kind)(values=v, mask=mask, store_native=bool(inst["store"]))

    def reads(o):
        return {"stored": np.array(o.array), "slim": np.array(o.slim.array), "native": np.array(o.native.array),
                "sns": np.array(o.slim.native.slim.array), "nsn": np.array(o.native.slim.native.array)}

    rec = _base(inst, "structure")
    rec.update({"kind": kind, "as_list": as_list})
    ot = mk(tags)
    rt = reads(ot)
    rr = reads(mk(real))
    ok = True
    for name, arr in rt.items():
        s = _src(arr, n)
        rec[name] = s
        got = np.asarray(rr[name], dtype=float).ravel()
        if len(s) != len(got):
            ok = False
            continue
        si = np.array(s, dtype=int)
        want = np.where(si >= 0, real[np.clip(si, 0, n - 1)], 0.0)
        if not np.array_equal(want, got):
            ok = False
    rec["payload_ok"] = bool(ok)
    rec["ps2"], rec["og"] = _geom_fields(ot, al)
    rec["off"] = al.off
    return rec


def _ctor_result(rec, a, al, n):
    rec["vals"] = al.ints(np.array(a.native.array))
    rec["um"] = _um(a.mask)
    rec["nout"] = int(np.asarray(a.mask).shape[0])
    rec["ps2"], rec["og"] = _geom_fields(a, al)
    rec.setdefault("fill", 0)
    rec.setdefault("hps", 0)
    rec["off"] = al.off
    return rec


def recs_ctor(inst, rng, tmp):
    """constructors of an unmasked Array1D (independent of the mask: called for the all-unmasked instance only)"""
    import autoarray as aa
    from astropy.io import fits

    n = inst["n"]
    tau = float(inst["tau"])
    ps, og = 2 * inst["p"] * tau, inst["o"] * tau
    rot = inst.get("rot", 0)
    tags = np.arange(1, n + 1, dtype=float)
    psarg = ps if rot % 2 == 0 else (ps,)
    sharg = n if (rot // 2) % 2 == 0 else (n,)
    out = []

    def new(ctor):
        r = _base(inst, "ctor")
        r["ctor"] = ctor
        return r, _Alpha(tau)

    r, al = new("no_mask")
    vals = tags.copy() if rot % 3 else [float(x) for x in tags]
    out.append(_ctor_result(r, aa.Array1D.no_mask(values=vals, pixel_scales=psarg, origin=(og,)), al, n))
    fill = int(rng.choice([-3, 7, 2, -1, 5]))
    r, al = new("full")
    r["fill"] = fill
    out.append(_ctor_result(r, aa.Array1D.full(fill_value=float(fill), shape_native=sharg, pixel_scales=psarg, origin=(og,)), al, n))
    r, al = new("ones")
    out.append(_ctor_result(r, aa.Array1D.ones(shape_native=sharg, pixel_scales=psarg, origin=(og,)), al, n))
    r, al = new("zeros")
    out.append(_ctor_result(r, aa.Array1D.zeros(shape_native=sharg, pixel_scales=psarg, origin=(og,)), al, n))
    # a file / HDU written by astropy itself (not by the library)
    hdr = fits.Header()
    hdr["PIXSCALE"] = ps
    path = os.path.join(tmp, f"raw_{n}_{rot}.fits")
    if os.path.exists(path):
        os.remove(path)
    fits.PrimaryHDU(tags.copy(), hdr).writeto(path)
    r, al = new("from_fits")
    a = aa.Array1D.from_fits(file_path=path, pixel_scales=psarg, origin=(og,))
    try:
        r["hps"] = al.tick(a.header.header_sci_obj["PIXSCALE"])
    except Exception:
        r["hps"] = OFFV
    out.append(_ctor_result(r, a, al, n))
    r, al = new("from_primary_hdu")
    a = aa.Array1D.from_primary_hdu(primary_hdu=fits.PrimaryHDU(tags.copy(), hdr), origin=(og,))
    try:
        r["hps"] = al.tick(a.header.header_sci_obj["PIXSCALE"])
    except Exception:
        r["hps"] = OFFV
    out.append(_ctor_result(r, a, al, n))
    return out


def _grid_result(rec, make, al):
    """make() -> Grid1D; slim / native coordinates, mask and geometry of the result (exceptions become empty views)"""
    rec.setdefault("vals", [])
    try:
        g = make()
    except Exception as e:
        rec.update({"x": [], "xn": [], "um": [], "nout": -1, "ps2": OFFV, "og": OFFV, "raised": type(e).__name__, "off": al.off})
        return rec
    try:
        rec["x"] = al.ticks(np.array(g.slim.array))
    except Exception as e:
        rec["x"] = []
        rec["raised"] = "slim:" + type(e).__name__
    try:
        rec["xn"] = al.ticks(np.array(g.native.array))
    except Exception as e:
        rec["xn"] = []
        rec["raised"] = "native:" + type(e).__name__
    rec["um"] = _um(g.mask)
    rec["nout"] = int(np.asarray(g.mask).shape[0])
    rec["ps2"], rec["og"] = _geom_fields(g, al)
    rec["off"] = al.off
    return rec


def recs_grid(inst, rng):
    import autoarray as aa

    n, u = inst["n"], inst["u"]
    tau = float(inst["tau"])
    ps, og = 2 * inst["p"] * tau, inst["o"] * tau
    rot = inst.get("rot", 0)
    psarg = ps if rot % 2 == 0 else (ps,)
    mask, m = _mask1d(n, u, ps, og, rot)
    out = []

    def new(ctor):
        r = _base(inst, "grid")
        r["ctor"] = ctor
        return r, _Alpha(tau)

    r, al = new("from_mask")
    out.append(_grid_result(r, lambda: aa.Grid1D.from_mask(mask=mask), al))
    arr = aa.Array1D(values=np.arange(1, n + 1, dtype=float), mask=mask, store_native=bool(rot % 2))
    r, al = new("grid_radial")
    out.append(_grid_result(r, lambda: arr.grid_radial, al))
    r, al = new("derive_grid.all_false")
    out.append(_grid_result(r, lambda: mask.derive_grid.all_false, al))
    r, al = new("unmasked_grid")
    out.append(_grid_result(r, lambda: arr.unmasked_grid, al))
    if len(u) == n:
        r, al = new("uniform")
        out.append(_grid_result(r, lambda: aa.Grid1D.uniform(shape_native=(n,), pixel_scales=psarg, origin=(og,)), al))
        r, al = new("uniform_from_zero")
        out.append(_grid_result(r, lambda: aa.Grid1D.uniform_from_zero(shape_native=(n,), pixel_scales=psarg), al))
        vals = [int(v) for v in rng.integers(-50, 51, size=n)]  # any coordinates (a deflected grid), on the lattice
        r, al = new("no_mask")
        r["vals"] = vals
        xs = np.array(vals, dtype=float) * tau
        out.append(_grid_result(r, lambda: aa.Grid1D.no_mask(values=xs if rot % 3 else [float(x) for x in xs],
                                                             pixel_scales=psarg, origin=(og,)), al))
    return out


def recs_geometry(inst):
    import autoarray as aa
    from autoarray.geometry.geometry_1d import Geometry1D

    n, u = inst["n"], inst["u"]
    tau = float(inst["tau"])
    ps, og = 2 * inst["p"] * tau, inst["o"] * tau
    rot = inst.get("rot", 0)
    mask, m = _mask1d(n, u, ps, og, rot)
    arr = aa.Array1D(values=np.arange(1, n + 1, dtype=float), mask=mask)
    sources = [("mask.geometry", lambda: mask.geometry), ("structure.geometry", lambda: arr.geometry)]
    if len(u) == n:
        sources.append(("Geometry1D", lambda: Geometry1D(shape_native=(n,), pixel_scales=(ps,), origin=(og,))))
        sources.append(("grid.geometry", lambda: aa.Grid1D.from_mask(mask=mask).geometry))
    out = []
    for via, get in sources:
        al = _Alpha(tau)
        g = get()
        r = _base(inst, "geometry")
        ext = g.extent
        r.update({"via": via, "sss": al.tick(g.shape_slim_scaled[0]), "mx": al.tick(g.scaled_maxima[0]),
                  "mn": al.tick(g.scaled_minima[0]), "ext": al.ticks([ext[0], ext[1]]) if len(ext) == 2 else [OFFV]})
        r["off"] = al.off
        out.append(r)
    return out


def recs_derive(inst):
    n, u = inst["n"], inst["u"]
    tau = float(inst["tau"])
    ps, og = 2 * inst["p"] * tau, inst["o"] * tau
    mask, m = _mask1d(n, u, ps, og, inst.get("rot", 0))
    out = []
    al = _Alpha(tau)
    af = mask.derive_mask.all_false
    r = _base(inst, "derive")
    r.update({"which": "all_false", "um": _um(af), "nout": int(np.asarray(af).shape[0])})
    r["ps2"], r["og"] = _geom_fields(af, al)
    r["off"] = al.off
    out.append(r)
    import autoarray as aa

    al = _Alpha(tau)
    rot = inst.get("rot", 0)
    af2 = aa.Mask1D.all_false(shape_slim=n if rot % 2 else (n,), pixel_scales=ps if (rot // 2) % 2 else (ps,), origin=(og,))
    r = _base(inst, "derive")
    r.update({"which": "all_false", "via": "Mask1D.all_false", "um": _um(af2), "nout": int(np.asarray(af2).shape[0])})
    r["ps2"], r["og"] = _geom_fields(af2, al)
    r["off"] = al.off
    out.append(r)
    al = _Alpha(tau)
    m2 = mask.derive_mask.to_mask_2d
    r = _base(inst, "derive")
    a2 = np.asarray(m2).astype(bool)
    r.update({"which": "to_mask_2d", "flat": _um(a2), "shape": [int(s) for s in a2.shape] if a2.ndim == 2 else [0, 0],
              "psy": al.tick(m2.pixel_scales[0]), "psx": al.tick(m2.pixel_scales[1])})
    r["off"] = al.off
    out.append(r)
    return out


def recs_fits(inst, tmp):
    import autoarray as aa
    from astropy.io import fits

    n, u = inst["n"], inst["u"]
    tau = float(inst["tau"])
    ps, og = 2 * inst["p"] * tau, inst["o"] * tau
    rot = inst.get("rot", 0)
    psarg = ps if rot % 2 == 0 else (ps,)
    mask, m = _mask1d(n, u, ps, og, rot)
    tags = np.arange(1, n + 1, dtype=float)
    arr = aa.Array1D(values=tags[~m].copy(), mask=mask, store_native=bool((rot // 2) % 2))
    sub = os.path.join(tmp, f"d{rot % 3}") if rot % 3 else tmp  # also a directory that does not exist yet
    pa = os.path.join(sub, f"a_{n}_{rot}.fits")
    pm = os.path.join(sub, f"m_{n}_{rot}.fits")
    out = []

    def arr_rec(kind, b, hps_of, al):
        r = _base(inst, "fits")
        r.update({"kind": kind, "out": _src(np.array(b.native.array), n), "um": _um(b.mask), "nout": int(np.asarray(b.mask).shape[0])})
        r["ps2"], r["og"] = _geom_fields(b, al)
        try:
            r["hps"] = al.tick(hps_of())
        except Exception:
            r["hps"] = OFFV
        r["off"] = al.off
        return r

    def mask_rec(kind, b, hps_of, al):
        r = _base(inst, "fits")
        r.update({"kind": kind, "out": [], "um": _um(b), "nout": int(np.asarray(b).shape[0])})
        r["ps2"], r["og"] = _geom_fields(b, al)
        try:
            r["hps"] = al.tick(hps_of())
        except Exception:
            r["hps"] = OFFV
        r["off"] = al.off
        return r

    arr.output_to_fits(file_path=pa, overwrite=True)
    al = _Alpha(tau)
    b = aa.Array1D.from_fits(file_path=pa, pixel_scales=psarg, origin=(og,))
    out.append(arr_rec("array_file", b, lambda: b.header.header_sci_obj["PIXSCALE"], al))
    al = _Alpha(tau)
    h = arr.hdu_for_output
    b2 = aa.Array1D.from_primary_hdu(primary_hdu=h, origin=(og,))
    out.append(arr_rec("array_hdu", b2, lambda: h.header["PIXSCALE"], al))
    al = _Alpha(tau)
    with fits.open(pa) as hl:
        b3 = aa.Array1D.from_primary_hdu(primary_hdu=hl[0], origin=(og,))
        out.append(arr_rec("array_file_hdu", b3, lambda: hl[0].header["PIXSCALE"], al))
    mask.output_to_fits(file_path=pm, overwrite=True)
    al = _Alpha(tau)
    bm = aa.Mask1D.from_fits(file_path=pm, pixel_scales=psarg, origin=(og,))
    with fits.open(pm) as hl:
        out.append(mask_rec("mask_file", bm, lambda: hl[0].header["PIXSCALE"], al))
    al = _Alpha(tau)
    hm = mask.hdu_for_output
    bm2 = aa.Mask1D.from_primary_hdu(primary_hdu=hm, origin=(og,))
    out.append(mask_rec("mask_hdu", bm2, lambda: hm.header["PIXSCALE"], al))
    return out


def rec_header(inst, rng):
    import autoarray as aa

    n = inst["n"]
    al = _Alpha(1.0)
    E = int(rng.choice([1, 2, 4, 8, 3, 10, 16]))
    vals = [int(v) for v in rng.integers(-9, 10, size=n)]
    y, mth, d, h3 = int(rng.integers(1990, 2041)), int(rng.integers(1, 13)), int(rng.integers(1, 29)), int(rng.integers(0, 8))
    date, time_ = f"{y:04d}-{mth:02d}-{d:02d}", f"{3 * h3:02d}:00:00"
    hd = aa.Header(header_sci_obj={"EXPTIME": float(E), "DATE-OBS": date, "TIME-OBS": time_})
    arr = aa.Array1D.no_mask(values=np.array(vals, dtype=float), pixel_scales=1.0)
    r = _base(inst, "header")
    r.update({"e": E, "vals": vals, "y": y, "m": mth, "d": d, "h3": h3})
    cps = hd.array_counts_to_counts_per_second(array_counts=arr)
    r["cps"] = al.ints(np.asarray(np.array(cps.array if hasattr(cps, "array") else cps), dtype=float) * float(E))
    try:
        aa.Header(header_sci_obj={"EXPTIME": None, "DATE-OBS": date, "TIME-OBS": time_}).array_counts_to_counts_per_second(array_counts=arr)
        r["cps_none_raises"] = False
    except aa.exc.ArrayException:
        r["cps_none_raises"] = True
    except Exception:
        r["cps_none_raises"] = False
    r["eps"] = []
    try:
        e = hd.array_eps_to_counts(arr)
        r["eps_status"] = "value"
        r["eps"] = al.ints(np.array(e.array if hasattr(e, "array") else e, dtype=float))
    except NotImplementedError:
        r["eps_status"] = "not-implemented"
    except Exception as ex:
        r["eps_status"] = "other:" + type(ex).__name__
    mjd = hd.modified_julian_date

    def none_for(dt, tm):
        try:
            return aa.Header(header_sci_obj={"EXPTIME": float(E), "DATE-OBS": dt, "TIME-OBS": tm}).modified_julian_date is None
        except Exception:
            return False

    r["none_no_date"] = bool(none_for(None, time_))
    r["none_no_time"] = bool(none_for(date, None))
    r["none_neither"] = bool(none_for(None, None))
    mjd2 = hd.modified_julian_date
    mjd3 = aa.Header(header_sci_obj={"EXPTIME": 1.0, "DATE-OBS": date, "TIME-OBS": time_}).modified_julian_date
    r["det"] = bool(mjd is not None and mjd == mjd2 and mjd == mjd3)
    r["mjd8"] = al.ints([float(mjd) * 8.0])[0] if mjd is not None else OFFV
    r["off"] = al.off
    return r


def _do_read(o, q):
    if q == "slim":
        return o.slim
    if q == "native":
        return o.native
    if q == "slim_of_native":
        return o.native.slim
    if q == "native_of_slim":
        return o.slim.native
    if q == "copy":
        return o.copy()
    if q == "twice":
        return 2 * o
    if q == "sum":
        return o + o
    raise ValueError(q)


def rec_history(inst, kind, reads, rng):
    """one object, read several times in the given order; every result and the object afterwards are recorded"""
    n, u = inst["n"], inst["u"]
    tau = float(inst["tau"])
    mask, m = _mask1d(n, u, 2 * inst["p"] * tau, inst["o"] * tau, inst.get("rot", 0))
    tags = 2.0 * np.arange(n, dtype=float) + 1.0  # odd tags: the factor of 2*a / a+a is decidable
    real = _payload(rng, n)
    real = np.where(np.abs(real) > 1e299, real / 4.0, real)  # 2*a stays finite

    def mk(full):
        v = full.copy() if inst["given"] == "native" else full[~m].copy()
        return _cls(kind)(values=v, mask=mask, store_native=bool(inst["store"]))

    ot, orr = mk(tags), mk(real)
    rec = _base(inst, "history")
    rec.update({"kind": kind, "reads": list(reads), "outs": [], "muls": []})
    ok, indep = True, True
    for q in reads:
        rt, rr = _do_read(ot, q), _do_read(orr, q)
        at = np.array(rt.array, dtype=float)
        s, mul = _src_odd(at, n)
        if mul == -1:
            mul = 2 if q in ("twice", "sum") else 1  # nothing but zeros: no evidence about the factor
        rec["outs"].append(s)
        rec["muls"].append(int(mul))
        got = np.asarray(rr.array, dtype=float).ravel()
        si = np.array(s, dtype=int)
        if len(si) != len(got) or mul not in (1, 2):
            ok = False
        else:
            want = float(mul) * np.where(si >= 0, real[np.clip(si, 0, n - 1)], 0.0)
            if not np.array_equal(want, got):
                ok = False
        if q == "copy":
            # writing into the copy must not reach the object
            for c, o_ in ((rt, ot), (rr, orr)):
                before = np.array(o_.array).copy()
                if c.array.size:
                    c.array[...] = 12345.0
                if not np.array_equal(before, np.array(o_.array)):
                    indep = False
    fs, fm = _src_odd(np.array(ot.array, dtype=float), n)
    rec["final"] = fs if fm in (1, -1) else [exact.OFF] * len(fs)
    rec["payload_ok"] = bool(ok)
    rec["copy_independent"] = bool(indep)
    return rec


# ---------------------------------------------------------------------------------------------
# records of one instance
# ---------------------------------------------------------------------------------------------
def _rng_for(inst, seed):
    return np.random.default_rng([seed, inst["n"], inst["p"], inst["o"] + 1000, len(inst["u"]), sum(inst["u"]) + 1,
                                  int(bool(inst["store"])), int(inst["given"] == "native"), inst.get("rot", 0)])


def _raised(inst, where, e):
    """a call of the group raised: that is a verdict about the code (a rejected record), not a failure of the machinery"""
    r = _base(inst, "raised")
    r.update({"where": where, "exc": type(e).__name__, "msg": str(e)[:200]})
    return r


def records_for(inst, seed, tmp, apis=None):
    rng = _rng_for(inst, seed)
    want = (lambda a: True) if apis is None else (lambda a: a in apis)
    recs = []

    def group(api, fn):
        if not want(api):
            return
        try:
            out = fn()
        except core.MachineryError:
            raise
        except Exception as e:  # noqa: BLE001 -- the library raised on a documented call
            recs.append(_raised(inst, api, e))
            return
        recs.extend(out if isinstance(out, list) else [out])

    group("structure", lambda: rec_structure(inst, "Array1D", rng))
    group("structure", lambda: rec_structure(inst, "Grid1D", rng))
    kind = "Array1D" if inst.get("rot", 0) % 3 else "Grid1D"
    group("history", lambda: rec_history(inst, kind, inst.get("reads", []), rng))
    if inst.get("canon"):
        group("grid", lambda: recs_grid(inst, rng))
        group("geometry", lambda: recs_geometry(inst))
        group("derive", lambda: recs_derive(inst))
        group("fits", lambda: recs_fits(inst, tmp))
        # the constructors of an unmasked Array1D and the Header do not depend on the mask: once per (length, geometry)
        # plus a rotation over the other masks (which varies the argument forms, fill values, dates, exposure times)
        if len(inst["u"]) == inst["n"] or inst.get("rot", 0) % 4 == 0:
            group("ctor", lambda: recs_ctor(inst, rng, tmp))
            group("header", lambda: rec_header(inst, rng))
    return recs


def _records_many(args):
    insts, seed = args
    core.WORK.mkdir(parents=True, exist_ok=True)
    tmp = tempfile.mkdtemp(prefix="x03-fits-", dir=str(core.WORK))
    try:
        out = []
        for inst in insts:
            out.extend(records_for(inst, seed, tmp))
        return out
    finally:
        shutil.rmtree(tmp, ignore_errors=True)


# ---------------------------------------------------------------------------------------------
# instances
# ---------------------------------------------------------------------------------------------
def enumerate_instances(ctx, max_n, geoms, max_reads):
    res = ctx.tlc("Line1D", MC_CFG, defs=_defs(max_n, geoms, max_reads), tag="MC_Line1D", timeout=3000, coverage=True,
                  env={"_JAVA_OPTIONS": "-Xmx6g"})
    insts = [{"n": r["n"], "u": list(r["u"]), "p": r["p"], "o": r["o"], "given": r["given"], "store": bool(r["store"])}
             for r in res.by_kind("inst")]
    expect = sum(2 ** k for k in range(1, max_n + 1)) * len(geoms) * 4
    per = 1 + sum(len(READS) ** k for k in range(0, max_reads + 1))
    if len(insts) != expect or res.distinct != expect * per:
        raise core.MachineryError(f"Line1D.tla enumerated {len(insts)} instances / {res.distinct} states, expected {expect} / {expect * per}")
    # TLC's workers print in a nondeterministic order: sort before any index-based rotation
    insts.sort(key=lambda d: (d["n"], d["u"], d["p"], d["o"], d["given"], d["store"]))
    return insts, res


def simulate_behaviours(ctx, max_n, geoms, nsim, depth):
    simdir = ctx.work / "sim"
    simdir.mkdir(exist_ok=True)
    ctx.tlc("Line1D", SIM_CFG, defs=_defs(max_n, geoms, depth), tag="SIM_Line1D", timeout=900,
            simulate=f"file={simdir}/b,num={nsim}", depth=depth + 2, seed=ctx.seed, workers=1)
    behs = []
    for f in sorted(simdir.iterdir()):
        states = core.parse_sim_file(f)
        if len(states) < 2:
            continue
        last = states[-1][1]
        u = last["U"]
        u = sorted(u["__set__"]) if isinstance(u, dict) else sorted(u)
        acts = [a for a, _ in states]
        reads = list(last["hist"])
        if [ACTION_OF[a] for a in acts if a in ACTION_OF] != reads:
            raise core.MachineryError(f"simulated behaviour {f.name}: action names {acts} do not match hist {reads}")
        behs.append({"n": last["n"], "u": u, "p": last["geo"][0], "o": last["geo"][1], "given": last["given"],
                     "store": bool(last["store"]), "reads": reads})
    return behs


def random_instances(rng, count, max_n=60, hist_len=12):
    out = []
    for k in range(count):
        n = int(rng.integers(7, max_n + 1)) if k % 5 else int(rng.integers(1, 12))
        style = k % 7
        dens = float(rng.choice([0.15, 0.5, 0.85]))
        m = rng.random(n) < dens  # True = unmasked
        if style == 1:
            m[:] = False
            m[rng.integers(0, n)] = True  # a single unmasked pixel
        elif style == 2:
            m[:] = True  # no masked pixel
        elif style == 3:
            m[::2] = False  # stripes
        elif style == 4:
            m[:] = False
            m[-1] = True
            m[0] = bool(rng.integers(0, 2))  # the ends
        elif style == 5 and k % 35 == 5:
            m[:] = False  # fully masked
        u = [int(x) for x in np.flatnonzero(m)]
        p = int(rng.integers(1, 9))
        o = int(rng.integers(-60, 61))
        if k % 3 == 0:
            tau = repr(float(2.0 ** int(rng.integers(-6, 5))))
        elif k % 3 == 1:
            tau = repr(float(rng.choice([0.05, 0.1, 0.01, 0.2, 0.03, 1.1, 0.7])))
        else:
            tau = repr(float(np.round(rng.uniform(0.01, 3.0), 3)))
        base = {"n": n, "u": u, "p": p, "o": o, "tau": tau}
        for j, (given, store) in enumerate([("slim", False), ("slim", True), ("native", False), ("native", True)]):
            d = dict(base)
            d.update({"given": given, "store": store, "canon": j == 0, "rot": int(rng.integers(0, 1000)),
                      "reads": [READS[int(x)] for x in rng.integers(0, len(READS), size=hist_len)]})
            out.append(d)
    return out


# ---------------------------------------------------------------------------------------------
# validation
# ---------------------------------------------------------------------------------------------
def _describe(rec):
    bits = [rec["api"]]
    for k in ("kind", "ctor", "via", "which", "where", "exc", "msg"):
        if k in rec:
            bits.append(str(rec[k]))
    if rec["api"] in ("structure", "history"):
        bits.append(f"given={rec['given']} store_native={rec['store']}")
    if rec["api"] == "history":
        bits.append(f"reads={rec['reads']}")
    u = rec["u"] if len(rec["u"]) <= 16 else rec["u"][:16] + ["..."]
    return f"{' '.join(bits)} on a line of {rec['n']} pixels, unmasked={u}, pixel scale {2 * rec['p']} ticks, origin {rec['o']} ticks, tick {rec['tau']}"


def validate(ctx, records, tag, chunk=2500):
    import concurrent.futures as cf

    for k, r in enumerate(records):
        r["id"] = k
    nch = max(1, min(16, (len(records) + chunk - 1) // chunk))
    chunks = [records[k::nch] for k in range(nch)]
    rejects = []

    def one(args):
        k, ch = args
        if not ch:
            return []
        res, rej = ctx.validate_trace("Trace_Line1D", TRACE_CFG, ch, tag=f"{tag}-{k}", timeout=1800, env=JVM)
        return rej

    with cf.ThreadPoolExecutor(max_workers=nch) as ex:
        for rej in ex.map(one, list(enumerate(chunks))):
            rejects.extend(rej)
    for rj in rejects:
        rec = records[rj["id"]]
        ctx.violation(rj["sig"], f"{_describe(rec)}: failed {rj['clauses']}",
                      {"record": rec, "failed_clauses": rj["clauses"], "spec_wanted": rj.get("want")},
                      cls=",".join(rj["clauses"]))
    return rejects


# ---------------------------------------------------------------------------------------------
def run(ctx):
    quick = ctx.quick
    max_n = 6 if quick else 9
    geoms = GEOMS_QUICK if quick else GEOMS_THOROUGH
    max_reads = 2
    nsim, dsim = (150, 8) if quick else (1500, 12)
    nrand = 60 if quick else 600
    ctx.bounds = {"exhaustive_line_length_up_to": max_n, "geometries_half_scale_origin_ticks": [list(g) for g in geoms],
                  "exhaustive_read_histories_up_to": max_reads, "simulated_behaviours": nsim, "simulated_reads_up_to": dsim,
                  "random_lines": nrand, "random_line_length_up_to": 60, "random_history_length": 12, "tick_lengths": TAUS}
    insts, res = enumerate_instances(ctx, max_n, geoms, max_reads)
    ctx.exhaustive = True
    pairs = [(a, b) for a in READS for b in READS]
    for k, d in enumerate(insts):
        d["tau"] = TAUS[(k // 4) % len(TAUS)]
        d["rot"] = k // 4  # the four (given, store) combinations of a (mask, geometry) are adjacent after sorting ...
        d["canon"] = d["given"] == "slim" and not d["store"]  # ... geometry-type records once per (mask, geometry)
        d["reads"] = list(pairs[k % len(pairs)])
    behs = simulate_behaviours(ctx, max_n, geoms, nsim, dsim)
    if len(behs) < nsim // 2:
        raise core.MachineryError(f"simulation produced only {len(behs)} behaviours")
    ctx.states += sum(len(b["reads"]) + 2 for b in behs)
    ctx.transitions += sum(len(b["reads"]) + 1 for b in behs)
    for k, b in enumerate(behs):
        b.update({"tau": TAUS[k % len(TAUS)], "rot": k, "canon": False})
    rng = np.random.default_rng(ctx.seed)
    rnd = random_instances(rng, nrand)
    todo = insts + rnd
    groups = [(todo[k : k + 40], ctx.seed) for k in range(0, len(todo), 40)]
    recs = []
    for part in core.pmap(_records_many, groups):
        recs.extend(part)
    # simulated behaviours: the read history only
    tmp = None
    for b in behs:
        recs.extend(records_for(b, ctx.seed, tmp, apis={"history"}))
    ctx.replayed = len(insts) + len(behs)
    mid = insts[len(insts) // 2]
    ctx.sample({"instance_from_TLC": {k: mid[k] for k in ("n", "u", "p", "o", "given", "store", "tau", "reads")}})
    ctx.sample({"behaviour_from_TLC_simulation": {k: behs[0][k] for k in ("n", "u", "p", "o", "given", "store", "reads")}})
    for api in ("structure", "grid", "fits", "history"):
        ex = next((r for r in recs if r["api"] == api and len(r["u"]) not in (0, r["n"])), None)
        if ex:
            ctx.sample({"record": ex})
    rej = validate(ctx, recs, "X03")
    by = {}
    for r in recs:
        by[r["api"]] = by.get(r["api"], 0) + 1
    ctx.note(f"{len(insts)} exhaustive instances + {len(behs)} simulated read histories + {len(rnd)} random longer instances -> "
             f"{len(recs)} records validated by Trace_Line1D ({by}); {len(rej)} rejected")
    ctx.assumptions = [
        "data movement is value-independent: checked per record by re-running with random real payloads (bit-for-bit)",
        "positions: pixel scale = 2p ticks, origin = o ticks, tick lengths dyadic and decimal; alpha divides by the tick, "
        "requires a residual below 1e-6 tick and rejects anything else",
        "Header.array_eps_to_counts: the base class declares the conversion unimplemented (NotImplementedError); accepted are "
        "that declaration or the documented product with the exposure time, nothing else",
        "modified_julian_date: None-ness, determinism and the day count on days without a leap second, at multiples of 3 h",
        "the origin of the mask paired with Grid1D.uniform_from_zero / Array1D.grid_radial is not documented and not judged",
        "TLC 1.8 / SANY / CommunityModules",
    ]


def replay(ctx, rp):
    rec = rp["record"]
    inst = {"n": rec["n"], "u": rec["u"], "p": rec["p"], "o": rec["o"], "tau": rec["tau"], "given": rec["given"],
            "store": rec["store"], "rot": rec.get("rot", 0), "canon": True, "reads": rec.get("reads", [])}
    core.WORK.mkdir(parents=True, exist_ok=True)
    tmp = tempfile.mkdtemp(prefix="x03-fits-", dir=str(core.WORK))
    try:
        if rec["api"] == "raised":
            recs = records_for(inst, ctx.seed, tmp, apis={rec["where"]})
        else:
            recs = [r for r in records_for(inst, ctx.seed, tmp, apis={rec["api"]})
                    if r["api"] == "raised" or all(r.get(k) == rec.get(k) for k in ("kind", "ctor", "via", "which"))]
    finally:
        shutil.rmtree(tmp, ignore_errors=True)
    rej = validate(ctx, recs, "X03-replay")
    print("replayed", len(recs), "records; rejected:", [r["clauses"] for r in rej])
    return ctx.finish()
