"""X12 -- the 2D constructors build what their names and docstrings say, on the right frame, and the binning / helper
queries are functions of the stored values.

S->C: Construct2D.tla enumerates (a) every non-empty mask of every small frame x geometries x value patterns with one
      named action per public call on a masked array / grid (binned_across_rows / columns, from_mask, blurring grids,
      flipped, subtracted_from, is_uniform, grid centre, polygon area, points within a radius), (b) unmasked frames x
      geometries with the constructors (Array2D.no_mask / full, from_yx_and_values over EVERY permutation of the pixels
      of small frames, Grid2D.uniform / bounding_box (both placements) / from_extent, padded_grid_from, upscaling, index
      helpers), (c) every history read / b = 2 * a / item assignment of bounded length on one array or grid object with
      a model of the one remembered view (Grid2D.is_uniform); TLC checks the design theorems on each and dumps the
      instances.  Each instance is realised on real objects with concrete tick lengths (gamma) and the calls are made.
C->S: what comes back is abstracted to tags / integer half-ticks / numerators over a common denominator (alpha rejects
      off-lattice values) and judged by Trace_Construct2D.tla with total, named verdicts; seeded random larger frames
      (up to 12x15) extend the reach."""
import math
import os
import zlib

import numpy as np

from harness import core

OFFV = 2000000001  # sentinel for "not on the lattice" (never a legitimate value; < 2^31)
NAN = 2000000002  # marker for nan (mean over no entry)
TOL = 1e-6  # residual allowed by alpha, in lattice units
BIN_DEN = 360360  # lcm(1..15)
TAUS = [0.125, 0.05, 1.0 / 3.0, 1.0, 0.75]

CONST_NAMES = ["MaskFrames", "MaskGeoms", "Patterns", "Kernels", "Offsets", "RadiiR2", "FrameFrames", "FrameGeoms",
               "PadKernels", "UpFactors", "HistFrames", "HistGeoms"]
INVARIANTS = ["InputsWellFormed", "SlimOrder", "NoMaskFormsAgree", "ScatterLandsInPixel", "BinnedMeansRecombine",
              "BinnedIgnoresMaskedValues", "BoundingBoxPlacements", "BlurringGridSane", "FlipAndSubtractInvert",
              "UniformIffRowsContiguous", "PaddedFrameIsCentred", "HelperFormulationsAgree"]
HIST_INVARIANTS = ["ReadsDescribeCurrentEntries", "MemoIsCoherent"]


# ---------------------------------------------------------------------------------------------
# TLA+ constant syntax, cfg files
# ---------------------------------------------------------------------------------------------
def _tup(t):
    return "<<" + ", ".join(_tup(x) if isinstance(x, (tuple, list)) else str(x) for x in t) + ">>"


def _set(items):
    return "{" + ", ".join(_tup(x) if isinstance(x, (tuple, list)) else str(x) for x in items) + "}"


_KEY = {"MaskFrames": "mask_frames", "MaskGeoms": "mask_geoms", "Patterns": "patterns", "Kernels": "kernels",
        "Offsets": "offsets", "RadiiR2": "radii", "FrameFrames": "frame_frames", "FrameGeoms": "frame_geoms",
        "PadKernels": "pad_kernels", "UpFactors": "up_factors", "HistFrames": "hist_frames", "HistGeoms": "hist_geoms"}


def mc_defs(**kw):
    return "\n".join(f"MC{c} == {_set(kw.get(_KEY[c], ()))}" for c in CONST_NAMES)


def mc_cfg(spec="Spec", perm_max=0, depth=0, drops=True, carries=False, dump=True):
    lines = ["CONSTANTS"] + [f"  {c} <- MC{c}" for c in CONST_NAMES]
    lines += [f"  PermMaxCells = {perm_max}", f"  HistDepth = {depth}", f"  DumpHistories = {'TRUE' if dump else 'FALSE'}",
              f"  SetItemDropsCaches = {'TRUE' if drops else 'FALSE'}",
              f"  DerivedCarriesCaches = {'TRUE' if carries else 'FALSE'}", f"SPECIFICATION {spec}"]
    if spec == "Spec":
        lines += [f"INVARIANT {i}" for i in INVARIANTS]
    else:
        lines += [f"INVARIANT {i}" for i in HIST_INVARIANTS] + ["PROPERTY DoubleIsIndependent"]
    return "\n".join(lines) + "\n"


TRACE_CFG = ("CONSTANTS\n" + "".join(f"  {c} = {{}}\n" for c in CONST_NAMES) +
             "  PermMaxCells = 0\n  HistDepth = 0\n  DumpHistories = FALSE\n  SetItemDropsCaches = TRUE\n  DerivedCarriesCaches = FALSE\n"
             "SPECIFICATION TraceSpec\nPOSTCONDITION TraceAccepted\n")


# ---------------------------------------------------------------------------------------------
# alpha: floats -> integers (rejecting)
# ---------------------------------------------------------------------------------------------
class _Alpha:
    def __init__(self, tau):
        self.tau = tau
        self.off = 0
        self.where = []

    def _conv(self, a, name, nan_ok=False):
        try:
            a = np.asarray(a, dtype=float)
        except Exception:  # noqa: BLE001
            self.off += 1
            self.where.append(name)
            return OFFV
        r = np.rint(a)
        isnan = np.isnan(a) if nan_ok else np.zeros(a.shape, dtype=bool)
        ok = isnan | (np.isfinite(a) & (np.abs(a - r) <= TOL) & (np.abs(r) < 1.0e9))
        bad = int(np.size(ok) - np.count_nonzero(ok))
        if bad:
            self.off += bad
            if name not in self.where:
                self.where.append(name)
        out = np.where(ok, np.where(isnan, NAN, np.nan_to_num(r, nan=0.0, posinf=0.0, neginf=0.0)), OFFV)
        return out.astype(np.int64).tolist()

    def ticks(self, x, name):
        """scaled coordinates -> half-ticks"""
        return self._conv(np.asarray(x, dtype=float) / self.tau, name)

    def ints(self, x, name, scale=1.0, nan_ok=False):
        """values that must be whole numbers after multiplication by `scale`"""
        return self._conv(np.asarray(x, dtype=float) * scale, name, nan_ok=nan_ok)

    def pairs(self, x, name, ticks=True):
        a = np.asarray(x, dtype=float).reshape(-1, 2)
        return self.ticks(a, name) if ticks else self.ints(a, name)


def _np_mask(h, w, u):
    m = np.ones(h * w, dtype=bool)
    m[list(u)] = False
    return m.reshape(h, w)


def _unmasked(mask):
    return [int(k) for k in np.flatnonzero(~np.asarray(mask).astype(bool).ravel())]


def _geo(g, tau):
    return (g["sy"] * tau, g["sx"] * tau), (g["oy"] * tau, g["ox"] * tau)


def _mask(g, u, tau):
    import autoarray as aa

    ps, og = _geo(g, tau)
    return aa.Mask2D(mask=_np_mask(g["h"], g["w"], u), pixel_scales=ps, origin=og)


def _centre(g, i, j):
    return (g["oy"] + (g["h"] - 1 - 2 * i) * (g["sy"] // 2), g["ox"] + (2 * j - g["w"] + 1) * (g["sx"] // 2))


def _centres(g, u):
    return [list(_centre(g, k // g["w"], k % g["w"])) for k in u]


def _base(api, g, tau, **kw):
    rec = {"api": api, "tau": repr(float(tau)), "raised": ""}
    rec.update({k: int(g[k]) for k in ("h", "w", "sy", "sx", "oy", "ox")})
    rec.update(kw)
    return rec


_FILES_ROOT = None  # set by run() / replay() to a directory inside this run's own work directory


def _files_dir():
    d = (_FILES_ROOT or (core.WORK / f"x12-files-{os.getppid()}")) / str(os.getpid())
    d.mkdir(parents=True, exist_ok=True)
    return d


def _flip_on():
    from autoconf import conf

    try:
        return bool(conf.instance["general"]["fits"]["flip_for_ds9"])
    except Exception:  # noqa: BLE001
        return False


# ---------------------------------------------------------------------------------------------
# the real calls, one record per task
# ---------------------------------------------------------------------------------------------
def rec_actor(g, ctor, tau, fill=0, variant=0):
    import autoarray as aa
    from astropy.io import fits

    h, w = g["h"], g["w"]
    n = h * w
    ps, og = _geo(g, tau)
    if variant % 2 == 1 and g["sy"] == g["sx"]:
        ps = ps[0]  # pixel scales given as one float
    al = _Alpha(tau)
    base = 0
    tags = np.arange(1, n + 1, dtype=float)
    if ctor == "no_mask_native":
        a = aa.Array2D.no_mask(values=tags.reshape(h, w).copy(), pixel_scales=ps, origin=og)
    elif ctor == "no_mask_native_list":
        a = aa.Array2D.no_mask(values=tags.reshape(h, w).tolist(), pixel_scales=ps, origin=og)
    elif ctor == "no_mask_slim":
        a = aa.Array2D.no_mask(values=tags.copy(), shape_native=(h, w), pixel_scales=ps, origin=og)
    elif ctor == "no_mask_slim_list":
        a = aa.Array2D.no_mask(values=tags.tolist(), shape_native=(h, w), pixel_scales=ps, origin=og)
    elif ctor == "full":
        a = aa.Array2D.full(fill_value=float(fill), shape_native=(h, w), pixel_scales=ps, origin=og)
    elif ctor == "ones":
        fill = 1
        a = aa.Array2D.ones(shape_native=(h, w), pixel_scales=ps, origin=og)
    elif ctor == "zeros":
        fill = 0
        a = aa.Array2D.zeros(shape_native=(h, w), pixel_scales=ps, origin=og)
    elif ctor == "from_fits":
        hdu = variant % 2
        base = 1000 * hdu
        d0, d1 = tags.reshape(h, w), (tags + 1000).reshape(h, w)
        if _flip_on():
            d0, d1 = np.flipud(d0), np.flipud(d1)
        path = _files_dir() / f"actor_{h}_{w}_{variant}.fits"
        if path.exists():
            path.unlink()
        fits.HDUList([fits.PrimaryHDU(d0), fits.ImageHDU(d1)]).writeto(str(path))
        a = aa.Array2D.from_fits(file_path=str(path), pixel_scales=ps, hdu=hdu, origin=og)
        path.unlink()
    elif ctor == "from_primary_hdu":
        d0 = tags.reshape(h, w)
        if _flip_on():
            d0 = np.flipud(d0)
        hd = fits.Header()
        psy, psx = (g["sy"] * tau, g["sx"] * tau)
        if g["sy"] == g["sx"]:
            hd["PIXSCALE"] = psy
        else:
            hd["PIXSCALEY"] = psy
            hd["PIXSCALEX"] = psx
        a = aa.Array2D.from_primary_hdu(primary_hdu=fits.PrimaryHDU(d0.astype("float64" if variant % 2 else "float32"), header=hd), origin=og)
    else:
        raise core.MachineryError(f"unknown actor constructor {ctor}")
    rec = _base("actor", g, tau, ctor=ctor, fill=int(fill), base=int(base), variant=int(variant))
    rec["vals"] = al.ints(np.asarray(a.native.array).ravel(), "vals")
    rec["slimv"] = al.ints(np.asarray(a.slim.array).ravel(), "slimv")
    rec["um"] = _unmasked(a.mask)
    rec["rh"], rec["rw"] = int(a.shape_native[0]), int(a.shape_native[1])
    rec["ps"] = al.ticks(list(a.pixel_scales), "ps")
    rec["og"] = al.ticks(list(a.origin), "og")
    rec["off"] = al.off
    return rec


def rec_yxv(g, perm, tau, variant=0):
    import autoarray as aa

    h, w = g["h"], g["w"]
    n = h * w
    g0 = dict(g, oy=0, ox=0)
    ps, _ = _geo(g0, tau)
    al = _Alpha(tau)
    rng = np.random.default_rng([variant, h, w, len(perm)])
    pts = np.array(_centres(g0, perm), dtype=float)
    if variant % 3 == 2:  # anywhere inside the pixel, not only on its centre
        pts = pts + rng.uniform(-0.45, 0.45, size=pts.shape) * np.array([g["sy"] / 2.0, g["sx"] / 2.0])
    pts = pts * tau
    vals = np.arange(1, n + 1, dtype=float)
    if variant % 2 == 0:
        a = aa.Array2D.from_yx_and_values(y=pts[:, 0].copy(), x=pts[:, 1].copy(), values=vals, shape_native=(h, w), pixel_scales=ps)
    else:
        a = aa.Array2D.from_yx_and_values(y=pts[:, 0].tolist(), x=pts[:, 1].tolist(), values=vals.tolist(), shape_native=(h, w),
                                          pixel_scales=ps if g["sy"] != g["sx"] else ps[0])
    rec = _base("yxv", g0, tau, perm=[int(p) for p in perm], variant=int(variant))
    rec["native"] = al.ints(np.asarray(a.native.array).ravel(), "native")
    rec["um"] = _unmasked(a.mask)
    rec["rh"], rec["rw"] = int(a.shape_native[0]), int(a.shape_native[1])
    rec["ps"] = al.ticks(list(a.pixel_scales), "ps")
    rec["off"] = al.off
    return rec


def _array_on(g, u, nat, store, tau, derived=False, header=None):
    """Array2D on the mask (g, u) whose unmasked entries are nat (row-major native values); masked positions of the given
    array hold other numbers.  derived=True: the object is the result of arithmetic on another one (its buffer holds
    non-zero numbers at masked positions when it is stored native)."""
    import autoarray as aa

    mask = _mask(g, u, tau)
    v = np.asarray(nat, dtype=float).reshape(g["h"], g["w"]).copy()
    shift = 7.0 if derived else 0.0
    a = aa.Array2D(values=v - shift, mask=mask, store_native=(store == "native"), header=header)
    if derived:
        a = a + shift
    return a, mask


def rec_binned(g, u, nat, store, tau, variant=0):
    al = _Alpha(tau)
    a, mask = _array_on(g, u, nat, store, tau, derived=(variant % 2 == 1))
    rec = _base("binned", g, tau, u=[int(k) for k in u], nat=[int(x) for x in nat], store=store, d=BIN_DEN, variant=int(variant))
    with np.errstate(all="ignore"):
        rows = a.binned_across_rows
        cols = a.binned_across_columns
    rec["rows"] = al.ints(np.asarray(rows.array).ravel(), "rows", scale=BIN_DEN, nan_ok=True)
    rec["cols"] = al.ints(np.asarray(cols.array).ravel(), "cols", scale=BIN_DEN, nan_ok=True)
    rec["rows_um"], rec["cols_um"] = _unmasked(rows.mask), _unmasked(cols.mask)
    rec["rows_ps"] = al.ticks(rows.pixel_scales[0], "rows_ps")
    rec["cols_ps"] = al.ticks(cols.pixel_scales[0], "cols_ps")
    rec["off"] = al.off
    return rec


def rec_gctor(g, ctor, tau, variant=0):
    import autoarray as aa

    h, w = g["h"], g["w"]
    n = h * w
    ps, og = _geo(g, tau)
    al = _Alpha(1.0)
    al2 = _Alpha(tau)
    y = np.arange(1, n + 1, dtype=float)
    x = y + n
    slim = np.stack([y, x], axis=-1)
    if ctor == "no_mask_slim":
        gr = aa.Grid2D.no_mask(values=slim.copy(), shape_native=(h, w), pixel_scales=ps, origin=og)
    elif ctor == "no_mask_slim_list":
        gr = aa.Grid2D.no_mask(values=slim.tolist(), shape_native=(h, w), pixel_scales=ps, origin=og)
    elif ctor == "no_mask_native":
        gr = aa.Grid2D.no_mask(values=slim.reshape(h, w, 2).copy(), pixel_scales=ps, origin=og)
    elif ctor == "from_yx_1d":
        gr = aa.Grid2D.from_yx_1d(y=y.copy(), x=x.copy(), shape_native=(h, w), pixel_scales=ps, origin=og)
    elif ctor == "from_yx_1d_list":
        gr = aa.Grid2D.from_yx_1d(y=y.tolist(), x=x.tolist(), shape_native=(h, w), pixel_scales=ps, origin=og)
    elif ctor == "from_yx_2d":
        gr = aa.Grid2D.from_yx_2d(y=y.reshape(h, w).copy(), x=x.reshape(h, w).copy(), pixel_scales=ps, origin=og)
    elif ctor == "from_yx_2d_list":
        gr = aa.Grid2D.from_yx_2d(y=y.reshape(h, w).tolist(), x=x.reshape(h, w).tolist(), pixel_scales=ps, origin=og)
    else:
        raise core.MachineryError(f"unknown grid constructor {ctor}")
    rec = _base("gctor", g, tau, ctor=ctor, variant=int(variant))
    rec["pts"] = al.pairs(np.asarray(gr.slim.array), "pts", ticks=False)
    rec["nat"] = al.pairs(np.asarray(gr.native.array), "nat", ticks=False)
    rec["um"] = _unmasked(gr.mask)
    rec["rh"], rec["rw"] = int(gr.shape_native[0]), int(gr.shape_native[1])
    rec["ps"] = al2.ticks(list(gr.pixel_scales), "ps")
    rec["og"] = al2.ticks(list(gr.origin), "og")
    rec["off"] = al.off + al2.off
    return rec


def rec_place(g, ctor, tau, bb=(0, 0, 0, 0), k=(1, 1), variant=0):
    import autoarray as aa
    from autoarray.structures.grids import grid_2d_util

    h, w = g["h"], g["w"]
    ps, og = _geo(g, tau)
    al = _Alpha(tau)
    bbf = [float(b) * tau for b in bb]
    if ctor == "uniform":
        gr = aa.Grid2D.uniform(shape_native=(h, w), pixel_scales=ps if not (variant % 2 and g["sy"] == g["sx"]) else ps[0], origin=og)
    elif ctor == "bounding_box":
        gr = aa.Grid2D.bounding_box(bounding_box=bbf if variant % 2 else np.array(bbf), shape_native=(h, w))
    elif ctor == "bounding_box_corners":
        gr = aa.Grid2D.bounding_box(bounding_box=bbf if variant % 2 else np.array(bbf), shape_native=(h, w), buffer_around_corners=True)
    elif ctor == "from_extent":
        gr = aa.Grid2D.from_extent(extent=tuple(bbf), shape_native=(h, w))
    elif ctor == "padded_grid":
        if variant % 2:
            u0 = [0] if h * w == 1 else [0, h * w - 1]
            g0 = aa.Grid2D.from_mask(mask=_mask(g, u0, tau))
        else:
            g0 = aa.Grid2D.uniform(shape_native=(h, w), pixel_scales=ps, origin=og)
        gr = g0.padded_grid_from(kernel_shape_native=(int(k[0]), int(k[1])))
    elif ctor == "slim_via_shape":
        gr = None
        pts = grid_2d_util.grid_2d_slim_via_shape_native_from(shape_native=(h, w), pixel_scales=ps, origin=og)
    elif ctor == "native_via_shape":
        gr = None
        pts = grid_2d_util.grid_2d_via_shape_native_from(shape_native=(h, w), pixel_scales=ps, origin=og)
    else:
        raise core.MachineryError(f"unknown placement constructor {ctor}")
    rec = _base("place", g, tau, ctor=ctor, bb=[int(b) for b in bb], kh=int(k[0]), kw=int(k[1]), variant=int(variant))
    if gr is None:
        rec["pts"] = al.pairs(np.asarray(pts), "pts")
        rec["um"], rec["rh"], rec["rw"], rec["ps"], rec["og"] = [], 0, 0, [0, 0], [0, 0]
    else:
        rec["pts"] = al.pairs(np.asarray(gr.slim.array), "pts")
        rec["um"] = _unmasked(gr.mask)
        rec["rh"], rec["rw"] = int(gr.shape_native[0]), int(gr.shape_native[1])
        rec["ps"] = al.ticks(list(gr.pixel_scales), "ps")
        rec["og"] = al.ticks(list(gr.origin), "og")
    rec["off"] = al.off
    return rec


def rec_maskgrid(g, u, k, tau, variant=0):
    import autoarray as aa
    from autoarray.structures.grids import grid_2d_util

    al = _Alpha(tau)
    ps, og = _geo(g, tau)
    mask = _mask(g, u, tau)
    rec = _base("maskgrid", g, tau, u=[int(x) for x in u], kh=int(k[0]), kw=int(k[1]), variant=int(variant))
    fm = aa.Grid2D.from_mask(mask=mask)
    rec["fm"] = al.pairs(np.asarray(fm.slim.array), "fm")
    rec["fm_nat"] = al.pairs(np.asarray(fm.native.array), "fm_nat")
    rec["fm_um"] = _unmasked(fm.mask)
    rec["fm_ps"], rec["fm_og"] = al.ticks(list(fm.pixel_scales), "fm_ps"), al.ticks(list(fm.origin), "fm_og")
    m = _np_mask(g["h"], g["w"], u)
    rec["util_slim"] = al.pairs(grid_2d_util.grid_2d_slim_via_mask_from(mask_2d=m, pixel_scales=ps, origin=og), "util_slim")
    rec["util_nat"] = al.pairs(grid_2d_util.grid_2d_via_mask_from(mask_2d=m, pixel_scales=ps, origin=og), "util_nat")
    rec["bl_raised"] = False
    try:
        bl = aa.Grid2D.blurring_grid_from(mask=mask, kernel_shape_native=(int(k[0]), int(k[1])))
        blk = fm.blurring_grid_via_kernel_shape_from(kernel_shape_native=(int(k[0]), int(k[1])))
        rec["bl"] = al.pairs(np.asarray(bl.slim.array), "bl")
        rec["bl_um"] = _unmasked(bl.mask)
        rec["bl_ps"], rec["bl_og"] = al.ticks(list(bl.pixel_scales), "bl_ps"), al.ticks(list(bl.origin), "bl_og")
        rec["blk"] = al.pairs(np.asarray(blk.slim.array), "blk")
        rec["blk_um"] = _unmasked(blk.mask)
    except Exception as e:  # noqa: BLE001  (a footprint that leaves the frame raises: C10's case)
        rec["bl_raised"] = True
        rec["bl_exc"] = type(e).__name__
        rec["bl"], rec["bl_um"], rec["bl_ps"], rec["bl_og"], rec["blk"], rec["blk_um"] = [], [], [0, 0], [0, 0], [], []
    rec["off"] = al.off
    return rec


def _grid_on(g, u, vals, store, tau):
    import autoarray as aa

    mask = _mask(g, u, tau)
    v = np.asarray(vals, dtype=float).reshape(-1, 2) * tau
    return aa.Grid2D(values=v, mask=mask, store_native=(store == "native")), mask


def rec_gq(g, u, vals, store, q, tau, d=(0, 0), variant=0):
    if q == "in_radians":
        tau = 1.0  # the grid holds the integers themselves (|m| <= 600)
    al = _Alpha(tau)
    gr, mask = _grid_on(g, u, vals, store, tau)
    rec = _base("gq", g, tau, u=[int(x) for x in u], vals=[[int(a), int(b)] for a, b in vals], store=store, q=q,
                d=[int(d[0]), int(d[1])], variant=int(variant), flag=False, outp=[], out_um=[], out_ps=[0, 0], out_og=[0, 0])

    def geom(o):
        rec["out_um"] = _unmasked(o.mask)
        rec["out_ps"], rec["out_og"] = al.ticks(list(o.pixel_scales), "out_ps"), al.ticks(list(o.origin), "out_og")

    if q == "flipped":
        o = gr.flipped
        rec["outp"] = al.pairs(np.asarray(o.slim.array), "outp")
        geom(o)
    elif q == "subtracted_from":
        off = (d[0] * tau, d[1] * tau)
        o = gr.subtracted_from(offset=off if variant % 2 == 0 else np.array(off))
        rec["outp"] = al.pairs(np.asarray(o.slim.array), "outp")
        geom(o)
    elif q == "is_uniform":
        rec["flag"] = bool(gr.is_uniform)
    elif q == "in_radians":
        o = gr.in_radians
        big = np.rint(np.asarray(o.slim.array, dtype=float).reshape(-1, 2) * 648000.0e6)
        if not np.all(np.isfinite(big)) or np.any(np.abs(big) > 2.0e9):
            al.off += 1
            big = np.zeros_like(big)
        rec["outp"] = big.astype(np.int64).tolist()
        geom(o)
    else:
        raise core.MachineryError(f"unknown grid query {q}")
    rec["off"] = al.off
    return rec


def rec_util(fn, tau, **kw):
    from autoarray.structures.grids import grid_2d_util
    from autoarray.structures.arrays import array_2d_util

    al = _Alpha(tau)
    rec = {"api": "util", "fn": fn, "tau": repr(float(tau)), "raised": ""}
    if fn in ("centre", "poly", "within"):
        pts = [[int(a), int(b)] for a, b in kw["pts"]]
        rec["pts"] = pts
        p = np.asarray(pts, dtype=float).reshape(-1, 2) * tau
        if fn == "centre":
            rec["out2"] = al.ticks(np.asarray(grid_2d_util.grid_2d_centre_from(grid_2d_slim=p), dtype=float) * 2.0, "out2")
        elif fn == "poly":
            rec["out2"] = al.ints(float(grid_2d_util.compute_polygon_area(p)) * 2.0 / (tau * tau), "out2")
        else:
            rec["ctr"], rec["r2"] = [int(kw["ctr"][0]), int(kw["ctr"][1])], int(kw["r2"])
            rec["outp"], rec["void"] = [], False
            try:
                o = grid_2d_util.grid_2d_of_points_within_radius(radius=math.sqrt(kw["r2"] / 2.0) * tau,
                                                                 centre=(kw["ctr"][0] * tau, kw["ctr"][1] * tau), grid_2d=p)
            except Exception as e:  # noqa: BLE001
                rec["raised"] = type(e).__name__
                o = None
            if o is not None:
                o = np.asarray(o)
                if o.dtype.kind == "V":  # a structured ("record") array: holds no coordinates
                    rec["void"] = True
                elif o.size:
                    rec["outp"] = al.pairs(np.asarray(o, dtype=float), "outp")
    elif fn == "counts":
        g = kw["g"]
        rec.update({k: int(g[k]) for k in ("h", "w", "sy", "sx", "oy", "ox")})
        rec["pts"] = [[int(a), int(b)] for a, b in kw["pts"]]
        ps, og = _geo(g, tau)
        p = np.asarray(rec["pts"], dtype=float).reshape(-1, 2) * tau
        o = grid_2d_util.grid_pixels_in_mask_pixels_from(grid=p, shape_native=(g["h"], g["w"]), pixel_scales=ps, origin=og)
        rec["out"] = al.ints(np.asarray(o).ravel(), "out")
    elif fn == "upscale":
        rec["pts"] = [[int(a), int(b)] for a, b in kw["pts"]]
        rec["f"], rec["sy"], rec["sx"] = int(kw["f"]), int(kw["sy"]), int(kw["sx"])
        p = np.asarray(rec["pts"], dtype=float).reshape(-1, 2) * tau
        o = grid_2d_util.grid_2d_slim_upscaled_from(grid_slim=p, upscale_factor=int(kw["f"]), pixel_scales=(kw["sy"] * tau, kw["sx"] * tau))
        rec["outp"] = al.pairs(o, "outp")
    elif fn == "idx2d":
        rec["ks"], rec["h"], rec["w"] = [int(k) for k in kw["ks"]], int(kw["h"]), int(kw["w"])
        o = array_2d_util.index_2d_for_index_slim_from(indexes_slim=np.asarray(rec["ks"]), shape_native=(kw["h"], kw["w"]))
        rec["outp"] = al.pairs(o, "outp", ticks=False)
    elif fn == "idxslim":
        rec["cs"], rec["h"], rec["w"] = [[int(a), int(b)] for a, b in kw["cs"]], int(kw["h"]), int(kw["w"])
        o = array_2d_util.index_slim_for_index_2d_from(indexes_2d=np.asarray(rec["cs"]).reshape(-1, 2), shape_native=(kw["h"], kw["w"]))
        rec["out"] = al.ints(np.asarray(o).ravel(), "out")
    elif fn == "viaidx":
        rec["cs"], rec["h"], rec["w"] = [[int(a), int(b)] for a, b in kw["cs"]], int(kw["h"]), int(kw["w"])
        m = len(rec["cs"])
        o = array_2d_util.array_2d_via_indexes_from(array_2d_slim=np.arange(1, m + 1, dtype=float), shape=(kw["h"], kw["w"]),
                                                    native_index_for_slim_index_2d=np.asarray(rec["cs"], dtype=int).reshape(-1, 2))
        t = al.ints(np.asarray(o).ravel(), "out")
        rec["out"] = [-1 if v == 0 else v for v in t]
    elif fn == "noise":
        img, n4, t = kw["img"], kw["n4"], int(kw["t"])
        rec["img"], rec["n4"], rec["t"], rec["h"], rec["w"] = [int(v) for v in img], [int(v) for v in n4], t, int(kw["h"]), int(kw["w"])
        sc = float(kw.get("scale", 1.0))
        im = np.asarray(img, dtype=float).reshape(kw["h"], kw["w"]) * sc
        nm = np.asarray(n4, dtype=float).reshape(kw["h"], kw["w"]) * sc / 4.0
        o = array_2d_util.replace_noise_map_2d_values_where_image_2d_values_are_negative(
            image_2d=im, noise_map_2d=nm.copy(), target_signal_to_noise=float(t))
        rec["out4"] = al.ints(np.asarray(o).ravel() * 4.0 / sc, "out4")
    else:
        raise core.MachineryError(f"unknown helper {fn}")
    rec["off"] = al.off
    return rec


def rec_zoomext(g, u, nat, store, buffer, tau):
    al = _Alpha(tau)
    a, mask = _array_on(g, u, nat, store, tau)
    rec = _base("zoomext", g, tau, u=[int(x) for x in u], buffer=int(buffer), store=store)
    rec["ext"] = al.ticks(list(a.extent_of_zoomed_array(buffer=int(buffer))), "ext")
    z = a.zoomed_around_mask(buffer=int(buffer))
    rec["zext"] = al.ticks(list(z.geometry.extent), "zext")
    rec["zh"], rec["zw"] = int(z.shape_native[0]), int(z.shape_native[1])
    rec["off"] = al.off
    return rec


def rec_counts(g, u, vals, store, e, tau):
    import autoarray as aa

    class _HeaderWithConversion(aa.Header):
        """an instrument's header: the documented conversion [counts] = [electrons per second] * [exposure time]"""

        def array_eps_to_counts(self, array_eps):
            return array_eps * self.exposure_time

    al = _Alpha(tau)
    hdr = _HeaderWithConversion(header_sci_obj={"EXPTIME": float(e)})
    mask = _mask(g, u, tau)
    v = np.asarray(vals, dtype=float)
    if store == "native":
        full = np.full(g["h"] * g["w"], 55.0)
        full[list(u)] = v
        a = aa.Array2D(values=full.reshape(g["h"], g["w"]), mask=mask, header=hdr, store_native=True)
    else:
        a = aa.Array2D(values=v.copy(), mask=mask, header=hdr)
    rec = _base("counts", g, tau, u=[int(x) for x in u], vals=[int(x) for x in vals], store=store, e=int(e))
    ic, icps = a.in_counts, a.in_counts_per_second
    rec["ic"] = al.ints(np.asarray(ic.slim.array).ravel(), "ic")
    rec["icps"] = al.ints(np.asarray(icps.slim.array).ravel(), "icps")
    rec["ic_um"], rec["icps_um"] = _unmasked(ic.mask), _unmasked(icps.mask)
    rec["off"] = al.off
    return rec


def rec_hist(kind, g, u, store, start, steps, tau, variant=0):
    """One object `a` built from `start`, then the steps: read a view of a / of d, d = 2 * a, item assignment on a."""
    import autoarray as aa

    al = _Alpha(tau if kind == "grid" else 1.0)
    h, w = g["h"], g["w"]
    cells = [(k // w, k % w) for k in u]
    mask = _mask(g, u, tau)
    if kind == "array":
        a = aa.Array2D(values=np.asarray(start, dtype=float), mask=mask, store_native=(store == "native"))
    else:
        a = aa.Grid2D(values=np.asarray(start, dtype=float).reshape(-1, 2) * tau, mask=mask, store_native=(store == "native"))
    d = None
    out_steps = []

    def read(o, q):
        if kind == "array":
            if q in ("rows", "cols"):
                with np.errstate(all="ignore"):
                    r = o.binned_across_rows if q == "rows" else o.binned_across_columns
                return al.ints(np.asarray(r.array).ravel(), q, scale=BIN_DEN, nan_ok=True)
            return al.ints(np.asarray(o.slim.array if q == "slim" else o.native.array).ravel(), q)
        if q == "flip":
            return al.ticks(np.asarray(o.flipped.slim.array).ravel(), q)
        if q == "uni":
            return [1 if o.is_uniform else 0]
        return al.ticks(np.asarray(o.slim.array if q == "slim" else o.native.array).ravel(), q)

    for s in steps:
        s = dict(s)
        s["out"] = []
        if s["op"] == "read":
            s["out"] = read(a if s["tgt"] == "a" else d, s["q"])
        elif s["op"] == "double":
            d = [lambda o: 2 * o, lambda o: o * 2.0, lambda o: o + o][variant % 3](a)
        elif s["op"] == "edit":
            k, c = int(s["k"]) - 1, int(s["c"]) - 1
            v = float(s["v"]) * (tau if kind == "grid" else 1.0)
            if kind == "array":
                if store == "native":
                    a[cells[k][0], cells[k][1]] = v
                else:
                    a[k] = v
            else:
                if store == "native":
                    a[cells[k][0], cells[k][1], c] = v
                else:
                    a[k, c] = v
        else:
            raise core.MachineryError(f"unknown history step {s}")
        out_steps.append({"op": s["op"], "tgt": s["tgt"], "q": s["q"], "k": int(s["k"]), "c": int(s["c"]), "v": int(s["v"]), "out": s["out"]})
    conv = al.ints if kind == "array" else al.ticks
    rec = _base("hist", g, tau, kind=kind, u=[int(x) for x in u], store=store, variant=int(variant),
                start=[int(x) for x in start] if kind == "array" else [[int(p), int(q)] for p, q in start], steps=out_steps)
    rec["final"] = conv(np.asarray(a.slim.array).ravel(), "final")
    rec["dfinal"] = conv(np.asarray(d.slim.array).ravel(), "dfinal") if d is not None else []
    rec["off"] = al.off
    return rec


_FNS = {"actor": rec_actor, "yxv": rec_yxv, "binned": rec_binned, "gctor": rec_gctor, "place": rec_place,
        "maskgrid": rec_maskgrid, "gq": rec_gq, "util": rec_util, "zoomext": rec_zoomext, "counts": rec_counts,
        "hist": rec_hist}


def _where(t):
    kind, args, kw = t
    if kind in ("actor", "gctor", "place"):
        return f"{kind}:{args[1]}"
    if kind == "gq":
        return f"gq:{args[4]}"
    if kind == "util":
        return f"util:{args[0]}"
    if kind == "hist":
        return f"hist:{args[0]}"
    return kind


def run_task(t):
    kind, args, kw = t
    fn = _FNS.get(kind)
    if fn is None:
        raise core.MachineryError(f"unknown task {kind}")
    try:
        rec = fn(*args, **kw)
    except core.MachineryError:
        raise
    except Exception as e:  # an exception of the code under test inside the statement's domain is a rejection
        rec = {"api": "raised", "where": _where(t), "exc": type(e).__name__, "msg": str(e)[:300], "raised": type(e).__name__}
    return rec


def _run_tasks(ts):
    return [run_task(t) for t in ts]


def T(kind, *args, **kw):
    return (kind, list(args), kw)


# ---------------------------------------------------------------------------------------------
# tasks from the TLC-enumerated instances
# ---------------------------------------------------------------------------------------------
def _key(r):
    import json

    return json.dumps(r, sort_keys=True)


def _gof(r):
    return {k: int(r[k]) for k in ("h", "w", "sy", "sx", "oy", "ox")}


def _mach_nat(p, h, w):
    return [(((k * (2 * p + 1)) + p) % 7) - 3 for k in range(h * w)]


def _embed(g, u, a, b):
    h2, w2 = g["h"] + 2 * a, g["w"] + 2 * b
    ge = dict(g, h=h2, w=w2)
    ue = sorted((k // g["w"] + a) * w2 + (k % g["w"] + b) for k in u)
    return ge, ue


def _rot(seq, k):
    return seq[k % len(seq)]


def tasks_mask_instance(inst, n, b, full):
    """Every public call of the mask family on one TLC-enumerated instance; parameters (storage, tick length, kernel,
    offset, radius, buffer) rotate with the instance number n; `full` (thorough tier): both storage forms and two offsets."""
    g, u, p = _gof(inst), inst["u"], inst["pat"]
    nat = _mach_nat(p, g["h"], g["w"])
    vals = _centres(g, u)
    ts = []
    stores = ["slim", "native"]
    taus = TAUS[:3] if not full else TAUS[:3]
    tau = _rot(taus, n)
    for st in (stores if full else [_rot(stores, n)]):
        ts.append(T("binned", g, u, nat, st, tau, variant=n))
        ts.append(T("counts", g, u, [nat[k] for k in u], st, [1, 2, 8][n % 3], tau))
    for k in [_rot(b["kernels"], n), _rot(b["kernels"], n // 2 + 1)]:
        ge, ue = _embed(g, u, k[0] // 2, k[1] // 2)
        ts.append(T("maskgrid", ge, ue, k, tau, variant=n))
    for st in (stores if full else [_rot(stores, n // 2)]):
        ts.append(T("gq", g, u, vals, st, "flipped", tau, variant=n))
        ts.append(T("gq", g, u, vals, st, "is_uniform", _rot(TAUS, n), variant=n))
        if max(abs(c) for pt in vals for c in pt) <= 600:
            ts.append(T("gq", g, u, vals, st, "in_radians", 1.0, variant=n))
        for d in ([_rot(b["offsets"], n), _rot(b["offsets"], n // 3 + 2)] if full else [_rot(b["offsets"], n)]):
            ts.append(T("gq", g, u, vals, st, "subtracted_from", tau, d=d, variant=n))
    ts.append(T("util", "centre", tau, pts=vals))
    ts.append(T("util", "poly", _rot([0.125, 0.5, 1.0], n), pts=vals))
    if n % 3 == 0:
        ts.append(T("util", "within", tau, pts=vals, ctr=(g["oy"], g["ox"]), r2=_rot(b["radii"], n // 3)))
    for bf in [n % 3]:
        ts.append(T("zoomext", g, u, nat, _rot(stores, n), bf, tau))
    return ts


def tasks_frame_instance(inst, n, b, full):
    g = _gof(inst)
    h, w = g["h"], g["w"]
    ts = []
    tau = _rot(TAUS[:3], n)
    for c in ("no_mask_native", "no_mask_slim", "no_mask_slim_list", "no_mask_native_list", "ones", "zeros", "from_fits",
              "from_fits", "from_primary_hdu", "from_primary_hdu"):
        ts.append(T("actor", g, c, tau, variant=len(ts) + n))
    for v in (0, 1, -3):
        ts.append(T("actor", g, "full", tau, fill=v, variant=n))
    for c in ("no_mask_slim", "no_mask_slim_list", "no_mask_native", "from_yx_1d", "from_yx_1d_list", "from_yx_2d", "from_yx_2d_list"):
        ts.append(T("gctor", g, c, tau, variant=n))
    for t2 in (TAUS[:3] if full else [tau]):
        ts.append(T("place", g, "uniform", t2, variant=n))
        ts.append(T("place", g, "slim_via_shape", t2))
        ts.append(T("place", g, "native_via_shape", t2))
        top, bot = g["oy"] + h * (g["sy"] // 2), g["oy"] - h * (g["sy"] // 2)
        lef, rig = g["ox"] - w * (g["sx"] // 2), g["ox"] + w * (g["sx"] // 2)
        ts.append(T("place", g, "bounding_box", t2, bb=(bot, top, lef, rig), variant=n))
        if h >= 2 and w >= 2:
            cy0, cy1 = _centre(g, 0, 0)[0], _centre(g, h - 1, 0)[0]
            cx0, cx1 = _centre(g, 0, 0)[1], _centre(g, 0, w - 1)[1]
            ts.append(T("place", g, "bounding_box_corners", t2, bb=(cy1, cy0, cx0, cx1), variant=n))
            ts.append(T("place", g, "from_extent", t2, bb=(cx0, cx1, cy1, cy0)))
        for k in b["pad_kernels"]:
            ts.append(T("place", g, "padded_grid", t2, k=k, variant=n + k[0]))
    cen = [list(_centre(g, i, j)) for i in range(h) for j in range(w)]
    for f in b["up_factors"]:
        if (g["sy"] // 2) % f == 0 and (g["sx"] // 2) % f == 0:
            ts.append(T("util", "upscale", tau, pts=cen, f=f, sy=g["sy"], sx=g["sx"]))
    ts.append(T("util", "idx2d", 1.0, ks=list(range(h * w)), h=h, w=w))
    ts.append(T("util", "idxslim", 1.0, cs=[[i, j] for i in range(h) for j in range(w)], h=h, w=w))
    return ts


def hist_signature(hrec):
    return (hrec["kind"],) + tuple((s["op"], s["tgt"], s["q"]) for s in hrec["steps"])


def tasks_hist(hists, seed, per_sig=2):
    """One (quick) or a few TLC-enumerated histories per signature (kind, sequence of step kinds): cover the signatures,
    do not sample blindly."""
    by = {}
    for hrec in hists:
        by.setdefault(hist_signature(hrec), []).append(hrec)
    ts = []
    for n, (sig, lst) in enumerate(sorted(by.items())):
        big = max(lst, key=lambda x: (len(x["u"]), x["h"] * x["w"], _key(x)))  # most unmasked pixels: reads can differ
        for m in range(per_sig):
            hrec = big if m == 0 else lst[(zlib.crc32(repr((sig, seed, m)).encode())) % len(lst)]
            g, u, kind = _gof(hrec), hrec["u"], hrec["kind"]
            needs_slim = kind == "grid" and any(s["op"] == "read" and s["q"] in ("flip", "uni") for s in hrec["steps"])
            store = "slim" if needs_slim else ["slim", "native"][(n + m) % 2]
            start = [_mach_nat(1, g["h"], g["w"])[k] for k in u] if kind == "array" else _centres(g, u)
            ts.append(T("hist", kind, g, u, store, start, hrec["steps"], _rot(TAUS[:3], n + m), variant=n + m))
    return ts, len(by)


# ---------------------------------------------------------------------------------------------
# seeded random larger instances
# ---------------------------------------------------------------------------------------------
def random_mask(rng, h, w, style):
    dens = rng.choice([0.2, 0.5, 0.85])
    m = rng.random((h, w)) < dens  # True = unmasked
    if style == 1:
        m[:, :] = False
        m[rng.integers(0, h), w - 1] = True
        m[rng.integers(0, h), rng.integers(0, w)] = True
    elif style == 2:
        m[rng.integers(0, h), :] = True
        m[:, rng.integers(0, w)] = False  # a column without unmasked entry (unless the full row re-fills it)
    elif style == 3:
        m[::2, :] = False  # every other row empty
    elif style == 4:
        m[:, :] = True
    elif style == 5:
        m[:, :] = False
        cy, cx = h // 2, w // 2
        m[max(cy - 2, 0): cy + 2, max(cx - 2, 0): cx + 3] = True
    if not m.any():
        m[rng.integers(0, h), rng.integers(0, w)] = True
    return [int(x) for x in np.flatnonzero(m.ravel())]


def _rand_geo(rng, h, w):
    return {"h": int(h), "w": int(w), "sy": int(rng.choice([4, 8, 12, 20])), "sx": int(rng.choice([4, 8, 12, 20])),
            "oy": int(rng.integers(-8, 9)) * 2, "ox": int(rng.integers(-8, 9)) * 2}


def _rand_tau(rng):
    return float(rng.choice([0.125, 0.05, 1.0 / 3.0, 0.75, round(float(rng.uniform(0.01, 5.0)), 3)]))


def _pred_history(rng, kind, n_entries, g, length, grid_special):
    reads = ["rows", "cols", "slim", "native"] if kind == "array" else (["flip", "uni", "slim", "native"] if grid_special else ["slim", "native"])
    steps, has_d = [], False
    for _ in range(length):
        x = rng.random()
        if x < 0.55:
            tgt = "d" if (has_d and rng.random() < 0.4) else "a"
            steps.append({"op": "read", "tgt": tgt, "q": str(rng.choice(reads)), "k": 0, "c": 0, "v": 0})
        elif x < 0.7:
            steps.append({"op": "double", "tgt": "a", "q": "", "k": 0, "c": 0, "v": 0})
            has_d = True
        else:
            k = int(rng.integers(1, n_entries + 1))
            v = int(rng.integers(-9, 10)) if kind == "array" else int(rng.integers(-20, 21)) * 2
            steps.append({"op": "edit", "tgt": "a", "q": "", "k": k, "c": int(rng.integers(1, 3)), "v": v})
    return steps


def fixed_histories(kind, grid_special):
    """The statement's own history: every view in one order, after b = 2 * a the views of b and of a in the other order,
    after an item assignment all of them again."""
    reads = ["rows", "cols", "slim", "native"] if kind == "array" else (["flip", "uni", "slim", "native"] if grid_special else ["slim", "native"])

    def rd(t, order):
        return [{"op": "read", "tgt": t, "q": q, "k": 0, "c": 0, "v": 0} for q in order]

    dbl = [{"op": "double", "tgt": "a", "q": "", "k": 0, "c": 0, "v": 0}]

    def ed(k, v):
        return [{"op": "edit", "tgt": "a", "q": "", "k": k, "c": 1, "v": v}]

    return [rd("a", reads) + dbl + rd("d", reads[::-1]) + rd("a", reads[::-1]) + ed(1, 6) + rd("a", reads) + rd("d", reads),
            rd("a", reads[::-1]) + ed(1, -4) + rd("a", reads) + dbl + rd("d", reads) + ed(1, 2) + rd("d", reads[::-1]) + rd("a", reads[::-1])]


def random_tasks(rng, nb, seed):
    ts = []
    stores = ["slim", "native"]
    # masked arrays / grids on larger frames
    for k in range(nb["random_masks"]):
        h, w = int(rng.integers(2, 13)), int(rng.integers(2, 16))
        if k % 7 == 0:
            h, w = (1, int(rng.integers(2, 16))) if k % 14 else (int(rng.integers(2, 13)), 1)
        g = _rand_geo(rng, h, w)
        u = random_mask(rng, h, w, k % 6)
        tau = _rand_tau(rng)
        nat = [int(x) for x in rng.integers(-9, 10, size=h * w)]
        if k % 5 == 0:
            nat = [int(x) for x in rng.integers(-1, 2, size=h * w)]  # many ties
        st = stores[k % 2]
        ts.append(T("binned", g, u, nat, st, tau, variant=k))
        ts.append(T("counts", g, u, [nat[i] for i in u], st, int(rng.choice([1, 2, 4, 16])), tau))
        kern = [(3, 3), (1, 3), (3, 1), (5, 3), (3, 5), (5, 5), (1, 1)][k % 7]
        ge, ue = _embed(g, u, kern[0] // 2, kern[1] // 2) if k % 4 else (g, u)
        ts.append(T("maskgrid", ge, ue, kern, tau, variant=k))
        vals = _centres(g, u) if k % 3 else [[int(a), int(b)] for a, b in rng.integers(-300, 301, size=(len(u), 2))]
        if k % 9 == 4:  # the pixel centres listed bottom row first (steps of minus one pixel scale)
            vals = _centres(g, u)[::-1]
        if k % 3 == 2:  # a grid whose rows are pixel rows but that skips / repeats rows: uniformity is decided by the values
            vals = [[p[0] + (g["sy"] if (i % 5 == 4 and k % 2) else 0), p[1]] for i, p in enumerate(_centres(g, u))]
        ts.append(T("gq", g, u, vals, st, "flipped", tau, variant=k))
        ts.append(T("gq", g, u, vals, stores[(k // 2) % 2], "is_uniform", tau, variant=k))
        dd = [int(rng.integers(-30, 31)), int(rng.integers(-30, 31))]
        if k % 6 == 1:
            dd[k % 2] = 0  # one component zero: still a real offset
        ts.append(T("gq", g, u, vals, st, "subtracted_from", tau, d=tuple(dd), variant=k))
        if max(abs(c) for pt in vals for c in pt) <= 600:
            ts.append(T("gq", g, u, vals, st, "in_radians", 1.0, variant=k))
        ts.append(T("zoomext", g, u, nat, st, int(rng.integers(0, 3)), tau))
        ts.append(T("util", "centre", tau, pts=vals))
    # constructors on larger frames
    for k in range(nb["random_frames"]):
        h, w = int(rng.integers(1, 13)), int(rng.integers(1, 16))
        g = _rand_geo(rng, h, w)
        tau = _rand_tau(rng)
        ts.append(T("actor", g, ["no_mask_native", "no_mask_slim", "from_fits", "from_primary_hdu", "no_mask_slim_list"][k % 5], tau, variant=k))
        ts.append(T("actor", g, "full", tau, fill=int(rng.integers(-9, 10)), variant=k))
        ts.append(T("gctor", g, ["no_mask_slim", "no_mask_native", "from_yx_1d", "from_yx_2d", "from_yx_1d_list"][k % 5], tau, variant=k))
        # boxes that are not the extent of a lattice frame: any even pixel scale, any centre
        ay, ax = int(rng.integers(1, 12)) * 2, int(rng.integers(1, 12)) * 2
        ymin, xmin = int(rng.integers(-40, 40)), int(rng.integers(-40, 40))
        ts.append(T("place", g, "bounding_box", tau, bb=(ymin, ymin + h * ay, xmin, xmin + w * ax), variant=k))
        if h >= 2 and w >= 2:
            by, bx = int(rng.integers(1, 12)) * 2, int(rng.integers(1, 12)) * 2
            ts.append(T("place", g, "bounding_box_corners", tau, bb=(ymin, ymin + (h - 1) * by, xmin, xmin + (w - 1) * bx), variant=k))
            ts.append(T("place", g, "from_extent", tau, bb=(xmin, xmin + (w - 1) * bx, ymin, ymin + (h - 1) * by)))
        ts.append(T("place", g, "uniform", tau, variant=k))
        ts.append(T("place", g, "padded_grid", tau, k=(int(rng.integers(1, 8)), int(rng.integers(1, 8))), variant=k))
        n = h * w
        perm = [int(p) for p in rng.permutation(n)]
        if k % 4 == 0:  # an involution: reversal, or disjoint transpositions
            perm = list(range(n))[::-1]
        ts.append(T("yxv", g, perm, tau, variant=k))
    # helper functions on random point lists
    for k in range(nb["random_utils"]):
        m = int(rng.integers(1, 25))
        pts = [[int(a), int(b)] for a, b in rng.integers(-40, 41, size=(m, 2))]
        tau = _rand_tau(rng)
        ts.append(T("util", "centre", tau, pts=pts))
        ts.append(T("util", "poly", float(rng.choice([0.125, 0.5, 1.0, 2.0])), pts=pts))
        ts.append(T("util", "within", tau, pts=pts, ctr=(int(rng.integers(-10, 11)), int(rng.integers(-10, 11))),
                    r2=int(rng.integers(0, 2000)) * 2 + 1))
        h, w = int(rng.integers(1, 9)), int(rng.integers(1, 9))
        g = _rand_geo(rng, h, w)
        top, lef = g["oy"] + h * (g["sy"] // 2), g["ox"] - w * (g["sx"] // 2)
        q = [[top - 1 - 2 * int(rng.integers(0, h * g["sy"] // 2)), lef + 1 + 2 * int(rng.integers(0, w * g["sx"] // 2))] for _ in range(m)]
        ts.append(T("util", "counts", tau, g=g, pts=q))
        f = int(rng.integers(1, 5))
        ts.append(T("util", "upscale", tau, pts=pts, f=f, sy=4 * f * int(rng.integers(1, 4)), sx=4 * f * int(rng.integers(1, 4))))
        ks = [int(x) for x in rng.integers(0, h * w, size=m)]
        ts.append(T("util", "idx2d", 1.0, ks=ks, h=h, w=w))
        ts.append(T("util", "idxslim", 1.0, cs=[[x // w, x % w] for x in ks], h=h, w=w))
        sel = [int(x) for x in rng.permutation(h * w)[: int(rng.integers(1, h * w + 1))]]
        ts.append(T("util", "viaidx", 1.0, cs=[[x // w, x % w] for x in sel], h=h, w=w))
        img = [int(x) for x in rng.integers(-8, 9, size=h * w)]
        n4 = [int(x) for x in rng.choice([1, 2, 4, 8, 16], size=h * w)]
        ts.append(T("util", "noise", 1.0, img=img, n4=n4, t=int(rng.choice([1, 2, 4])), h=h, w=w, scale=float(rng.choice([1.0, 0.25, 64.0]))))
    # histories on one object
    for k in range(nb["random_histories"]):
        kind = ["array", "grid"][k % 2]
        h, w = int(rng.integers(1, 9)), int(rng.integers(1, 9))
        g = _rand_geo(rng, h, w)
        u = random_mask(rng, h, w, k % 6)
        special = (k // 2) % 3 != 2
        store = "slim" if (kind == "grid" and special) else stores[(k // 2) % 2]
        start = [int(x) for x in rng.integers(-9, 10, size=len(u))] if kind == "array" else _centres(g, u)
        if k % 5 < 2:
            steps = fixed_histories(kind, special)[k % 2]
        else:
            steps = _pred_history(rng, kind, len(u), g, int(rng.integers(4, 13)), special)
        ts.append(T("hist", kind, g, u, store, start, steps, _rand_tau(rng) if kind == "grid" else 1.0, variant=k))
    return ts


# ---------------------------------------------------------------------------------------------
# validation through Trace_Construct2D
# ---------------------------------------------------------------------------------------------
def _describe(rec, task):
    kind, args, kw = task
    if rec.get("api") == "raised":
        return f"{rec['where']} raised {rec['exc']}: {rec.get('msg', '')[:120]} (task {str(args)[:200]} {kw})"
    geo = ""
    if "h" in rec and "sy" in rec:
        geo = f"{rec['h']}x{rec['w']} scales ({rec['sy']},{rec['sx']})u origin ({rec.get('oy')},{rec.get('ox')})u tau={rec.get('tau')}"
    api = rec["api"]
    if api == "yxv":
        return f"Array2D.from_yx_and_values on {geo} pixel of pair k = {rec['perm'][:24]} -> native tags {rec['native'][:24]}"
    if api == "binned":
        return f"binned_across_rows/columns on {geo} unmasked {rec['u'][:30]} stored {rec['store']} -> rows {rec['rows'][:8]} cols {rec['cols'][:8]} (x{BIN_DEN})"
    if api == "gq":
        return f"Grid2D.{rec['q']} on {geo} unmasked {rec['u'][:30]} stored {rec['store']} entries {rec['vals'][:6]} -> {rec['outp'][:6] or rec['flag']}"
    if api == "hist":
        st = [(s["op"], s["tgt"], s["q"], s["k"], s["v"]) for s in rec["steps"]]
        return f"history on one {rec['kind']} ({rec['store']}-stored) {geo} unmasked {rec['u'][:30]} steps {st[:14]}"
    if api == "util":
        return f"{rec['fn']} " + str({k: v for k, v in rec.items() if k in ('pts', 'ctr', 'r2', 'f', 'raised', 'outp', 'out2', 'img', 'n4', 't', 'out4', 'ks', 'cs', 'out', 'h', 'w')})[:300]
    return f"{api}:{rec.get('ctor', '')} on {geo}"


def validate(ctx, records, tasks, tag, chunk=2500):
    import concurrent.futures as cf

    for n, r in enumerate(records):
        r["id"] = n
    nchunks = max(1, min(16, (len(records) + chunk - 1) // chunk * 2)) if len(records) > 200 else 1
    chunks = [records[k::nchunks] for k in range(nchunks)]  # interleaved: costly records spread evenly
    rejects = []
    env = {"JAVA_TOOL_OPTIONS": "-XX:ParallelGCThreads=2 -XX:CICompilerCount=2"}

    def one(args):
        k, ch = args
        _, rej = ctx.validate_trace("Trace_Construct2D", TRACE_CFG, ch, tag=f"{tag}-{k}", timeout=1800, env=env)
        return rej

    before = ctx.traces_validated
    with cf.ThreadPoolExecutor(max_workers=min(16, len(chunks) or 1)) as ex:
        for rej in ex.map(one, list(enumerate(chunks))):
            rejects.extend(rej)
    ctx.traces_validated = before + len(records) - len({rj["id"] for rj in rejects})
    for rj in rejects:
        rec = records[rj["id"]]
        ctx.violation(rj["sig"], f"{_describe(rec, tasks[rj['id']])}: failed {rj['clauses'][:6]}",
                      {"task": tasks[rj["id"]], "record": rec, "failed_clauses": rj["clauses"], "spec_wanted": rj.get("want")},
                      cls=",".join(sorted(set(rj["clauses"])))[:200])
    return rejects


# ---------------------------------------------------------------------------------------------
def _frames_upto(max_cells, max_side=None):
    return [(h, w) for h in range(1, max_cells + 1) for w in range(1, max_cells + 1)
            if h * w <= max_cells and (max_side is None or max(h, w) <= max_side)]


def _bounds(quick):
    common = dict(kernels=[(1, 1), (3, 3), (1, 3), (5, 3)], offsets=[(0, 0), (2, -6), (-12, 4), (0, 4), (6, 0)], radii=[1, 33, 129, 20001],
                  pad_kernels=[(1, 1), (3, 3), (2, 4), (5, 1)], up_factors=[1, 2, 3])
    if quick:
        return dict(common, mask_frames=_frames_upto(8) + [(3, 3)], mask_geoms=[(4, 4, 0, 0), (8, 4, 6, -10)], patterns=[1],
                    frame_frames=[(h, w) for h in range(1, 5) for w in range(1, 6)],
                    frame_geoms=[(4, 4, 0, 0), (8, 12, 0, 0), (12, 4, -2, 6), (24, 12, 10, -6)], perm_max=5,
                    hist_frames=[(2, 2), (1, 3)], hist_geoms=[(4, 8, 2, -2)], hist_depth=3, hist_per_sig=2,
                    random_masks=220, random_frames=120, random_utils=80, random_histories=150)
    return dict(common, mask_frames=_frames_upto(10) + [(3, 4), (4, 3)],
                mask_geoms=[(4, 4, 0, 0), (8, 4, 6, -10)], patterns=[2],
                frame_frames=[(h, w) for h in range(1, 6) for w in range(1, 7)],
                frame_geoms=[(4, 4, 0, 0), (8, 12, 0, 0), (12, 4, -2, 6), (24, 12, 10, -6), (12, 24, 0, 0)], perm_max=6,
                hist_frames=[(2, 2), (1, 3), (3, 1)], hist_geoms=[(4, 8, 2, -2)], hist_depth=3, hist_per_sig=4,
                deep_hist_frames=[(2, 2), (1, 3)], deep_hist_depth=4,
                random_masks=2500, random_frames=1500, random_utils=800, random_histories=2500)


def _design_counterexamples(ctx, b):
    """Design-level sanity check: with either design switch set the wrong way (item assignment keeps remembered views;
    b = 2 * a inherits them) the history machine must violate its coherence invariants."""
    defs = mc_defs(hist_frames=[(2, 2)], hist_geoms=[(4, 8, 2, -2)])
    for tag, drops, carries in (("keeps", False, False), ("inherits", True, True)):
        res = ctx.tlc("Construct2D", mc_cfg("HSpec", depth=3, drops=drops, carries=carries), defs=defs,
                      tag=f"MC_Construct2D_{tag}", timeout=600, workers=2, allow_errors=True)
        if not any("MemoIsCoherent" in e or "ReadsDescribeCurrentEntries" in e for e in res.errors):
            raise core.MachineryError(f"Construct2D.tla: design switch '{tag}' did not break the coherence invariants ({res.errors[:3]})")


def run(ctx):
    import concurrent.futures as cf
    import shutil

    quick = ctx.quick
    b = _bounds(quick)
    ctx.bounds = {"unit": "half-tick u; pixel scales multiples of 4u, origins multiples of 2u; means carried as numerator x "
                          f"({BIN_DEN} / count); radii as odd R2 = 2 r^2",
                  "tick_lengths": TAUS + ["random 3-digit decimals in [0.01, 5] for the random instances"], **b}

    # 1. TLC on the bounded machines (mask family, frame family, history machine side by side)
    ncpu = max(2, (os.cpu_count() or 4) // 2)
    fam_mask = dict(mask_frames=b["mask_frames"], mask_geoms=b["mask_geoms"], patterns=b["patterns"], kernels=b["kernels"],
                    offsets=b["offsets"], radii=b["radii"])
    fam_frame = dict(frame_frames=b["frame_frames"], frame_geoms=b["frame_geoms"], pad_kernels=b["pad_kernels"], up_factors=b["up_factors"])
    fam_hist = dict(hist_frames=b["hist_frames"], hist_geoms=b["hist_geoms"])
    jobs = [("MC_Construct2D_mask", mc_cfg("Spec"), mc_defs(**fam_mask), ncpu, True),
            ("MC_Construct2D_frame", mc_cfg("Spec", perm_max=b["perm_max"]), mc_defs(**fam_frame), 4, True),
            ("MC_Construct2D_hist", mc_cfg("HSpec", depth=b["hist_depth"]), mc_defs(**fam_hist), 4, True)]

    if b.get("deep_hist_depth"):  # longer histories: design theorems only, nothing dumped
        jobs.append(("MC_Construct2D_hist_deep", mc_cfg("HSpec", depth=b["deep_hist_depth"], dump=False),
                     mc_defs(hist_frames=b["deep_hist_frames"], hist_geoms=b["hist_geoms"]), ncpu, False))

    def mc(job):
        tag, cfg, defs, nw, cov = job
        return ctx.tlc("Construct2D", cfg, defs=defs, tag=tag, timeout=3000, workers=nw, coverage=cov)

    with cf.ThreadPoolExecutor(max_workers=len(jobs) + 1) as ex:
        fneg = ex.submit(_design_counterexamples, ctx, b)
        r_mask, r_frame, r_hist = list(ex.map(mc, jobs))[:3]
        fneg.result()
    minst = sorted((r for r in r_mask.by_kind("inst") if r["fam"] == "mask"), key=_key)
    finst = sorted((r for r in r_frame.by_kind("inst") if r["fam"] == "frame"), key=_key)
    yxvs = sorted(r_frame.by_kind("yxv"), key=_key)
    hists = sorted(r_hist.by_kind("hist"), key=_key)
    want_m = sum(2 ** (h * w) - 1 for h, w in b["mask_frames"]) * len(b["mask_geoms"]) * len(b["patterns"])
    want_f = len(b["frame_frames"]) * len(b["frame_geoms"])
    want_y = sum(math.factorial(h * w) for h, w in b["frame_frames"] if h * w <= b["perm_max"]) * \
        sum(1 for q in b["frame_geoms"] if q[2] == 0 and q[3] == 0)
    if len(minst) != want_m or len(finst) != want_f or len(yxvs) != want_y or not hists:
        raise core.MachineryError(f"Construct2D.tla enumerated {len(minst)} masked instances / {len(finst)} frames / {len(yxvs)} "
                                  f"permutations / {len(hists)} histories, expected {want_m} / {want_f} / {want_y} / >0")
    ctx.exhaustive = True

    # 2. S->C: every enumerated instance through the real API;  3. seeded random larger instances
    tasks = []
    for n, inst in enumerate(minst):
        tasks += tasks_mask_instance(inst, n + ctx.seed, b, full=not quick)
    for n, inst in enumerate(finst):
        tasks += tasks_frame_instance(inst, n + ctx.seed, b, full=not quick)
    for n, y in enumerate(yxvs):
        g = {"h": y["h"], "w": y["w"], "sy": y["sy"], "sx": y["sx"], "oy": 0, "ox": 0}
        tasks.append(T("yxv", g, y["perm"], _rot(TAUS[:3], n + ctx.seed), variant=n + ctx.seed))
    th, nsig = tasks_hist(hists, ctx.seed, per_sig=b["hist_per_sig"])
    tasks += th
    for kind in ("array", "grid"):
        for special in (True, False):
            for m, steps in enumerate(fixed_histories(kind, special)):
                for st in (["slim"] if (kind == "grid" and special) else ["slim", "native"]):
                    g = {"h": 3, "w": 3, "sy": 4, "sx": 8, "oy": 2, "ox": -6}
                    u = [0, 1, 2, 3, 5, 8] if m == 0 else [1, 4, 5, 7]
                    start = [_mach_nat(2, 3, 3)[k] for k in u] if kind == "array" else _centres(g, u)
                    tasks.append(T("hist", kind, g, u, st, start, steps, 0.25, variant=m))
    n_exh = len(tasks)
    rng = np.random.default_rng(ctx.seed)
    tasks += random_tasks(rng, b, ctx.seed)

    global _FILES_ROOT
    _FILES_ROOT = ctx.work / "files"
    size = 60
    order = np.random.default_rng(ctx.seed + 1).permutation(len(tasks))  # spread costly tasks over the worker groups
    tasks = [tasks[k] for k in order]
    groups = [tasks[k: k + size] for k in range(0, len(tasks), size)]
    recs = []
    try:
        for part in core.pmap(_run_tasks, groups):
            recs.extend(part)
    finally:
        shutil.rmtree(_FILES_ROOT, ignore_errors=True)
    ctx.replayed = len(minst) + len(finst) + len(yxvs) + len(th)
    by_api = {}
    for r in recs:
        by_api.setdefault(r["api"], []).append(r)
    for api in ("binned", "yxv", "hist", "place"):
        if by_api.get(api):
            ctx.sample(by_api[api][len(by_api[api]) // 3])

    # 4. C->S: every record judged by Trace_Construct2D
    validate(ctx, recs, tasks, "X12")
    ctx.note(f"{len(minst)} masked instances, {len(finst)} unmasked frames, {len(yxvs)} pixel permutations and {len(hists)} histories "
             f"({nsig} signatures) enumerated by TLC; {n_exh} calls on them + {len(tasks) - n_exh} calls on random larger instances -> "
             f"{len(recs)} records ({ {k: len(v) for k, v in sorted(by_api.items())} }) judged by Trace_Construct2D")
    ctx.note("design check: if item assignment kept remembered views, or b = 2 * a inherited them, TLC finds a stale is_uniform")
    ctx.assumptions = [
        "half-tick lattice (C02): pixel scales are multiples of 4u, origins multiples of 2u; points given to index-valued helpers "
        "are odd multiples of u (never on a pixel boundary); radii have 2 r^2 odd (no point at distance exactly r)",
        "means: values are integers |v| <= 9, a mean over c entries is compared as numerator * (360360 / c); a row / column "
        "without unmasked entry is not judged (the docstring is silent, the code returns nan)",
        "in_radians is judged through the bracket 3141592e-6 < pi < 3141593e-6 on grids holding integers |m| <= 600",
        "binned_across_rows is judged as 'one value per column, the mean over the rows' (the name and the repository's tests; "
        "the docstring's 'in each row' is read as the direction that is collapsed); with unequal pixel scales the pixel scale "
        "of the 1D result is not judged",
        "Grid2D.from_extent: only the coordinates are judged (they span the extent, top row first), not the pixel scales / "
        "origin of the paired mask; frames with a single row or column are outside its domain (it raises IndexError), as is "
        "bounding_box(buffer_around_corners=True) there (division by zero)",
        "replace_noise_map_2d_values_where_image_2d_values_are_negative: a negative pixel BELOW the target may be kept (the "
        "code, its examples) or set to |image| / target (first sentence of the docstring)",
        "in_counts / in_counts_per_second are judged with a header subclass that implements the documented conversion "
        "counts = eps * exposure time (the base class raises NotImplementedError, X03)",
        "grid histories that read flipped / is_uniform use slim-stored grids (the native-stored deviations of those two views are "
        "reported once, through the single-query records)",
        "alpha divides by the tick length, rounds, and rejects residuals > 1e-6 (clause 'offlattice')",
        "TLC 1.8 / SANY / CommunityModules",
    ]


def replay(ctx, rp):
    global _FILES_ROOT
    _FILES_ROOT = ctx.work / "files"
    t = rp["task"]
    new = run_task((t[0], t[1], t[2]))
    rej = validate(ctx, [new], [t], "X12-replay")
    print("replayed 1 record; rejected clauses:", [r["clauses"] for r in rej])
    return ctx.finish()
