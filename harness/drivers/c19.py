"""C19 -- layout regions rotate and extract consistently with the arrays they index.

S->C: Layout.tla enumerates, inside the bound, every (shape, region, read-out corner), every valid interval quadruple,
      every (region, window) pair, every parent / method / pixel range of the front and trailing sub-regions and every
      constructor argument tuple; TLC checks the design theorems (Commute, Involution, cell-image = reflection arithmetic,
      overlap definition = per-axis formula = code-shaped case analysis, ...) on each and dumps it; every instance is
      replayed through the real API (layout_util, Region1D/Region2D, Layout1D/Layout2D, Array2D.original_orientation)
      with tagged arrays (and random real payloads, compared bit for bit through the same source map).
C->S: the abstracted results (source tag of every output cell, region tuples, "absent"/"raised" as the empty tuple) are
      judged record by record by Trace_Layout.tla, also for seeded random larger instances.
Layout histories: the machine also explores histories of a Layout2D (Build | BuildRotated(c), then Rotate(c) / Extract(e)
      steps, all four corners, mixed corners, the explored region in every slot); the specification tracks where every slot
      and the accompanying array must be; each history (every prefix) is realised on real Layout2D objects through
      rotated_from_roe_corner / new_rotated_from / layout_extracted_from and judged by Trace_Layout.
Masked arrays: the machine enumerates every non-empty mask of small frames and every corner; the specification says what
      the rotated masked array is (the entry of the mirrored cell, zeros moving with their cells; a carried mask is the
      mirrored mask; twice restores); Array2D.original_orientation and Layout2D.original_orientation_from are run on masked
      slim- and native-stored Array2D objects and each call is judged by Trace_Layout (a slim-stored input for which the call
      raises is not judged).
Thorough tier: Apalache proves the interval identity for all naturals (spec/Layout_Apalache.tla)."""
import re
import shutil
import subprocess
import time

import numpy as np

from harness import core, exact

CORNERS = [(1, 0), (0, 0), (1, 1), (0, 1)]
SLOTS = ("parallel_overscan", "serial_prescan", "serial_overscan")
INVARIANTS = ["Commute", "Involution", "RotRegionForms", "RotCompose", "CodeShapeIsOverlap1", "OverlapForms",
              "ExtractAddressesOverlap", "SubForms1", "SubForms2", "SubCounts", "SubRejectsEmpty", "CtorMeaning",
              "HistRegionsIndexArray", "HistInvolution", "HistCompose",
              "MaskedRotForms", "MaskedRotInvolution", "StaleMaskTheorem"]

MC_CFG = """CONSTANTS
  RotShapes <- MCRotShapes
  ExtShapes <- MCExtShapes
  SubShapes <- MCSubShapes
  IvMax <- MCIvMax
  Sub1Max <- MCSub1Max
  PxMax <- MCPxMax
  CtorLo <- MCCtorLo
  CtorHi <- MCCtorHi
  HistShapes <- MCHistShapes
  HistDepth <- MCHistDepth
  HistAllSlots <- MCHistAllSlots
  MaskShapes <- MCMaskShapes
SPECIFICATION Spec
""" + "".join(f"INVARIANT {n}\n" for n in INVARIANTS)

TRACE_CFG = """CONSTANTS
  RotShapes = {}
  ExtShapes = {}
  SubShapes = {}
  IvMax = 0
  Sub1Max = 0
  PxMax = 0
  CtorLo = 0
  CtorHi = 0
  HistShapes = {}
  HistDepth = 0
  HistAllSlots = FALSE
  MaskShapes = {}
SPECIFICATION TraceSpec
POSTCONDITION TraceAccepted
"""


def _pairs(ps):
    return "{" + ", ".join(f"<<{a},{b}>>" for a, b in ps) + "}"


# ----------------------------------------------------------------------------------------------
# expected instance counts (the enumeration must be complete, otherwise the machinery is broken)
# ----------------------------------------------------------------------------------------------
def _niv(n):
    return n * (n + 1) // 2


def expected_counts(b):
    px = (b["px_max"] + 1) ** 2
    out = {
        "rot": sum(4 * _niv(h) * _niv(w) for h, w in b["rot_shapes"]),
        "ext1": _niv(b["iv_max"]) ** 2,
        "ext2": sum((_niv(h) * _niv(w)) ** 2 for h, w in b["ext_shapes"]),
        "sub1": sum(2 * px + (q - p + 1) for p in range(b["sub1_max"] + 1) for q in range(p + 1, b["sub1_max"] + 1)),
        "ctor1": (b["ctor_hi"] - b["ctor_lo"] + 1) ** 2,
        "ctor2": (b["ctor_hi"] - b["ctor_lo"] + 1) ** 4,
    }
    s2 = 0
    for h, w in b["sub_shapes"]:
        for y0 in range(h):
            for y1 in range(y0 + 1, h + 1):
                for x0 in range(w):
                    for x1 in range(x0 + 1, w + 1):
                        s2 += 4 * px + (y1 - y0 + 1) + (x1 - x0 + 1)
    out["sub2"] = s2
    out["moo"] = sum(4 * (2 ** (h * w) - 1) for h, w in b["mask_shapes"])
    out["hist"] = sum(_niv(h) * _niv(w) * (3 if b["hist_all_slots"] else 1) * 5 * _hist_count(h, w, b["hist_depth"])
                      for h, w in b["hist_shapes"])
    return out


def _hist_windows(h, w):
    ws = [(1, h, 0, w), (0, h - 1, 0, w), (0, h, 1, w), (0, h, 0, w - 1)]
    return sorted({e for e in ws if e[0] < e[1] and e[2] < e[3]})


def _hist_count(h, w, d):
    """number of histories (prefixes included) that continue one built layout on an h x w frame with <= d steps"""
    if d == 0:
        return 1
    return 1 + 4 * _hist_count(h, w, d - 1) + sum(_hist_count(e[1] - e[0], e[3] - e[2], d - 1) for e in _hist_windows(h, w))


def enumerate_instances(ctx, b, tag="MC_Layout", timeout=1800):
    defs = "\n".join([
        f"MCRotShapes == {_pairs(b['rot_shapes'])}",
        f"MCExtShapes == {_pairs(b['ext_shapes'])}",
        f"MCSubShapes == {_pairs(b['sub_shapes'])}",
        f"MCIvMax == {b['iv_max']}",
        f"MCSub1Max == {b['sub1_max']}",
        f"MCPxMax == {b['px_max']}",
        f"MCCtorLo == {b['ctor_lo']}",
        f"MCCtorHi == {b['ctor_hi']}",
        f"MCHistShapes == {_pairs(b['hist_shapes'])}",
        f"MCHistDepth == {b['hist_depth']}",
        f"MCHistAllSlots == {'TRUE' if b['hist_all_slots'] else 'FALSE'}",
        f"MCMaskShapes == {_pairs(b['mask_shapes'])}",
    ])
    res = ctx.tlc("Layout", MC_CFG, defs=defs, tag=tag, timeout=timeout, coverage=True)
    insts = res.by_kind("inst")
    want = expected_counts(b)
    got = {}
    for r in insts:
        got[r["kind"]] = got.get(r["kind"], 0) + 1
    hist_inits = sum(_niv(h) * _niv(w) * (3 if b["hist_all_slots"] else 1) for h, w in b["hist_shapes"])
    if got != want or res.distinct != 2 * (sum(want.values()) - want["hist"]) + want["hist"] + hist_inits:
        raise core.MachineryError(f"Layout.tla enumerated {got} ({res.distinct} states), expected {want}")
    return insts, want


# ----------------------------------------------------------------------------------------------
# alpha / gamma
# ----------------------------------------------------------------------------------------------
def _tags(h, w):
    return np.arange(1, h * w + 1, dtype=float).reshape(h, w)


def _rows(arr, n):
    """alpha: 2D array of tags -> rows of source cells; anything that is not a 2D array is [[-2]]."""
    try:
        a = np.asarray(arr, dtype=float)
    except Exception:
        return [[exact.OFF]]
    if a.ndim != 2:
        return [[exact.OFF]]
    flat = exact.tags_to_src(a, base=1, n_cells=n)
    flat = [exact.OFF if v == -1 else v for v in flat]  # an exact 0 is not a tag here
    return [flat[i * a.shape[1]: (i + 1) * a.shape[1]] for i in range(a.shape[0])]


def _row(arr, n):
    try:
        a = np.asarray(arr, dtype=float)
    except Exception:
        return [exact.OFF]
    if a.ndim != 1:
        return [exact.OFF]
    return [exact.OFF if v == -1 else v for v in exact.tags_to_src(a, base=1, n_cells=n)]


def _reg(x, n):
    """alpha: Region / tuple / None -> list of ints ([] = absent)."""
    if x is None:
        return []
    try:
        t = tuple(x.region) if hasattr(x, "region") else tuple(x)
        if len(t) != n or any(int(v) != v for v in t):
            return [exact.OFF] * n
        return [int(v) for v in t]
    except Exception:
        return [exact.OFF] * n


def _try(f, default):
    try:
        return f()
    except Exception:
        return default


def _payload_ok(observe, t, h, w, seed):
    """The same calls on an arbitrary real payload must move the data exactly as on the tagged payload `t` (bit for bit)."""
    rng = np.random.default_rng(seed)
    real = rng.standard_normal((h, w)) * rng.choice([1e-300, 1.0, 1e300 / 8])
    real[real == 0] = 1.0
    r = observe(real)
    flat = real.ravel()
    for name, at in t.items():
        try:
            a = np.asarray(at, dtype=float)
            g = np.asarray(r[name], dtype=float)
            if a.shape != g.shape:
                return False
            idx = a.ravel().astype(np.int64) - 1
            if idx.size and (idx.min() < 0 or idx.max() >= flat.size):
                continue  # off-tag output: already rejected through the source map
            if not np.array_equal(flat[idx].view(np.int64), g.ravel().view(np.int64)):
                return False
        except Exception:
            return False
    return True


# ----------------------------------------------------------------------------------------------
# replay of one instance into the real API
# ----------------------------------------------------------------------------------------------
def _fillers(h, w):
    return [(0, h, 0, w), (0, 1, 0, 1), (h - 1, h, w - 1, w)]


def _slot_kwargs(k, r, h, w, as_object):
    import autoarray as aa

    f = _fillers(h, w)
    kw = {}
    for j, s in enumerate(SLOTS):
        kw[s] = (aa.Region2D(region=tuple(r)) if as_object else tuple(r)) if j == k else f[j]
    return kw


def rec_rot(h, w, c, r, seed=0):
    import autoarray as aa
    from autoarray.layout import layout_util as lu

    c, r, n = tuple(c), tuple(r), h * w
    PAD = np.full((1, 1), -1.0)

    def observe(A):
        out = {}
        out["arot"] = _try(lambda: lu.rotate_array_via_roe_corner_from(array=A.copy(), roe_corner=c), PAD)
        out["arot_oo"] = _try(lambda: aa.Array2D.no_mask(values=A.copy(), pixel_scales=1.0,
                                                         header=aa.Header(original_roe_corner=c)).native.original_orientation, PAD)
        out["arot_lay"] = _try(lambda: aa.Layout2D(shape_2d=(h, w), original_roe_corner=c).original_orientation_from(array=A.copy()), PAD)
        rr = _try(lambda: lu.rotate_region_via_roe_corner_from(region=r, shape_native=(h, w), roe_corner=c), None)
        out["s0"] = _try(lambda: A[aa.Region2D(region=r).slice], PAD)
        out["srot"] = _try(lambda: np.asarray(out["arot"])[rr.slice], PAD)
        out["arot2"] = _try(lambda: lu.rotate_array_via_roe_corner_from(array=np.asarray(out["arot"]).copy(), roe_corner=c), PAD)
        return out

    t = observe(_tags(h, w))
    rrot = _try(lambda: lu.rotate_region_via_roe_corner_from(region=aa.Region2D(region=r), shape_native=(h, w), roe_corner=c), None)
    rrot_t = _try(lambda: lu.rotate_region_via_roe_corner_from(region=r, shape_native=(h, w), roe_corner=c), None)
    rr = _reg(rrot, 4)
    if _reg(rrot_t, 4) != rr:
        rr = [exact.OFF] * 4  # tuple and Region2D arguments must give the same region
    lay, new = [], []
    for k, s in enumerate(SLOTS):
        kw = _slot_kwargs(k, r, h, w, as_object=(k % 2 == 1))
        lay.append(_reg(_try(lambda: getattr(aa.Layout2D.rotated_from_roe_corner(roe_corner=c, shape_native=(h, w), **kw), s), None), 4))
        new.append(_reg(_try(lambda: getattr(aa.Layout2D(shape_2d=(h, w), original_roe_corner=(1, 0), **kw).new_rotated_from(roe_corner=c), s), None), 4))
    rrot2 = _try(lambda: lu.rotate_region_via_roe_corner_from(region=rrot, shape_native=(h, w), roe_corner=c), None) if rrot is not None else None
    rec = {"p": "C19", "api": "rot", "h": h, "w": w, "c": list(c), "r": list(r),
           "arot": _rows(t["arot"], n), "arot_oo": _rows(t["arot_oo"], n), "arot_lay": _rows(t["arot_lay"], n),
           "rrot": rr, "rrot_lay": lay, "rrot_new": new,
           "srot": _rows(t["srot"], n), "arot2": _rows(t["arot2"], n), "rrot2": _reg(rrot2, 4),
           "payload_ok": bool(_payload_ok(observe, t, h, w, seed + 17 * h + w))}
    return rec


def rec_slices(h, w, r, seed=0):
    import autoarray as aa

    r, n = tuple(r), h * w
    p = (r[2], r[3])
    PAD, PAD1 = np.full((1, 1), -1.0), np.full((1,), -1.0)

    def observe(A):
        out = {}
        R = aa.Region2D(region=r)
        arr = aa.Array2D.no_mask(values=A.copy(), pixel_scales=1.0)
        out["s2"] = _try(lambda: A[R.slice], PAD)
        out["ys"] = _try(lambda: A[R.y_slice], PAD)
        out["xs"] = _try(lambda: A[:, R.x_slice], PAD)
        out["po"] = _try(lambda: np.array(aa.Layout2D(shape_2d=(h, w), parallel_overscan=r).extract_parallel_overscan_array_2d_from(array=arr).native), PAD)
        out["so"] = _try(lambda: np.array(aa.Layout2D(shape_2d=(h, w), serial_overscan=R).extract_serial_overscan_array_from(array=arr).native), PAD)
        a1 = A[0].copy()
        R1 = aa.Region1D(region=p)
        out["s1"] = _try(lambda: a1[R1.slice] if R1.slice == R1.x_slice else PAD1, PAD1)
        out["ov1"] = _try(lambda: np.array(aa.Layout1D(shape_1d=(w,), overscan=p).extract_overscan_array_1d_from(
            array=aa.Array1D.no_mask(values=a1, pixel_scales=1.0)).native), PAD1)
        return out

    t = observe(_tags(h, w))
    R = aa.Region2D(region=r)
    shape = _try(lambda: list(R.shape) if (R.total_rows, R.total_columns) == tuple(R.shape) else [exact.OFF, exact.OFF], [exact.OFF, exact.OFF])
    return {"p": "C19", "api": "slices", "h": h, "w": w, "r": list(r),
            "s2": _rows(t["s2"], n), "ys": _rows(t["ys"], n), "xs": _rows(t["xs"], n), "shape": [int(v) for v in shape],
            "po": _rows(t["po"], n), "so": _rows(t["so"], n), "s1": _row(t["s1"], n), "ov1": _row(t["ov1"], n),
            "tp": int(_try(lambda: aa.Region1D(region=p).total_pixels, exact.OFF)),
            "payload_ok": bool(_payload_ok(observe, t, h, w, seed + 31 * h + w))}


def rec_ext1(o, e):
    from autoarray.layout import layout_util as lu

    try:
        x0, x1 = lu.x0x1_after_extraction(x0o=o[0], x1o=o[1], x0e=e[0], x1e=e[1])
        out = [] if (x0 is None and x1 is None) else _reg((x0, x1), 2) if (x0 is not None and x1 is not None) else [exact.OFF] * 2
    except Exception:
        out = [exact.OFF] * 2
    return {"p": "C19", "api": "ext1", "o": list(o), "e": list(e), "out": out}


def rec_ext2(h, w, o, e):
    import autoarray as aa
    from autoarray.layout import layout_util as lu

    o, e, n = tuple(o), tuple(e), h * w
    A = _tags(h, w)
    res = _try(lambda: lu.region_after_extraction(original_region=o, extraction_region=e), "exc")
    res_obj = _try(lambda: lu.region_after_extraction(original_region=aa.Region2D(region=o), extraction_region=aa.Region2D(region=e)), "exc")
    out = [exact.OFF] * 4 if isinstance(res, str) else _reg(res, 4)
    out_obj = [exact.OFF] * 4 if isinstance(res_obj, str) else _reg(res_obj, 4)
    if out != out_obj:
        out = [exact.OFF] * 4
    lay = []
    for k, s in enumerate(SLOTS):
        kw = _slot_kwargs(k, o, h, w, as_object=(k % 2 == 0))
        got = _try(lambda: getattr(aa.Layout2D(shape_2d=(h, w), **kw).layout_extracted_from(extraction_region=e if k else aa.Region2D(region=e)), s), "exc")
        lay.append([exact.OFF] * 4 if isinstance(got, str) else _reg(got, 4))
    if isinstance(res, str) or res is None:
        content = []
    else:
        content = _rows(_try(lambda: A[aa.Region2D(region=e).slice][res.slice], np.full((1, 1), -1.0)), n)
    return {"p": "C19", "api": "ext2", "h": h, "w": w, "o": list(o), "e": list(e), "out": out, "lay": lay, "content": content}


def _call_sub(R, m, px):
    if m in ("front", "trailing"):
        return getattr(R, f"{m}_region_from")(pixels=tuple(px))
    if m == "front_end":
        return R.front_region_from(pixels_from_end=px[0])
    if m.endswith("_end"):
        return getattr(R, m[: -len("_end")] + "_region_from")(pixels_from_end=px[0])
    return getattr(R, f"{m}_region_from")(pixels=tuple(px))


def rec_sub(dim, r, m, px, h, w):
    """h, w: frame used for the content clause (for dim 1: a 1 x w frame)."""
    import autoarray as aa

    r = tuple(r)
    rec = {"p": "C19", "api": f"sub{dim}", "r": list(r), "m": m, "px": [int(v) for v in px], "raised": False, "out": [], "content": []}
    if dim == 1:
        rec["n"] = w
    else:
        rec["h"], rec["w"] = h, w
    try:
        R = aa.Region1D(region=r) if dim == 1 else aa.Region2D(region=r)
        res = _call_sub(R, m, px)
    except Exception as ex:
        rec["raised"] = True
        rec["exc"] = type(ex).__name__
        return rec
    rec["out"] = _reg(res, 2 * dim)
    try:
        if dim == 1 and res.x1 <= w:
            rec["content"] = _row(_tags(1, w)[0][res.slice], w)
        elif dim == 2 and res.y1 <= h and res.x1 <= w:
            rec["content"] = _rows(_tags(h, w)[res.slice], h * w)
    except Exception:
        rec["content"] = [exact.OFF]
    return rec


def rec_ctor(dim, r):
    import autoarray as aa

    r = tuple(int(v) for v in r)
    rec = {"p": "C19", "api": "ctor", "dim": dim, "r": list(r), "raised": False, "kept": []}
    try:
        R = aa.Region1D(region=r) if dim == 1 else aa.Region2D(region=r)
        rec["kept"] = _reg(R, 2 * dim)
        if dim == 2 and (R.y0, R.y1, R.x0, R.x1) != r:
            rec["kept"] = [exact.OFF] * 4
        if dim == 1 and (R.x0, R.x1) != r:
            rec["kept"] = [exact.OFF] * 2
    except Exception as ex:
        rec["raised"] = True
        rec["exc"] = type(ex).__name__
    return rec


MOO_ENTRIES = ("array2d.original_orientation", "layout.original_orientation_from")


def _is_structure(x):
    return hasattr(x, "native") and hasattr(x, "mask")


def _moo_call(entry, stored, values, m, c):
    """One call on a masked Array2D built from `values` (2D) and the boolean mask `m` (True = masked).
    Returns (result, twice) -- twice is the same call applied to its own result (None when that is not possible)."""
    import autoarray as aa

    mask = aa.Mask2D(mask=m.copy(), pixel_scales=1.0)
    header = aa.Header(original_roe_corner=c)
    arr = aa.Array2D(values=values.copy(), mask=mask, header=header, store_native=(stored == "native"))
    L = aa.Layout2D(shape_2d=values.shape, original_roe_corner=c)

    def again(res):
        if entry == MOO_ENTRIES[0]:
            if _is_structure(res) and getattr(res, "header", None) is not None:
                return res.original_orientation
            return aa.Array2D.no_mask(values=np.asarray(res), pixel_scales=1.0, header=header).native.original_orientation
        return L.original_orientation_from(array=res)

    res = arr.original_orientation if entry == MOO_ENTRIES[0] else L.original_orientation_from(array=arr)
    twice = None
    if _is_structure(res) or np.asarray(res).ndim == 2:
        twice = _try(lambda: again(res), "exc")
    return res, twice


def _moo_read(x):
    """alpha: (dim, 2D or 1D float values as read through the public view, carried mask or None)."""
    if _is_structure(x):
        return 2, np.asarray(x.native, dtype=float), np.asarray(x.mask, dtype=bool)
    a = np.asarray(x, dtype=float)
    return a.ndim, a, None


def rec_moo(h, w, u, c, entry, stored, seed=0):
    """u: bitmap (1 = unmasked) in row-major order."""
    n = h * w
    c = tuple(c)
    m = ~np.array(u, dtype=bool).reshape(h, w)
    rec = {"p": "C19", "api": "moo", "h": h, "w": w, "u": [int(v) for v in u], "c": list(c), "entry": entry, "stored": stored,
           "raised": False, "dim": 0, "vals": [[exact.OFF]], "hasmask": False, "umask": [], "twice": [], "payload_ok": True}

    def src_rows(a):  # tags -> source cells, an exact 0 is Zero (-1)
        flat = exact.tags_to_src(a, base=1, n_cells=n)
        return [flat[i * a.shape[1]: (i + 1) * a.shape[1]] for i in range(a.shape[0])]

    try:
        res, twice = _moo_call(entry, stored, _tags(h, w), m, c)
    except Exception as ex:
        rec["raised"] = True
        rec["exc"] = type(ex).__name__
        return rec
    try:
        dim, vals, cm = _moo_read(res)
    except Exception as ex:
        rec["exc"] = "reading the result: " + type(ex).__name__
        return rec
    rec["dim"] = int(dim) if dim in (1, 2) else 0
    if dim == 2:
        rec["vals"] = src_rows(vals)
    elif dim == 1:
        rec["vals"] = [exact.tags_to_src(vals, base=1, n_cells=n)]
    if cm is not None:
        rec["hasmask"] = True
        rec["umask"] = [int(v) for v in (~cm).ravel()] if cm.shape == (h, w) else [exact.OFF]
    if dim == 2:
        if twice is None or isinstance(twice, str):
            rec["twice"] = [[exact.OFF]]
        else:
            try:
                d2, v2, _ = _moo_read(twice)
                rec["twice"] = src_rows(v2) if d2 == 2 else [[exact.OFF]]
            except Exception:
                rec["twice"] = [[exact.OFF]]
    # payload independence: arbitrary reals must move exactly like the tags (masked entries are exact zeros)
    try:
        rng = np.random.default_rng(seed + 13 * h + w)
        real = rng.standard_normal((h, w)) * rng.choice([1e-300, 1.0, 1e300 / 8])
        real[real == 0] = 1.0
        rres, _ = _moo_call(entry, stored, real, m, c)
        rd, rv, _ = _moo_read(rres)
        s = np.array(rec["vals"], dtype=np.int64)
        ok = rd == dim and rv.shape == (s.shape if dim == 2 else s.shape[1:])
        if ok and s.size and s.min() >= -1:
            want = np.where(s >= 0, real.ravel()[np.clip(s, 0, n - 1)], 0.0).reshape(rv.shape)
            ok = bool(np.array_equal(want, rv))
        rec["payload_ok"] = bool(ok)
    except Exception:
        rec["payload_ok"] = False
    return rec


def rec_hist(h, w, regs, steps):
    """Realise a layout history on real Layout2D objects (and take the tagged array through the same history with
    layout_util / Region2D.slice); report what is observed after the last step."""
    import autoarray as aa
    from autoarray.layout import layout_util as lu

    n = h * w
    regs = [list(r) for r in regs]
    steps = [{"op": s["op"], "c": [int(v) for v in s["c"]], "e": [int(v) for v in s["e"]]} for s in steps]
    rec = {"p": "C19", "api": "hist", "h": h, "w": w, "regs": regs, "steps": steps,
           "out": [[exact.OFF] * 4] * 3, "arr": [[exact.OFF]], "cont": [[[exact.OFF]]] * 3, "corner": [], "shape": []}
    kw = {s: (tuple(r) if r else None) for s, r in zip(SLOTS, regs)}
    A = _tags(h, w)
    L = None
    try:
        for k, s in enumerate(steps):
            c, e = tuple(s["c"]), tuple(s["e"])
            if s["op"] == "build":
                L = aa.Layout2D(shape_2d=(h, w), **kw)
            elif s["op"] == "buildrot":
                L = aa.Layout2D.rotated_from_roe_corner(roe_corner=c, shape_native=(h, w), **kw)
                A = lu.rotate_array_via_roe_corner_from(array=A, roe_corner=c)
            elif s["op"] == "rot":
                L = L.new_rotated_from(roe_corner=c)
                A = lu.rotate_array_via_roe_corner_from(array=A, roe_corner=c)
            elif s["op"] == "ext":
                L = L.layout_extracted_from(extraction_region=e if k % 2 else aa.Region2D(region=e))
                A = A[aa.Region2D(region=e).slice]
            else:
                raise core.MachineryError(f"unknown history step {s}")
    except core.MachineryError:
        raise
    except Exception as ex:
        rec["exc"] = f"{type(ex).__name__} at step {k}"
        return rec
    got = [getattr(L, s) for s in SLOTS]
    rec["out"] = [_reg(g, 4) for g in got]
    rec["arr"] = _rows(A, n)
    rec["cont"] = [[] if g is None else _rows(_try(lambda: A[g.slice], np.full((1, 1), -1.0)), n) for g in got]
    rec["corner"] = _reg(_try(lambda: L.original_roe_corner, None), 2)
    rec["shape"] = _reg(_try(lambda: L.shape_2d, None), 2)
    extra = getattr(L, "region_list", None)
    if extra is not None:  # not an attribute of Layout2D in this tree; recorded for information if it appears
        rec["region_list"] = [_reg(g, 4) for g in extra]
    return rec


def records_for(inst, seed=0, pad=4):
    k = inst["kind"]
    if k == "moo":
        h, w = inst["sh"]
        return [rec_moo(h, w, inst["r"], inst["c"], e, st, seed) for e in MOO_ENTRIES for st in ("native", "slim")]
    if k == "hist":
        return [rec_hist(inst["sh"][0], inst["sh"][1], inst["regs"], inst["steps"])]
    if k == "rot":
        h, w = inst["sh"]
        recs = [rec_rot(h, w, inst["c"], inst["r"], seed)]
        if tuple(inst["c"]) == (1, 0):
            recs.append(rec_slices(h, w, inst["r"], seed))
        return recs
    if k == "ext1":
        return [rec_ext1(inst["r"], inst["e"])]
    if k == "ext2":
        return [rec_ext2(inst["sh"][0], inst["sh"][1], inst["r"], inst["e"])]
    if k == "sub1":
        return [rec_sub(1, inst["r"], inst["m"], inst["px"], 1, inst.get("n", inst["r"][1] + pad))]
    if k == "sub2":
        h, w = inst["sh"]
        return [rec_sub(2, inst["r"], inst["m"], inst["px"], h + pad, w + pad)]
    if k == "ctor1":
        return [rec_ctor(1, inst["r"])]
    if k == "ctor2":
        return [rec_ctor(2, inst["r"])]
    raise core.MachineryError(f"unknown instance kind {k}")


def _records_many(args):
    insts, seed, pad = args
    out = []
    for inst in insts:
        out.extend(records_for(inst, seed, pad))
    return out


# ----------------------------------------------------------------------------------------------
# seeded random larger instances (beyond the exhaustive bound)
# ----------------------------------------------------------------------------------------------
def _rand_iv(rng, n):
    a = int(rng.integers(0, n))
    b = int(rng.integers(a + 1, n + 1))
    return a, b


def _rand_related_iv(rng, o, n):
    """A window related to o in an interesting way (touching, sharing an end point, clipping one side, nested, disjoint)."""
    style = int(rng.integers(0, 8))
    o0, o1 = o
    try:
        if style == 0 and o0 > 0:
            return int(rng.integers(0, o0)), o0  # touching in front
        if style == 1 and o1 < n:
            return o1, int(rng.integers(o1 + 1, n + 1))  # touching behind
        if style == 2:
            return o0, int(rng.integers(o0 + 1, n + 1))  # same front edge
        if style == 3:
            return int(rng.integers(0, o1)), o1  # same trailing edge
        if style == 4 and o0 > 0 and o1 - o0 > 1:
            return int(rng.integers(0, o0)), int(rng.integers(o0 + 1, o1))  # clips front only
        if style == 5 and o1 < n and o1 - o0 > 1:
            return int(rng.integers(o0 + 1, o1)), int(rng.integers(o1 + 1, n + 1))  # clips back only
    except ValueError:
        pass
    return _rand_iv(rng, n)


def random_instances(rng, quick):
    f = 1 if quick else 8
    insts = []
    for _ in range(120 * f):
        h, w = int(rng.integers(5, 13)), int(rng.integers(5, 15))
        y, x = _rand_iv(rng, h), _rand_iv(rng, w)
        if rng.random() < 0.3:
            y = (0, y[1]) if rng.random() < 0.5 else (y[0], h)  # touching an array edge
        if rng.random() < 0.3:
            x = (0, x[1]) if rng.random() < 0.5 else (x[0], w)
        insts.append({"kind": "rot", "sh": [h, w], "c": list(CORNERS[int(rng.integers(0, 4))]), "r": [*y, *x]})
    for k in range(1500 * f):
        n = [12, 100, 100000, 1000000000][k % 4]
        o = _rand_iv(rng, n)
        insts.append({"kind": "ext1", "r": list(o), "e": list(_rand_related_iv(rng, o, n))})
    for _ in range(300 * f):
        h, w = int(rng.integers(4, 21)), int(rng.integers(4, 21))
        oy, ox = _rand_iv(rng, h), _rand_iv(rng, w)
        insts.append({"kind": "ext2", "sh": [h, w], "r": [*oy, *ox],
                      "e": [*_rand_related_iv(rng, oy, h), *_rand_related_iv(rng, ox, w)]})
    for k in range(300 * f):
        big = k % 3 == 0
        n = 100000 if big else 14
        p = _rand_iv(rng, n)
        m = ["front", "trailing", "front_end"][int(rng.integers(0, 3))]
        px = [int(rng.integers(0, min(p[1] - p[0], 60) + 1))] if m == "front_end" else [int(v) for v in rng.integers(0, 60 if big else 7, 2)]
        insts.append({"kind": "sub1", "r": list(p), "m": m, "px": px, "n": 24})
    ms = ["parallel_front", "parallel_trailing", "parallel_front_end", "serial_front", "serial_trailing", "serial_front_end"]
    for k in range(400 * f):
        big = k % 3 == 0
        h, w = (50000, 70000) if big else (int(rng.integers(3, 13)), int(rng.integers(3, 13)))
        y, x = _rand_iv(rng, h), _rand_iv(rng, w)
        m = ms[int(rng.integers(0, 6))]
        tot = (y[1] - y[0]) if m.startswith("parallel") else (x[1] - x[0])
        px = [int(rng.integers(0, min(tot, 60) + 1))] if m.endswith("_end") else [int(v) for v in rng.integers(0, 60 if big else 6, 2)]
        insts.append({"kind": "sub2", "sh": [1, 1] if big else [h, w], "r": [*y, *x], "m": m, "px": px})
    for k in range(200 * f):
        hi = [6, 1000, 2000000000][k % 3]
        insts.append({"kind": "ctor1", "r": [int(v) for v in rng.integers(-3, hi, 2)]})
        r4 = [int(v) for v in rng.integers(-2, hi, 4)]
        if k % 2:
            j = int(rng.integers(0, 2))
            r4[2 * j + 1] = r4[2 * j]  # an empty extent on one axis only
        insts.append({"kind": "ctor2", "r": r4})
    for k in range(40 * f):
        h, w = int(rng.integers(2, 8)), int(rng.integers(2, 9))
        u = rng.random((h, w)) < [0.2, 0.5, 0.85][k % 3]
        style = k % 5
        if style == 1:
            u = u | u[::-1, :] | u[:, ::-1] | u[::-1, ::-1]  # symmetric under every flip
        elif style == 2:
            u[:, :] = True
            u[0, : max(1, w // 2)] = False  # a lopsided notch
        elif style == 3:
            u = u | u[::-1, :]  # symmetric under the row flip only
        if not u.any():
            u[int(rng.integers(0, h)), int(rng.integers(0, w))] = True
        insts.append({"kind": "moo", "sh": [h, w], "c": list(CORNERS[int(rng.integers(0, 4))]),
                      "r": [int(v) for v in u.ravel()]})
    for _ in range(60 * f):
        h, w = int(rng.integers(2, 10)), int(rng.integers(2, 12))
        regs = []
        for j in range(3):
            if rng.random() < 0.2:
                regs.append([])
            else:
                regs.append([*_rand_iv(rng, h), *_rand_iv(rng, w)])
        first = {"op": "build", "c": [1, 0], "e": []} if rng.random() < 0.4 else \
            {"op": "buildrot", "c": list(CORNERS[int(rng.integers(0, 4))]), "e": []}
        steps, ch, cw, last = [first], h, w, first["c"] if first["op"] == "buildrot" else None
        for _k in range(int(rng.integers(1, 7))):
            u = rng.random()
            if u < 0.25 and last is not None:
                s = {"op": "rot", "c": list(last), "e": []}  # the same rotation again
            elif u < 0.75:
                s = {"op": "rot", "c": list(CORNERS[int(rng.integers(0, 4))]), "e": []}
            else:
                e = [*_rand_iv(rng, ch), *_rand_iv(rng, cw)]
                if rng.random() < 0.5:  # a window that keeps the frame size along one axis
                    e = [0, ch, e[2], e[3]] if rng.random() < 0.5 else [e[0], e[1], 0, cw]
                s = {"op": "ext", "c": [1, 0], "e": e}
                ch, cw = e[1] - e[0], e[3] - e[2]
            last = s["c"] if s["op"] == "rot" else None
            steps.append(s)
            insts.append({"kind": "hist", "sh": [h, w], "regs": regs, "steps": list(steps)})  # every prefix
    return insts


# ----------------------------------------------------------------------------------------------
# validation through Trace_Layout
# ----------------------------------------------------------------------------------------------
def _describe(rec):
    keys = ("h", "w", "c", "r", "o", "e", "m", "px", "dim", "regs", "u", "entry", "stored")
    d = f"{rec['api']} " + " ".join(f"{k}={rec[k]}" for k in keys if k in rec)
    if "steps" in rec:
        d += " steps=" + ">".join(s["op"] + (str(tuple(s["c"])) if s["op"] in ("rot", "buildrot") else str(tuple(s["e"])) if s["op"] == "ext" else "")
                                  for s in rec["steps"])
    return d


def validate(ctx, records, tag, chunk=1500):
    import concurrent.futures as cf

    for n, r in enumerate(records):
        r["id"] = n
    chunks = [records[k: k + chunk] for k in range(0, len(records), chunk)]
    rejects = []

    def one(args):
        k, ch = args
        res, rej = ctx.validate_trace("Trace_Layout", TRACE_CFG, ch, tag=f"{tag}-{k}", timeout=1800)
        return rej

    with cf.ThreadPoolExecutor(max_workers=min(12, len(chunks) or 1)) as ex:
        for rej in ex.map(one, list(enumerate(chunks))):
            rejects.extend(rej)
    for rj in rejects:
        rec = records[rj["id"]]
        ctx.violation(
            rj["sig"],
            f"{_describe(rec)}: failed {rj['clauses']}",
            {"record": rec, "failed_clauses": rj["clauses"], "spec_wanted": rj.get("want")},
            cls=",".join(rj["clauses"]),
        )
    return rejects


# ----------------------------------------------------------------------------------------------
# Apalache: the interval identity for all naturals
# ----------------------------------------------------------------------------------------------
def _shared_block(path):
    s = path.read_text()
    m = re.search(r"\\\* BEGIN shared-interval-operators.*?\\\* END shared-interval-operators", s, flags=re.S)
    if not m:
        raise core.MachineryError(f"shared-interval-operators block missing in {path}")
    return m.group(0)


def check_shared_block():
    if _shared_block(core.SPEC / "Layout.tla") != _shared_block(core.SPEC / "Layout_Apalache.tla"):
        raise core.MachineryError("the code-shaped interval operators of Layout.tla and Layout_Apalache.tla differ")


def run_apalache(ctx, timeout=300):
    exe = shutil.which("apalache-mc") or "/usr/local/bin/apalache-mc"
    wd = ctx.work / "apalache"
    wd.mkdir(parents=True, exist_ok=True)
    shutil.copy(core.SPEC / "Layout_Apalache.tla", wd / "Layout_Apalache.tla")
    cmd = ["timeout", str(timeout), exe, "check", "--length=0", "--init=Init", "--inv=Inv", f"--out-dir={wd / 'out'}",
           "Layout_Apalache.tla"]
    t0 = time.time()
    try:
        p = subprocess.run(cmd, cwd=str(wd), capture_output=True, text=True, timeout=timeout + 30)
        out = p.stdout + p.stderr
        rc = p.returncode
    except Exception as ex:  # not installed, timeout of the outer guard, ...
        ctx.note(f"Apalache could not be run ({type(ex).__name__}: {ex}); the interval identity is checked by TLC on 0..IvMax only")
        return None
    wall = time.time() - t0
    if rc == 0 and "The outcome is: NoError" in out:
        ctx.note(f"Apalache (--length=0, SMT over unbounded integers) proved CodeShape = Overlap for ALL natural interval "
                 f"quadruples with x0o<x1o, x0e<x1e: NoError in {wall:.1f}s")
        return True
    if "The outcome is: Error" in out:
        # a counterexample to a design-level identity of the specification itself: the spec is wrong, not the repository
        raise core.MachineryError("Apalache found a counterexample to the interval identity of Layout_Apalache.tla:\n" + out[-1500:])
    ctx.note(f"Apalache did not finish (rc={rc}, {wall:.1f}s{', timeout' if rc == 124 else ''}); the interval identity is "
             f"checked by TLC on 0..IvMax only")
    return None


# ----------------------------------------------------------------------------------------------
def bounds_for(quick):
    if quick:
        return {"rot_shapes": [(h, w) for h in range(1, 6) for w in range(1, 7)],
                "iv_max": 8, "ext_shapes": [(3, 4), (4, 3)], "sub_shapes": [(3, 3), (1, 4)], "sub1_max": 5, "px_max": 3,
                "ctor_lo": -1, "ctor_hi": 3, "hist_shapes": [(2, 3), (3, 2)], "hist_depth": 2, "hist_all_slots": False,
                "mask_shapes": [(1, 3), (3, 1), (2, 2), (2, 3), (3, 2)]}
    return {"rot_shapes": [(h, w) for h in range(1, 7) for w in range(1, 8)],
            "iv_max": 10, "ext_shapes": [(4, 5), (5, 4), (5, 5), (3, 3)], "sub_shapes": [(4, 5), (5, 4), (1, 1)],
            "sub1_max": 9, "px_max": 5, "ctor_lo": -2, "ctor_hi": 5,
            "hist_shapes": [(2, 3), (3, 2), (3, 3)], "hist_depth": 2, "hist_all_slots": True,
            "mask_shapes": [(1, 3), (3, 1), (2, 2), (2, 3), (3, 2), (3, 3), (2, 4), (4, 2), (1, 5)]}


def run(ctx):
    quick = ctx.quick
    check_shared_block()
    b = bounds_for(quick)
    insts, counts = enumerate_instances(ctx, b)
    ctx.exhaustive = True
    rng = np.random.default_rng(ctx.seed)
    rnd = random_instances(rng, quick)
    ctx.bounds = dict(b, enumerated=counts, interval_quadruples_in_0_to_ivmax=(b["iv_max"] + 1) ** 4,
                      valid_interval_quadruples=counts["ext1"], random_instances=len(rnd),
                      random_reach="rot up to 12x14, ext1 coordinates up to 1e9, ext2 frames up to 20x20, "
                                   "sub-region parents up to 1e5, constructor arguments up to 2e9, layout histories on "
                                   "frames up to 9x11 with up to 6 rotate/extract steps (every prefix judged)")
    pad = b["px_max"] + 1
    allinst = insts + rnd
    groups = [(allinst[k: k + 60], ctx.seed, pad) for k in range(0, len(allinst), 60)]
    recs = []
    for part in core.pmap(_records_many, groups):
        recs.extend(part)
    ctx.replayed = len(insts)
    by_api = {}
    for r in recs:
        by_api.setdefault(r["api"], []).append(r)
    for api in ("rot", "ext2", "moo", "hist"):
        if by_api.get(api):
            ctx.sample({"record": by_api[api][len(by_api[api]) // 2]})
    ctx.sample({"instance": insts[len(insts) // 3], "random_instance": rnd[0]})
    validate(ctx, recs, "C19")
    ctx.note(f"{len(insts)} enumerated instances ({counts}) + {len(rnd)} random larger instances -> {len(recs)} records "
             f"({ {k: len(v) for k, v in by_api.items()} }) judged by Trace_Layout")
    ctx.note("masked arrays: Array2D.original_orientation / Layout2D.original_orientation_from are run on masked Array2D inputs, "
             "slim- and native-stored; on this tree a slim-stored input raises IndexError for three corners (the stored 1D values are "
             "handed to a function documented for 2D arrays) -- recorded as raised and not judged; every returned value is judged "
             "(2D: the rotated content; 1D: its slim reading; a carried mask must be the rotated mask; twice restores)")
    ctx.note("layout histories: Trace_Layout recomputes the expected slots / array from the recorded history; a history whose "
             "observation equals the code-shaped formulation 'extraction keeps the old shape_2d' (and differs from the "
             "specification only for that reason) gets the signature hist:rotate-after-extract:stale-shape_2d (known finding, "
             "proposed fix selftest/proposed_fixes/C19_extracted_layout_shape.diff); any other deviation keeps its own signature")
    if not quick:
        run_apalache(ctx)
    ctx.assumptions = [
        "data movement is value-independent: checked per record by re-running with random real payloads (bit for bit)",
        "pixel ranges are non-negative (a, b >= 0, including empty / reversed ranges, which must be rejected); "
        "pixels_from_end ranges over 0 .. parent length",
        "extraction: original region and window are valid (x0 < x1); for invalid intervals the statement promises nothing "
        "(and the identity is false there, confirmed with Apalache)",
        "an Array2D result is read through its public native view and its carried mask; an ndarray result directly",
        "a call on a slim-stored masked Array2D that raises is outside what is judged; a call on a native-stored one must not raise",
        "Layout2D.new_rotated_from(c) APPLIES the flips of corner c (an involution), whatever original_roe_corner the layout "
        "carries; after layout_extracted_from(e) the layout describes the extracted window (its shape is the frame of later rotations); "
        "original_roe_corner / shape_2d attributes are recorded but not judged (the statement is about regions and arrays)",
        "TLC 1.8 / SANY / CommunityModules; Apalache 0.58 (thorough tier); alpha maps tag -> source cell and rejects unknown tags",
    ]


def replay(ctx, rp):
    rec = rp["record"]
    api = rec["api"]
    if api == "rot":
        recs = [rec_rot(rec["h"], rec["w"], rec["c"], rec["r"], ctx.seed)]
    elif api == "slices":
        recs = [rec_slices(rec["h"], rec["w"], rec["r"], ctx.seed)]
    elif api == "ext1":
        recs = [rec_ext1(rec["o"], rec["e"])]
    elif api == "ext2":
        recs = [rec_ext2(rec["h"], rec["w"], rec["o"], rec["e"])]
    elif api == "sub1":
        recs = [rec_sub(1, rec["r"], rec["m"], rec["px"], 1, rec["n"])]
    elif api == "sub2":
        recs = [rec_sub(2, rec["r"], rec["m"], rec["px"], rec["h"], rec["w"])]
    elif api == "ctor":
        recs = [rec_ctor(rec["dim"], rec["r"])]
    elif api == "moo":
        recs = [rec_moo(rec["h"], rec["w"], rec["u"], rec["c"], rec["entry"], rec["stored"], ctx.seed)]
    elif api == "hist":
        recs = [rec_hist(rec["h"], rec["w"], rec["regs"], rec["steps"][:k]) for k in range(1, len(rec["steps"]) + 1)]
    else:
        raise core.MachineryError(f"unknown api {api} in replay file")
    rej = validate(ctx, recs, "C19-replay")
    print("replayed", len(recs), "records; rejected:", [r["clauses"] for r in rej])
    return ctx.finish()
