"""C04 -- data vector and curvature matrix equal the normal equations in both formalisms.

NormalEq.tla defines B (column-wise blurred mapping matrix), D = B'Wd, F = B'WB (+ the diagonal term on unregularised
parameters) over exact integers and, as a second formulation, the w-tilde formalism; TLC checks on a seeded instance family
that the two formulations coincide (non-square and signed kernels, every object order), symmetry, block order, homogeneity.
Every instance is built with real objects (Imaging.apply_mask, MapperRectangular, a function-list subclass), run through
InversionImagingMapping, InversionImagingWTilde and the aa.Inversion factory, and the recorded operated mapping matrix, data
vector and curvature matrix (exact integers after scaling) are validated by TLC against Trace_NormalEq.tla together with
the agreement of reconstruction and mapped data between the formalisms."""
import json

import numpy as np

from harness import core
from harness.drivers import inv_common as ic

CFG_MC = """SPECIFICATION Spec
INVARIANT WTildeEqualsMapping
INVARIANT Symmetric
INVARIANT BlocksFollowObjectOrder
INVARIANT DiagonalTermOnlyOnUnregularised
INVARIANT Homogeneity
"""
CFG_TRACE = """SPECIFICATION TraceSpec
POSTCONDITION TraceAccepted
"""


def _to_int(x, scale, what):
    a = np.asarray(x, dtype=float) * scale
    r = np.rint(a)
    if a.size and (not np.all(np.isfinite(a)) or np.max(np.abs(a - r)) > 1e-6 * max(1.0, float(np.max(np.abs(a))))):
        return None
    if a.size and np.max(np.abs(r)) >= 2 ** 31:
        return None
    return r.astype(np.int64)


def records_for(inst):
    import autoarray as aa

    recs = []
    ke = ic.kernel_ke(inst["K"])
    wu = 4.0 ** int(inst.get("noise_shift", 0))  # noise units: sigma times 2^k divides D and F by 4^k exactly
    cs = ic.col_scales(inst)
    n = len(inst["u"])
    try:
        ds, objs, skw = ic.build(inst)
        if inst.get("dup"):  # the SAME linear-object instance listed at two positions (two parameter ranges, one object)
            objs[inst["dup"][1]] = objs[inst["dup"][0]]
        M_list = []
        for o, lo in zip(inst["objs"], objs):
            Mi = _to_int(lo.mapping_matrix, ic.obj_scale(o), "M")
            if Mi is None:
                raise core.MachineryError("mapping matrix of the implementation is off the lattice")
            M_list.append(Mi)
        base = ic.tla_instance(inst, M_list)
    except core.MachineryError:
        raise
    recon = {}
    for formalism in ("mapping", "w_tilde", "factory"):
        r = dict(base)
        r.update({"p": "C04", "api": "run", "formalism": formalism, "raised": False, "Bm": [], "D": [], "F": []})
        try:
            if formalism == "factory":
                st = aa.SettingsInversion(**skw)  # use_w_tilde left to its default: the factory decides
            else:
                st = aa.SettingsInversion(use_w_tilde=(formalism == "w_tilde"), **skw)
            # the public factory selects the class (function-list-only inversions always use the mapping formalism)
            inv = aa.Inversion(dataset=ds, linear_obj_list=objs, settings=st)
            r["cls"] = type(inv).__name__
            # access-order history: for two thirds of the instances the quantities that CONSUME the curvature matrix
            # (F + H, the reconstruction, the mapped data) are requested first; D and F must still be the normal equations
            order = (sum(inst["d"]) + 3 * len(inst["u"]) + len(inst["objs"]) + ("mapping", "w_tilde", "factory").index(formalism)) % 3
            r["order"] = ("DF-first", "reconstruction-first", "curvature_reg-first")[order]
            if order:
                try:
                    if order == 1:
                        inv.reconstruction, inv.mapped_reconstructed_data
                    else:
                        inv.curvature_reg_matrix
                except Exception:  # singular systems etc. are not C04's business
                    pass
            Bm = _to_int(np.asarray(inv.operated_mapping_matrix) * cs[None, :], 2.0 ** (-ke), "B")
            D = _to_int(np.asarray(inv.data_vector) * cs, wu * 4.0 * 2.0 ** (-ke), "D")
            F = _to_int(np.asarray(inv.curvature_matrix) * cs[:, None] * cs[None, :], wu * 4.0 * 4.0 ** (-ke), "F")
            if Bm is None or D is None or F is None:
                r["raised"] = True
                r["err"] = "offlattice"
            else:
                r["Bm"], r["D"], r["F"] = Bm.tolist(), D.tolist(), F.tolist()
                try:
                    s = np.asarray(inv.reconstruction, dtype=float)
                    md = np.asarray(inv.mapped_reconstructed_data, dtype=float)
                    recon[formalism] = (s, md)
                except Exception as e:  # singular systems etc. are not C04's business
                    recon[formalism] = None
        except Exception as e:
            r["raised"] = True
            r["err"] = f"{type(e).__name__}: {str(e)[:80]}"
        recs.append(r)
    # history: a second dataset with the same mask, noise map and PSF but DIFFERENT data re-uses the first dataset's w-tilde
    # object (its tables depend on noise, PSF and mask only); its data vector must be B'Wd for ITS data
    if any(o["type"] == "mapper" for o in inst["objs"]):
        inst2 = json.loads(json.dumps(inst))
        inst2["d"] = [int(3 - x) if k % 2 else int(-x - 1) for k, x in enumerate(inst["d"])]
        r = dict(ic.tla_instance(inst2, M_list))
        r.update({"p": "C04", "api": "run", "formalism": "w_tilde_shared_tables", "raised": False, "Bm": [], "D": [], "F": []})
        try:
            ds2, objs2, _ = ic.build(inst2)
            st = aa.SettingsInversion(use_w_tilde=True, **skw)
            if inst2.get("dup"):
                objs2[inst2["dup"][1]] = objs2[inst2["dup"][0]]
            inv = aa.Inversion(dataset=ds2, linear_obj_list=objs2, settings=st, preloads=aa.Preloads(w_tilde=ds.w_tilde, use_w_tilde=True))
            r["cls"] = type(inv).__name__
            Bm = _to_int(np.asarray(inv.operated_mapping_matrix) * cs[None, :], 2.0 ** (-ke), "B")
            D = _to_int(np.asarray(inv.data_vector) * cs, wu * 4.0 * 2.0 ** (-ke), "D")
            F = _to_int(np.asarray(inv.curvature_matrix) * cs[:, None] * cs[None, :], wu * 4.0 * 4.0 ** (-ke), "F")
            if Bm is None or D is None or F is None:
                r["raised"], r["err"] = True, "offlattice"
            else:
                r["Bm"], r["D"], r["F"] = Bm.tolist(), D.tolist(), F.tolist()
        except Exception as e:
            r["raised"] = True
            r["err"] = f"{type(e).__name__}: {str(e)[:80]}"
        recs.append(r)
    if recon.get("mapping") is not None and recon.get("w_tilde") is not None:
        (sm, mm), (sw, mw) = recon["mapping"], recon["w_tilde"]
        scale = max(1.0, float(np.abs(sm).max()), float(np.abs(mm).max()))
        g = 10.0 ** 7 / scale
        r = {k: base[k] for k in ("kh", "kw", "K", "objs")}
        r.update({"p": "C04", "api": "pair", "formalism": "pair", "raised": False, "tol": 20,
                  "sig_m": np.rint(sm * g).astype(np.int64).tolist(), "sig_w": np.rint(sw * g).astype(np.int64).tolist(),
                  "map_m": np.rint(mm * g).astype(np.int64).tolist(), "map_w": np.rint(mw * g).astype(np.int64).tolist()})
        recs.append(r)
    return recs, base


def delaunay_records(seed):
    """C->S beyond the lattice: a Delaunay mapper (3 interpolation weights per sub-pixel, several entries per unique mapping) with
    a function list, signed non-square PSF, sub-size 1..3: the two formalisms must agree to numerical precision."""
    import autoarray as aa

    rng = np.random.default_rng(seed)
    inst = ic.random_instance(rng, H=9, W=9, interior=4, layouts=("mf", "fm", "m"), kshapes=((3, 3), (3, 5), (5, 3), (1, 3)))
    for o in inst["objs"]:
        o["reg"] = o["type"] == "mapper"
    ds, objs, skw = ic.build(inst)
    mask = ds.mask
    sub = int(rng.integers(1, 4))
    osr = aa.OverSamplerUniform(mask=mask, sub_size=sub)
    grid = np.array(osr.over_sampled_grid)
    pos = grid * np.array([1.0, 0.8]) + 0.15 * np.sin(grid[:, ::-1] * 1.7)   # a smooth distortion
    lo, hi = pos.min(axis=0) - 0.3, pos.max(axis=0) + 0.3
    verts = lo + rng.random((int(rng.integers(7, 13)), 2)) * (hi - lo)
    mesh = aa.Mesh2DDelaunay(values=verts)
    mg = aa.MapperGrids(mask=mask, source_plane_data_grid=aa.Grid2DIrregular(pos), source_plane_mesh_grid=mesh, image_plane_mesh_grid=None, adapt_data=None)
    mapper = aa.MapperDelaunay(mapper_grids=mg, over_sampler=osr, border_relocator=None, regularization=aa.reg.Constant(coefficient=1.0))
    new = [mapper if isinstance(o, aa.MapperRectangular) else o for o in objs]
    base = ic.tla_instance(inst, [np.zeros((len(inst["u"]), 1), dtype=int) for _ in inst["objs"]])
    r = {k: base[k] for k in ("kh", "kw", "K")}
    r["objs"] = []
    r.update({"p": "C04", "api": "pairdf", "formalism": "pair-delaunay", "raised": False, "tol": 30})
    try:
        out = {}
        for f, use_w in (("m", False), ("w", True)):
            inv = aa.Inversion(dataset=ds, linear_obj_list=new, settings=aa.SettingsInversion(use_w_tilde=use_w, use_positive_only_solver=False, **skw))
            out[f] = (np.array(inv.data_vector), np.array(inv.curvature_matrix), np.array(inv.reconstruction), np.array(inv.mapped_reconstructed_data))
        for k_, nm in enumerate(("D", "F", "sig", "map")):
            scale = max(1e-300, float(np.abs(out["m"][k_]).max()))
            g = 10.0 ** 7 / scale
            r[nm + "_m"] = np.rint(out["m"][k_] * g).astype(np.int64).tolist()
            r[nm + "_w"] = np.rint(out["w"][k_] * g).astype(np.int64).tolist()
    except Exception as e:
        r["raised"] = True
        r["err"] = f"{type(e).__name__}: {str(e)[:80]}"
        for nm in ("D", "F", "sig", "map"):
            r[nm + "_m"], r[nm + "_w"] = [], []
    r["_inst"] = {"delaunay_seed": int(seed)}
    return [r]


def _del_many(seeds):
    out = []
    for sd in seeds:
        out.extend(delaunay_records(sd))
    return out


def _many(insts):
    out = []
    for inst in insts:
        recs, base = records_for(inst)
        for r in recs:
            r["_inst"] = inst
        out.append((recs, base))
    return out


def validate(ctx, recs, tag, chunk=150):
    import concurrent.futures as cf

    insts_of = {}
    for k, r in enumerate(recs):
        r["id"] = k
        insts_of[k] = r.pop("_inst", None)
    chunks = [recs[k : k + chunk] for k in range(0, len(recs), chunk)]
    dummy = ctx.work / "dummy_insts.json"
    dummy.write_text("[]")
    rejects = []

    def one(kc):
        k, ch = kc
        return ctx.validate_trace("Trace_NormalEq", CFG_TRACE, ch, tag=f"{tag}_{k}", env={"INST_FILE": str(dummy)}, timeout=1500)[1]

    with cf.ThreadPoolExecutor(max_workers=min(16, len(chunks) or 1)) as ex:
        for rej in ex.map(one, list(enumerate(chunks))):
            rejects.extend(rej)
    for rj in rejects:
        rec = recs[rj["id"]]
        ctx.violation(rj["sig"], f"{rec['api']} formalism={rec['formalism']} kernel {rec['kh']}x{rec['kw']} objs={[('m' if o['mapper'] else 'f') for o in rec['objs']]}"
                      f"{' ' + rec.get('err', '') if rec.get('raised') else ''}: failed {rj['clauses']}",
                      {"instance": insts_of.get(rj["id"]), "record": {k: v for k, v in rec.items() if k not in ('Bm',)},
                       "failed_clauses": rj["clauses"], "spec_wanted": rj.get("want")}, cls=",".join(rj["clauses"]))
    return rejects


def run(ctx):
    quick = ctx.quick
    rng = np.random.default_rng(ctx.seed)
    n_small = 120 if quick else 5000
    n_large = 40 if quick else 1500
    small = [ic.random_instance(rng, H=7, W=7, interior=3) for _ in range(n_small)]
    # object lists with three and four mappers (every pair of mappers has an off-diagonal block, adjacent in the list or not)
    # the same instances in other noise units (sigma times 2^k, k up to +-20): the normal equations are homogeneous in the noise,
    # so nothing but an exact power of four changes - absolute thresholds on weights or overlaps are not scale free
    for k_, inst_ in enumerate(small):
        inst_["noise_shift"] = int([0, 0, 20, -10, 0, 10][k_ % 6])
    # lists in which one linear-object INSTANCE appears at two positions (an appended second listing of an earlier entry)
    for k_, inst_ in enumerate(small):
        if k_ % 5 == 2 and len(inst_["objs"]) <= 2:
            j_ = k_ % len(inst_["objs"])
            inst_["objs"].append(json.loads(json.dumps(inst_["objs"][j_])))
            inst_["dup"] = [j_, len(inst_["objs"]) - 1]
    n_multi = 24 if quick else 600
    small += [ic.random_instance(rng, H=7, W=7, interior=3, layouts=("mmm", "mfmm", "mmfm", "mmmm", "fmmm")) for _ in range(n_multi)]
    large = [ic.random_instance(rng, H=9, W=9, interior=5, max_sub=3,
                                kshapes=((3, 3), (3, 5), (5, 3), (5, 5), (1, 5), (5, 1))) for _ in range(n_large)]
    ctx.bounds = {"tlc_instances": n_small, "frame": "7x7, unmasked subsets of the 3x3 interior", "kernel_shapes": "1x1,1x3,3x1,3x3,3x5,5x3 (signed and non-negative)",
                  "object_lists": "m, mm, mf, fm, fmf, f (+ mmm, mfmm, mmfm, mmmm, fmmm); sub-size 1..2; meshes 3x3,3x4,4x3; D/F read first, after the reconstruction, or after curvature_reg_matrix", "larger_instances": n_large,
                  "larger": "9x9 frame, up to 25 unmasked pixels, kernels up to 5x5, sub-size up to 3"}
    groups = [small[k : k + 8] for k in range(0, len(small), 8)] + [large[k : k + 4] for k in range(0, len(large), 4)]
    res = core.pmap(_many, groups)
    recs, bases = [], []
    for part in res:
        for rr, base in part:
            recs.extend(rr)
            bases.append(base)
    # TLC: design-level theorems on the instance family (with the implementation's own mapping matrices)
    f = ctx.work / "insts.json"
    f.write_text(json.dumps(bases[: min(n_small, 2000)]))
    ctx.tlc("NormalEq", CFG_MC, env={"INST_FILE": str(f)}, tag="MC_NormalEq", timeout=1700)
    ndel = 24 if quick else 1500
    ctx.bounds["delaunay_pairs"] = ndel
    dseeds = [int(x) for x in rng.integers(0, 2 ** 31 - 1, size=ndel)]
    for part in core.pmap(_del_many, [dseeds[k : k + 2] for k in range(0, ndel, 2)]):
        recs.extend(part)
    ctx.exhaustive = False
    ctx.replayed = len(small)
    ctx.sample({"instance": small[0]})
    ctx.sample({k: v for k, v in recs[1].items() if k in ("formalism", "D", "F", "kh", "kw", "K")})
    validate(ctx, recs, "C04")
    ctx.note(f"{len(small)} + {len(large)} instances x (mapping, w_tilde, factory) -> {len(recs)} records validated by Trace_NormalEq")
    ctx.assumptions = ["kernels sum to a power of two so the PSF normalisation of Imaging is exact; noise sigma in {1/2,1,2}",
                       "the mapping matrices in the records are the implementation's own (C06 decides those)"]


def replay(ctx, rp):
    if "delaunay_seed" in (rp.get("instance") or {}):
        rej = validate(ctx, delaunay_records(rp["instance"]["delaunay_seed"]), "replay")
        print("replayed delaunay pair; rejected:", [(r["sig"], r["clauses"]) for r in rej])
        return ctx.finish()
    recs, base = records_for(rp["instance"])
    for r in recs:
        r["_inst"] = rp["instance"]
    rej = validate(ctx, recs, "replay")
    print("replayed", len(recs), "records; rejected:", [(r["sig"], r["clauses"]) for r in rej])
    return ctx.finish()
