"""X04 (extra) -- visibility containers and interferometer fit statistics follow their definitions for every input.

FitVis.tla (EXTENDS Dft.tla of C13) defines, over Gaussian integers and power-of-two complex noise: what a Visibilities /
VisibilitiesNoiseMap object holds and what its summaries (in_array, in_grid, ordered_1d, amplitudes, phases, scaled maxima /
minima, the noise-map weight list) are - functions of the object's OWN values, also after arithmetic; the interferometer fit
(residual, per-part normalized residual / chi-squared map, chi-squared, noise normalization through a constant table of
ln(2 pi 4^e), likelihood, evidence composition, figure of merit) with its code-shaped second formulations (packed complex sums,
ordered real vectors with the weight list); the Interferometer dataset (keeps its inputs, per-part clipped signal-to-noise,
dirty image / noise map / signal-to-noise map = the C13 adjoint of the corresponding visibilities).  TLC checks the design
theorems on every bounded dataset and dumps each (dataset, call, argument).

S->C: every dumped call is replayed with real objects: containers built from complex ndarrays / lists / (re, im) pair arrays /
      pair lists and by arithmetic on containers whose summaries were read before, aa.Interferometer with TransformerDFT (pylops
      stand-in of harness/repo_env.py), aa.m.MockFitInterferometer (FitInterferometer with a settable model) with and without an
      inversion object, output_to_fits / from_fits.
C->S: every returned value - also for seeded random longer vectors (<= 12 visibilities), masks <= 4x4, noise 2^-2..2^2 per part
      and REAL aa.Inversion objects on the DFT lattice - is abstracted onto the lattice (alpha rejects residuals) and judged by
      Trace_FitVis.tla."""
import math
import os
import shutil
import tempfile

import numpy as np

from harness import core

NE = 2
S = 100000  # LogScale
ANG_S = 100000
ANG_MAX = 32
AMP_S = 1000
PI_FIX = int(round(ANG_S * math.pi))
OFF = 2_000_000_000
TOL = 1e-9
CLIP = 2 ** 30
WEIGHT_UNIT = 4 ** (NE + 2)
LOG_TABLE = {e: int(round(S * math.log(2.0 * math.pi * 4.0 ** e))) for e in range(-NE, NE + 1)}
ANG_TABLE = {(p, q): int(round(ANG_S * math.atan2(q, p))) for p in range(1, ANG_MAX + 1) for q in range(0, p + 1)}

INVARIANTS = ["InstancesOnLattice", "PhaseIsPowerOfMinusI", "AdjointOnBasisPairs",
              "ContainerHoldsGivenValues", "SummariesOfDerivedAreItsOwn", "FitDefinitions", "PackedAndOrderedFormsEqualDefinition",
              "PartsAreSeparate", "HomogeneityVis", "FigureOfMeritChoiceVis", "DirtyMapsAreLinear", "DatasetKeepsItsInputs"]

LOG_DEF = "MCLogTable == (" + " @@ ".join(f"({e}) :> {v}" for e, v in sorted(LOG_TABLE.items())) + ")"
ANG_DEF = "MCAngTable == <<" + ", ".join("<<" + ", ".join(str(ANG_TABLE[(p, q)]) for q in range(p + 1)) + ">>" for p in range(1, ANG_MAX + 1)) + ">>"

MC_CFG = """CONSTANTS
  Shapes <- MCShapes
  Origins <- MCOrigins
  Mult <- MCMult
  MaxB = {maxb}
  MaskMode = "{mode}"
  Rich = FALSE
  NE = %d
  LogTable <- MCLogTable
  LogScale = %d
  AngTable <- MCAngTable
  AngScale = %d
  AngMax = %d
  PiFix = %d
  FullK = {fullk}
  MaxK = {maxk}
  VisVals1 <- MCVisVals1
  VisVals2 <- MCVisVals2
  NoiseExps <- MCNoiseExps
  InvTerms <- MCInvTerms
INIT XInit
NEXT XNext
""" % (NE, S, ANG_S, ANG_MAX, PI_FIX) + "".join(f"INVARIANT {n}\n" for n in INVARIANTS)

TRACE_CFG = """CONSTANTS
  Shapes = {}
  Origins = {}
  Mult = {}
  MaxB = 0
  MaskMode = "few"
  Rich = FALSE
  NE = %d
  LogTable <- MCLogTable
  LogScale = %d
  AngTable <- MCAngTable
  AngScale = %d
  AngMax = %d
  PiFix = %d
  FullK = 0
  MaxK = 0
  VisVals1 = {}
  VisVals2 = {}
  NoiseExps = {}
  InvTerms = {}
  AmpScale = %d
SPECIFICATION TraceSpec
POSTCONDITION TraceAccepted
""" % (NE, S, ANG_S, ANG_MAX, PI_FIX, AMP_S)
TRACE_DEFS = LOG_DEF + "\n" + ANG_DEF

# (sy, sx) arcsec per pixel: dyadic, decimal, anisotropic and non-terminating values (as C13)
SCALES = [(1.0, 1.0), (0.5, 0.5), (0.1, 0.1), (0.05, 0.2), (2.0, 0.25), (1.0 / 3.0, 1.0 / 3.0), (0.7, 1.3)]
EXPS = [0, -10, 3, -1]  # power-of-two scale of the data values of containers and datasets
JVM_ENV = {"JAVA_TOOL_OPTIONS": "-XX:ParallelGCThreads=2 -XX:CICompilerCount=2 -Xmx3g"}
FORMS = ("complex", "complex-list", "pairs", "pairs-list")


def tla_pairs(pairs):
    return "{" + ", ".join(f"<<{a},{b}>>" for a, b in pairs) + "}"


def tla_set(vals):
    return "{" + ", ".join(str(int(v)) for v in vals) + "}"


# --------------------------------------------------------------------------------------------
# TLC: enumerate the bounded machine
# --------------------------------------------------------------------------------------------
def enumerate_machine(ctx, tag, b, timeout=3000):
    defs = "\n".join([
        f"MCShapes == {tla_pairs(b['shapes'])}", f"MCOrigins == {tla_pairs(b['origins_half_px'])}", f"MCMult == {tla_set(b['multipliers'])}",
        f"MCVisVals1 == {tla_set(b['values_single'])}", f"MCVisVals2 == {tla_set(b['values_short'])}",
        f"MCNoiseExps == {tla_set(b['noise_exponents'])}",
        "MCInvTerms == {" + ", ".join(f"<<{a},{c},{d}>>" for a, c, d in b["inversion_terms_quarter_units"]) + "}",
        LOG_DEF, ANG_DEF])
    cfg = MC_CFG.format(maxb=b["max_baselines"], mode=b["masks"], fullk=b["full_length"], maxk=b["max_length"])
    res = ctx.tlc("FitVis", cfg, defs=defs, tag=tag, timeout=timeout)
    insts = res.by_kind("inst")
    if res.depth != 2 or len(insts) != res.distinct - res.init_states or res.init_states == 0:
        raise core.MachineryError(
            f"FitVis.tla [{tag}]: {len(insts)} dumped calls for {res.distinct} states / {res.init_states} datasets, depth {res.depth}")
    return insts, res


def group_calls(insts):
    groups = {}
    for r in insts:
        key = (r["h"], r["w"], tuple(r["u"]), tuple(r["org"]), tuple(tuple(x) for x in r["b"]), tuple(tuple(x) for x in r["d"]),
               tuple(tuple(x) for x in r["se"]))
        groups.setdefault(key, []).append({"act": r["act"], "arg": r["arg"]})
    out = []
    for key, calls in sorted(groups.items()):
        h, w, u, org, b, d, se = key
        out.append({"h": h, "w": w, "u": list(u), "org": list(org), "b": [list(x) for x in b], "d": [list(x) for x in d],
                    "se": [list(x) for x in se], "calls": calls})
    return out


# --------------------------------------------------------------------------------------------
# alpha
# --------------------------------------------------------------------------------------------
def _ints(a, scale):
    """real array / scale -> (nested int lists with OFF for entries not on the lattice, flag)"""
    try:
        x = np.asarray(a, dtype=float) / scale
    except Exception:
        return [], True
    ok = np.isfinite(x)
    x0 = np.where(ok, x, 0.0)
    r = np.rint(x0)
    good = ok & (np.abs(x0 - r) <= TOL * np.maximum(1.0, np.abs(r))) & (np.abs(r) <= CLIP)
    out = np.where(good, np.clip(r, -CLIP, CLIP), float(OFF)).astype(np.int64)
    return out.tolist(), bool((~good).any())


def _gauss(a, scale):
    """complex array / scale -> list of [re, im] ints (OFF where off the lattice)"""
    try:
        z = np.asarray(a, dtype=complex)
    except Exception:
        return []
    if z.ndim != 1:
        return []
    re, _ = _ints(z.real, scale)
    im, _ = _ints(z.imag, scale)
    return [[int(x), int(y)] for x, y in zip(re, im)]


def _pairs(a, scale):
    """real [K,2] array / scale -> list of [c0, c1] ints"""
    try:
        x = np.asarray(a, dtype=float)
    except Exception:
        return []
    if x.ndim != 2 or x.shape[1] != 2:
        return []
    out, _ = _ints(x, scale)
    return [[int(p), int(q)] for p, q in out]


def _fix(x, scale):
    """real scalar -> round(x * scale) or OFF"""
    try:
        v = float(np.asarray(x, dtype=float).reshape(-1)[0]) * scale
    except Exception:
        return OFF
    if not math.isfinite(v) or abs(v) >= 1e9:
        return OFF
    return int(round(v))


def _fixs(a, scale):
    try:
        x = np.asarray(a, dtype=float).ravel() * scale
    except Exception:
        return []
    ok = np.isfinite(x) & (np.abs(x) < 1e9)
    return np.where(ok, np.rint(np.where(ok, x, 0.0)), float(OFF)).astype(np.int64).tolist()


def _fixg(a, scale):
    try:
        z = np.asarray(a, dtype=complex)
    except Exception:
        return []
    if z.ndim != 1:
        return []
    return [[int(x), int(y)] for x, y in zip(_fixs(z.real, scale), _fixs(z.imag, scale))]


def _bytes(a):
    a = np.ascontiguousarray(np.asarray(a))
    return (str(a.dtype), a.shape, a.tobytes())


# --------------------------------------------------------------------------------------------
# gamma
# --------------------------------------------------------------------------------------------
def gvec(ints, scale):
    return np.array([complex(a, b) for a, b in ints], dtype=complex) * scale


def noise_values(se):
    return np.array([complex(2.0 ** a, 2.0 ** b) for a, b in se], dtype=complex)


def build_geometry(g, scales):
    """abstract mask / baselines -> concrete Mask2D, uv_wavelengths on the quarter-turn lattice, (unit_x, unit_y)"""
    import autoarray as aa

    h, w = g["h"], g["w"]
    sy, sx = scales
    m = np.ones(h * w, dtype=bool)
    m[g["u"]] = False
    oy, ox = g["org"][0] * sy / 2.0, g["org"][1] * sx / 2.0
    mask = aa.Mask2D(mask=m.reshape(h, w), pixel_scales=(sy, sx), origin=(oy, ox))
    unit_x = 648000.0 / (4.0 * sx * math.pi)
    unit_y = 648000.0 / (4.0 * sy * math.pi)
    uv = np.array([[b[0] * unit_x, b[1] * unit_y] for b in g["b"]], dtype=float).reshape(-1, 2)
    return mask, uv, (unit_x, unit_y)


def make_container(cls, form, values):
    """values: complex ndarray.  -> (object, the caller's input, a snapshot of it)"""
    import autoarray as aa

    klass = aa.Visibilities if cls == "data" else aa.VisibilitiesNoiseMap
    if form == "complex":
        arg = values.copy()
        snap = _bytes(arg)
    elif form == "complex-list":
        arg = [complex(z) for z in values]
        snap = list(arg)
    elif form == "pairs":
        arg = np.stack([values.real, values.imag], axis=-1).astype(float)
        snap = _bytes(arg)
    elif form == "pairs-list":
        arg = [[float(z.real), float(z.imag)] for z in values]
        snap = [list(p) for p in arg]
    else:
        raise core.MachineryError(f"unknown container form {form}")
    return klass(visibilities=arg), arg, snap


def _unchanged(arg, snap):
    if isinstance(arg, np.ndarray):
        return _bytes(arg) == snap
    return [list(p) if isinstance(p, list) else p for p in arg] == snap


SUMMARY_NAMES = ("in_array", "in_grid", "amplitudes", "phases", "scaled_maxima", "scaled_minima", "ordered_1d")


def read_summaries(obj):
    raw = {}
    with np.errstate(all="ignore"):
        raw["own"] = np.array(np.asarray(obj), copy=True)
        raw["in_array"] = np.array(obj.in_array, copy=True)
        raw["in_grid"] = np.array(np.asarray(obj.in_grid), copy=True)
        raw["amplitudes"] = np.array(np.asarray(obj.amplitudes), copy=True)
        raw["phases"] = np.array(np.asarray(obj.phases), copy=True)
        raw["scaled_maxima"] = np.array([float(x) for x in obj.scaled_maxima])
        raw["scaled_minima"] = np.array([float(x) for x in obj.scaled_minima])
        raw["ordered_1d"] = np.array(np.asarray(obj.ordered_1d), copy=True)
        if hasattr(obj, "weight_list_ordered_1d"):
            raw["weights"] = np.array(np.asarray(obj.weight_list_ordered_1d), copy=True)
        raw["slim"] = obj.shape_slim
    return raw


def _same_raw(a, b):
    return set(a) == set(b) and all(_bytes(a[k]) == _bytes(b[k]) if isinstance(a[k], np.ndarray) else a[k] == b[k] for k in a)


def container_records(base, cls, origin, obj_fn, scale, extra):
    """obj_fn() -> (object, intact_fn).  Three records: container / ordered / weights (noise maps only)."""
    rec = dict(base)
    rec.update({"api": "container", "cls": cls, "origin": origin, "raised": "", "own": [], "inarray": [], "ingrid": [], "amp": [], "ph": [],
                "maxima": [], "minima": [], "slim": -1, "type_ok": False, "intact": True, "stable": True, "form": "", "op": "", "mult": 1,
                "other": []})
    rec.update(extra)
    ident = {k: rec[k] for k in ("p", "cls", "origin", "form", "op", "mult", "given", "other", "exp", "salt")}
    ordered = dict(ident, api="ordered", raised="", own=[], ordered=[])
    weights = dict(ident, api="weights", raised="", own=[], weights=[])
    try:
        obj, intact_fn = obj_fn()
        raw = read_summaries(obj)
        raw2 = read_summaries(obj)
        want_cls = "Visibilities" if cls == "data" else "VisibilitiesNoiseMap"
        rec["type_ok"] = bool(type(obj).__name__ == want_cls and raw["own"].ndim == 1 and raw["own"].dtype.kind == "c")
        rec["slim"] = int(raw["slim"]) if isinstance(raw["slim"], (int, np.integer)) else -1
        rec["own"] = _gauss(raw["own"], scale)
        rec["inarray"] = _pairs(raw["in_array"], scale)
        rec["ingrid"] = _pairs(raw["in_grid"], scale)
        rec["amp"] = _fixs(raw["amplitudes"], AMP_S / scale)
        rec["ph"] = _fixs(raw["phases"], ANG_S)
        rec["maxima"] = _ints(raw["scaled_maxima"], scale)[0]
        rec["minima"] = _ints(raw["scaled_minima"], scale)[0]
        rec["stable"] = bool(_same_raw(raw, raw2))
        rec["intact"] = bool(intact_fn())
        ordered["own"] = weights["own"] = rec["own"]
        ordered["ordered"] = _ints(raw["ordered_1d"], scale)[0] if np.ndim(raw["ordered_1d"]) == 1 else []
        if "weights" in raw:
            weights["weights"] = _ints(raw["weights"], 1.0 / WEIGHT_UNIT)[0] if np.ndim(raw["weights"]) == 1 else []
    except core.MachineryError:
        raise
    except Exception as e:  # noqa
        msg = f"{type(e).__name__}: {str(e)[:120]}"
        rec["raised"] = ordered["raised"] = weights["raised"] = msg
    out = [rec, ordered]
    if cls == "noise":
        out.append(weights)
    return out


def arith(op, v, mult, other_vals, salt):
    """the arithmetic of FitVis!Arith on a real container"""
    import autoarray as aa

    if op == "neg":
        return -v
    if op == "mul":
        return v * (float(mult) if salt % 2 else int(mult))
    if op == "rmul":
        return (float(mult) if salt % 2 else int(mult)) * v
    if op == "div":
        return v / (1.0 / mult)
    if op == "add":
        return v + (aa.Visibilities(visibilities=other_vals.copy()) if salt % 2 else other_vals.copy())
    if op == "sub":
        return v - (aa.Visibilities(visibilities=other_vals.copy()) if salt % 2 == 0 else other_vals.copy())
    if op == "rsub":
        if not np.all(other_vals == other_vals[0]):
            raise core.MachineryError("rsub is replayed with a scalar left operand: the operand vector must be constant")
        return complex(other_vals[0]) - v
    raise core.MachineryError(f"unknown arithmetic {op}")


# --------------------------------------------------------------------------------------------
# one dataset (group) -> records
# --------------------------------------------------------------------------------------------
def records_for_group(g, seed=0):
    import autoarray as aa
    from autoconf import conf

    salt = int(g.get("salt", 0))
    rng = np.random.default_rng([seed, salt, len(g["d"])])
    scales = tuple(g.get("scales") or SCALES[(salt + seed) % len(SCALES)])
    K, P = len(g["d"]), len(g["u"])
    d, se = [list(x) for x in g["d"]], [list(x) for x in g["se"]]
    geo = {"h": g["h"], "w": g["w"], "u": g["u"], "org": g["org"], "b": g["b"], "d": d, "se": se}
    recs = []

    def dataset(e1):
        mask, uv, units = build_geometry(g, scales)
        vc = gvec(d, 2.0 ** e1)
        nz = noise_values(se)
        raws = {"vc": vc, "nz": nz, "uv": uv}
        snaps = {k: _bytes(v) for k, v in raws.items()}
        data = aa.Visibilities(visibilities=vc)
        noise = aa.VisibilitiesNoiseMap(visibilities=nz)
        ds = aa.Interferometer(data=data, noise_map=noise, uv_wavelengths=uv, real_space_mask=mask, transformer_class=aa.TransformerDFT)
        return ds, mask, uv, units, raws, snaps

    def image_ints(im, mask, scale, native=False):
        if type(im).__name__ != "Array2D" or not np.array_equal(np.asarray(im.mask, dtype=bool), np.asarray(mask, dtype=bool)):
            return None
        sl = np.asarray(im.slim)
        if sl.shape != (P,):
            return None
        a = _ints(sl, scale)[0]
        if native:
            nat = np.asarray(im.native)
            if nat.shape != (g["h"], g["w"]):
                return None
            return a, _ints(nat.ravel(), scale)[0]
        return a

    for ci, call in enumerate(g["calls"]):
        act, arg = call["act"], call["arg"]
        e1 = int(call["exp"]) if call.get("exp") is not None else EXPS[int(rng.integers(0, len(EXPS)))]
        base = {"p": "X04", "salt": salt, "exp": e1, "scales": list(scales)}
        if act in ("construct", "derive"):
            cls = arg["cls"]
            scale = 2.0 ** e1 if cls == "data" else 2.0 ** (-NE)
            given = d if cls == "data" else [[2 ** (NE + a), 2 ** (NE + b_)] for a, b_ in se]
            vals = gvec(given, scale)
            if act == "construct":
                form = arg["form"]

                def fn(form=form, vals=vals, cls=cls):
                    obj, inp, snap = make_container(cls, form, vals)
                    return obj, (lambda: _unchanged(inp, snap))
                recs += container_records(base, cls, "constructed", fn, scale, {"form": form, "given": given})
            else:
                op, mult = arg["op"], int(arg["mult"])
                other = [[int(a), int(b_)] for a, b_ in arg["other"]]
                ovals = gvec(other, scale)

                def fn(op=op, mult=mult, ovals=ovals, vals=vals, cls=cls):
                    parent, inp, snap = make_container(cls, "complex", vals)
                    before = read_summaries(parent)  # fills whatever the parent caches
                    obj = arith(op, parent, mult, ovals, salt + ci)
                    return obj, (lambda: _unchanged(inp, snap) and _same_raw(read_summaries(parent), before))
                recs += container_records(base, cls, "derived", fn, scale, {"op": op, "mult": mult, "other": other, "given": given})
        elif act == "dataset":
            rec = dict(base, **geo)
            rec.update({"api": "dataset", "raised": "", "types_ok": True, "kd": [], "knq": [], "kb": [], "uv_same": False, "intact": False,
                        "snq": [], "amp": [], "ph": [], "dirty": [], "dirtynative": [], "dirtynoise": [], "dirtysn": []})
            try:
                ds, mask, uv, units, raws, snaps = dataset(e1)
                sc = 2.0 ** e1
                with np.errstate(all="ignore"):
                    sn = ds.signal_to_noise_map
                    amp, ph = ds.amplitudes, ds.phases
                    di, dn, dsn = ds.dirty_image, ds.dirty_noise_map, ds.dirty_signal_to_noise_map
                rec["kd"] = _gauss(np.asarray(ds.data), sc)
                rec["knq"] = _gauss(np.asarray(ds.noise_map), 2.0 ** (-NE))
                uvh = np.asarray(ds.uv_wavelengths, dtype=float)
                rec["kb"] = _pairs(uvh / np.array(units), 1.0) if uvh.shape == (K, 2) else []
                rec["uv_same"] = bool(np.array_equal(uvh, uv) and np.array_equal(np.asarray(ds.transformer.uv_wavelengths, dtype=float), uv))
                rec["snq"] = _gauss(np.asarray(sn), sc * 2.0 ** (-NE))
                rec["amp"] = _fixs(np.asarray(amp), AMP_S / sc)
                rec["ph"] = _fixs(np.asarray(ph), ANG_S)
                a = image_ints(di, mask, sc, native=True)
                b_ = image_ints(dn, mask, 2.0 ** (-NE))
                c_ = image_ints(dsn, mask, sc * 2.0 ** (-NE))
                if a is None or b_ is None or c_ is None or type(ds.data).__name__ != "Visibilities" \
                        or type(ds.noise_map).__name__ != "VisibilitiesNoiseMap":
                    rec["types_ok"] = False
                else:
                    rec["dirty"], rec["dirtynative"] = a
                    rec["dirtynoise"], rec["dirtysn"] = b_, c_
                rec["intact"] = all(_bytes(raws[k]) == snaps[k] for k in raws)
            except Exception as e:  # noqa
                rec["raised"] = f"{type(e).__name__}: {str(e)[:120]}"
            recs.append(rec)
            if g.get("fits"):
                recs += fits_records(base, geo, dataset, K)
        elif act == "fit":
            recs.append(fit_record(base, geo, arg, dataset, image_ints, salt + ci, K, P))
        else:
            raise core.MachineryError(f"unknown call {act}")
    return recs


def fits_records(base, geo, dataset, K):
    import autoarray as aa
    from autoconf import conf

    out = []
    old = conf.instance["general"]["fits"]["flip_for_ds9"]
    for flip in (False, True):
        rec = dict(base, **geo)
        rec.update({"api": "fits", "raised": "", "types_ok": True, "flip": flip, "d2": [], "nq2": [], "b2": [], "uv_same": False})
        tmp = tempfile.mkdtemp(prefix=f"x04-fits-{os.getpid()}-", dir="/var/tmp")
        try:
            conf.instance["general"]["fits"]["flip_for_ds9"] = flip
            ds, mask, uv, units, raws, snaps = dataset(0)
            # a sub-directory that does not exist yet for one of the files, bare directory for the others
            paths = {"data_path": os.path.join(tmp, "data.fits"), "noise_map_path": os.path.join(tmp, "sub", "noise_map.fits"),
                     "uv_wavelengths_path": os.path.join(tmp, "uv_wavelengths.fits")}
            ds.output_to_fits(overwrite=True, **paths)
            back = aa.Interferometer.from_fits(real_space_mask=mask, transformer_class=aa.TransformerDFT, **paths)
            rec["d2"] = _gauss(np.asarray(back.data), 1.0)
            rec["nq2"] = _gauss(np.asarray(back.noise_map), 2.0 ** (-NE))
            uvh = np.asarray(back.uv_wavelengths, dtype=float)
            rec["b2"] = _pairs(uvh / np.array(units), 1.0) if uvh.shape == (K, 2) else []
            rec["uv_same"] = bool(np.array_equal(uvh, uv))
            rec["types_ok"] = bool(type(back.data).__name__ == "Visibilities" and type(back.noise_map).__name__ == "VisibilitiesNoiseMap"
                                   and type(back.transformer).__name__ == "TransformerDFT")
        except Exception as e:  # noqa
            rec["raised"] = f"{type(e).__name__}: {str(e)[:120]}"
        finally:
            conf.instance["general"]["fits"]["flip_for_ds9"] = old
            shutil.rmtree(tmp, ignore_errors=True)
        out.append(rec)
    return out


def fit_record(base, geo, arg, dataset, image_ints, salt, K, P):
    import autoarray as aa

    rec = dict(base, **geo)
    rec["exp"] = 0
    hasinv = bool(arg.get("hasinv"))
    real = arg.get("real")
    rec.update({"api": "fit", "raised": "", "types_ok": True, "mk": "real" if real else "int",
                "usemask": bool(arg["usemask"]) if arg.get("usemask") is not None else bool(salt % 2), "hasinv": hasinv or bool(real),
                "res": [], "nresq": [], "chi2mapq": [], "snq": [], "chi2q": OFF, "chi2_fix": OFF, "nn_fix": OFF, "ll_fix": OFF, "fom_fix": OFF,
                "dirty": [], "dirtymodel": [], "dirtyres": [], "dirtynres": [], "dirtychi2": [], "m_fix": [], "res_fix": [], "chi2map_fix": []})
    if not real:
        rec["m"] = [[int(a), int(b_)] for a, b_ in arg["m"]]
    else:
        rec["_real"] = real
    try:
        ds, mask, uv, units, raws, snaps = dataset(0)
        inversion = None
        if real:
            mm = np.array(real["M"], dtype=float).reshape(P, -1) * 2.0 ** real["me"]
            cols = [list(range(mm.shape[1]))] if not real["split"] else [[j] for j in range(mm.shape[1])]
            objs = [aa.m.MockMapper(mapping_matrix=mm[:, c].copy(), parameters=len(c), edge_pixel_list=[],
                                    regularization=aa.m.MockRegularization(regularization_matrix=np.eye(len(c)) * real["coef"]))
                    for c in cols]
            inversion = aa.Inversion(dataset=ds, linear_obj_list=objs,
                                     settings=aa.SettingsInversion(use_w_tilde=False, use_linear_operators=False,
                                                                   use_positive_only_solver=bool(real["positive_only"])))
            try:  # the solver and its failure modes belong to C05
                with np.errstate(all="ignore"):
                    s0 = np.asarray(inversion.reconstruction, dtype=float)
                if not np.all(np.isfinite(s0)):
                    return None
            except Exception:
                return None
            model = inversion.mapped_reconstructed_data
            rec["m_fix"] = _fixg(np.asarray(model), S)
        else:
            mv = gvec(rec["m"], 1.0)
            model = aa.Visibilities(visibilities=mv if salt % 3 else [[float(z.real), float(z.imag)] for z in mv])
            if hasinv:
                t = [int(x) for x in arg["terms"]]
                inversion = aa.m.MockInversion(regularization_term=t[0] / 4.0, log_det_curvature_reg_matrix_term=t[1] / 4.0,
                                               log_det_regularization_matrix_term=t[2] / 4.0)
        fit = aa.m.MockFitInterferometer(dataset=ds, use_mask_in_fit=rec["usemask"], model_data=model, inversion=inversion)
        with np.errstate(all="ignore"):
            res, nres, chi = fit.residual_map, fit.normalized_residual_map, fit.chi_squared_map
            sn = fit.signal_to_noise_map
            chi2, nn, ll, fom = fit.chi_squared, fit.noise_normalization, fit.log_likelihood, fit.figure_of_merit
            ev, llreg = fit.log_evidence, fit.log_likelihood_with_regularization
        for x in (res, nres, chi, sn):
            if np.shape(np.asarray(x)) != (K,):
                rec["types_ok"] = False
        rec["chi2_fix"], rec["nn_fix"], rec["ll_fix"], rec["fom_fix"] = _fix(chi2, S), _fix(nn, S), _fix(ll, S), _fix(fom, S)
        if inversion is not None:
            rec["inv"] = {"reg_fix": _fix(inversion.regularization_term, S), "ldc_fix": _fix(inversion.log_det_curvature_reg_matrix_term, S),
                          "ldr_fix": _fix(inversion.log_det_regularization_matrix_term, S),
                          "ev_fix": _fix(ev, S) if ev is not None else OFF, "llreg_fix": _fix(llreg, S) if llreg is not None else OFF}
        elif ev is not None or llreg is not None:
            rec["types_ok"] = False  # evidence reported without an inversion
        if real:
            rec["res_fix"] = _fixg(np.asarray(res), S)
            rec["chi2map_fix"] = _fixg(np.asarray(chi), S)
        else:
            q = 2.0 ** (-NE)
            rec["res"] = _gauss(np.asarray(res), 1.0)
            rec["nresq"] = _gauss(np.asarray(nres), q)
            rec["chi2mapq"] = _gauss(np.asarray(chi), q * q)
            rec["snq"] = _gauss(np.asarray(sn), q)
            rec["chi2q"] = _ints([float(chi2)], q * q)[0][0]
            with np.errstate(all="ignore"):
                ims = [image_ints(fit.dirty_image, mask, 1.0), image_ints(fit.dirty_model_image, mask, 1.0),
                       image_ints(fit.dirty_residual_map, mask, 1.0), image_ints(fit.dirty_normalized_residual_map, mask, q),
                       image_ints(fit.dirty_chi_squared_map, mask, q * q)]
            if any(x is None for x in ims):
                rec["types_ok"] = False
            else:
                rec["dirty"], rec["dirtymodel"], rec["dirtyres"], rec["dirtynres"], rec["dirtychi2"] = ims
        if not all(_bytes(raws[k]) == snaps[k] for k in raws):
            rec["types_ok"] = False
    except Exception as e:  # noqa
        rec["raised"] = f"{type(e).__name__}: {str(e)[:120]}"
    return rec


def _many(args):
    groups, seed = args
    out = []
    for g in groups:
        out.extend(r for r in records_for_group(g, seed) if r is not None)
    return out


# --------------------------------------------------------------------------------------------
# random larger datasets (beyond the exhaustive bound)
# --------------------------------------------------------------------------------------------
def _chi2_bound(d, m, se):
    return sum(((a - c) ** 2) * 4.0 ** (-e1) + ((b_ - f) ** 2) * 4.0 ** (-e2) for (a, b_), (c, f), (e1, e2) in zip(d, m, se))


def random_groups(rng, n, max_side=4, max_k=12):
    out = []
    for k in range(n):
        h = int(rng.integers(1, max_side + 1))
        w = int(rng.integers(1, max_side + 1))
        msk = rng.random((h, w)) < float(rng.choice([0.3, 0.6, 1.0]))
        if not msk.any():
            msk[int(rng.integers(0, h)), int(rng.integers(0, w))] = True
        u = [int(x) for x in np.flatnonzero(msk.ravel())]
        org = [int(rng.integers(-3, 4)), int(rng.integers(-3, 4))]
        py, px = (h - 1 + org[0]) % 2, (w - 1 + org[1]) % 2
        K = int(rng.integers(1, max_k + 1))
        b = []
        for _ in range(K):
            au, av = int(rng.integers(-6, 7)), int(rng.integers(-6, 7))
            if px and not py:
                au -= au % 2
            elif py and not px:
                av -= av % 2
            elif px and py and (au + av) % 2:
                av += 1
            b.append([au, av])
        if K >= 2 and k % 3 == 0:
            b[int(rng.integers(0, K))] = [0, 0]
        if K >= 2 and k % 4 == 0:
            b[-1] = list(b[0])
        lim = 6 if k % 2 else 3
        d = rng.integers(-lim, lim + 1, size=(K, 2))
        d[rng.random((K, 2)) < 0.2] = 0
        d = d.tolist()
        se = rng.integers(-NE, NE + 1, size=(K, 2)).tolist()
        if k % 5 == 0:
            se = [[a, a] for a, _ in se]  # equal parts as well
        P = len(u)
        calls = []
        for cls in ("data", "noise"):
            calls.append({"act": "construct", "arg": {"cls": cls, "form": FORMS[(k + (cls == "noise")) % 4]}})
        other = rng.integers(-4, 5, size=(K, 2)).tolist()
        const = [[int(rng.integers(-3, 4)), int(rng.integers(-3, 4))]] * K
        for op, mult, oth in (("neg", 2, d), ("mul", [2, -1, 0, 3][k % 4], d), ("rmul", [-1, 2][k % 2], d), ("div", 2, d), ("add", 2, other),
                              ("sub", 2, other), ("rsub", 2, const)):
            calls.append({"act": "derive", "arg": {"cls": "data", "op": op, "mult": mult, "other": oth}})
        for op, mult in (("neg", 2), ("mul", [2, -1][k % 2]), ("div", 2)):
            calls.append({"act": "derive", "arg": {"cls": "noise", "op": op, "mult": mult, "other": d}})
        calls.append({"act": "dataset", "arg": {}})
        for j in range(3):
            while True:
                m = (np.array(d) + rng.integers(-3, 4, size=(K, 2)) * (rng.random((K, 2)) < 0.7)).tolist() if j else rng.integers(-lim, lim + 1, size=(K, 2)).tolist()
                if _chi2_bound(d, m, se) < 8000:
                    break
                se = [[min(a + 1, NE), min(b_ + 1, NE)] for a, b_ in se]
            hasinv = j == 2
            calls.append({"act": "fit", "arg": {"m": m, "hasinv": hasinv,
                                                "terms": [int(rng.integers(0, 60)), int(rng.integers(-40, 80)), int(rng.integers(-40, 40))] if hasinv else []}})
        out.append({"h": h, "w": w, "u": u, "org": org, "b": b, "d": d, "se": se, "calls": calls, "salt": 100000 + k, "fits": k % 4 == 0})
    # fits with real inversions: data small, noise >= 1 so that chi-squared of the reconstruction stays in range
    for g in list(out):
        k = g["salt"] - 100000
        if k % 2:
            continue
        P, K = len(g["u"]), len(g["b"])
        if _chi2_bound(g["d"], [[0, 0]] * K, g["se"]) >= 8000:
            continue
        J = int(rng.integers(1, 4))
        M = rng.integers(0, 4, size=(P, J))
        M[rng.random((P, J)) < 0.3] = 0
        if k % 4 == 0:
            M = M - rng.integers(0, 2, size=(P, J))
        g["calls"].append({"act": "fit", "arg": {"real": {"M": M.tolist(), "me": int(rng.integers(-1, 2)), "split": bool(J > 1 and k % 3 == 0),
                                                          "coef": float([0.5, 1.0, 2.0][k % 3]), "positive_only": bool(k % 6 != 0)}}})
    return out


# --------------------------------------------------------------------------------------------
# validation through Trace_FitVis
# --------------------------------------------------------------------------------------------
_DROP = {"exc"}


def describe(rec):
    api = rec["api"]
    if api in ("container", "ordered", "weights"):
        s = f"{api} of a {'Visibilities' if rec['cls'] == 'data' else 'VisibilitiesNoiseMap'} " + \
            (f"built from {rec['form']} {rec['given']}" if rec["origin"] == "constructed"
             else f"derived by {rec['op']} (mult={rec['mult']}, other={rec['other']}) from one holding {rec['given']}")
        s += f" [values in units of 2^{rec['exp'] if rec['cls'] == 'data' else -NE}]"
    else:
        s = f"{api} on {rec['h']}x{rec['w']} mask u={rec['u']} origin(half px)={rec['org']} baselines={rec['b']} d={rec['d']} noise exps={rec['se']}"
        if api == "fit":
            s += f" model={rec.get('m', 'mapped reconstruction of a real inversion')} use_mask_in_fit={rec['usemask']} inversion={rec['hasinv']}"
        if api == "fits":
            s += f" flip_for_ds9={rec['flip']}"
    if rec.get("raised"):
        s += f" RAISED {rec['raised']}"
    return s


def validate(ctx, records, tag, chunk=None):
    import concurrent.futures as cf

    if chunk is None:
        chunk = min(4000, max(800, -(-len(records) // 16)))
    slim = []
    for n, r in enumerate(records):
        r["id"] = n
        slim.append({k: v for k, v in r.items() if k not in ("scales", "_real")})
    chunks = [slim[k::max(1, -(-len(slim) // chunk))] for k in range(max(1, -(-len(slim) // chunk)))]
    rejects = []

    def one(args):
        k, ch = args
        _, rej = ctx.validate_trace("Trace_FitVis", TRACE_CFG, ch, tag=f"{tag}-{k}", timeout=3000, env=JVM_ENV, defs=TRACE_DEFS)
        return rej

    with cf.ThreadPoolExecutor(max_workers=min(16, len(chunks) or 1)) as ex:
        for rej in ex.map(one, list(enumerate(chunks))):
            rejects.extend(rej)
    for rj in rejects:
        rec = records[rj["id"]]
        if "input-on-lattice" in rj["clauses"] or "malformed-record" in rj["clauses"] or "unknown-api" in rj["clauses"]:
            raise core.MachineryError(f"driver produced a record the trace specification cannot judge ({rj['clauses']}): {describe(rec)}")
        ctx.violation(rj["sig"], f"{describe(rec)}: failed {rj['clauses']}",
                      {"record": rec, "failed_clauses": rj["clauses"], "spec_wanted": rj.get("want")},
                      cls=",".join(rj["clauses"]))
    return rejects


# --------------------------------------------------------------------------------------------
def run(ctx):
    quick = ctx.quick
    terms = [(13, 30, -7), (0, -6, 5)]
    if quick:
        runs = [("vis", {"shapes": [], "origins_half_px": [(0, 0)], "multipliers": [0], "max_baselines": 0, "masks": "two",
                         "values_single": [-2, -1, 0, 1, 2], "values_short": [-1, 0, 2], "noise_exponents": [-1, 0, 1], "full_length": 2,
                         "max_length": 4, "inversion_terms_quarter_units": terms}),
                ("dirty", {"shapes": [(1, 2), (2, 2), (3, 3)], "origins_half_px": [(0, 0)], "multipliers": [-1, 0, 1, 2], "max_baselines": 1,
                           "masks": "two", "values_single": [], "values_short": [], "noise_exponents": [-1, 0, 1], "full_length": 0,
                           "max_length": 0, "inversion_terms_quarter_units": terms[:1]})]
        n_random = 100
    else:
        runs = [("vis", {"shapes": [], "origins_half_px": [(0, 0)], "multipliers": [0], "max_baselines": 0, "masks": "two",
                         "values_single": [-3, -2, -1, 0, 1, 2, 3], "values_short": [-2, -1, 0, 1, 2], "noise_exponents": [-1, 0, 1], "full_length": 2,
                         "max_length": 6, "inversion_terms_quarter_units": terms}),
                ("dirty", {"shapes": [(1, 1), (1, 2), (2, 1), (2, 2), (2, 3), (3, 2), (3, 3)], "origins_half_px": [(0, 0), (1, 1)],
                           "multipliers": [-2, -1, 0, 1, 2], "max_baselines": 1, "masks": "few", "values_single": [], "values_short": [],
                           "noise_exponents": [-2, 0, 2], "full_length": 0, "max_length": 0, "inversion_terms_quarter_units": terms[:1]}),
                ("pairs", {"shapes": [(2, 2), (3, 3), (3, 2)], "origins_half_px": [(0, 0)], "multipliers": [-1, 0, 1, 2], "max_baselines": 2,
                           "masks": "two", "values_single": [], "values_short": [], "noise_exponents": [-1, 0, 1], "full_length": 0,
                           "max_length": 0, "inversion_terms_quarter_units": terms[:1]})]
        n_random = 1500
    ctx.bounds = {"tlc_runs": [dict(name=n, **b) for n, b in runs], "noise_exponent_range": [-NE, NE], "log_scale": S, "angle_scale": ANG_S,
                  "amplitude_scale": AMP_S, "angle_table_max": ANG_MAX, "random_datasets": n_random, "random_max_side": 4,
                  "random_max_visibilities": 12, "random_values": "data -6..6, models data +- 3, noise parts 2^-2..2^2",
                  "pixel_scales": SCALES, "value_scales_log2": EXPS, "alpha_tolerance": TOL}
    ctx.exhaustive = True
    salt = 0
    n_enum = 0
    calls = 0
    by_api = {}
    total = {"records": 0, "rejected": 0, "real": 0}
    pending = []

    def replay_and_judge(groups, tag, last=False):
        """S->C replay of a batch of datasets, then C->S judgement of everything they returned (quick: one judgement phase)."""
        batch = 8
        outs = core.pmap(_many, [(groups[k: k + batch], ctx.seed) for k in range(0, len(groups), batch)])
        recs = [r for o in outs for r in o]
        for r in recs:
            by_api[r["api"]] = by_api.get(r["api"], 0) + 1
        total["records"] += len(recs)
        total["real"] += sum(1 for r in recs if r["api"] == "fit" and r["mk"] == "real")
        if last:
            for want in ("container", "fit", "dataset"):
                pick = [r for r in recs if r["api"] == want and r["salt"] >= 100000]
                if pick:
                    ctx.sample({"record": {k: v for k, v in pick[len(pick) // 2].items() if k not in ("id",)}})
        if quick:
            pending.extend(recs)
            if last:
                total["rejected"] += len(validate(ctx, pending, "X04"))
        else:
            total["rejected"] += len(validate(ctx, recs, tag))

    enumerated = {}
    if quick:  # the small machines side by side
        import concurrent.futures as cf

        with cf.ThreadPoolExecutor(max_workers=len(runs)) as ex:
            futs = {name: ex.submit(enumerate_machine, ctx, f"MC_FitVis_{name}", b) for name, b in runs}
            enumerated = {name: f.result() for name, f in futs.items()}
    for name, b in runs:
        insts, res = enumerated.pop(name) if name in enumerated else enumerate_machine(ctx, f"MC_FitVis_{name}", b)
        gs = group_calls(insts)
        if len(gs) != res.init_states:
            raise core.MachineryError(f"{name}: {len(gs)} datasets dumped, TLC counted {res.init_states}")
        ctx.note(f"TLC {name}: {res.init_states} datasets, {len(insts)} calls, {res.distinct} states, invariants {len(INVARIANTS)}")
        if len(ctx.samples) < 2:
            ctx.sample({"dumped_call": insts[len(insts) // 2]})
        for g in gs:
            g["salt"] = salt
            g["fits"] = salt % 16 == 0
            salt += 1
        calls += len(insts)
        n_enum += len(gs)
        del insts
        replay_and_judge(gs, f"X04-{name}")
    ctx.replayed = calls
    rng = np.random.default_rng(ctx.seed)
    rnd = random_groups(rng, n_random)
    replay_and_judge(rnd, "X04-random", last=True)
    ctx.note(f"{n_enum} enumerated datasets ({calls} calls) + {len(rnd)} random datasets -> {total['records']} records {by_api} "
             f"({total['real']} fits on real aa.Inversion objects) judged by Trace_FitVis; {total['rejected']} rejected")
    ctx.assumptions = [
        "ln(2 pi sigma^2) enters as a constant table computed by math.log at scale 1e5, atan(q/p) on the first octant as a table computed by "
        "math.atan2 at scale 1e5; both tables are pinned by ASSUMEs (known digits, ln 4 steps, pi/4, monotonicity, scale invariance, "
        "Euler's and Hutton's arctangent identities); fixed-point comparisons carry the derived rounding bounds",
        "amplitudes are decided by the exact relation a^2 = re^2 + im^2 on round(1000 a); the argument of a zero visibility is not pinned; "
        "pi and -pi are both accepted on the negative real axis",
        "the inversion terms (regularization term, log determinants) are taken as reported by the inversion object (C08 decides them); "
        "here the evidence composition with the complex-aware chi-squared and normalization is decided",
        "baselines are a*648000/(4*s*pi) for the pixel scale s (quarter-turn lattice, as C13); TransformerDFT with the pylops stand-in; "
        "NUFFT transformer, w-tilde and linear-operator inversions are out of scope (libraries absent)",
        "reduced_chi_squared and residual_flux_fraction_map of complex fits are not pinned by the statement and are not judged"]


def replay(ctx, rp):
    rec = rp["record"]
    api = rec["api"]
    g = {"h": 1, "w": 1, "u": [0], "org": [0, 0], "b": [[0, 0]], "d": [[0, 0]], "se": [[0, 0]], "salt": rec.get("salt", 0),
         "scales": rec.get("scales")}
    if api in ("container", "ordered", "weights"):
        K = len(rec["given"])
        g["b"] = [[0, 0]] * K
        if rec["cls"] == "data":
            g["d"], g["se"] = rec["given"], [[0, 0]] * K
        else:
            g["d"] = rec["other"] if rec["other"] else [[0, 0]] * K
            g["se"] = [[int(round(math.log2(a))) - NE, int(round(math.log2(b_))) - NE] for a, b_ in rec["given"]]
        if rec["origin"] == "constructed":
            g["calls"] = [{"act": "construct", "arg": {"cls": rec["cls"], "form": rec["form"]}, "exp": rec["exp"]}]
        else:
            g["calls"] = [{"act": "derive", "arg": {"cls": rec["cls"], "op": rec["op"], "mult": rec["mult"], "other": rec["other"]},
                           "exp": rec["exp"]}]
    else:
        for k in ("h", "w", "u", "org", "b", "d", "se"):
            g[k] = rec[k]
        if api in ("dataset", "fits"):
            g["calls"] = [{"act": "dataset", "arg": {}, "exp": rec["exp"]}]
            g["fits"] = api == "fits"
        else:
            arg = {"m": rec.get("m"), "hasinv": rec["hasinv"] and rec["mk"] == "int", "usemask": rec["usemask"]}
            if rec["mk"] == "real":
                arg = {"real": rp["record"].get("_real"), "usemask": rec["usemask"]}
            elif rec["hasinv"]:
                v = rec["inv"]
                arg["terms"] = [int(round(v["reg_fix"] * 4 / S)), int(round(v["ldc_fix"] * 4 / S)), int(round(v["ldr_fix"] * 4 / S))]
            g["calls"] = [{"act": "fit", "arg": arg, "exp": 0}]
    recs = [r for r in records_for_group(g, ctx.seed) if r is not None and r["api"] == api]
    rej = validate(ctx, recs, "X04-replay")
    print("replayed", len(recs), "records; rejected:", [(r["sig"], r["clauses"]) for r in rej])
    return ctx.finish()
