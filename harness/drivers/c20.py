"""C20 -- triangle up-sampling tiles exactly; neighbourhoods and selections are faithful.

S->C: Triangles.tla enumerates every set of <= n integer coordinates in (-r..r)^2, both `flipped` states, and every
      behaviour of up_sample / neighborhood / for_indexes / containing_indices calls inside the bound; each behaviour is
      replayed through the real CoordinateArrayTriangles and, in parallel, through the ArrayTriangles obtained by
      with_vertices (gamma: side lengths and offsets dyadic, decimal and arbitrary reals).
C->S: every call is recorded in exact fine-lattice units (alpha: divide by the unit, round, count residuals > 1e-9 as
      off-lattice) and judged by Trace_Triangles.tla; seeded random larger sets (random coordinates, for_limits_and_scale
      of both classes, free integer-vertex ArrayTriangles) extend the reach beyond the exhaustive bound.
Irregular vertex/index arrays (round 3): Triangles.tla also enumerates every array of nv distinct points of a small integer
      grid with 2..nt non-degenerate triangles using all of them (shared / unshared vertices, overlapping, elongated); each is
      realised as ArrayTriangles(indices, vertices) directly, through with_vertices on a regular set, or through for_indexes of a
      larger set, and neighborhood() (and the neighbourhood of the neighbourhood) is judged on content and, where the
      instance's arithmetic is exact, on count."""
import json
import math

import numpy as np

from harness import core

MAXLEVEL = 2
F0 = 2 ** (MAXLEVEL + 2)  # fine units per lattice unit at level 0 (spec: Fine(0))
TOL = 1e-9  # the stated floating-point tolerance for coincident vertices, in fine units

MC_CFG = """CONSTANTS
  Families <- MCFamilies
  MaxLevel = {maxlevel}
  MaxPath = {maxpath}
  MaxLenUp = {maxlenup}
  MaxLenObs = {maxlenobs}
  MaxLenSel = {maxlensel}
  SelAllMax = {selallmax}
  FreeFamilies <- MCFreeFamilies
SPECIFICATION Spec
INVARIANT LatticeShape
INVARIANT LatticeDisjoint
INVARIANT MidpointsRepresentable
INVARIANT UpIsMidpointSubdivision
INVARIANT MidpointSubdivisionTiles
INVARIANT UpAccepted
INVARIANT MirrorIsPointReflection
INVARIANT NbrIsReflections
INVARIANT NbrVIIsNeighbourhood
INVARIANT SelFaithful
INVARIANT ReprAgree
INVARIANT ContainSound
"""

TRACE_CFG = """CONSTANTS
  Families = {}
  MaxLevel = 2
  MaxPath = 0
  MaxLenUp = 0
  MaxLenObs = 0
  MaxLenSel = 0
  SelAllMax = 0
  FreeFamilies = {}
SPECIFICATION TraceSpec
POSTCONDITION TraceAccepted
"""

SIDES = [1.0, 0.5, 2.0, 0.25, 0.1, 0.3, 1.0 / 3.0, 0.7, 1.7, 0.015625]
LIMITS = [-1.5, -1.0, -0.7, -0.25, 0.0, 0.3, 0.5, 1.0, 1.2]
OFFSETS = [0.0, 0.5, -1.25, 0.1, -0.3, 1.0 / 3.0, 2.7, -0.015625]


# ------------------------------------------------------------------------------------------------
# gamma / alpha
# ------------------------------------------------------------------------------------------------
class Lat:
    """One instance's exact frame: real component = origin + fine * unit.  `swap`: the code's component 0 is the
    lattice's y direction (ArrayTriangles.for_limits_and_scale stores (y, x))."""

    def __init__(self, ux, uy, ox, oy, swap=False, lattice=True, exact=False, whole=False):
        self.ux, self.uy, self.ox, self.oy, self.swap, self.lattice = float(ux), float(uy), float(ox), float(oy), swap, lattice
        # exact: units and origin are small dyadic numbers, so every vertex and every b + c - a is an exact float and
        # coincident vertices are bit-identical (no tolerance involved in de-duplication)
        self.exact = bool(exact)
        # whole: every level-0 vertex is a whole number in real units, so the same vertices can be given as int64 / int32 /
        # float32 arrays as well (midpoints are then half- and quarter-integers: truncation would be visible)
        self.whole = bool(whole)
        self.max_res = 0.0

    @classmethod
    def equilateral(cls, side, xo, yo, swap=False):
        return cls(side / 2.0 / F0, side * math.sqrt(3.0) / 4.0 / F0, xo, yo, swap=swap)

    def alpha_tris(self, arr):
        """Nx3x2 real vertices -> ([[ [X,Y] x3 ] xN], number of off-lattice values)."""
        a = np.asarray(arr, dtype=float).reshape(-1, 3, 2)
        if self.swap:
            a = a[:, :, ::-1]
        x = (a[:, :, 0] - self.ox) / self.ux
        y = (a[:, :, 1] - self.oy) / self.uy
        rx, ry = np.rint(x), np.rint(y)
        bad = (~np.isfinite(x)) | (~np.isfinite(y)) | (np.abs(x - rx) > TOL) | (np.abs(y - ry) > TOL) | (np.abs(rx) > 2e7) | (np.abs(ry) > 2e7)
        off = int(np.count_nonzero(bad))
        if x.size:
            with np.errstate(invalid="ignore"):
                self.max_res = max(self.max_res, float(np.nanmax(np.abs(x - rx))), float(np.nanmax(np.abs(y - ry))))
        rx = np.where(np.isfinite(rx) & (np.abs(rx) <= 2e7), rx, -20000000)
        ry = np.where(np.isfinite(ry) & (np.abs(ry) <= 2e7), ry, -20000000)
        out = np.stack([rx, ry], axis=-1).astype(np.int64)
        return out.tolist(), off

    def alpha_area(self, area):
        """real area -> twice the area in fine units (an integer), -2 when not an integer within tolerance."""
        r = 2.0 * float(area) / (self.ux * self.uy)
        k = round(r) if math.isfinite(r) else 0
        if not math.isfinite(r) or abs(r - k) > 1e-9 * max(1.0, abs(r)) or abs(k) >= 2 ** 31:
            return -2
        return int(k)

    def gamma(self, X, Y):
        """fine point -> real components in the code's component order."""
        px, py = self.ox + X * self.ux, self.oy + Y * self.uy
        return (py, px) if self.swap else (px, py)

    def describe(self):
        return {"ux": self.ux, "uy": self.uy, "ox": self.ox, "oy": self.oy, "swap": self.swap}


def make_shape(lat, s):
    """gamma of a shape record {kind, p, vs} (fine integers) -> real Shape object."""
    from autoarray.structures.triangles import shape as sh

    k = s["kind"]
    if k == "point":
        a, b = lat.gamma(s["p"][0], s["p"][1])
        return sh.Point(a, b)
    if k == "circle":
        a, b = lat.gamma(s["p"][0], s["p"][1])
        return sh.Circle(a, b, radius=s["p"][2] * min(lat.ux, lat.uy))
    if k == "square":
        top, bottom, left, right = s["p"]
        x0, x1 = lat.ox + left * lat.ux, lat.ox + right * lat.ux  # extent along the lattice's x direction
        y0, y1 = lat.oy + top * lat.uy, lat.oy + bottom * lat.uy  # extent along the lattice's y direction
        if lat.swap:  # the code's component 0 (its left/right axis) is the lattice's y direction
            return sh.Square(top=x0, bottom=x1, left=y0, right=y1)
        return sh.Square(top=y0, bottom=y1, left=x0, right=x1)
    vs = [tuple(float(c) for c in lat.gamma(v[0], v[1])) for v in s["vs"]]
    if k == "polygon":
        return sh.Polygon(vs)
    if k == "triangle":
        return sh.Triangle(*vs)
    raise ValueError(k)


def shapes_for(q, j, rng, big):
    """Shape records whose reference point is the fine point q: always a Point, plus one other kind (by turn)."""
    x, y = int(q[0]), int(q[1])
    out = [{"kind": "point", "p": [x, y], "vs": []}]
    kind = ("circle", "square", "polygon", "triangle")[j % 4]
    if kind == "circle":
        out.append({"kind": "circle", "p": [x, y, int(rng.choice([1, 2, big]))], "vs": []})
    elif kind == "square":
        dx, dy = int(rng.choice([1, 3, big])), int(rng.choice([1, 2, big]))
        out.append({"kind": "square", "p": [y - dy, y + dy, x - dx, x + dx], "vs": []})
    elif kind == "polygon":
        m = int(rng.integers(3, 7))
        d = rng.integers(-big, big + 1, size=(m - 1, 2))
        d = np.vstack([d, -d.sum(axis=0)])
        out.append({"kind": "polygon", "p": [], "vs": [[x + int(a), y + int(b)] for a, b in d]})
    else:
        while True:
            d = rng.integers(-big, big + 1, size=(2, 2))
            d = np.vstack([d, -d.sum(axis=0)])
            if (d[1, 0] - d[0, 0]) * (d[2, 1] - d[0, 1]) - (d[1, 1] - d[0, 1]) * (d[2, 0] - d[0, 0]) != 0:
                break
        out.append({"kind": "triangle", "p": [], "vs": [[x + int(a), y + int(b)] for a, b in d]})
    return out


# ------------------------------------------------------------------------------------------------
# recording of the real API
# ------------------------------------------------------------------------------------------------
class State:
    """A pair of real objects (coordinate form or None, array form) with their abstracted triangles cached."""

    def __init__(self, lat, coord, arr):
        self.lat, self.coord, self.arr = lat, coord, arr
        self._t = {}

    def obj(self, rep):
        return self.coord if rep == "coord" else self.arr

    def reps(self):
        return [r for r in ("coord", "array") if self.obj(r) is not None]

    def tris(self, rep):
        if rep not in self._t:
            self._t[rep] = self.lat.alpha_tris(self.obj(rep).triangles)
        return self._t[rep]


def _arr_view(lat, rep, obj):
    """the same object through with_vertices(its own vertices) (coordinate form -> array form; array form -> array form)."""
    return lat.alpha_tris(obj.with_vertices(obj.vertices).triangles)


def construct_records(st, src, base, model=None, given=None):
    recs = []
    lat = st.lat
    for rep in st.reps():
        o = st.obj(rep)
        t, off = st.tris(rep)
        ta, off2 = _arr_view(lat, rep, o)
        tv, off3 = lat.alpha_tris(np.asarray(o.vertices)[np.asarray(o.indices)])
        r = dict(base, api="construct", rep=rep, src=src, lat=lat.lattice, off=off + off2 + off3,
                 c=[], fl=False, w=F0, xo=0, yo=0, tris=t, tris_arr=ta, tris_vi=tv, n=int(len(o)), area2=lat.alpha_area(o.area),
                 mv=[], mi=[])
        if rep == "array" and given is not None:  # the abstract vertices (fine units) and index triples the array was built from
            r["mv"], r["mi"] = [[int(x), int(y)] for x, y in given[0]], [[int(j) for j in t] for t in given[1]]
        if rep == "coord":
            r.update(model)
        recs.append(r)
    return recs


def apply_step(st, step, src, base, rng):
    """Perform one public call on both representations; returns (new state or None, records)."""
    lat = st.lat
    a = step["a"]
    recs = []
    if a == "obs":
        qs = step["q"]
        big = 3 * F0
        for rep in st.reps():
            t, off = st.tris(rep)
            shapes, reported = [], []
            for j, q in enumerate(qs):
                for s in shapes_for(q, j, rng, big):
                    shapes.append(s)
                    reported.append([int(v) for v in np.asarray(st.obj(rep).containing_indices(make_shape(lat, s))).ravel()])
            recs.append(dict(base, api="contain", rep=rep, src=src, lat=lat.lattice, off=off, tris=t, shapes=shapes, reported=reported))
        return None, recs
    new = {}
    for rep in st.reps():
        o = st.obj(rep)
        pre, off = st.tris(rep)
        extra = {}
        if a == "up":
            n = o.up_sample()
        elif a == "nbr":
            n = o.neighborhood()
        elif a == "sel":
            idx = _indices_for(pre, step)
            extra["idx"] = idx
            n = o.for_indexes(np.array(idx, dtype=int))
        else:
            raise core.MachineryError(f"unknown step {a}")
        new[rep] = n
        post, off2 = lat.alpha_tris(n.triangles)
        pa, off3 = _arr_view(lat, rep, n)
        r = dict(base, api=a, rep=rep, src=src, lat=lat.lattice, exact=bool(rep == "coord" or lat.exact),
                 off=off + off2 + off3, pre=pre, post=post, post_arr=pa,
                 n_pre=int(len(o)), n_post=int(len(n)), area2_pre=lat.alpha_area(o.area), area2_post=lat.alpha_area(n.area))
        r.update(extra)
        recs.append(r)
    ns = State(lat, new.get("coord"), new.get("array"))
    return ns, recs


def _indices_for(pre, step):
    """gamma of 'select these triangles': their positions in the implementation's own order (0-based)."""
    if step.get("idx") is not None:
        return [int(k) for k in step["idx"]]
    where = {}
    for k, t in enumerate(pre):
        where.setdefault(frozenset(map(tuple, t)), []).append(k)
    out = []
    for t in step["t"]:
        lst = where.get(frozenset(map(tuple, t)))
        if not lst:
            out = None
            break
        out.append(lst.pop(0))
    if out is None:  # the implementation already diverged from the model (reported at that step): select by position
        out = [int(p) - 1 for p in step["q"] if int(p) - 1 < len(pre)] or [0]
    return out


def _rng_for(seed, c, fl):
    h = 1469598103934665603
    for v in [seed, int(fl)] + [x for p in c for x in p]:
        h = ((h ^ (int(v) & 0xFFFF)) * 1099511628211) % (2 ** 63)
    return np.random.default_rng(h)


def replay_group(args):
    """S->C: one initial input of the machine and all its behaviours."""
    from autoarray.structures.triangles.coordinate_array import CoordinateArrayTriangles

    c, fl, paths, seed = args
    rng = _rng_for(seed, c, fl)
    side = SIDES[int(rng.integers(0, len(SIDES)))] if rng.random() < 0.8 else float(rng.uniform(0.05, 3.0))
    xo = OFFSETS[int(rng.integers(0, len(OFFSETS)))] if rng.random() < 0.8 else float(rng.uniform(-3, 3))
    yo = OFFSETS[int(rng.integers(0, len(OFFSETS)))] if rng.random() < 0.8 else float(rng.uniform(-3, 3))
    lat = Lat.equilateral(side, xo, yo)
    coords = np.array(c, dtype=int if rng.random() < 0.7 else float).reshape(-1, 2)
    obj = CoordinateArrayTriangles(coordinates=coords, side_length=side, x_offset=xo, y_offset=yo, flipped=bool(fl))
    st0 = State(lat, obj, obj.with_vertices(obj.vertices))
    base = {"p": "C20", "dt": "f64", "g": {"kind": "beh", "c": c, "fl": bool(fl), "side": side, "xo": xo, "yo": yo}}
    recs = construct_records(st0, "coords", dict(base, path=[]), model={"c": c, "fl": bool(fl), "w": F0, "xo": 0, "yo": 0})
    memo = {(): st0}
    key = lambda p: tuple((s["a"], json.dumps(s["t"])) for s in p)
    for p in sorted(paths, key=len):
        parent = memo.get(key(p[:-1]))
        if parent is None:
            raise core.MachineryError(f"behaviour {p} of init {c},{fl} has no dumped prefix")
        ns, rs = apply_step(parent, p[-1], "coords", dict(base, path=p), rng)
        if ns is not None:
            memo[key(p)] = ns
        recs.extend(rs)
    return recs, lat.max_res


# ------------------------------------------------------------------------------------------------
# irregular vertex/index arrays
# ------------------------------------------------------------------------------------------------
DYADIC_UNITS = [1.0, 0.5, 0.125, 2.0, 0.015625]
DYADIC_OFFSETS = [0.0, 0.5, -1.25, -0.015625, 3.0]
REALISATIONS = ("direct", "with_vertices", "for_indexes")
DTYPES = {"f64": np.float64, "i64": np.int64, "i32": np.int32, "f32": np.float32}
OTHER_DTYPES = ("i64", "i32", "f32", "i64", "i32")


def cast(arr, dt):
    """the same vertices in another array representation (only whole numbers are ever cast)."""
    a = np.asarray(arr, dtype=float)
    if dt == "f64":
        return a
    if not np.array_equal(a, np.rint(a)):
        raise core.MachineryError(f"cast to {dt} of vertices that are not whole numbers")
    return a.astype(DTYPES[dt])


def free_lattice(rng, whole=None, fine=1):
    """gamma frame of an irregular array whose level-0 vertices are multiples of `fine` fine units: whole-number frames
    (real grid step 1, 2 or 3, integer origin, negative and positive), else mostly exact (dyadic units and origin),
    sometimes decimal / arbitrary."""
    if whole is None:
        whole = rng.random() < 0.4
    if whole:
        return Lat(float(rng.choice([1, 1, 1, 2, 3])) / fine, float(rng.choice([1, 1, 1, 2])) / fine, float(rng.choice([-3, -2, 0, 1, 5])),
                   float(rng.choice([-3, -1, 0, 2])), lattice=False, exact=True, whole=True)
    if rng.random() < 0.75:
        return Lat(float(rng.choice(DYADIC_UNITS)), float(rng.choice(DYADIC_UNITS)), float(rng.choice(DYADIC_OFFSETS)),
                   float(rng.choice(DYADIC_OFFSETS)), lattice=False, exact=True)
    return Lat(float(rng.choice([0.1, 0.37, 1.0 / 3.0])), float(rng.choice([0.3, 0.7, 1.0])), float(rng.uniform(-2, 2)),
               float(rng.choice(OFFSETS)), lattice=False)


def _nondeg(a, b, c):
    return (b[0] - a[0]) * (c[1] - a[1]) - (b[1] - a[1]) * (c[0] - a[0]) != 0


def realise_free(lat, V, I, how, rng, base, src, dt="f64", fine=1):
    """gamma of the abstract array (V: integer points in fine units, I: 0-based triples): a real ArrayTriangles built in
    one of three ways, its vertex array given as dtype `dt`.  Returns (object, records of the calls made on the way)."""
    from autoarray.structures.triangles.array import ArrayTriangles

    V = [list(map(int, v)) for v in V]
    nv = len(V)
    perm = rng.permutation(nv)  # the caller's vertex order is arbitrary
    inv = np.argsort(perm)
    real = lambda pts: cast(np.array([lat.gamma(x, y) for x, y in pts], dtype=float).reshape(-1, 2), dt)
    Vp = [V[j] for j in perm]
    Ip = [[int(inv[j]) for j in rng.permutation(t)] for t in I]  # vertex order inside a triangle is arbitrary too
    recs = []
    if how == "direct":
        obj = ArrayTriangles(indices=np.array(Ip), vertices=real(Vp))
    elif how == "with_vertices":
        # a regular set with the same connectivity whose vertices are then replaced by the irregular ones
        # (itself given as a float or an integer array: the replaced vertices must not inherit anything from it)
        regular = np.array([[j % 3, j // 3] for j in range(nv)], dtype=(np.float64, np.int64, np.int32)[int(rng.integers(0, 3))])
        obj = ArrayTriangles(indices=np.array(Ip), vertices=regular).with_vertices(real(Vp))
    elif how == "for_indexes":
        # a larger set (extra vertices beyond the grid, extra triangles) from which the array is selected
        xmax = max(v[0] for v in V)
        extra_v = [[xmax + fine * (2 + j), fine * int(rng.integers(-1, 3))] for j in range(int(rng.integers(1, 3)))]
        allv = Vp + extra_v
        extra_t = []
        for _ in range(int(rng.integers(1, 4))):
            for _try in range(30):
                t = [int(x) for x in rng.choice(len(allv), size=3, replace=False)]
                if max(t) >= nv and _nondeg(allv[t[0]], allv[t[1]], allv[t[2]]):
                    extra_t.append(t)
                    break
        rows = [("in", t) for t in Ip] + [("extra", t) for t in extra_t]
        order = rng.permutation(len(rows))
        rows = [rows[j] for j in order]
        sup = ArrayTriangles(indices=np.array([t for _, t in rows]), vertices=real(allv))
        st = State(lat, None, sup)
        step = {"a": "sel", "t": [], "q": [], "idx": [j for j, (kind, _) in enumerate(rows) if kind == "in"]}
        ns, recs = apply_step(st, step, src, dict(base, path=[step]), rng)
        obj = ns.arr
    else:
        raise core.MachineryError(how)
    return obj, recs, (Vp, Ip)


def _hash_rng(seed, ints):
    h = 1469598103934665603
    for v in [seed] + list(ints):
        h = ((h ^ (int(v) & 0xFFFF)) * 1099511628211) % (2 ** 63)
    return h


FREE_FINE = 2 ** MAXLEVEL  # spec: FreeUnit, fine units per grid step of an irregular array of the machine


def free_variants(h, quick):
    """(how, whole-number frame?, dtype) realisations of one enumerated array."""
    if quick:
        how = REALISATIONS[h % 3]
        if (h // 3) % 3 == 0:
            return [(how, False, "f64")]
        return [(how, True, "f64"), (how, True, OTHER_DTYPES[(h // 9) % 3])]
    out = []
    for j, how in enumerate(REALISATIONS):
        out += [(how, True, "f64"), (how, True, OTHER_DTYPES[(h + j) % 3])]
    out.append((REALISATIONS[h % 3], False, "f64"))
    return out


def replay_free_group(args):
    """S->C: one irregular vertex/index array of the machine and its behaviours (nbr, nbr-nbr, up, up-up, up-nbr, obs,
    up-obs), in several realisations; realisations that differ only in the dtype hold the SAME vertices."""
    v, ix, paths, seed, variants = args
    recs = []
    maxres = 0.0
    h = _hash_rng(seed, [x for p_ in v for x in p_] + [x for t in ix for x in t])
    if variants is None or isinstance(variants, bool):
        variants = free_variants(h, bool(variants) if variants is not None else True)
    I0 = [[int(j) - 1 for j in t] for t in ix]
    vf = [[FREE_FINE * int(x), FREE_FINE * int(y)] for x, y in v]
    for how, whole, dt in variants:
        rng = np.random.default_rng([h, REALISATIONS.index(how), int(whole)])  # the same frame and orders for every dtype
        lat = free_lattice(rng, whole=whole, fine=FREE_FINE)
        base = {"p": "C20", "dt": dt, "g": {"kind": "free-beh", "v": v, "ix": ix, "how": how, "whole": bool(whole), "dt": dt,
                                           "frame": lat.describe()}}
        obj, rs, given = realise_free(lat, vf, I0, how, rng, base, "free", dt=dt, fine=FREE_FINE)
        recs.extend(rs)
        st0 = State(lat, None, obj)
        recs.extend(construct_records(st0, "free", dict(base, path=[]), given=given))
        memo = {(): st0}
        key = lambda p: tuple(s_["a"] for s_ in p)
        for p_ in sorted(paths, key=len):
            parent = memo.get(key(p_[:-1]))
            if parent is None:
                raise core.MachineryError(f"behaviour {p_} of array {v},{ix} has no dumped prefix")
            ns, rs = apply_step(parent, p_[-1], "free", dict(base, path=p_), rng)
            if ns is not None:
                memo[key(p_)] = ns
            recs.extend(rs)
        maxres = max(maxres, lat.max_res)
    return recs, maxres


def free_inputs(fams):
    """The arrays Triangles.tla enumerates for FreeFamilies (same definition, used to cross-check the number of initial states)."""
    import itertools

    out = set()
    for gx, gy, nv, nt in fams:
        pts = sorted((x, y) for x in range(-(gx // 2), gx - gx // 2) for y in range(-(gy // 2), gy - gy // 2))
        for Vs in itertools.combinations(pts, nv):
            tr = [t for t in itertools.combinations(range(nv), 3) if _nondeg(Vs[t[0]], Vs[t[1]], Vs[t[2]])]
            for n in range(2, min(nt, len(tr)) + 1):
                for I in itertools.combinations(tr, n):
                    if len({j for t in I for j in t}) == nv:
                        out.add((Vs, I))
    return out


# ------------------------------------------------------------------------------------------------
# C->S: seeded random larger instances
# ------------------------------------------------------------------------------------------------
def _inside_open(q, t):
    def cr(a, b, c):
        return (b[0] - a[0]) * (c[1] - a[1]) - (b[1] - a[1]) * (c[0] - a[0])

    s = cr(t[0], t[1], t[2])
    if s == 0:
        return False
    s = 1 if s > 0 else -1
    return s * cr(t[0], t[1], q) > 0 and s * cr(t[1], t[2], q) > 0 and s * cr(t[2], t[0], q) > 0


def _random_queries(rng, tris, m):
    qs = []
    for _ in range(m):
        t = tris[int(rng.integers(0, len(tris)))]
        xs, ys = [v[0] for v in t], [v[1] for v in t]
        for _try in range(30):
            q = [int(rng.integers(min(xs), max(xs) + 1)), int(rng.integers(min(ys), max(ys) + 1))]
            if _inside_open(q, t) or _try == 29:
                break
        qs.append(q)
    return qs


def random_instance(args):
    """One seeded random instance beyond the exhaustive bound; returns its records."""
    from autoarray.structures.triangles.coordinate_array import CoordinateArrayTriangles
    from autoarray.structures.triangles.array import ArrayTriangles

    seed, k = args
    if k < 0:  # the additional irregular vertex/index arrays
        rng = np.random.default_rng([seed, -k, 21])
        fam = "irregular"
    else:
        rng = np.random.default_rng([seed, k, 20])
        fam = ("coords", "coords", "limits-coord", "limits-array", "free", "irregular")[k % 6]
    g = {"kind": "rand", "seed": seed, "k": k, "family": fam}
    base = {"p": "C20", "dt": "f64", "g": g, "path": []}
    side = SIDES[int(rng.integers(0, len(SIDES)))] if rng.random() < 0.5 else float(rng.uniform(0.05, 3.0))
    recs = []
    if fam == "coords":
        R = int(rng.choice([2, 4, 12, 40]))
        n = int(rng.integers(1, min(24, (2 * R + 1) ** 2) + 1))
        cells = rng.choice((2 * R + 1) ** 2, size=n, replace=False)
        c = [[int(v // (2 * R + 1)) - R, int(v % (2 * R + 1)) - R] for v in cells]
        fl = bool(rng.integers(0, 2))
        xo, yo = float(rng.uniform(-3, 3)), float(OFFSETS[int(rng.integers(0, len(OFFSETS)))])
        lat = Lat.equilateral(side, xo, yo)
        obj = CoordinateArrayTriangles(coordinates=np.array(c, dtype=int if rng.random() < 0.5 else float), side_length=side,
                                       x_offset=xo, y_offset=yo, flipped=fl)
        st = State(lat, obj, obj.with_vertices(obj.vertices))
        src = "coords"
        recs += construct_records(st, src, base, model={"c": c, "fl": fl, "w": F0, "xo": 0, "yo": 0})
    elif fam == "limits-coord":
        lim = np.sort(np.stack([rng.choice(LIMITS, size=2, replace=False) for _ in range(2)]), axis=1)
        scale = float(rng.choice([0.5, 1.0, 0.7, 0.4, 1.5]))
        while True:
            obj = CoordinateArrayTriangles.for_limits_and_scale(float(lim[0, 0]), float(lim[0, 1]), float(lim[1, 0]), float(lim[1, 1]), scale)
            if len(obj) <= 60:
                break
            scale *= 2.0
        lat = Lat.equilateral(scale, 0.0, 0.0)
        st = State(lat, obj, obj.with_vertices(obj.vertices))
        src = "limits"
        c = np.asarray(obj.coordinates).astype(int).tolist()
        recs += construct_records(st, src, base, model={"c": c, "fl": False, "w": F0, "xo": 0, "yo": 0})
    elif fam == "limits-array":
        lim = np.sort(np.stack([rng.choice(LIMITS, size=2, replace=False) for _ in range(2)]), axis=1)
        scale = float(rng.choice([0.5, 1.0, 0.7, 0.4, 1.5]))
        y_min, y_max, x_min, x_max = float(lim[0, 0]), float(lim[0, 1]), float(lim[1, 0]), float(lim[1, 1])
        while True:
            obj = ArrayTriangles.for_limits_and_scale(y_min, y_max, x_min, x_max, scale)
            if np.asarray(obj.indices).size == 0:
                return []  # limits narrower than one row of triangles: the empty set is not an input of the property
            if len(obj) <= 60:
                break
            scale *= 2.0
        lat = Lat.equilateral(scale, x_min, y_min, swap=True)
        st = State(lat, None, obj)
        src = "limits"
        recs += construct_records(st, src, base)
    elif fam == "irregular":
        return irregular_instance(rng, base)
    else:
        # free vertex arrays on an integer grid (multiples of 4: two up-samplings stay on the grid); triangles may overlap
        nv = int(rng.integers(3, 9))
        while True:
            V = rng.integers(-12, 13, size=(nv, 2)) * 4
            if len({tuple(v) for v in V.tolist()}) == nv:
                break
        I = []
        for _ in range(int(rng.integers(1, 9))):
            for _try in range(50):
                t = rng.choice(nv, size=3, replace=False)
                a, b, cc = V[t[0]], V[t[1]], V[t[2]]
                if (b[0] - a[0]) * (cc[1] - a[1]) - (b[1] - a[1]) * (cc[0] - a[0]) != 0:
                    I.append([int(x) for x in t])
                    break
        if not I:
            return []
        lat = free_lattice(rng, fine=4)
        ux, uy, ox, oy = lat.ux, lat.uy, lat.ox, lat.oy
        dt = str(rng.choice(["f64", "i64", "i32", "f32"])) if lat.whole else "f64"
        base = dict(base, dt=dt, g=dict(g, dt=dt))
        verts = cast(np.stack([ox + V[:, 0] * ux, oy + V[:, 1] * uy], axis=1), dt)
        obj = ArrayTriangles(indices=np.array(I), vertices=verts)
        st = State(lat, None, obj)
        src = "free"
        recs += construct_records(st, src, base, given=(V.tolist(), I))
    n0 = len(st.tris(st.reps()[0])[0])
    if n0 == 0 or n0 > 60:
        return recs
    ups, path = 0, []
    for _ in range(int(rng.integers(1, 4))):
        n = len(st.tris(st.reps()[0])[0])
        ops = ["sel", "obs"]
        if ups < MAXLEVEL and n <= (40 if ups == 0 else 28):
            ops += ["up", "up"]
        if n <= 40:
            ops += ["nbr"]
        a = ops[int(rng.integers(0, len(ops)))]
        if a == "obs":
            step = {"a": "obs", "t": [], "q": _random_queries(rng, st.tris(st.reps()[0])[0], 6)}
            _, rs = apply_step(st, step, src, dict(base, path=path + [step]), rng)
            recs += rs
            continue
        step = {"a": a, "t": [], "q": []}
        if a == "sel":
            m = int(rng.integers(1, n + 1))
            step["idx"] = [int(x) for x in rng.choice(n, size=m, replace=False)]
        path = path + [step]
        ns, rs = apply_step(st, step, src, dict(base, path=path), rng)
        recs += rs
        st = ns
        ups += a == "up"
    step = {"a": "obs", "t": [], "q": _random_queries(rng, st.tris(st.reps()[0])[0], 4)}
    _, rs = apply_step(st, step, src, dict(base, path=path + [step]), rng)
    recs += rs
    return recs


def irregular_instance(rng, base):
    """3..8 irregular triangles on small integer vertices (shared / unshared vertices, elongated, overlapping), realised
    directly, through with_vertices, through for_indexes, or as a CoordinateArrayTriangles whose vertices are replaced by
    distorted ones; then neighborhood (twice for small sets), sometimes after an index selection."""
    from autoarray.structures.triangles.coordinate_array import CoordinateArrayTriangles

    lat = free_lattice(rng)
    recs = []
    how = ("direct", "with_vertices", "for_indexes", "distorted")[int(rng.integers(0, 4))]
    dt = str(rng.choice(["f64", "i64", "i32", "f32"])) if lat.whole else "f64"
    base = dict(base, dt=dt, g=dict(base["g"], how=how, dt=dt))
    if how == "distorted":
        # a regular lattice set in the coordinate representation; its vertex array is replaced by integer points
        n = int(rng.choice([3, 4, 5, 6, 7, 8], p=[0.1, 0.1, 0.1, 0.2, 0.25, 0.25]))
        R = int(rng.choice([1, 2, 3]))
        cells = rng.choice((2 * R + 1) ** 2, size=min(n, (2 * R + 1) ** 2), replace=False)
        c = np.array([[int(v // (2 * R + 1)) - R, int(v % (2 * R + 1)) - R] for v in cells])
        reg = CoordinateArrayTriangles(coordinates=c, side_length=1.0, flipped=bool(rng.integers(0, 2)))
        nv = len(reg.vertices)
        for _try in range(200):
            V = rng.integers(-4, 5, size=(nv, 2))
            if len({tuple(p) for p in V.tolist()}) == nv and all(_nondeg(V[t[0]], V[t[1]], V[t[2]]) for t in np.asarray(reg.indices)):
                break
        else:
            return []
        given = (V.tolist(), np.asarray(reg.indices).tolist())
        obj = reg.with_vertices(cast(np.array([lat.gamma(int(x), int(y)) for x, y in V], dtype=float), dt))
        src = "distorted"
    else:
        nt = int(rng.choice([3, 4, 5, 6, 7, 8], p=[0.1, 0.1, 0.1, 0.2, 0.25, 0.25]))  # larger sets: more vertex positions
        nv = int(rng.integers(4, 8))
        rx, ry = (int(rng.choice([2, 3, 5])), int(rng.choice([1, 2, 3])))
        for _try in range(200):
            V = np.stack([rng.integers(-rx, rx + 1, size=nv), rng.integers(-ry, ry + 1, size=nv)], axis=1)
            if len({tuple(p) for p in V.tolist()}) == nv:
                break
        else:
            return []
        I = set()
        for _try in range(200):
            t = tuple(sorted(int(x) for x in rng.choice(nv, size=3, replace=False)))
            if _nondeg(V[t[0]], V[t[1]], V[t[2]]):
                I.add(t)
            if len(I) == nt:
                break
        if len(I) < 2:
            return []
        used = sorted({j for t in I for j in t})
        remap = {j: k_ for k_, j in enumerate(used)}
        V = V[used]
        I = [[remap[j] for j in t] for t in sorted(I)]
        obj, rs, given = realise_free(lat, V.tolist(), I, how, rng, base, "free", dt=dt)
        recs += rs
        src = "free"
    st = State(lat, None, obj)
    recs += construct_records(st, src, base, given=given)
    path = []
    if rng.random() < 0.3 and len(st.tris("array")[0]) > 3:
        n = len(st.tris("array")[0])
        step = {"a": "sel", "t": [], "q": [], "idx": [int(x) for x in rng.choice(n, size=int(rng.integers(2, n)), replace=False)]}
        path = path + [step]
        st, rs = apply_step(st, step, src, dict(base, path=path), rng)
        recs += rs
    for _ in range(2):
        if len(st.tris("array")[0]) > 16:
            break
        step = {"a": "nbr", "t": [], "q": []}
        path = path + [step]
        st, rs = apply_step(st, step, src, dict(base, path=path), rng)
        recs += rs
    return recs


def _rand_many(args):
    seed, ks = args
    out = []
    for k in ks:
        out.extend(random_instance((seed, k)))
    return out


# ------------------------------------------------------------------------------------------------
# validation through Trace_Triangles
# ------------------------------------------------------------------------------------------------
def _weight(r):
    n = len(r.get("pre", r.get("tris", []))) + len(r.get("post", []))
    return 1 + n * n // 40


def validate(ctx, records, tag, per_chunk=60000, max_chunks=12):
    """Validate records through Trace_Triangles (a few parallel TLC processes: a JVM start costs more than ~3000 records)."""
    import concurrent.futures as cf

    for n, r in enumerate(records):
        r["id"] = n
    weights = [_weight(r) for r in records]
    nch = max(1, min(max_chunks, -(-sum(weights) // per_chunk)))
    target = sum(weights) / nch
    chunks, cur, wsum = [], [], 0
    for r, w in zip(records, weights):
        cur.append(r)
        wsum += w
        if wsum >= target and len(chunks) < nch - 1:
            chunks.append(cur)
            cur, wsum = [], 0
    if cur:
        chunks.append(cur)
    rejects = []

    def one(a):
        k, ch = a
        slim = [{kk: v for kk, v in r.items() if kk not in ("g", "path")} for r in ch]
        _, rej = ctx.validate_trace("Trace_Triangles", TRACE_CFG, slim, tag=f"{tag}-{k}", timeout=1800)
        return rej

    with cf.ThreadPoolExecutor(max_workers=min(16, len(chunks) or 1)) as ex:
        for rej in ex.map(one, list(enumerate(chunks))):
            rejects.extend(rej)
    for rj in rejects:
        rec = records[rj["id"]]
        g = rec.get("g", {})
        path = [s["a"] for s in rec.get("path", [])]
        if g.get("kind") == "beh":
            where = f"coords={g.get('c')} flipped={g.get('fl')} side={g.get('side')} offsets=({g.get('xo')},{g.get('yo')})"
        elif g.get("kind") == "free-beh":
            where = f"vertex array vertices={g.get('v')} indices(1-based)={g.get('ix')} built {g.get('how')} dtype={g.get('dt')} frame={g.get('frame')}"
        else:
            where = f"random instance k={g.get('k')} family={g.get('family')}" + (f" built {g.get('how')}" if g.get("how") else "") + (f" dtype={g.get('dt')}" if g.get("dt") else "")
        want = rj.get("want")
        if len(json.dumps(want)) > 4000:
            want = "(large; re-run the replay file)"
        ctx.violation(rj["sig"],
                      f"{rec['api']} on the {rec['rep']} form after calls {path} of {where}: failed {rj['clauses']}",
                      {"record": rec, "failed_clauses": rj["clauses"], "spec_wanted": want},
                      cls=",".join(rj["clauses"]))
    return rejects


# ------------------------------------------------------------------------------------------------
# entry points
# ------------------------------------------------------------------------------------------------
def _replay_any(args):
    c, fl, v, ix, paths, seed, hows = args
    if v:
        return replay_free_group((v, ix, paths, seed, hows))
    return replay_group((c, fl, paths, seed))


def _tla_families(fams):
    return "{" + ", ".join(f"<<{r},{n}>>" for r, n in fams) + "}"


def _expected_inits(fams):
    total = 0
    for n in range(1, max(f[1] for f in fams) + 1):
        r = max(f[0] for f in fams if f[1] >= n)
        total += math.comb((2 * r + 1) ** 2, n)
    return 2 * total


def enumerate_behaviours(ctx, fams, free_fams, maxpath, maxlenup, maxlenobs, maxlensel, selallmax, tag="MC_Triangles", timeout=3000):
    cfg = MC_CFG.format(maxlevel=MAXLEVEL, maxpath=maxpath, maxlenup=maxlenup, maxlenobs=maxlenobs, maxlensel=maxlensel, selallmax=selallmax)
    defs = (f"MCFamilies == {_tla_families(fams)}\n"
            f"MCFreeFamilies == {{{', '.join('<<%d,%d,%d,%d>>' % tuple(f) for f in free_fams)}}}")
    res = ctx.tlc("Triangles", cfg, defs=defs, tag=tag, timeout=timeout)
    beh = res.by_kind("beh")
    expected = (_expected_inits(fams) if fams else 0) + len(free_inputs(free_fams))
    if res.init_states != expected or len(beh) != res.distinct - res.init_states:
        raise core.MachineryError(f"Triangles.tla: {res.init_states} initial states (expected {expected}), "
                                  f"{len(beh)} behaviours dumped for {res.distinct} states")
    groups = {}
    for b in beh:
        groups.setdefault((json.dumps(b["c"]), bool(b["fl"]), json.dumps(b["v"]), json.dumps(b["ix"])), []).append(b["path"])
    # inputs on which no call is enabled do not exist (Select / NeighborhoodVI are enabled initially), so every initial
    # state has a group
    if len(groups) != res.init_states:
        raise core.MachineryError(f"{len(groups)} replay groups for {res.init_states} initial states")
    return [(json.loads(c), fl, json.loads(v), json.loads(ix), paths) for (c, fl, v, ix), paths in groups.items()], len(beh)


def run(ctx):
    import time

    quick = ctx.quick
    maxlenup, maxlenobs, maxlensel, selallmax = (8 if quick else 12), 4, 16, 4
    if quick:
        runs, nrand, nirr = [([(2, 1), (1, 3)], [(4, 2, 4, 4), (3, 2, 6, 2)], 3)], 240, 160
    else:
        # (families, irregular-array families, calls per behaviour): deep behaviours on <=2 triangles in (-3..3)^2 and <=3 in
        # (-1..1)^2, every single call on every set of <=3 triangles in (-2..2)^2
        runs, nrand, nirr = [([(3, 2), (1, 3)], [(3, 3, 4, 4), (5, 2, 4, 4), (3, 3, 6, 2)], 3), ([(2, 3)], [(3, 3, 5, 2)], 1)], 2400, 1600
    ctx.bounds = {"machine_runs_(families_(range,max_triangles),irregular_array_families_(gx,gy,vertices,max_triangles),calls_per_behaviour)": runs,
                  "flipped": [False, True],
                  "up_samplings": f"0..{MAXLEVEL}", "up/nbr_on_sets_up_to": maxlenup, "containment_on_sets_up_to": maxlenobs,
                  "for_indexes_on_sets_up_to": maxlensel, "all_index_subsets_up_to": selallmax,
                  "queries": "all quarter-unit lattice points strictly inside a triangle, as Point and (by turn) Circle/Square/Polygon/Triangle",
                  "irregular_arrays": "every array of nv distinct points of an origin-straddling integer grid with 2..nt non-degenerate "
                                      "triangles using all of them; neighborhood, its neighbourhood, up_sample (twice for small sets), "
                                      "up_sample+neighborhood, containing_indices on all half-step points inside a triangle; realised directly / "
                                      "via with_vertices / via for_indexes " + ("(one way per array, by turn)" if quick else "(all three ways)"),
                  "vertex_array_representations": "two thirds of the arrays (quick; all in thorough) get a whole-number frame (grid step 1, 2 or 3, "
                                                  "integer origin) and are given as float64 AND as int64 / int32 / float32 (by turn) holding the same "
                                                  "vertices; lists are not usable as vertex arrays (TypeError in .triangles) and are not exercised",
                  "random_instances": nrand, "additional_random_irregular_arrays_(3..8_triangles)": nirr, "sides": SIDES + ["uniform(0.05,3)"], "offsets": OFFSETS + ["uniform(-3,3)"],
                  "tolerance_fine_units": TOL}
    t0 = time.time()
    merged, nbeh = {}, 0
    for k, (fams, free_fams, maxpath) in enumerate(runs):
        groups, nb = enumerate_behaviours(ctx, fams, free_fams, maxpath, maxlenup, maxlenobs, maxlensel, selallmax, tag=f"MC_Triangles_{k}")
        for c, fl, v, ix, paths in groups:
            have = merged.setdefault((json.dumps(c), fl, json.dumps(v), json.dumps(ix)), {})
            for p in paths:
                have.setdefault(json.dumps(p), p)
        nbeh += nb
    groups = [(json.loads(c), fl, json.loads(v), json.loads(ix), list(paths.values())) for (c, fl, v, ix), paths in merged.items()]
    nbeh_distinct = sum(len(g[4]) for g in groups)
    calls = {}
    for g in groups:
        for p in g[4]:
            name = p[-1]["a"] + ("(irregular array)" if g[2] else "")
            calls[name] = calls.get(name, 0) + 1
    ctx.note(f"machine transitions by action (all replayed): {calls}")
    t1 = time.time()
    ctx.exhaustive = True
    maxres, nb, nrec, t_replay, t_valid, sampled = 0.0, 0, 0, 0.0, 0.0, set()

    def take_samples(recs):
        for want in ("up", "contain", "nbr"):
            if want not in sampled:
                for r in recs:
                    if r["api"] == want and len(r.get("pre", r.get("tris"))) <= 2 and (want != "nbr" or r["src"] == "free"):
                        r = {k: v for k, v in r.items() if k != "path"}
                        if want == "contain":  # first queries only
                            r["shapes"], r["reported"], r["truncated_from"] = r["shapes"][:6], r["reported"][:6], len(r["shapes"])
                        ctx.sample(r)
                        sampled.add(want)
                        break

    # batches keep the memory of the recorded calls bounded; every batch (behaviours of up to 1200 initial inputs plus
    # the records of up to 1000 random instances) is validated by its own TLC processes
    groups.sort(key=lambda g: (len(g[0]), g[0], g[1], g[2], g[3]))
    hows = bool(quick)  # free_variants(h, quick): which realisations / dtypes every enumerated array gets
    batch = 1200
    ks = list(range(nrand)) + [-(j + 1) for j in range(nirr)]
    rand_batches = [ks[b : b + 1000] for b in range(0, len(ks), 1000)]
    nbatches = max(-(-len(groups) // batch), len(rand_batches))
    for b in range(nbatches):
        ta = time.time()
        recs = []
        for part, mr in core.pmap(_replay_any, [(c, fl, v, ix, paths, ctx.seed, hows) for c, fl, v, ix, paths in groups[b * batch : (b + 1) * batch]], chunksize=4):
            recs.extend(part)
            maxres = max(maxres, mr)
        nb += len(recs)
        if b < len(rand_batches):
            sub = rand_batches[b]
            for part in core.pmap(_rand_many, [(ctx.seed, sub[j::64]) for j in range(64)], chunksize=1):
                recs.extend(part)
                nrec += len(part)
        tb = time.time()
        take_samples(recs)
        validate(ctx, recs, f"C20-b{b}")
        t_replay += tb - ta
        t_valid += time.time() - tb
    ctx.replayed = nbeh_distinct
    ctx.note(f"phases: TLC machine {t1 - t0:.0f}s, replay into the implementation {t_replay:.0f}s, trace validation {t_valid:.0f}s")
    ctx.note(f"{len(groups)} initial inputs, {nbeh_distinct} distinct behaviours ({nbeh} enumerated) replayed -> {nb} records; {nrand} + {nirr} (irregular arrays) random instances -> {nrec} records; "
             f"largest lattice residual seen in the exhaustive part {maxres:.2e} fine units (tolerance {TOL})")
    ctx.assumptions = [
        "triangles are compared as vertex sets on the instance's fine lattice; a vertex further than 1e-9 fine units from the lattice is a rejection (on-lattice clause)",
        "the integer-coordinate form is read as the lattice of DESIGN section 4 (vertices (cx,2cy+f),(cx+-f,2cy-f) in units (s/2, s*sqrt(3)/4) plus offsets)",
        "neighbourhoods are compared as sets, selections and representations as multisets, containment one-directionally (reference point strictly inside => reported)",
        "on an arbitrary vertex array the edge-reflected neighbour is the triangle sharing the edge with the opposite vertex at b + c - a (half-turn about the edge midpoint; "
        "the mirror image for the equilateral sets of the property's quantifier, checked there); irregular arrays (ArrayTriangles(indices, vertices), with_vertices) are taken "
        "to be in scope of the vertex-array representation although the quantifier lists only the regular producers",
        "the count of a neighbourhood (every neighbour once) is demanded only where the instance's arithmetic is exact (integer coordinates; dyadic units and origin), "
        "because coincident vertices are only claimed up to a floating-point tolerance",
        "the JAX variants (jax_array.py, jax_coordinate_array.py) are not importable here and are not exercised",
    ]


def replay(ctx, rp):
    rec = rp["record"]
    g = rec["g"]
    path = rec.get("path", [])
    paths = [path[:k] for k in range(1, len(path) + 1)]
    if g["kind"] == "beh":
        recs, _ = replay_group((g["c"], g["fl"], paths, ctx.seed))
    elif g["kind"] == "free-beh":
        paths = [p for p in paths if p[0]["a"] != "sel"]  # (the selection of the for_indexes realisation is re-made by it)
        recs, _ = replay_free_group((g["v"], g["ix"], paths, ctx.seed, [(g["how"], g.get("whole", False), g.get("dt", "f64"))]))
    else:
        recs = random_instance((g["seed"], g["k"]))
    rej = validate(ctx, recs, "C20-replay")
    print("replayed", len(recs), "records; rejected:", [(records_api(recs, r["id"]), r["clauses"]) for r in rej])
    return ctx.finish()


def records_api(recs, k):
    return f"{recs[k]['api']}/{recs[k]['rep']}"
