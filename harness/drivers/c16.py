"""C16 -- FITS output followed by input reproduces values, orientation and pixel scale.

Fits.tla is a history machine (file system, DS9 flip option, in-memory HDUs). TLC explores it exhaustively to a depth
and simulates longer behaviours; every simulated behaviour is replayed into the real API in a fresh directory (S->C) and the
recorded calls -- plus seeded random longer histories over more contents and paths (C->S) -- are validated by Trace_Fits.tla."""
import json
import os
import shutil
import tempfile

import numpy as np

from harness import core

# ---- concrete tables behind the opaque content ids ------------------------------------------------------------
KINDS = {"P": "Array2D", "A": "Array2D", "B": "Array2D", "C": "Array2D", "D": "Array2D", "E": "Array2D", "M": "Mask2D", "N": "Mask2D",
         "K": "Kernel2D", "J": "Kernel2D", "L": "Array1D", "Q": "Mask1D"}
TRIPLES = [("A", "J", "E"), ("E", "J", "E")]  # (data, psf, noise map): same shape, positive noise, psf summing to one exactly
ANISO = {"B", "N", "D", "K"}  # B: x scale larger; N, D, K: y scale larger
SCALES = {"A": (0.5, 0.5), "B": (1.0, 2.0), "C": (0.1, 0.1), "D": (2.0, 1.0), "M": (0.25, 0.25), "N": (1.5, 0.5),
          "K": (0.75, 0.25), "L": (0.2,), "Q": (2.0,), "E": (0.5, 0.5), "J": (0.5, 0.5), "P": (0.5, 0.5)}
PATHS = {"nested": ("sub", "new", "a.fits"), "existing": ("ex", "b.fits"), "bare": ("c.fits",),
         "nested2": ("sub", "other", "deep", "d.fits"), "existing2": ("ex", "e.fits"), "bare2": ("f.fits",),
         "img_data": ("img", "data.fits"), "img_psf": ("img", "psf", "psf.fits"), "img_noise": ("noise_map.fits",)}
DIROF = {"nested": {"sub", "sub/new"}, "existing": {"ex"}, "bare": set(), "nested2": {"sub", "sub/other", "sub/other/deep"},
         "existing2": {"ex"}, "bare2": set(), "img_data": {"img"}, "img_psf": {"img", "img/psf"}, "img_noise": set()}


def _content(cid):
    """concrete native values (and mask) of a content id; asymmetric, non-square, mixed magnitudes"""
    if cid == "A":
        return np.array([[1.5, -2.0, 3.25], [4e-300, 5e300, -6.0]]), None
    if cid == "B":
        v = np.array([[1.0, 2.0], [-3.0, 4.5], [5.0, 6.0]])
        m = np.array([[False, True], [False, False], [True, False]])
        return v, m
    if cid == "C":
        return np.array([[1.0, -7.0, 3.0, 9.5]]), None
    if cid == "D":
        return np.array([[2.0], [-4.0], [8.0], [16.5]]), None
    if cid == "M":
        return np.array([[False, True], [True, True], [False, False]]), None
    if cid == "N":
        return np.array([[True, False, False, True], [False, False, True, True]]), None
    if cid == "K":
        return np.array([[1.0, 2.0, 3.0], [-4.0, 5.0, 6.0], [7.0, 8.0, 9.5]]), None
    if cid == "E":
        return np.array([[0.5, 2.0, 0.25], [4.0, 1.5, 3.0]]), None
    if cid == "P":  # a masked array held in NATIVE storage that went through arithmetic (values + 10) before output
        v = np.array([[11.0, 12.5, 13.0], [14.0, 15.0, 16.25], [17.0, 18.0, 19.0]])
        m = np.array([[False, True, False], [False, False, True], [True, False, False]])
        return v, m
    if cid == "J":
        return np.array([[0.0625, 0.125, 0.0625], [0.125, 0.25, 0.0], [0.0625, 0.25, 0.0625]]), None
    if cid == "L":
        return np.array([1.0, -2.0, 3.5, 4.0, 50.0]), None
    if cid == "Q":
        return np.array([False, True, True, False]), None
    raise KeyError(cid)


def _expected_native(cid):
    v, m = _content(cid)
    if m is not None:
        v = np.where(m, 0.0, v)
    return v


def _obj(cid):
    import autoarray as aa

    kind = KINDS[cid]
    v, m = _content(cid)
    sc = SCALES[cid]
    if kind == "Array2D":
        if m is None:
            return aa.Array2D.no_mask(values=v, pixel_scales=sc)
        if cid == "P":
            return aa.Array2D(values=v - 10.0, mask=aa.Mask2D(mask=m, pixel_scales=sc), store_native=True) + 10.0
        return aa.Array2D(values=v, mask=aa.Mask2D(mask=m, pixel_scales=sc))
    if kind == "Mask2D":
        return aa.Mask2D(mask=v, pixel_scales=sc)
    if kind == "Kernel2D":
        return aa.Kernel2D.no_mask(values=v, pixel_scales=sc)
    if kind == "Array1D":
        return aa.Array1D.no_mask(values=v, pixel_scales=sc[0])
    if kind == "Mask1D":
        return aa.Mask1D(mask=v, pixel_scales=sc[0])
    raise KeyError(kind)


def _identify(values, contents):
    """alpha: returned native values -> (content id, flipped?) by exact comparison with the table."""
    a = np.asarray(values)
    for c in contents:
        e = _expected_native(c)
        if a.shape == e.shape and a.dtype.kind == e.dtype.kind or (a.shape == e.shape and e.dtype.kind == "f" and a.dtype.kind == "f"):
            if np.array_equal(a, e):
                return c, False
            if e.ndim >= 1 and np.array_equal(a, np.flipud(e)):
                return c, True
    return "unknown", False


def _scan(root, pathids, contents):
    """projection of the real file system: path id -> content id (up to orientation) / 'none'; existing directories"""
    from astropy.io import fits

    files = {}
    for pid in pathids:
        fp = os.path.join(root, *PATHS[pid])
        if not os.path.exists(fp):
            files[pid] = "none"
            continue
        with fits.open(fp) as hl:
            raw = np.array(hl[0].data)
        found = "unknown"
        for c in contents:
            e = _expected_native(c).astype(float)
            if raw.shape == e.shape and (np.array_equal(raw, e) or np.array_equal(raw, np.flipud(e))):
                found = c
                break
        files[pid] = found
    dirs = []
    for d, _, _ in os.walk(root):
        rel = os.path.relpath(d, root)
        if rel != ".":
            dirs.append(rel.replace(os.sep, "/"))
    return files, sorted(dirs)


def _read(kind, fp, cid_hint_scales):
    import autoarray as aa

    if kind == "Array2D":
        return aa.Array2D.from_fits(file_path=fp, pixel_scales=cid_hint_scales, hdu=0)
    if kind == "Kernel2D":
        return aa.Kernel2D.from_fits(file_path=fp, hdu=0, pixel_scales=cid_hint_scales)
    if kind == "Mask2D":
        return aa.Mask2D.from_fits(file_path=fp, pixel_scales=cid_hint_scales, hdu=0)
    if kind == "Array1D":
        return aa.Array1D.from_fits(file_path=fp, pixel_scales=cid_hint_scales[0], hdu=0)
    if kind == "Mask1D":
        return aa.Mask1D.from_fits(file_path=fp, pixel_scales=cid_hint_scales[0], hdu=0)
    raise KeyError(kind)


def _flag(on, k):
    """the overwrite flag in the forms a caller may hold it in: the bool singletons, numpy booleans, 0 / 1"""
    on = bool(on)
    return [on, np.bool_(on), int(on), np.any(np.array([on])), on][k % 5]


def _native_values(kind, obj):
    if kind in ("Mask2D", "Mask1D"):
        return np.asarray(obj).astype(bool)
    return np.asarray(obj.native.array if hasattr(obj, "native") else obj)


def _hdu_in(kind, h):
    import autoarray as aa

    cls = {"Array2D": aa.Array2D, "Kernel2D": aa.Kernel2D, "Mask2D": aa.Mask2D, "Array1D": aa.Array1D, "Mask1D": aa.Mask1D}[kind]
    return cls.from_primary_hdu(primary_hdu=h)


def execute(history, contents, pathids):
    """Run one history of calls against the real library in a fresh directory; return the trace records."""
    from autoconf import conf

    root = tempfile.mkdtemp(prefix="c16-", dir=str(core.WORK))
    old_cwd = os.getcwd()
    old_flip = conf.instance["general"]["fits"]["flip_for_ds9"]
    recs = []
    hdus = []
    try:
        os.chdir(root)
        os.makedirs(os.path.join(root, "ex"))
        for ev in history:
            a = ev["a"]
            r = dict(ev)
            if a == "Start":
                # new episode: wipe files, keep directory 'ex'
                for d in os.listdir(root):
                    pth = os.path.join(root, d)
                    if d != "ex":
                        shutil.rmtree(pth) if os.path.isdir(pth) else os.remove(pth)
                for f in os.listdir(os.path.join(root, "ex")):
                    os.remove(os.path.join(root, "ex", f))
                hdus = []
                conf.instance["general"]["fits"]["flip_for_ds9"] = bool(ev["b"])
            elif a == "SetFlip":
                conf.instance["general"]["fits"]["flip_for_ds9"] = bool(ev["b"])
            elif a == "Write":
                parts = PATHS[ev["p"]]
                fp = parts[0] if len(parts) == 1 else os.path.join(root, *parts)  # a bare file name resolves in cwd
                ok = True
                err = ""
                try:
                    _obj(ev["c"]).output_to_fits(file_path=fp, overwrite=_flag(ev["ow"], len(recs)))
                except Exception as e:  # the error path is an outcome, not a crash
                    ok = False
                    err = type(e).__name__
                r["ok"] = ok
                r["err"] = err
                r["files"], r["dirs"] = _scan(root, pathids, contents)
            elif a == "Read":
                parts = PATHS[ev["p"]]
                fp = parts[0] if len(parts) == 1 else os.path.join(root, *parts)
                files0, _ = _scan(root, pathids, contents)
                wc = files0.get(ev["p"], "none")
                sc = SCALES.get(wc, (1.0, 1.0))
                sc = sc if len(sc) == 2 else (sc[0], sc[0])
                try:
                    o = _read(ev["kind"], fp, sc)
                    vals = _native_values(ev["kind"], o)
                    cid, fl = _identify(vals, contents)
                    extra = True
                    if ev["kind"] in ("Mask2D", "Mask1D"):
                        extra = vals.dtype == bool
                    if ev["kind"] == "Mask2D":
                        # options of Mask2D.from_fits: invert gives the complementary booleans, resized_mask_shape the
                        # centred resize (C14) of the mask read without it
                        import autoarray as aa

                        inv = aa.Mask2D.from_fits(file_path=fp, pixel_scales=sc, hdu=0, invert=True)
                        extra = extra and np.array_equal(np.asarray(inv).astype(bool), ~vals)
                        tgt = (vals.shape[0] + 2, vals.shape[1] + 1)
                        rs = aa.Mask2D.from_fits(file_path=fp, pixel_scales=sc, hdu=0, resized_mask_shape=tgt)
                        extra = extra and np.array_equal(np.asarray(rs).astype(bool), np.asarray(o.resized_from(new_shape=tgt)).astype(bool))
                        # both options together: the booleans read back are inverted, THEN resized (padding is unmasked = False,
                        # as for the plain resize), for an enlarging and for a trimming target
                        inv_o = aa.Mask2D(mask=~vals, pixel_scales=sc)
                        for tgt2 in (tgt, (max(1, vals.shape[0] - 1), vals.shape[1] + 2), (max(1, vals.shape[0] - 1), max(1, vals.shape[1] - 1))):
                            both_ = aa.Mask2D.from_fits(file_path=fp, pixel_scales=sc, hdu=0, invert=True, resized_mask_shape=tgt2)
                            extra = extra and np.array_equal(np.asarray(both_).astype(bool), np.asarray(inv_o.resized_from(new_shape=tgt2)).astype(bool))
                    # history: the file is loaded again with OTHER explicit pixel scales (the caller's word beats the stored
                    # card), the loaded object is output once more and read back: values, orientation and the object's own
                    # pixel scales survive (cards of the file it was loaded from do not leak into what it writes)
                    other = (sc[0] * 2.0, sc[1] * 2.0) if sc[0] == sc[1] else (sc[1], sc[0])
                    o2 = _read(ev["kind"], fp, other)
                    o3 = _hdu_in(ev["kind"], o2.hdu_for_output)
                    got3 = tuple(float(x) for x in o3.pixel_scales)
                    want3 = other if ev["kind"] not in ("Array1D", "Mask1D") else (other[0],)
                    extra = extra and np.array_equal(_native_values(ev["kind"], o3), vals) and got3 == tuple(float(x) for x in want3)
                    r["cid"], r["flipped"], r["extra_ok"] = cid, bool(fl), bool(extra)
                except Exception as e:
                    r["cid"], r["flipped"], r["extra_ok"], r["err"] = "error:" + type(e).__name__, False, True, str(e)[:100]
                r["files"], _ = _scan(root, pathids, contents)
            elif a == "WriteMulti":
                from astropy.io import fits

                parts = PATHS[ev["p"]]
                fp = parts[0] if len(parts) == 1 else os.path.join(root, *parts)
                if ev["n1"] <= len(hdus) and ev["n2"] <= len(hdus):
                    h1, h2 = hdus[ev["n1"] - 1][1], hdus[ev["n2"] - 1][1]
                    if os.path.dirname(fp):
                        os.makedirs(os.path.dirname(fp), exist_ok=True)
                    fits.HDUList([fits.PrimaryHDU(h1.data, h1.header), fits.ImageHDU(h2.data, h2.header)]).writeto(fp, overwrite=True)
                r["files"], r["dirs"] = _scan(root, pathids, contents)
            elif a == "ReadHdu":
                parts = PATHS[ev["p"]]
                fp = parts[0] if len(parts) == 1 else os.path.join(root, *parts)
                try:
                    import autoarray as aa

                    k = ev["kind"]
                    if k == "Array2D":
                        o = aa.Array2D.from_fits(file_path=fp, pixel_scales=1.0, hdu=ev["hdu"])
                    elif k == "Kernel2D":
                        o = aa.Kernel2D.from_fits(file_path=fp, hdu=ev["hdu"], pixel_scales=1.0)
                    elif k == "Mask2D":
                        o = aa.Mask2D.from_fits(file_path=fp, pixel_scales=1.0, hdu=ev["hdu"])
                    elif k == "Array1D":
                        o = aa.Array1D.from_fits(file_path=fp, pixel_scales=1.0, hdu=ev["hdu"])
                    else:
                        o = aa.Mask1D.from_fits(file_path=fp, pixel_scales=1.0, hdu=ev["hdu"])
                    cid, fl = _identify(_native_values(k, o), contents)
                    r["cid"], r["flipped"] = cid, bool(fl)
                except Exception as e:
                    r["cid"], r["flipped"], r["err"] = "error:" + type(e).__name__, False, str(e)[:100]
                r["files"], _ = _scan(root, pathids, contents)
            elif a == "WriteImaging":
                import autoarray as aa

                ok, err = True, ""
                fps = {}
                for pid in ("img_data", "img_psf", "img_noise"):
                    parts = PATHS[pid]
                    fps[pid] = parts[0] if len(parts) == 1 else os.path.join(root, *parts)
                try:
                    ds = aa.Imaging(data=_obj(ev["cd"]), noise_map=_obj(ev["cn"]), psf=_obj(ev["ck"]), check_noise_map=False)
                    ds.output_to_fits(data_path=fps["img_data"], psf_path=fps["img_psf"], noise_map_path=fps["img_noise"], overwrite=_flag(ev["ow"], len(recs)))
                except Exception as e:
                    ok, err = False, type(e).__name__
                r["ok"], r["err"] = ok, err
                r["files"], r["dirs"] = _scan(root, pathids, contents)
            elif a == "ReadImaging":
                import autoarray as aa

                fps = {}
                for pid in ("img_data", "img_psf", "img_noise"):
                    parts = PATHS[pid]
                    fps[pid] = parts[0] if len(parts) == 1 else os.path.join(root, *parts)
                try:
                    ds = aa.Imaging.from_fits(pixel_scales=0.5, data_path=fps["img_data"], noise_map_path=fps["img_noise"], psf_path=fps["img_psf"])
                    for nm, val in (("data", ds.data.native.array), ("psf", ds.psf.native.array), ("noise", ds.noise_map.native.array)):
                        cid, fl = _identify(np.asarray(val), contents)
                        r[nm + "_cid"], r[nm + "_flipped"] = cid, bool(fl)
                except Exception as e:
                    for nm in ("data", "psf", "noise"):
                        r[nm + "_cid"], r[nm + "_flipped"] = "error:" + type(e).__name__, False
                    r["err"] = str(e)[:100]
            elif a == "HduOut":
                hdus.append((ev["c"], _obj(ev["c"]).hdu_for_output))
            elif a == "HduIn":
                n = ev["n"]
                if n <= len(hdus):
                    c, h = hdus[n - 1]
                    try:
                        o = _hdu_in(ev["kind"], h)
                        vals = _native_values(ev["kind"], o)
                        cid, fl = _identify(vals, contents)
                        want = SCALES[c]
                        want = want if len(want) == 2 else (want[0],)
                        got = tuple(float(x) for x in (o.pixel_scales if hasattr(o, "pixel_scales") else ()))
                        r["scale_ok"] = bool(len(got) == len(want) and all(abs(x - y) < 1e-12 for x, y in zip(got, want)))
                        r["got_scales"] = list(got)
                        r["cid"], r["flipped"], r["extra_ok"] = cid, bool(fl), True
                    except Exception as e:
                        r["cid"], r["flipped"], r["extra_ok"], r["scale_ok"], r["err"] = "error:" + type(e).__name__, False, True, True, str(e)[:100]
                else:
                    r["cid"], r["flipped"], r["extra_ok"], r["scale_ok"] = "none", False, True, True
            recs.append(r)
    finally:
        os.chdir(old_cwd)
        conf.instance["general"]["fits"]["flip_for_ds9"] = old_flip
        shutil.rmtree(root, ignore_errors=True)
    return recs


def _exec_many(args):
    hs, contents, pathids = args
    out = []
    for h in hs:
        out.extend(execute(h, contents, pathids))
    return out


def _defs(contents, pathids, maxhdus, maxdepth):
    q = lambda s: '"' + s + '"'
    sset = lambda xs: "{" + ", ".join(q(x) for x in sorted(xs)) + "}"
    kind = " @@ ".join(f"{q(c)} :> {q(KINDS[c])}" for c in contents)
    dirof = " @@ ".join(f"{q(p)} :> {sset(DIROF[p])}" for p in pathids)
    return "\n".join([
        f"MCContents == {sset(contents)}", f"MCAniso == {sset(set(contents) & ANISO)}", f"MCKindOf == {kind}",
        f"MCPaths == {sset(pathids)}", f"MCDirOf == {dirof}", 'MCInitDirs == {"ex"}',
        "MCTriples == {" + ", ".join("<<%s, %s, %s>>" % tuple(q(x) for x in t) for t in TRIPLES if all(x in contents for x in t)) + "}",
        f"MCMaxHdus == {maxhdus}", f"MCMaxDepth == {maxdepth}"])


CFG_CONST = """CONSTANTS
  Contents <- MCContents
  Aniso <- MCAniso
  KindOf <- MCKindOf
  Paths <- MCPaths
  DirOf <- MCDirOf
  InitDirs <- MCInitDirs
  ImagingTriples <- MCTriples
  MaxHdus <- MCMaxHdus
  MaxDepth <- MCMaxDepth
"""
CFG_MC = CFG_CONST + """SPECIFICATION Spec
VIEW view
INVARIANT TypeOK
INVARIANT ReadAfterWriteIsIdentity
INVARIANT FilesHaveDirectories
PROPERTY NoSilentOverwrite
PROPERTY OnlyWriteTouchesFiles
PROPERTY FailedWriteChangesNothing
PROPERTY ImagingOutputStopsAtFirstFailure
"""
CFG_SIM = CFG_CONST + """SPECIFICATION Spec
INVARIANT TypeOK
"""
CFG_TRACE = CFG_CONST + """SPECIFICATION TraceSpec
POSTCONDITION TraceAccepted
"""


def _validate(ctx, recs, contents, pathids, tag):
    import concurrent.futures as cf

    for n, r in enumerate(recs):
        r["id"] = n
    # chunks must start at a Start record (the model state is per episode)
    starts = [k for k, r in enumerate(recs) if r["a"] == "Start"]
    chunks, cur = [], []
    for k, s in enumerate(starts):
        e = starts[k + 1] if k + 1 < len(starts) else len(recs)
        cur.extend(recs[s:e])
        if len(cur) >= 3000:
            chunks.append(cur)
            cur = []
    if cur:
        chunks.append(cur)
    defs = _defs(contents, pathids, 99, 0)
    rejects = []

    def one(kc):
        k, ch = kc
        res, rej = ctx.validate_trace("Trace_Fits", CFG_TRACE, ch, tag=f"{tag}_{k}", defs=defs)
        return rej

    with cf.ThreadPoolExecutor(max_workers=min(16, len(chunks) or 1)) as ex:
        for rej in ex.map(one, list(enumerate(chunks))):
            rejects.extend(rej)
    for rj in rejects:
        rec = recs[rj["id"]]
        # the episode up to the rejected record is the replayable history
        s = max(k for k in starts if k <= rj["id"])
        hist = [{k: v for k, v in r.items() if k in ("a", "b", "c", "p", "ow", "kind", "n", "n1", "n2", "hdu", "cd", "ck", "cn")} for r in recs[s : rj["id"] + 1]]
        ctx.violation(rj["sig"], f"{rec['a']} {json.dumps({k: v for k, v in rec.items() if k not in ('files', 'dirs', 'id')})}: failed {rj['clauses']}",
                      {"history": hist, "contents": list(contents), "paths": list(pathids), "record": rec,
                       "failed_clauses": rj["clauses"], "spec_wanted": rj.get("want")}, cls=",".join(rj["clauses"]))
    return rejects


def _random_histories(rng, n, length, contents, pathids):
    kinds = sorted(set(KINDS[c] for c in contents))
    out = []
    for _ in range(n):
        h = [{"a": "Start", "b": bool(rng.integers(0, 2))}]
        nh = 0
        written = []
        flip = h[0]["b"]
        for _ in range(length):
            x = rng.random()
            if x < 0.40 or not written:
                p = str(rng.choice(pathids))
                h.append({"a": "Write", "c": str(rng.choice(contents)), "p": p, "ow": bool(rng.random() < 0.6)})
                written.append(p)
            elif x < 0.70:
                h.append({"a": "Read", "kind": None, "p": str(rng.choice(written))})
            elif x < 0.80:
                h.append({"a": "HduOut", "c": str(rng.choice(contents))})
                nh += 1
            elif x < 0.88 and nh:
                h.append({"a": "HduIn", "kind": None, "n": int(rng.integers(1, nh + 1))})
            elif x < 0.91 and nh:
                p = str(rng.choice(pathids))
                h.append({"a": "WriteMulti", "p": p, "n1": int(rng.integers(1, nh + 1)), "n2": int(rng.integers(1, nh + 1))})
                h.append({"a": "ReadHdu", "kind": None, "p": p, "hdu": 1})
            elif x < 0.95 and all(q in pathids for q in ("img_data", "img_psf", "img_noise")):
                t = TRIPLES[int(rng.integers(0, len(TRIPLES)))]
                h.append({"a": "WriteImaging", "cd": t[0], "ck": t[1], "cn": t[2], "ow": bool(rng.random() < 0.6)})
                h.append({"a": "ReadImaging"})
            else:
                flip = not flip
                h.append({"a": "SetFlip", "b": flip})
        out.append(h)
    return out


def _fill_kinds(history):
    """choose a compatible reader kind for Read/HduIn events left open by the random generator (needs the model's view
    of what is stored: tracked here by simple bookkeeping of successful overwrites is not possible without running, so
    the reader kind is resolved at execution time)."""
    return history


def execute_resolving(history, contents, pathids):
    """like execute, but resolves kind=None of Read/HduIn to the writer's own kind (or Kernel2D for Array2D half the time)."""
    fsmodel, extmodel, hd = {}, {}, []
    out = []
    k = 0
    for ev in history:
        ev = dict(ev)
        if ev["a"] == "Start":
            fsmodel, extmodel, hd = {}, {}, []
        if ev["a"] == "Write":
            if not (ev["p"] in fsmodel and not ev["ow"]):
                fsmodel[ev["p"]] = ev["c"]
                extmodel.pop(ev["p"], None)
        if ev["a"] == "HduOut":
            hd.append(ev["c"])
        if ev["a"] == "WriteMulti":
            if ev["n1"] <= len(hd) and ev["n2"] <= len(hd):
                fsmodel[ev["p"]] = hd[ev["n1"] - 1]
                extmodel[ev["p"]] = hd[ev["n2"] - 1]
        if ev["a"] == "WriteImaging":
            for pid, c in zip(("img_data", "img_psf", "img_noise"), (ev["cd"], ev["ck"], ev["cn"])):
                if pid in fsmodel and not ev["ow"]:
                    break
                fsmodel[pid] = c
                extmodel.pop(pid, None)
        if ev["a"] == "ReadImaging" and not all(q in fsmodel for q in ("img_data", "img_psf", "img_noise")):
            continue
        if ev["a"] == "ReadImaging" and not (KINDS[fsmodel["img_data"]] == "Array2D" and KINDS[fsmodel["img_noise"]] == "Array2D"
                                             and fsmodel["img_noise"] == "E" and KINDS[fsmodel["img_psf"]] == "Kernel2D"
                                             and _content(fsmodel["img_data"])[0].shape == _content("E")[0].shape):
            continue
        if ev["a"] == "ReadHdu" and ev.get("kind") is None:
            c = extmodel.get(ev["p"])
            if c is None:
                continue
            ev["kind"] = KINDS[c]
        if ev["a"] == "Read" and ev.get("kind") is None:
            c = fsmodel.get(ev["p"])
            if c is None:
                continue
            kd = KINDS[c]
            k += 1
            if kd in ("Array2D", "Kernel2D") and k % 3 == 0:
                kd = "Kernel2D" if kd == "Array2D" else "Array2D"
            ev["kind"] = kd
        if ev["a"] == "HduIn" and ev.get("kind") is None:
            kd = KINDS[hd[ev["n"] - 1]]
            k += 1
            if kd in ("Array2D", "Kernel2D") and k % 3 == 0:
                kd = "Kernel2D" if kd == "Array2D" else "Array2D"
            ev["kind"] = kd
        out.append(ev)
    return execute(out, contents, pathids)


def _exec_res_many(args):
    hs, contents, pathids = args
    out = []
    for h in hs:
        out.extend(execute_resolving(h, contents, pathids))
    return out


def run(ctx):
    quick = ctx.quick
    contents = ["A", "B", "P", "M", "K", "L"] if quick else ["A", "B", "C", "P", "M", "K", "L", "Q"]
    pathids = ["nested", "existing", "bare"]
    depth_mc = 4 if quick else 6
    nsim, dsim = (400, 9) if quick else (10000, 14)
    ctx.bounds = {"contents": contents, "paths": pathids, "exhaustive_depth": depth_mc - 1, "simulated_behaviours": nsim,
                  "simulation_depth": dsim - 1, "random_histories": 60 if quick else 2000, "random_history_length": 40}
    # 1. exhaustive model checking of the bounded machine
    res = ctx.tlc("Fits", CFG_MC, defs=_defs(contents, pathids, 2, depth_mc), tag="MC_Fits", timeout=1500, coverage=True)
    # second exhaustive configuration: imaging datasets (three files per call, partial failure) and multi-extension files
    res2 = ctx.tlc("Fits", CFG_MC, defs=_defs(["A", "E", "J"], ["img_data", "img_psf", "img_noise", "existing"], 2, depth_mc),
                   tag="MC_Fits_imaging", timeout=1500, coverage=True)
    ctx.exhaustive = True
    contents = sorted(set(contents) | {"E", "J"})
    pathids = pathids + ["img_data", "img_psf", "img_noise"]
    # 2. simulation -> behaviours -> replay into the real code
    simdir = ctx.work / "sim"
    simdir.mkdir(exist_ok=True)
    sim = ctx.tlc("Fits", CFG_SIM, defs=_defs(contents, pathids, 3, dsim), tag="SIM_Fits", timeout=900,
                  simulate=f"file={simdir}/b,num={nsim}", depth=dsim + 2, seed=ctx.seed, workers=1)
    behs = []
    for f in sorted(simdir.iterdir()):
        states = core.parse_sim_file(f)
        if states:
            behs.append(states[-1][1]["hist"])
    ctx.states += sum(len(b) for b in behs)
    ctx.transitions += sum(len(b) - 1 for b in behs)
    if len(behs) < nsim // 2:
        raise core.MachineryError(f"simulation produced only {len(behs)} behaviours")
    groups = [(behs[k : k + 25], contents, pathids) for k in range(0, len(behs), 25)]
    recs = []
    for part in core.pmap(_exec_many, groups):
        recs.extend(part)
    ctx.replayed = len(behs)
    ctx.sample({"behaviour_from_TLC": behs[0]})
    _validate(ctx, recs, contents, pathids, "S2C")
    # 3. random longer histories over more contents and paths
    allc = sorted(KINDS)
    allp = sorted(PATHS)
    rng = np.random.default_rng(ctx.seed)
    hs = _random_histories(rng, ctx.bounds["random_histories"], ctx.bounds["random_history_length"], allc, allp)
    groups = [(hs[k : k + 10], allc, allp) for k in range(0, len(hs), 10)]
    recs2 = []
    for part in core.pmap(_exec_res_many, groups):
        recs2.extend(part)
    ctx.sample({"recorded_calls": [{k: v for k, v in r.items() if k != "dirs"} for r in recs2[1:4]]})
    _validate(ctx, recs2, allc, allp, "C2S")
    ctx.note(f"{len(behs)} TLC behaviours replayed ({len(recs)} calls), {len(hs)} random histories ({len(recs2)} calls), all validated by Trace_Fits")
    ctx.assumptions = ["astropy.io.fits is trusted to project the real file system (raw HDU data)",
                       "content ids stand for fixed asymmetric arrays (negative, 1e-300, 1e300 entries; 1xN, Nx1, non-square; masked)"]


def replay(ctx, rp):
    recs = execute(rp["history"], rp["contents"], rp["paths"])
    rej = _validate(ctx, recs, rp["contents"], rp["paths"], "replay")
    print("replayed", len(recs), "calls; rejected:", [(r["i"], r["clauses"]) for r in rej])
    return ctx.finish()
