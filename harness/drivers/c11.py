"""C11 -- queries are pure: no input mutation, no order dependence, deterministic.

PureQueries.tla is a history machine over object graphs (objects with cached quantities, derivations, caller-owned buffers,
shared defaults). TLC explores it exhaustively per scenario (with DropCachesOnDerive = FALSE it yields the
Read; Derive; Read counterexample) and simulates behaviours that are replayed on real objects (S->C). Every Read is compared,
by byte-level fingerprint, with a COLD TWIN: the same content built from scratch in a fresh object graph and read exactly
once; every caller-owned input array and every shared default object is fingerprinted after every step. The recorded
histories -- also seeded random long ones and constructor / determinism probes -- are validated by Trace_PureQueries.tla,
which infers content ids from the logged derivations (C->S)."""
import copy
import hashlib
import json

import numpy as np

from harness import core


# ---------------------------------------------------------------------------------------------------------------
# canonical fingerprints of returned values
# ---------------------------------------------------------------------------------------------------------------
def canon(v, depth=0):
    h = hashlib.sha256()

    def feed(x, d):
        if x is None:
            h.update(b"N")
        elif isinstance(x, (bool, np.bool_)):
            h.update(b"b1" if x else b"b0")
        elif isinstance(x, (int, np.integer)):
            h.update(b"i" + str(int(x)).encode())
        elif isinstance(x, (float, np.floating)):
            h.update(b"f" + np.float64(x).tobytes())
        elif isinstance(x, (complex, np.complexfloating)):
            h.update(b"c" + np.complex128(x).tobytes())
        elif isinstance(x, str):
            h.update(b"s" + x.encode())
        elif isinstance(x, (list, tuple)):
            h.update(b"L%d" % len(x))
            for y in x:
                feed(y, d + 1)
        elif isinstance(x, dict):
            h.update(b"D%d" % len(x))
            for k in x:  # insertion order is part of the observable value
                feed(x[k], d + 1)
        else:
            a = getattr(x, "array", x)
            a = np.asarray(a)
            if a.dtype == object:
                h.update(b"O" + repr(a.shape).encode())
                for y in a.ravel().tolist():
                    feed(y, d + 1)
            else:
                a = np.ascontiguousarray(a)
                h.update(str(a.dtype).encode() + repr(a.shape).encode() + a.tobytes())

    feed(v, depth)
    return h.hexdigest()[:20]


def fp_arr(a):
    a = np.ascontiguousarray(np.asarray(a))
    return hashlib.sha256(str(a.dtype).encode() + repr(a.shape).encode() + a.tobytes()).hexdigest()[:20]


# ---------------------------------------------------------------------------------------------------------------
# scenarios: object graphs with read / derive tables
# ---------------------------------------------------------------------------------------------------------------
def _cached(cls):
    from autoconf.tools.decorators import cached_property_names

    return set(cached_property_names(cls))


class Scenario:
    name = ""

    pristine_fp = {}

    def _snap(self, b):
        """fingerprints of the caller-owned buffers BEFORE any library call sees them"""
        self.pristine_fp = {k: fp_arr(v) for k, v in b.items()}

    def build(self):
        """-> (list of (type, object), dict of caller-owned buffers)"""
        raise NotImplementedError

    def table(self):
        """type -> {"reads": {q: fn}, "cached": set, "ops": {op: (fn, rtype, copies_dict)}}"""
        raise NotImplementedError


class Structures(Scenario):
    name = "structures"

    def build(self):
        import autoarray as aa

        rng = np.random.default_rng(5)
        b = {}
        b["vis"] = (rng.standard_normal(6) + 1j * rng.standard_normal(6)).astype(complex)
        mk = np.ones((9, 9), dtype=bool)
        mk[1:8, 2:7] = False
        mk[4, 4] = True
        b["mask_bool"] = mk.copy()
        yy, xx = np.meshgrid(np.arange(9.0)[::-1] * 0.5, np.arange(9.0) * 0.25, indexing="ij")
        b["grid_native"] = np.stack([yy, xx], axis=-1).copy()
        b["arr_native"] = rng.standard_normal((9, 9))
        b["vec_native"] = rng.standard_normal((9, 9, 2))
        b["kernel"] = rng.random((3, 3))
        b["arr1d"] = rng.standard_normal(7)
        self._snap(b)
        mask = aa.Mask2D(mask=b["mask_bool"], pixel_scales=(1.0, 2.0), origin=(0.5, -1.0))
        cmask = aa.Mask2D.circular(shape_native=(11, 11), pixel_scales=1.0, radius=3.2)
        objs = [
            ("Vis", aa.Visibilities(visibilities=b["vis"])),
            ("Grid", aa.Grid2D(values=b["grid_native"], mask=mask)),
            ("Mask", cmask),
            ("Array", aa.Array2D(values=b["arr_native"], mask=mask)),
            ("Vector", aa.VectorYX2D(values=b["vec_native"], grid=aa.Grid2D.from_mask(mask), mask=mask)),
            ("Kernel", aa.Kernel2D.no_mask(values=b["kernel"], pixel_scales=1.0)),
            ("Array1D", aa.Array1D.no_mask(values=b["arr1d"], pixel_scales=1.0)),
        ]
        return objs, b

    def table(self):
        import autoarray as aa

        arith = {
            "mul2": (lambda o: o * 2.0, "same", True),
            "neg": (lambda o: -o, "same", True),
            "add_self": (lambda o: o + o, "same", True),
            "copy": (lambda o: o.copy(), "same", True),
            "copy_module": (lambda o: copy.copy(o), "same", True),
        }
        t = {}
        t["Vis"] = {"cls": aa.Visibilities, "reads": {"amplitudes": lambda o: o.amplitudes, "phases": lambda o: o.phases,
                                                       "in_array": lambda o: o.in_array, "array": lambda o: o.array},
                    "ops": dict(arith, conj=(lambda o: o.with_new_array(np.conj(o.array)), "same", True))}
        t["Grid"] = {"cls": aa.Grid2D,
                     "reads": {"is_uniform": lambda o: o.is_uniform, "slim": lambda o: o.slim.array, "native": lambda o: o.native.array,
                               "over_sampled": lambda o: o.over_sampler.over_sampled_grid.array if o.over_sampler is not None else None,
                               "distances": lambda o: o.distances_to_coordinate_from(coordinate=(0.25, 0.5)).array},
                     "ops": dict(arith, square=(lambda o: o * o, "same", True), shift=(lambda o: o - 1.5, "same", True),
                                 to_slim=(lambda o: o.slim, "same", False), to_native=(lambda o: o.native, "same", False))}
        t["Mask"] = {"cls": aa.Mask2D,
                     "reads": {"circular_radius": lambda o: o.circular_radius, "pixels_in_mask": lambda o: o.pixels_in_mask,
                               "mask_centre": lambda o: o.mask_centre, "shape_native": lambda o: tuple(o.shape_native),
                               "edge_slim": lambda o: o.derive_indexes.edge_slim, "unmasked_grid": lambda o: o.derive_grid.unmasked.array},
                     "ops": {"slice_rows": (lambda o: o[1:-1], "same", True), "copy": (lambda o: o.copy(), "same", True),
                             "resized": (lambda o: o.resized_from(new_shape=(o.shape_native[0] + 2, o.shape_native[1] + 2), pad_value=1), "same", False),
                             "buffed": (lambda o: o.derive_mask.edge_buffed, "same", False)}}
        t["Array"] = {"cls": aa.Array2D,
                      "reads": {"array": lambda o: o.array, "slim": lambda o: o.slim.array, "native": lambda o: o.native.array,
                                "binned_rows": lambda o: o.binned_across_rows.array, "in_counts_shape": lambda o: tuple(o.shape_native)},
                      "ops": dict(arith, to_slim=(lambda o: o.slim, "same", False), to_native=(lambda o: o.native, "same", False),
                                  padded=(lambda o: o.padded_before_convolution_from(kernel_shape=(3, 3)), "same", False),
                                  sqrt_abs=(lambda o: abs(o).sqrt(), "same", True))}
        t["Vector"] = {"cls": aa.VectorYX2D,
                       "reads": {"slim": lambda o: o.slim.array, "native": lambda o: o.native.array, "magnitudes": lambda o: o.magnitudes.array},
                       "ops": dict(arith)}
        t["Kernel"] = {"cls": aa.Kernel2D,
                       "reads": {"native": lambda o: o.native.array, "slim": lambda o: o.slim.array, "normalized": lambda o: o.normalized.native.array,
                                 "simulated": lambda o: aa.SimulatorImaging(exposure_time=10.0, psf=o, normalize_psf=True, add_poisson_noise_to_data=False,
                                                                             noise_seed=1).via_image_from(
                                     image=aa.Array2D.no_mask(values=np.arange(25.0).reshape(5, 5) + 1.0, pixel_scales=1.0)).data.native.array,
                                 "convolved": lambda o: o.convolved_array_from(
                           array=aa.Array2D.no_mask(values=np.arange(25.0).reshape(5, 5), pixel_scales=1.0)).native.array},
                       "ops": dict(arith)}
        t["Array1D"] = {"cls": aa.Array1D, "reads": {"slim": lambda o: o.slim.array, "native": lambda o: o.native.array},
                        "ops": dict(arith)}
        for k, v in t.items():
            v["cached"] = _cached(v["cls"]) & set(v["reads"])
        return t


class Dataset(Scenario):
    name = "dataset"

    def build(self):
        import autoarray as aa

        rng = np.random.default_rng(11)
        b = {"data": rng.standard_normal((11, 11)) * 2.0 + 0.5, "noise": rng.random((11, 11)) + 0.5, "psf": rng.random((3, 3)) + 0.1}
        mk = np.ones((11, 11), dtype=bool)
        mk[3:8, 3:8] = False
        mk[5, 5] = True
        b["mask_bool"] = mk
        self._snap(b)
        ds = aa.Imaging(data=aa.Array2D.no_mask(values=b["data"], pixel_scales=0.5), noise_map=aa.Array2D.no_mask(values=b["noise"], pixel_scales=0.5),
                        psf=aa.Kernel2D.no_mask(values=b["psf"], pixel_scales=0.5))
        # the same dataset held in natively stored arrays (every query must be as pure on it as on the slim-stored one)
        m0 = aa.Mask2D.all_false(shape_native=(11, 11), pixel_scales=0.5)
        dsn = aa.Imaging(data=aa.Array2D(values=b["data"].copy(), mask=m0, store_native=True),
                         noise_map=aa.Array2D(values=b["noise"].copy(), mask=m0, store_native=True),
                         psf=aa.Kernel2D.no_mask(values=b["psf"], pixel_scales=0.5))
        return [("Imaging", ds), ("Imaging", dsn)], b

    def table(self):
        import autoarray as aa

        def mask_for(o):
            mk = np.ones(o.shape_native, dtype=bool)
            h, w = o.shape_native
            mk[3 : h - 3, 3 : w - 3] = False
            mk[h // 2, w // 2] = True
            return aa.Mask2D(mask=mk, pixel_scales=o.pixel_scales)

        def w_tilde(o):
            if o.mask.is_all_false:
                return None  # O(n^2) without numba: only read on masked datasets
            return [o.w_tilde.curvature_preload, o.w_tilde.indexes, o.w_tilde.lengths]

        t = {"Imaging": {"cls": aa.Imaging,
                         "reads": {"grids_uniform": lambda o: o.grids.uniform.array, "grids_pixelization": lambda o: o.grids.pixelization.array,
                                   "grids_blurring": lambda o: o.grids.blurring.array if not o.mask.is_all_false else None,
                                   "grid": lambda o: o.grid.array, "data": lambda o: o.data.array, "noise_map": lambda o: o.noise_map.array,
                                   "signal_to_noise_map": lambda o: o.signal_to_noise_map.array, "shape_native": lambda o: tuple(o.shape_native),
                                   "convolver_lengths": lambda o: o.convolver.image_frame_1d_lengths if not o.mask.is_all_false else None,
                                   "w_tilde": w_tilde, "psf": lambda o: o.psf.native.array},
                         "ops": {"apply_mask": (lambda o: o.apply_mask(mask_for(o)), "same", False),
                                 "trimmed": (lambda o: o.trimmed_after_convolution_from(kernel_shape=(3, 3)), "same", True),
                                 "apply_over_sampling": (lambda o: o.apply_over_sampling(aa.OverSamplingDataset(uniform=aa.OverSamplingUniform(sub_size=2))), "same", False),
                                 "apply_noise_scaling": (lambda o: o.apply_noise_scaling(mask=mask_for(o)), "same", False),
                                 "copy_module": (lambda o: copy.copy(o), "same", True)}}}
        t["Imaging"]["cached"] = set()  # the cached names (grids, convolver, w_tilde) are read through sub-quantities: tracked as drift only
        t["Imaging"]["cached_groups"] = {"grids_uniform": "grids", "grids_pixelization": "grids", "grids_blurring": "grids", "grid": "grids",
                                         "convolver_lengths": "convolver", "w_tilde": "w_tilde"}
        return t


class InversionScn(Scenario):
    name = "inversion"

    def build(self):
        import autoarray as aa
        from harness.drivers import inv_common as ic

        rng = np.random.default_rng(3)
        inst = ic.random_instance(rng, H=7, W=7, interior=3, layouts=("mf",), kshapes=((3, 3),), signed_kernel=False)
        while len(inst["u"]) < 6:
            inst = ic.random_instance(rng, H=7, W=7, interior=3, layouts=("mf",), kshapes=((3, 3),), signed_kernel=False)
        for o in inst["objs"]:
            o["reg"] = o["type"] == "mapper"
            if o["type"] == "func":
                o["me"] = 0
        ds, objs, skw = ic.build(inst)
        mapper = objs[0]
        b = {"values": rng.random(mapper.params) + 0.5, "pixel_mask": np.array([k % 3 == 0 for k in range(mapper.params)])}
        self._snap(b)
        inv_m = aa.Inversion(dataset=ds, linear_obj_list=objs, settings=aa.SettingsInversion(use_w_tilde=False, **skw))
        inv_w = aa.Inversion(dataset=ds, linear_obj_list=objs, settings=aa.SettingsInversion(use_w_tilde=True, **skw))
        mv = aa.MapperValued(mapper=mapper, values=b["values"], mesh_pixel_mask=b["pixel_mask"])
        # single-object inversions take the in-place F += H fast path
        inv_1m = aa.Inversion(dataset=ds, linear_obj_list=[mapper], settings=aa.SettingsInversion(use_w_tilde=False, **skw))
        inv_1w = aa.Inversion(dataset=ds, linear_obj_list=[mapper], settings=aa.SettingsInversion(use_w_tilde=True, **skw))
        # a Delaunay mapper with non-constant adapt data (its pixel signals are a query, too)
        osr = aa.OverSamplerUniform(mask=ds.mask, sub_size=2)
        pos = np.array(osr.over_sampled_grid) * np.array([1.0, 0.8])
        lo, hi = pos.min(axis=0) - 0.4, pos.max(axis=0) + 0.4
        b["verts"] = lo + rng.random((9, 2)) * (hi - lo)
        b["adapt"] = rng.random(ds.mask.pixels_in_mask) + 0.2
        self._snap(b)
        dmesh = aa.Mesh2DDelaunay(values=b["verts"])
        mg = aa.MapperGrids(mask=ds.mask, source_plane_data_grid=aa.Grid2DIrregular(pos), source_plane_mesh_grid=dmesh,
                            image_plane_mesh_grid=None, adapt_data=aa.Array2D(values=b["adapt"], mask=ds.mask))
        dmapper = aa.MapperDelaunay(mapper_grids=mg, over_sampler=osr, border_relocator=None, regularization=aa.reg.Constant(coefficient=1.0))
        # fits of the same (signed) dataset
        model = aa.Array2D(values=np.asarray(ds.data.array) * 0.5 + 0.25, mask=ds.mask)
        fit1 = aa.m.MockFitImaging(dataset=ds, use_mask_in_fit=False, model_data=model)
        fit2 = aa.m.MockFitImaging(dataset=ds, use_mask_in_fit=False, model_data=model * 0.0)
        # an inversion whose unconstrained solution is positive in every parameter (the warm-started positive-only solver then
        # takes its "everything passive" route), and an interferometer inversion with noise other than 1 (direct transform)
        inst_p = json.loads(json.dumps(inst))
        inst_p["d"] = [int(40 + (k % 3)) for k in range(len(inst["d"]))]
        inst_p["objs"] = [o for o in inst_p["objs"] if o["type"] == "mapper"]
        ds_p, objs_p, skw_p = ic.build(inst_p)
        inv_pos = aa.Inversion(dataset=ds_p, linear_obj_list=objs_p, settings=aa.SettingsInversion(
            use_w_tilde=False, use_positive_only_solver=True, positive_only_uses_p_initial=True, force_edge_pixels_to_zeros=False, **skw_p))
        b["uv"] = rng.random((5, 2)) * 4000.0 - 2000.0
        b["vis"] = rng.standard_normal(5) + 1j * rng.standard_normal(5)
        b["vis_noise"] = (rng.random(5) + 0.5) + 1j * (rng.random(5) * 2.0 + 0.25)
        self._snap(b)
        ds_if = aa.Interferometer(data=aa.Visibilities(visibilities=b["vis"].copy()), noise_map=aa.VisibilitiesNoiseMap(visibilities=b["vis_noise"].copy()),
                                  uv_wavelengths=b["uv"].copy(), real_space_mask=ds.mask, transformer_class=aa.TransformerDFT)
        _, objs_if, _ = ic.build(inst)
        inv_if = aa.Inversion(dataset=ds_if, linear_obj_list=[objs_if[0]], settings=aa.SettingsInversion(
            use_w_tilde=False, use_linear_operators=False, use_positive_only_solver=False))
        return [("Imaging", ds), ("Mapper", mapper), ("Inversion", inv_m), ("Inversion", inv_w), ("MapperValued", mv),
                ("Inversion", inv_1m), ("Inversion", inv_1w), ("DMapper", dmapper), ("Fit", fit1), ("Fit", fit2),
                ("Inversion", inv_pos), ("InversionVis", inv_if)], b

    def table(self):
        import autoarray as aa
        from autoarray.inversion.inversion.imaging.mapping import InversionImagingMapping

        inv_names = ["data_vector", "curvature_matrix", "curvature_reg_matrix", "curvature_reg_matrix_reduced", "regularization_matrix",
                     "regularization_matrix_reduced", "reconstruction", "reconstruction_reduced", "mapped_reconstructed_data",
                     "mapped_reconstructed_image", "regularization_term", "log_det_curvature_reg_matrix_term",
                     "log_det_regularization_matrix_term", "mapping_matrix", "operated_mapping_matrix", "total_params"]

        def getter(nm):
            return lambda o: getattr(o, nm)

        inv_reads = {nm: getter(nm) for nm in inv_names}
        inv_reads["mapped_dict"] = lambda o: [np.asarray(v.array) for v in o.mapped_reconstructed_data_dict.values()]
        inv_reads["data_subtracted"] = lambda o: [np.asarray(v.array) for v in o.data_subtracted_dict.values()]
        inv_reads["errors"] = lambda o: o.reconstruction_noise_map
        t = {
            "Imaging": {"cls": aa.Imaging, "reads": {"data": lambda o: o.data.array, "noise_map": lambda o: o.noise_map.array,
                                                     "grids_pixelization": lambda o: o.grids.pixelization.array,
                                                     "convolver_lengths": lambda o: o.convolver.image_frame_1d_lengths,
                                                     "w_tilde": lambda o: [o.w_tilde.curvature_preload, o.w_tilde.indexes, o.w_tilde.lengths]}, "ops": {}},
            "Mapper": {"cls": aa.MapperRectangular,
                       "reads": {"mapping_matrix": lambda o: o.mapping_matrix, "unique_weights": lambda o: o.unique_mappings.data_weights,
                                 "unique_pix": lambda o: o.unique_mappings.data_to_pix_unique, "pix_sub_mappings": lambda o: o.pix_sub_weights.mappings,
                                 "neighbors": lambda o: o.neighbors.arr if hasattr(o.neighbors, "arr") else np.asarray(o.neighbors),
                                 "regularization_matrix": lambda o: o.regularization_matrix,
                                 "pixel_signals": lambda o: None}, "ops": {}},
            "Inversion": {"cls": InversionImagingMapping, "reads": inv_reads, "ops": {}},
            "MapperValued": {"cls": aa.MapperValued,
                             "reads": {"values_masked": lambda o: np.array(o.values_masked), "values": lambda o: np.array(o.values),
                                       "mapped_image": lambda o: o.mapped_reconstructed_image_from().array,
                                       "max_pixel_centre": lambda o: np.asarray(o.max_pixel_centre.array),
                                       "magnification": lambda o: o.magnification_via_mesh_from(),
                                       "max_pixels": lambda o: o.max_pixel_list_from(total_pixels=3, filter_neighbors=True)}, "ops": {}},
        }
        t["Mapper"]["reads"].pop("pixel_signals")
        from autoarray.inversion.inversion.interferometer.mapping import InversionInterferometerMapping

        vis_names = ["data_vector", "curvature_matrix", "curvature_reg_matrix", "regularization_matrix", "reconstruction", "operated_mapping_matrix",
                     "mapping_matrix", "regularization_term", "log_det_curvature_reg_matrix_term", "log_det_regularization_matrix_term"]
        t["InversionVis"] = {"cls": InversionInterferometerMapping,
                             "reads": dict({nm: getter(nm) for nm in vis_names}, mapped_data=lambda o: np.asarray(o.mapped_reconstructed_data),
                                           mapped_image=lambda o: np.asarray(o.mapped_reconstructed_image.array)), "ops": {}}
        t["DMapper"] = {"cls": aa.MapperDelaunay,
                        "reads": {"mapping_matrix": lambda o: o.mapping_matrix, "unique_weights": lambda o: o.unique_mappings.data_weights,
                                  "unique_pix": lambda o: o.unique_mappings.data_to_pix_unique, "pix_sub_weights": lambda o: o.pix_sub_weights.weights,
                                  "pix_sub_mappings": lambda o: o.pix_sub_weights.mappings, "pixel_signals": lambda o: o.pixel_signals_from(signal_scale=1.5),
                                  "regularization_matrix": lambda o: o.regularization_matrix, "adapt_data": lambda o: np.asarray(o.adapt_data)}, "ops": {}}
        fit_q = ["residual_map", "normalized_residual_map", "chi_squared_map", "signal_to_noise_map", "residual_flux_fraction_map", "chi_squared",
                 "reduced_chi_squared", "noise_normalization", "log_likelihood", "figure_of_merit"]
        t["Fit"] = {"cls": aa.m.MockFitImaging, "reads": dict({q: getter(q) for q in fit_q}, data=lambda o: o.data.array,
                                                            dataset_data=lambda o: o.dataset.data.array), "ops": {}}
        for k, v in t.items():
            v["cached"] = _cached(v["cls"]) & set(v["reads"])
        return t


class Meshes(Scenario):
    """source-plane meshes: Voronoi / Delaunay / rectangular objects with cached triangulations and derived area tables"""
    name = "meshes"

    def build(self):
        import autoarray as aa

        rng = np.random.default_rng(21)
        b = {"verts_v": rng.random((11, 2)) * 4.0 - 2.0, "verts_d": rng.random((9, 2)) * 3.0 - 1.0,
             "grid_r": np.stack(np.meshgrid(np.linspace(1.0, -1.0, 5), np.linspace(-2.0, 2.0, 6), indexing="ij"), axis=-1).reshape(-1, 2)}
        self._snap(b)
        return [("Voronoi", aa.Mesh2DVoronoi(values=b["verts_v"])), ("Delaunay", aa.Mesh2DDelaunay(values=b["verts_d"])),
                ("Rect", aa.Mesh2DRectangular.overlay_grid(grid=b["grid_r"], shape_native=(3, 4)))], b

    def table(self):
        import autoarray as aa

        tri = {"split_cross": lambda o: o.split_cross, "areas_for_split": lambda o: o.voronoi_pixel_areas_for_split,
               "pixel_areas": lambda o: o.voronoi_pixel_areas, "edge_pixel_list": lambda o: list(o.edge_pixel_list),
               "neighbors": lambda o: [o.neighbors.arr, o.neighbors.sizes], "values": lambda o: np.asarray(o),
               "simplices": lambda o: o.delaunay.simplices, "extent": lambda o: tuple(o.geometry.extent)}
        t = {"Voronoi": {"cls": aa.Mesh2DVoronoi, "reads": dict(tri, areas_for_magnification=lambda o: o.areas_for_magnification), "ops": {}},
             "Delaunay": {"cls": aa.Mesh2DDelaunay, "reads": dict(tri), "ops": {}},
             "Rect": {"cls": aa.Mesh2DRectangular, "reads": {"neighbors": lambda o: [o.neighbors.arr, o.neighbors.sizes], "edge_pixel_list": lambda o: list(o.edge_pixel_list),
                                                             "values": lambda o: np.asarray(o), "extent": lambda o: tuple(o.geometry.extent)}, "ops": {}}}
        for k, v in t.items():
            v["cached"] = _cached(v["cls"]) & set(v["reads"])
        return t


SCENARIOS = {"structures": Structures, "dataset": Dataset, "inversion": InversionScn, "meshes": Meshes}


# ---------------------------------------------------------------------------------------------------------------
# shared defaults
# ---------------------------------------------------------------------------------------------------------------
def defaults_snapshot():
    import inspect

    import autoarray as aa
    from autoarray.inversion.inversion import factory
    from autoarray.inversion.inversion import inversion_util

    out = []
    for fn in (factory.inversion_from, factory.inversion_imaging_from, factory.inversion_interferometer_from,
               inversion_util.reconstruction_positive_only_from, aa.Imaging.__init__, aa.Imaging.from_fits, aa.Imaging.apply_over_sampling):
        for name, p in inspect.signature(fn).parameters.items():
            d = p.default
            if d is inspect.Parameter.empty or d is None or isinstance(d, (bool, int, float, str, tuple)):
                continue
            state = {k: (fp_arr(v) if isinstance(v, np.ndarray) else repr(v)) for k, v in sorted(vars(d).items())} if hasattr(d, "__dict__") else repr(d)
            out.append((fn.__qualname__, name, json.dumps(state, sort_keys=True, default=str)))
    return out


# ---------------------------------------------------------------------------------------------------------------
# the engine
# ---------------------------------------------------------------------------------------------------------------
_COLD = {}


class Engine:
    def __init__(self, scn_name):
        self.scn = SCENARIOS[scn_name]()
        self.table = self.scn.table()
        self.reset()

    def reset(self):
        self.pristine = None
        self.objs, self.bufs = self.scn.build()
        self.buf_fp = dict(self.scn.pristine_fp)
        self.types = [t for t, _ in self.objs]
        self.live = [o for _, o in self.objs]
        self.content = [(k + 1,) for k in range(len(self.live))]
        self.defaults0 = defaults_snapshot()

    def cold(self, content, q):
        key = (self.scn.name, content, q)
        if key not in _COLD:
            objs, _ = self.scn.build()
            o = objs[content[0] - 1][1]
            t = objs[content[0] - 1][0]
            for op in content[1:]:
                fn, rt, _ = self.table[t]["ops"][op]
                o = fn(o)
                t = t if rt == "same" else rt
            try:
                _COLD[key] = canon(self.table[t]["reads"][q](o))
            except Exception as e:
                _COLD[key] = "EXC:" + type(e).__name__
        return _COLD[key]

    def env_ok(self):
        """edge-triggered: a change is attributed to the step after which it is first seen"""
        now = {k: fp_arr(v) for k, v in self.bufs.items()}
        bufs_ok = now == self.buf_fp
        self.changed = [k for k in now if now[k] != self.buf_fp[k]]
        self.buf_fp = now
        d = defaults_snapshot()
        defaults_ok = d == self.defaults0
        self.defaults0 = d
        return bufs_ok, defaults_ok

    def start_record(self):
        bufs_ok, defaults_ok = self.env_ok()
        return [{"a": "Start", "types": list(self.types), "scn": self.scn.name},
                {"a": "Construct", "what": self.scn.name, "clause": "constructors-leave-caller-owned-inputs-unchanged", "ok": bool(bufs_ok),
                 "bufs_ok": True, "defaults_ok": bool(defaults_ok), "raised": False, "changed": list(self.changed)}]

    def read(self, o, q):
        t = self.types[o - 1]
        obj = self.live[o - 1]
        r = {"a": "Read", "o": o, "q": q, "type": t, "raised": False, "own": True, "match": o, "others_ok": True,
             "cached_quantity": q in self.table[t]["cached"]}
        cold = self.cold(self.content[o - 1], q)
        try:
            got = canon(self.table[t]["reads"][q](obj))
        except Exception as e:
            got = "EXC:" + type(e).__name__
        if got != cold:
            r["own"] = False
            r["match"] = 0
            if got.startswith("EXC:"):
                r["raised"] = True
                r["err"] = got
            for k in range(len(self.live)):
                if k + 1 != o and self.types[k] == t and self.cold(self.content[k], q) == got:
                    r["match"] = k + 1
                    break
        r["bufs_ok"], r["defaults_ok"] = self.env_ok()
        if self.changed:
            r["changed_buffers"] = list(self.changed)
        r["cacheset"] = sorted(set(getattr(obj, "__dict__", {})) & _cached(type(obj)))
        return r

    def derive(self, o, op):
        t = self.types[o - 1]
        fn, rt, copies = self.table[t]["ops"][op]
        r = {"a": "Derive", "o": o, "op": op, "type": t, "rtype": t if rt == "same" else rt, "raised": False, "others_ok": True}
        try:
            new = fn(self.live[o - 1])
        except Exception as e:
            r["raised"] = True
            r["err"] = f"{type(e).__name__}: {str(e)[:80]}"
            new = None
        self.live.append(new)
        self.types.append(r["rtype"])
        self.content.append(self.content[o - 1] + (op,))
        r["bufs_ok"], r["defaults_ok"] = self.env_ok()
        return r


def execute(scn_name, events):
    eng = Engine(scn_name)
    recs = eng.start_record()
    for ev in events:
        if ev["a"] == "Read":
            if ev["o"] <= len(eng.live) and eng.live[ev["o"] - 1] is not None and ev["q"] in eng.table[eng.types[ev["o"] - 1]]["reads"]:
                recs.append(eng.read(ev["o"], ev["q"]))
        elif ev["a"] == "Derive":
            if ev["o"] <= len(eng.live) and eng.live[ev["o"] - 1] is not None and ev["op"] in eng.table[eng.types[ev["o"] - 1]]["ops"]:
                recs.append(eng.derive(ev["o"], ev["op"]))
    for r in recs:
        r["_ctx"] = {"scenario": scn_name, "events": events}
    return recs


def _exec_many(args):
    return [execute(s, ev) for s, ev in args]


# ---------------------------------------------------------------------------------------------------------------
# probes outside the object machine: constructors, shared settings, determinism
# ---------------------------------------------------------------------------------------------------------------
def probes(seed):
    import autoarray as aa

    out = []

    def rec(a, what, clause, ok, **kw):
        r = {"a": a, "what": what, "clause": clause, "ok": bool(ok), "bufs_ok": True, "defaults_ok": True, "raised": False}
        r.update(kw)
        out.append(r)

    rng = np.random.default_rng(seed)
    # constructors given native / slim ndarrays, lists of arrays, masks
    mk = np.ones((6, 5), dtype=bool)
    mk[1:5, 1:4] = False
    mask = aa.Mask2D(mask=mk.copy(), pixel_scales=1.0)
    for name, make in [
        ("Array2D(native)", lambda a: aa.Array2D(values=a, mask=mask)), ("Array2D(native,store_native)", lambda a: aa.Array2D(values=a, mask=mask, store_native=True)),
        ("Array2D.no_mask", lambda a: aa.Array2D.no_mask(values=a, pixel_scales=1.0)), ("Kernel2D.no_mask(normalize)", lambda a: aa.Kernel2D.no_mask(values=a, pixel_scales=1.0, normalize=True)),
        ("Mask2D(float array)", lambda a: aa.Mask2D(mask=(a > 0), pixel_scales=1.0)),
    ]:
        a = rng.standard_normal((6, 5)) + 3.0
        f0 = fp_arr(a)
        try:
            make(a)
            rec("Construct", name, "constructors-leave-caller-owned-inputs-unchanged", fp_arr(a) == f0)
        except Exception as e:
            rec("Construct", name, "constructors-leave-caller-owned-inputs-unchanged", True, note=str(e)[:60])
    # slim (1D) caller-owned inputs, normalisation on construction
    nu = int((~mk).sum())
    for name, make in [
        ("Array2D(slim)", lambda a: aa.Array2D(values=a, mask=mask)), ("Array2D(slim).native", lambda a: aa.Array2D(values=a, mask=mask).native),
        ("Kernel2D(slim,normalize)", lambda a: aa.Kernel2D(values=a, mask=mask, normalize=True)),
        ("Array1D.no_mask", lambda a: aa.Array1D.no_mask(values=a, pixel_scales=1.0)),
    ]:
        a = rng.random(nu) + 2.0
        f0 = fp_arr(a)
        try:
            make(a)
            rec("Construct", name, "constructors-leave-caller-owned-inputs-unchanged", fp_arr(a) == f0)
        except Exception as e:
            rec("Construct", name, "no-exception-in-constructor-probe", False, note=f"{type(e).__name__}: {str(e)[:60]}")
    a = rng.random(9) + 1.0
    f0 = fp_arr(a)
    try:
        aa.Kernel2D.no_mask(values=a, shape_native=(3, 3), pixel_scales=1.0, normalize=True)
        rec("Construct", "Kernel2D.no_mask(slim,normalize)", "constructors-leave-caller-owned-inputs-unchanged", fp_arr(a) == f0)
    except Exception as e:
        rec("Construct", "Kernel2D.no_mask(slim,normalize)", "no-exception-in-constructor-probe", False, note=f"{type(e).__name__}: {str(e)[:60]}")
    # one caller array used for two constructions with different masks: the first object must not change
    a = rng.standard_normal((6, 5)) + 3.0
    mk2 = mk.copy()
    mk2[2, 2] = True
    first = aa.Array2D(values=a, mask=aa.Mask2D.all_false(shape_native=(6, 5), pixel_scales=1.0), store_native=True)
    before = canon(first.native.array)
    aa.Array2D(values=first.native, mask=aa.Mask2D(mask=mk2, pixel_scales=1.0), store_native=True)
    first.apply_mask(mask=aa.Mask2D(mask=mk2, pixel_scales=1.0))
    rec("Construct", "Array2D(values=other.native, smaller mask)", "constructors-leave-source-structure-unchanged", canon(first.native.array) == before)
    for name, make in [("Grid2D(native)", lambda a: aa.Grid2D(values=a, mask=mask)), ("Grid2D(native,store_native)", lambda a: aa.Grid2D(values=a, mask=mask, store_native=True)),
                       ("VectorYX2D(native)", lambda a: aa.VectorYX2D(values=a, grid=aa.Grid2D.from_mask(mask), mask=mask)),
                       ("Grid2D.no_mask", lambda a: aa.Grid2D.no_mask(values=a, pixel_scales=1.0))]:
        a = rng.standard_normal((6, 5, 2)) + 3.0
        f0 = fp_arr(a)
        try:
            make(a)
            rec("Construct", name, "constructors-leave-caller-owned-inputs-unchanged", fp_arr(a) == f0)
        except Exception as e:
            rec("Construct", name, "constructors-leave-caller-owned-inputs-unchanged", True, note=str(e)[:60])
    # a caller-owned settings object passed to the interferometer factory
    try:
        from harness.drivers import inv_common as ic

        inst = ic.random_instance(np.random.default_rng(2), layouts=("m",), kshapes=((1, 1),))
        ds, objs, skw = ic.build(inst)
        uv = rng.standard_normal((4, 2)) * 1e3
        vis = aa.Visibilities(visibilities=rng.standard_normal(4) + 1j * rng.standard_normal(4))
        nm = aa.VisibilitiesNoiseMap(visibilities=np.ones(4) + 1j * np.ones(4))
        ids = aa.Interferometer(data=vis, noise_map=nm, uv_wavelengths=uv, real_space_mask=ds.mask, transformer_class=aa.TransformerDFT)
        st = aa.SettingsInversion(use_w_tilde=True, use_positive_only_solver=False, **skw)
        before = json.dumps({k: repr(v) for k, v in sorted(vars(st).items())})
        aa.Inversion(dataset=ids, linear_obj_list=[objs[0]], settings=st)
        rec("Construct", "Inversion(interferometer, settings)", "constructors-leave-caller-owned-settings-unchanged",
            json.dumps({k: repr(v) for k, v in sorted(vars(st).items())}) == before)
    except Exception as e:
        rec("Construct", "Inversion(interferometer, settings)", "no-exception-in-constructor-probe", False, note=f"{type(e).__name__}: {str(e)[:80]}")
    # seeded simulation is independent of the prior state of the global random generator
    try:
        img = aa.Array2D.no_mask(values=rng.random((7, 7)) * 10 + 1, pixel_scales=0.5)
        psf = aa.Kernel2D.no_mask(values=np.array([[0.0, 1, 0], [1, 4, 1], [0, 1, 0.0]]), pixel_scales=0.5, normalize=True)
        for nseed in (7, 0, 1, 2 ** 31 - 1):
            outs = []
            for pre in (0, 1, 2):
                np.random.seed(100 + pre)
                for _ in range(pre * 3):
                    np.random.random()
                sim = aa.SimulatorImaging(exposure_time=300.0, psf=psf, background_sky_level=0.1, add_poisson_noise_to_data=True, noise_seed=nseed)
                d = sim.via_image_from(image=img)
                outs.append(canon([d.data.array, d.noise_map.array]))
            rec("Determinism", f"SimulatorImaging(noise_seed={nseed}).via_image_from", "seeded-simulation-independent-of-global-rng", len(set(outs)) == 1)
        from autoarray.dataset import preprocess

        outs = []
        for pre in (0, 5):
            np.random.seed(pre)
            outs.append(canon(preprocess.data_eps_with_poisson_noise_added(data_eps=img, exposure_time_map=aa.Array2D.full(fill_value=300.0, shape_native=(7, 7), pixel_scales=0.5), seed=3).array))
        rec("Determinism", "preprocess.data_eps_with_poisson_noise_added(seed=3)", "seeded-simulation-independent-of-global-rng", len(set(outs)) == 1)
        calls = []
        for sd_ in (4, 0, 1):
            calls += [(f"gaussian_noise_via_shape_and_sigma_from(seed={sd_})", lambda sd_=sd_: preprocess.gaussian_noise_via_shape_and_sigma_from(shape=(5,), sigma=2.0, seed=sd_)),
                      (f"data_with_gaussian_noise_added(seed={sd_})", lambda sd_=sd_: preprocess.data_with_gaussian_noise_added(data=np.arange(5.0), sigma=0.5, seed=sd_)),
                      (f"data_with_complex_gaussian_noise_added(seed={sd_})", lambda sd_=sd_: preprocess.data_with_complex_gaussian_noise_added(data=np.arange(4.0) + 1j, sigma=0.5, seed=sd_)),
                      (f"data_eps_with_poisson_noise_added(seed={sd_})", lambda sd_=sd_: preprocess.data_eps_with_poisson_noise_added(
                          data_eps=img, exposure_time_map=aa.Array2D.full(fill_value=300.0, shape_native=(7, 7), pixel_scales=0.5), seed=sd_).array)]
        for fname, call in calls:
            outs = []
            for pre in (0, 5):
                np.random.seed(pre)
                np.random.random(pre)
                outs.append(canon(np.asarray(call())))
            rec("Determinism", f"preprocess.{fname}", "seeded-simulation-independent-of-global-rng", len(set(outs)) == 1)
    except Exception as e:
        rec("Determinism", "seeded noise helpers", "no-exception-in-determinism-probe", False, note=f"{type(e).__name__}: {str(e)[:80]}")
    # option objects handed to a derivation are caller-owned inputs; shared signature defaults are shared state
    try:
        def osd_state(o):
            return tuple((k, None if getattr(o, k) is None else (type(getattr(o, k)).__name__, int(getattr(getattr(o, k), "sub_size", -1))
                                                                   if np.ndim(getattr(getattr(o, k), "sub_size", -1)) == 0 else "array"))
                         for k in ("uniform", "non_uniform", "pixelization"))

        def mk_ds(u, px):
            return aa.Imaging(data=aa.Array2D.no_mask(values=np.arange(25.0).reshape(5, 5) + 1.0, pixel_scales=0.5),
                              noise_map=aa.Array2D.no_mask(values=np.ones((5, 5)), pixel_scales=0.5),
                              over_sampling=aa.OverSamplingDataset(uniform=aa.OverSamplingUniform(sub_size=u), pixelization=aa.OverSamplingUniform(sub_size=px)))

        ds_a, ds_b = mk_ds(2, 4), mk_ds(8, 1)
        for label, request in (("uniform only", lambda: aa.OverSamplingDataset(uniform=aa.OverSamplingUniform(sub_size=3))),
                               ("pixelization only", lambda: aa.OverSamplingDataset(pixelization=aa.OverSamplingUniform(sub_size=3))),
                               ("nothing", lambda: aa.OverSamplingDataset())):
            req = request()
            before = osd_state(req)
            want_b = tuple((k, v if v is not None else osd_state(ds_b.over_sampling)[i][1]) for i, (k, v) in enumerate(before))
            ds_a.apply_over_sampling(over_sampling=req)
            unchanged = osd_state(req) == before
            got_b = osd_state(ds_b.apply_over_sampling(over_sampling=req).over_sampling)
            rec("Construct", f"Imaging.apply_over_sampling(request with {label}) applied to two datasets",
                "constructors-leave-caller-owned-inputs-unchanged", unchanged)
            rec("Determinism", f"Imaging.apply_over_sampling(request with {label}): second dataset keeps its own unspecified schemes",
                "equal-inputs-give-identical-results", got_b == want_b)
        ds_a.apply_over_sampling()
        rec("Determinism", "Imaging.apply_over_sampling() with the signature default, on a second dataset after a first",
            "equal-inputs-give-identical-results", osd_state(ds_b.apply_over_sampling().over_sampling) == osd_state(ds_b.over_sampling))
        rec("Determinism", "OverSamplingDataset() default of Imaging.apply_over_sampling stays empty", "equal-inputs-give-identical-results",
            osd_state(aa.Imaging.apply_over_sampling.__defaults__[0]) == (("uniform", None), ("non_uniform", None), ("pixelization", None)))
    except Exception as e:
        rec("Determinism", "apply_over_sampling option objects", "no-exception-in-determinism-probe", False, note=f"{type(e).__name__}: {str(e)[:80]}")
    # scheme objects and signature defaults shared between grids: what the second grid gets must be a function of the second
    # grid alone (order independence), and caller-owned lists are left as they are
    try:
        def circ(shape, scale, origin, centre):
            return aa.Mask2D.circular(shape_native=shape, radius=2.2 * scale, pixel_scales=scale, origin=origin, centre=centre)

        g_a = aa.Grid2D.from_mask(mask=circ((9, 9), 1.0, (0.0, 0.0), (1.0, -1.0)))
        g_b = aa.Grid2D.from_mask(mask=circ((9, 9), 1.0, (0.0, 0.0), (-1.0, 2.0)))
        kw = dict(sub_size_list=[4, 2, 1], radial_list=[0.9, 1.9])
        want_b = canon(aa.OverSamplingUniform.from_radial_bins(grid=g_b, centre_list=[g_b.mask.mask_centre], **kw).sub_size.array)
        aa.OverSamplingUniform.from_radial_bins(grid=g_a, **kw)
        got_b = canon(aa.OverSamplingUniform.from_radial_bins(grid=g_b, **kw).sub_size.array)
        rec("Determinism", "OverSamplingUniform.from_radial_bins without centre_list on a second grid after a first", "equal-inputs-give-identical-results", got_b == want_b)
        own = [(0.5, 0.5)]
        aa.OverSamplingUniform.from_radial_bins(grid=g_a, centre_list=own, **kw)
        rec("Construct", "OverSamplingUniform.from_radial_bins(centre_list=caller's list)", "constructors-leave-caller-owned-inputs-unchanged", own == [(0.5, 0.5)])
        for order in ("first-then-second", "second-then-first"):
            osu = aa.OverSamplingUniform(sub_size=2)
            mk1, mk2 = circ((7, 7), 1.0, (0.0, 0.0), (0.0, 0.0)), circ((7, 7), 0.5, (3.0, -1.0), (0.0, 0.0))
            gr = {1: aa.Grid2D.from_mask(mask=mk1, over_sampling=osu), 2: aa.Grid2D.from_mask(mask=mk2, over_sampling=osu)}
            want = {k: canon(np.array(aa.OverSamplerUniform(mask=mk_, sub_size=2).over_sampled_grid)) for k, mk_ in ((1, mk1), (2, mk2))}
            seq = (1, 2, 1) if order == "first-then-second" else (2, 1, 2)
            ok = all(canon(np.array(gr[k].over_sampler.over_sampled_grid)) == want[k] for k in seq)
            ok = ok and all(canon(np.array(osu.over_sampler_from(mask=mk_).over_sampled_grid)) == want[k] for k, mk_ in ((1, mk1), (2, mk2), (1, mk1)))
            rec("Determinism", f"one OverSamplingUniform shared by two grids with equal mask pattern and different geometry ({order})",
                "equal-inputs-give-identical-results", ok)
    except Exception as e:
        rec("Determinism", "shared over-sampling schemes", "no-exception-in-determinism-probe", False, note=f"{type(e).__name__}: {str(e)[:80]}")
    # deriving a noise-scaled dataset leaves the source dataset unchanged, whatever the storage mode of its arrays
    try:
        for sn in (False, True):
            m0 = aa.Mask2D.all_false(shape_native=(4, 5), pixel_scales=0.5)
            src = aa.Imaging(data=aa.Array2D(values=np.arange(20.0).reshape(4, 5) + 1.0, mask=m0, store_native=sn),
                             noise_map=aa.Array2D(values=np.ones((4, 5)) * 0.5, mask=m0, store_native=sn))
            smk = np.ones((4, 5), dtype=bool)
            smk[1:3, 1:4] = False
            want = (canon(src.noise_map.native.array), canon(src.data.native.array), canon(src.signal_to_noise_map.native.array))
            for kw in ({}, {"signal_to_noise_value": 2.0}, {"should_zero_data": False}):
                src.apply_noise_scaling(mask=aa.Mask2D(mask=smk.copy(), pixel_scales=0.5), **kw)
                got = (canon(src.noise_map.native.array), canon(src.data.native.array), canon(src.signal_to_noise_map.native.array))
                rec("Determinism", f"Imaging.apply_noise_scaling({kw}) leaves its source dataset unchanged (store_native={sn})",
                    "equal-inputs-give-identical-results", got == want)
    except Exception as e:
        rec("Determinism", "apply_noise_scaling source dataset", "no-exception-in-determinism-probe", False, note=f"{type(e).__name__}: {str(e)[:80]}")
    # error paths: a query that raises (and is handled by the caller) leaves the objects it was built from as they were
    try:
        objs_e, b_e = InversionScn().build()
        mapper_e = [o for t, o in objs_e if t == "Mapper"][0]
        want_mm = canon(np.array(mapper_e.mapping_matrix))
        pm = np.array([k % 3 == 0 for k in range(mapper_e.params)])
        for label, bad_values in (("values of the wrong length", np.arange(mapper_e.params + 5, dtype=float)), ("values as a python list", [1.0] * mapper_e.params)):
            for qname in ("mapped_reconstructed_image_from", "magnification_via_mesh_from", "magnification_via_interpolation_from"):
                mv_e = aa.MapperValued(mapper=mapper_e, values=bad_values, mesh_pixel_mask=pm.copy())
                raised = False
                try:
                    getattr(mv_e, qname)()
                except Exception:  # noqa: BLE001
                    raised = True
                rec("Determinism", f"MapperValued.{qname} with {label} ({'raised' if raised else 'answered'}): the mapper's mapping_matrix afterwards",
                    "equal-inputs-give-identical-results", canon(np.array(mapper_e.mapping_matrix)) == want_mm)
    except Exception as e:
        rec("Determinism", "error paths of MapperValued", "no-exception-in-determinism-probe", False, note=f"{type(e).__name__}: {str(e)[:80]}")
    # factories return independent objects: scribbling on what a first call returned (the caller's own object) must not
    # change what an identical second call returns
    fmask = aa.Mask2D(mask=mk.copy(), pixel_scales=(1.0, 0.5), origin=(0.5, -1.0))
    factories = [
        ("Grid2D.uniform", lambda: aa.Grid2D.uniform(shape_native=(3, 5), pixel_scales=(1.0, 0.5), origin=(0.5, -1.0))),
        ("Mask2D.derive_grid.all_false", lambda: fmask.derive_grid.all_false),
        ("Mask2D.derive_grid.unmasked", lambda: fmask.derive_grid.unmasked),
        ("Grid2D.from_mask", lambda: aa.Grid2D.from_mask(mask=fmask)),
        ("Array2D.full", lambda: aa.Array2D.full(fill_value=2.5, shape_native=(3, 4), pixel_scales=1.0)),
        ("Array2D.ones", lambda: aa.Array2D.ones(shape_native=(3, 4), pixel_scales=1.0)),
        ("Mask2D.all_false", lambda: aa.Mask2D.all_false(shape_native=(3, 4), pixel_scales=1.0)),
        ("Mask2D.circular", lambda: aa.Mask2D.circular(shape_native=(7, 7), pixel_scales=1.0, radius=2.2)),
        ("Kernel2D.no_blur", lambda: aa.Kernel2D.no_blur(pixel_scales=1.0)),
        ("Mesh2DRectangular.overlay_grid", lambda: aa.Mesh2DRectangular.overlay_grid(grid=np.array(aa.Grid2D.from_mask(mask=fmask)), shape_native=(3, 3))),
        ("Mask2D.derive_indexes.native_for_slim", lambda: fmask.derive_indexes.native_for_slim),
        ("Mask2D.derive_mask.edge", lambda: fmask.derive_mask.edge),
        ("OverSamplerUniform.over_sampled_grid", lambda: aa.OverSamplerUniform(mask=fmask, sub_size=2).over_sampled_grid),
        ("Grid1D.uniform_from_zero", lambda: aa.Grid1D.uniform_from_zero(shape_native=(5,), pixel_scales=0.5)),
    ]
    for name, f in factories:
        try:
            first = f()
            want = canon(first)
            arr = getattr(first, "_array", first)
            if isinstance(arr, np.ndarray) and arr.flags.writeable and arr.size:
                if arr.dtype == bool:
                    arr[...] = ~arr
                else:
                    arr[...] = arr * 0 + 7
            rec("Determinism", f"{name}: second identical call after the first result was edited in place", "equal-inputs-give-identical-results", canon(f()) == want)
        except Exception as e:
            rec("Determinism", name, "no-exception-in-determinism-probe", False, note=f"{type(e).__name__}: {str(e)[:80]}")
    # repeating a computation with equal inputs gives identical results (two cold builds of every scenario agree)
    for nm, cls in SCENARIOS.items():
        s = cls()
        t = s.table()
        a, _ = s.build()
        b, _ = s.build()
        same = True
        for (ta, oa), (tb, ob) in zip(a, b):
            for q, fn in t[ta]["reads"].items():
                try:
                    if canon(fn(oa)) != canon(fn(ob)):
                        same = False
                except Exception:
                    pass
        rec("Determinism", f"scenario {nm}: two fresh builds", "equal-inputs-give-identical-results", same)
    return out


# ---------------------------------------------------------------------------------------------------------------
# TLC glue
# ---------------------------------------------------------------------------------------------------------------
def _tla_set(xs):
    return "{" + ", ".join('"%s"' % x for x in sorted(xs)) + "}"


def scenario_defs(scn_name, base_types, table, max_objs, max_depth):
    types = sorted(table)
    fn = lambda d: "(" + " @@ ".join(f'"{k}" :> {v}' for k, v in d.items()) + ")" if d else "<<>>"
    ops_all = {}
    for t in types:
        for op, (f, rt, cp) in table[t]["ops"].items():
            ops_all[op] = (rt, cp)
    lines = [
        "MCBaseTypes == <<" + ", ".join('"%s"' % t for t in base_types) + ">>",
        "MCReadsOf == " + fn({t: _tla_set(table[t]["reads"]) for t in types} | {"none": "{}"}),
        "MCCachedOf == " + fn({t: _tla_set(table[t]["cached"]) for t in types} | {"none": "{}"}),
        "MCOpsOf == " + fn({t: _tla_set(table[t]["ops"]) for t in types} | {"none": "{}"}),
        "MCResType == " + (fn({op: '"%s"' % rt for op, (rt, cp) in ops_all.items()}) if ops_all else '("nop" :> "same")'),
        "MCCopiesDict == " + (fn({op: ("TRUE" if cp else "FALSE") for op, (rt, cp) in ops_all.items()}) if ops_all else '("nop" :> FALSE)'),
        f"MCMaxObjs == {max_objs}", f"MCMaxDepth == {max_depth}",
    ]
    return "\n".join(lines)


def cfg(kind, drop=True):
    c = ("CONSTANTS\n  BaseTypes <- MCBaseTypes\n  ReadsOf <- MCReadsOf\n  CachedOf <- MCCachedOf\n  OpsOf <- MCOpsOf\n  ResType <- MCResType\n"
         "  CopiesDict <- MCCopiesDict\n  DropCachesOnDerive = %s\n  MaxObjs <- MCMaxObjs\n  MaxDepth <- MCMaxDepth\n" % ("TRUE" if drop else "FALSE"))
    if kind == "mc":
        c += "SPECIFICATION Spec\nVIEW view\nINVARIANT ReadsReportOwnContent\nINVARIANT CachedValuesAreOwn\nPROPERTY NothingElseChanges\n"
    elif kind == "sim":
        c += "SPECIFICATION Spec\nINVARIANT ReadsReportOwnContent\n"
    else:
        c += "SPECIFICATION TraceSpec\nPOSTCONDITION TraceAccepted\n"
    return c


def validate(ctx, episodes, tag):
    import concurrent.futures as cf

    recs, ctxs = [], {}
    for ep in episodes:
        for r in ep:
            c = r.pop("_ctx", None)
            r["id"] = len(recs)
            ctxs[r["id"]] = c
            recs.append(r)
    chunks, cur = [], []
    for r in recs:
        if r["a"] == "Start" and len(cur) >= 2500:
            chunks.append(cur)
            cur = []
        cur.append(r)
    if cur:
        chunks.append(cur)
    defs = "\n".join(['MCBaseTypes == <<>>', 'MCReadsOf == ("none" :> {})', 'MCCachedOf == ("none" :> {})', 'MCOpsOf == ("none" :> {})',
                      'MCResType == ("nop" :> "same")', 'MCCopiesDict == ("nop" :> FALSE)', "MCMaxObjs == 400", "MCMaxDepth == 0"])
    rejects = []

    def one(kc):
        k, ch = kc
        return ctx.validate_trace("Trace_PureQueries", cfg("trace"), ch, tag=f"{tag}_{k}", defs=defs)[1]

    with cf.ThreadPoolExecutor(max_workers=min(16, len(chunks) or 1)) as ex:
        for rej in ex.map(one, list(enumerate(chunks))):
            rejects.extend(rej)
    for rj in rejects:
        rec = recs[rj["id"]]
        desc = {k: v for k, v in rec.items() if k not in ("cacheset", "id", "bufs_ok", "defaults_ok", "others_ok")}
        ctx.violation(rj["sig"], f"{json.dumps(desc, default=str)[:260]}: failed {rj['clauses']}",
                      {"replay": ctxs.get(rj["id"]), "record": rec, "failed_clauses": rj["clauses"]}, cls=",".join(rj["clauses"]))
    return rejects


def random_events(rng, table, base_types, length, max_objs):
    types = list(base_types)
    ev = []
    for _ in range(length):
        o = int(rng.integers(1, len(types) + 1))
        t = types[o - 1]
        ops = sorted(table[t]["ops"])
        if ops and len(types) < max_objs and rng.random() < 0.3:
            op = ops[int(rng.integers(0, len(ops)))]
            ev.append({"a": "Derive", "o": o, "op": op})
            rt = table[t]["ops"][op][1]
            types.append(t if rt == "same" else rt)
        else:
            qs = sorted(table[t]["reads"])
            ev.append({"a": "Read", "o": o, "q": qs[int(rng.integers(0, len(qs)))]})
    return ev


def run(ctx):
    quick = ctx.quick
    rng = np.random.default_rng(ctx.seed)
    nsim = {"structures": 150, "dataset": 40, "inversion": 60, "meshes": 40} if quick else {"structures": 12000, "dataset": 2000, "inversion": 4000, "meshes": 1500}
    nrand = {"structures": 20, "dataset": 6, "inversion": 10, "meshes": 6} if quick else {"structures": 1500, "dataset": 300, "inversion": 600, "meshes": 200}
    ctx.bounds = {"scenarios": list(SCENARIOS), "simulated_behaviours": nsim, "random_histories": nrand, "simulation_depth": 12,
                  "random_history_length": {"structures": 60, "dataset": 25, "inversion": 50, "meshes": 30}}
    jobs = []
    for name, cls in SCENARIOS.items():
        scn = cls()
        table = scn.table()
        base_types = [t for t, _ in scn.build()[0]]
        nb = len(base_types)
        # exhaustive exploration of a reduced alphabet (two reads and two derivations per type keep the machine small)
        small = {}
        for t in table:
            reads = sorted(table[t]["reads"])
            cached_first = sorted(table[t]["cached"]) + [q for q in reads if q not in table[t]["cached"]]
            ops = sorted(table[t]["ops"])
            small[t] = {"reads": {q: None for q in cached_first[:2]}, "cached": set(cached_first[:2]) & table[t]["cached"],
                        "ops": {op: table[t]["ops"][op] for op in ops[:2]}}
        sb = base_types[: min(nb, 3)]
        sm = {t: small[t] for t in set(sb)}
        ctx.tlc("PureQueries", cfg("mc", True), defs=scenario_defs(name, sb, sm, len(sb) + 2, 5), tag=f"MC_{name}", timeout=900)
        if not quick and any(v["ops"] and v["cached"] for v in sm.values()):
            bug = ctx.tlc("PureQueries", cfg("mc", False), defs=scenario_defs(name, sb, sm, len(sb) + 2, 5), tag=f"MC_{name}_carry", timeout=300, allow_errors=True)
            ctx.note(f"{name}: DropCachesOnDerive=FALSE (design-level counterexample expected): {bug.errors[:1]}")
        # behaviours over the full alphabet
        simdir = ctx.work / f"sim_{name}"
        simdir.mkdir(exist_ok=True)
        ctx.tlc("PureQueries", cfg("sim", True), defs=scenario_defs(name, base_types, table, nb + 5, 12), tag=f"SIM_{name}", timeout=600,
                simulate=f"file={simdir}/b,num={nsim[name]}", depth=14, seed=ctx.seed, workers=1)
        for f in sorted(simdir.iterdir()):
            st = core.parse_sim_file(f)
            if st:
                h = st[-1][1]["hist"]
                ctx.states += len(h) + 1
                ctx.transitions += len(h)
                jobs.append((name, h))
        for _ in range(nrand[name]):
            jobs.append((name, random_events(rng, table, base_types, ctx.bounds["random_history_length"][name], 14)))
        # systematic access orders: for every base object, ONE quantity is read first and then every other quantity of that
        # object (in a seeded order): whatever a read computes on the way (solves, in-place sums, LAPACK calls) must leave all
        # the others as the cold twin reports them. Quick rotates over the first quantities; thorough takes every one.
        for o, t in enumerate(base_types, start=1):
            qs = sorted(table[t]["reads"])
            if len(qs) < 2:
                continue
            firsts = qs if not quick else [qs[(ctx.seed + o + k * 5) % len(qs)] for k in range(min(3, len(qs)))]
            for q0 in dict.fromkeys(firsts + [q for q in ("reconstruction", "curvature_matrix", "curvature_reg_matrix") if q in qs]):
                rest = [q for q in qs if q != q0]
                rest = [rest[i] for i in rng.permutation(len(rest))]
                jobs.append((name, [{"a": "Read", "o": o, "q": q0}] + [{"a": "Read", "o": o, "q": q} for q in rest] + [{"a": "Read", "o": o, "q": q0}]))
    ctx.exhaustive = True
    groups = [jobs[k : k + 6] for k in range(0, len(jobs), 6)]
    episodes = []
    for part in core.pmap(_exec_many, groups):
        episodes.extend(part)
    ctx.replayed = sum(nsim.values())
    pr = probes(ctx.seed)
    for r in pr:
        r["_ctx"] = {"probe": r["what"]}
    episodes.append([{"a": "Start", "types": [], "scn": "probes"}] + pr)
    ctx.sample({"behaviour": jobs[0][1][:6], "scenario": jobs[0][0]})
    ctx.sample({"records": [{k: v for k, v in r.items() if k != "_ctx"} for r in episodes[0][2:5]]})
    validate(ctx, episodes, "C11")
    ctx.note(f"{len(jobs)} histories replayed on real object graphs; {len(pr)} constructor/determinism probes")
    ctx.assumptions = ["equality of values is decided by SHA-256 fingerprints of dtype, shape and bytes against a cold twin built from scratch",
                       "cached quantity names are extracted from the working tree at run time (autoconf cached_property_names)"]


def replay(ctx, rp):
    c = rp.get("replay") or {}
    if "scenario" in c:
        eps = [execute(c["scenario"], c["events"])]
    else:
        pr = probes(ctx.seed)
        for r in pr:
            r["_ctx"] = {"probe": r["what"]}
        eps = [[{"a": "Start", "types": [], "scn": "probes"}] + pr]
    rej = validate(ctx, eps, "replay")
    print("replayed; rejected:", [(r["sig"], r["clauses"]) for r in rej])
    return ctx.finish()
