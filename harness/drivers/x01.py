"""X01 (extra) -- dataset preprocessing obeys its definitions for every input (autoarray/dataset/preprocess.py).

S->C: Preprocess.tla enumerates small frames (<= 3x4) x masks x value patterns for the element-wise functions (unit
      conversions, noise-map builders, weight maps), frames x numbers of rings for edges_from and the background estimators,
      frames x masks x limit masks x limits for the signal-to-noise limit, shape pairs for array_with_new_shape, kernel
      shapes for the odd-sized PSF and (function, seed, two global generator states) for the random functions; TLC checks
      the design theorems on each (conversions mutually inverse, the noise builders are one quadrature family, the
      fixed-point verdict brackets the true square root, rings partition the frame, the four-slices formulation of
      edges_from agrees with the rings exactly off single-line rings, the limit caps the signal to noise, the resize is
      C14's centred resize, seeded draws ignore the global generator) and dumps the instances, which are replayed through
      the real functions.
C->S: what comes back is abstracted onto the exact domains (integer mantissas x powers of two, rationals by a common
      denominator, fixed point for square roots, tags for data movement, content identifiers for random results) and judged
      by Trace_Preprocess.tla -- also for seeded random larger instances (frames up to 12x12, more values, more seeds)."""
import json
import math

import numpy as np

from harness import core, exact

OFF = 2_000_000_000
NAN = 1_999_999_999
LARGE = 1_999_999_998
INF = 1_999_999_997
FF = 1 << 20  # fine fixed-point scale (exact mode for perfect squares)
FS = 256  # coarse fixed-point scale of the element-wise square roots

INVARIANTS = ["ConversionsAreMutualInverses", "MaskedCellsAreZero", "NoiseBuildersAreOneFamily", "FixedPointBracketsTheSquareRoot",
              "WeightNoiseInvertsTheWeight", "RingsPartitionTheFrame", "SlicesAgreeWithRingsOffSingleLineRings", "EstimatorsAreSane",
              "LimitCapsSignalToNoise", "NewShapeIsTheCentredResize", "PsfOddDimensions", "SeededDrawsIgnoreTheGlobalGenerator"]

CONSTS = ["PixShapes", "PixTuples", "PixOffs", "Gains", "ExpTimes", "WeightVals", "WeightOffs", "EdgeShapes", "EdgeVals", "EdgeOffs",
          "SnrShapes", "SnrTuples", "SnrOffs", "Limits", "ResizeIn", "ResizeOut", "PsfShapes", "RngFns", "Seeds", "GlobalSeeds"]

MC_CFG = ("CONSTANTS\n" + "".join(f"  {c} <- MC{c}\n" for c in CONSTS) + "  MaskMax = %d\n  FxScale = %d\nSPECIFICATION Spec\n"
          + "".join(f"INVARIANT {x}\n" for x in INVARIANTS))

TRACE_CFG = ("CONSTANTS\n" + "".join(f"  {c} = {{}}\n" for c in CONSTS if c not in ("PixTuples", "WeightVals", "EdgeVals", "SnrTuples"))
             + "  PixTuples <- MCEmpty\n  WeightVals <- MCEmpty\n  EdgeVals <- MCEmpty\n  SnrTuples <- MCEmpty\n"
             + "  MaskMax = 0\n  FxScale = 1\nSPECIFICATION TraceSpec\nPOSTCONDITION TraceAccepted\n")
TRACE_DEFS = "MCEmpty == << >>"

SEEDED = ("poisson_noise_via_data_eps_from", "data_eps_with_poisson_noise_added", "gaussian_noise_via_shape_and_sigma_from",
          "data_with_gaussian_noise_added", "data_with_complex_gaussian_noise_added")
UNIFORM = "array_with_random_uniform_values_added"
RNG_FNS = SEEDED + (UNIFORM,)


# ------------------------------------------------------------------------------------------------------------
# TLA+ literals
# ------------------------------------------------------------------------------------------------------------
def _tup(t):
    return "<<" + ", ".join(str(x) for x in t) + ">>"


def _set(items):
    return "{" + ", ".join(items) + "}"


def _seq(items):
    return "<<" + ", ".join(items) + ">>"


def mc_defs(b):
    d = {
        "PixShapes": _set(_tup(s) for s in b["pix_shapes"]),
        "PixTuples": _seq(_tup(t) for t in b["pix_tuples"]),
        "PixOffs": _set(str(x) for x in b["pix_offsets"]),
        "Gains": _set(str(x) for x in b["gains"]),
        "ExpTimes": _set(str(x) for x in b["exposure_times"]),
        "WeightVals": _seq(_tup(t) for t in b["weights"]),
        "WeightOffs": _set(str(x) for x in b["weight_offsets"]),
        "EdgeShapes": _set(_tup(s) for s in b["edge_shapes"]),
        "EdgeVals": _seq(str(x) for x in b["edge_values"]),
        "EdgeOffs": _set(str(x) for x in b["edge_offsets"]),
        "SnrShapes": _set(_tup(s) for s in b["snr_shapes"]),
        "SnrTuples": _seq(_tup(t) for t in b["snr_tuples"]),
        "SnrOffs": _set(str(x) for x in b["snr_offsets"]),
        "Limits": _set(_tup(t) for t in b["limits"]),
        "ResizeIn": _set(_tup(s) for s in b["resize_in"]),
        "ResizeOut": _set(_tup(s) for s in b["resize_out"]),
        "PsfShapes": _set(_tup(s) for s in b["psf_shapes"]),
        "RngFns": _set('"%s"' % f for f in RNG_FNS),
        "Seeds": _set(str(x) for x in b["seeds"]),
        "GlobalSeeds": _set(str(x) for x in b["global_seeds"]),
    }
    return "\n".join(f"MC{k} == {v}" for k, v in d.items())


# ------------------------------------------------------------------------------------------------------------
# alpha: floats -> exact domains (always rejecting: off-lattice / non-finite values become sentinels)
# ------------------------------------------------------------------------------------------------------------
def ai(x, scale=1.0, tol=1e-6):
    """value / scale must be an integer (within tol, relative for big values); else OFF."""
    a = np.asarray(x, dtype=float).ravel() / scale
    out = []
    for v in a:
        if not math.isfinite(v) or abs(v) > 1e9:
            out.append(OFF)
            continue
        r = round(v)
        out.append(int(r) if abs(v - r) <= tol * max(1.0, abs(v)) else OFF)
    return out


def fx(x, scale, unit=1.0):
    """fixed point round(value / unit * scale) with sentinels for what is not a modest finite number."""
    a = np.asarray(x, dtype=float).ravel()
    out = []
    for v in a:
        if math.isnan(v):
            out.append(NAN)
        elif math.isinf(v):
            out.append(INF)
        elif abs(v) >= 1.0e8:
            out.append(LARGE)
        else:
            q = v / unit * scale
            out.append(int(round(q)) if abs(q) < 1.9e9 else OFF)
    return out


def tags_of(arr, ncells):
    return [OFF if s == exact.OFF else s for s in exact.tags_to_src(np.asarray(arr, dtype=float), base=1, n_cells=ncells)]


def _lcm(xs):
    out = 1
    for x in xs:
        out = out * int(x) // math.gcd(out, int(x))
    return out


# ------------------------------------------------------------------------------------------------------------
# gamma: abstract instance -> real objects
# ------------------------------------------------------------------------------------------------------------
def _mask(h, w, u):
    import autoarray as aa

    m = np.ones(h * w, dtype=bool)
    m[list(u)] = False
    return aa.Mask2D(mask=m.reshape(h, w), pixel_scales=(1.0, 1.0))


def _arr(vals, h, w, mask, unit=1.0, sn=False):
    import autoarray as aa

    return aa.Array2D(values=(np.asarray(vals, dtype=float) * unit).reshape(h, w), mask=mask, store_native=sn)


def _native(x):
    return np.array(x.native.array if hasattr(x.native, "array") else x.native, dtype=float)


def _rng_for(src):
    return np.random.default_rng([int(src.get("seed", 0)), int(src["sid"])])


def _base(src, api):
    return {"api": api, "h": src["h"], "w": src["w"], "u": list(src["u"]), "_src": src}


# ---- unit conversions and data-based noise maps ---------------------------------------------------------------
def records_pix(src):
    from autoarray.dataset import preprocess as pp

    h, w, u = src["h"], src["w"], src["u"]
    rng = _rng_for(src)
    mask = _mask(h, w, u)
    D, T, B, g, et = src["d"], src["t"], src["b"], src["g"], src["et"]
    recs = []
    for sn in ((False, True) if src.get("both_forms") else (bool(src.get("sn", False)),)):
        ed, e_t, eg, ex = (int(x) for x in rng.integers(-3, 4, size=4))
        A = lambda vals, e: _arr(vals, h, w, mask, 2.0 ** e, sn)  # noqa: E731
        gain, etime = g * 2.0 ** eg, et * 2.0 ** ex
        tu = [T[k] for k in u]
        L = _lcm(tu + [g, et])
        r = _base(src, "units")
        r.update({"sn": sn, "d": D, "t": T, "g": g, "et": et, "den": L})
        counts = pp.array_eps_to_counts(array_eps=A(D, ed), exposure_time_map=A(T, e_t))
        r["counts"] = ai(_native(counts), 2.0 ** (ed + e_t))
        r["cslim"] = ai(np.array(counts.slim.array), 2.0 ** (ed + e_t))
        r["cback"] = ai(_native(pp.array_counts_to_eps(array_counts=counts, exposure_time_map=A(T, e_t))), 2.0 ** ed)
        ceps = pp.array_counts_to_eps(array_counts=A(D, ed), exposure_time_map=A(T, e_t))
        r["ceps"] = ai(_native(ceps), 2.0 ** (ed - e_t) / L)
        r["ceback"] = ai(_native(pp.array_eps_to_counts(array_eps=ceps, exposure_time_map=A(T, e_t))), 2.0 ** ed)
        adus = pp.array_eps_to_adus(array_eps=A(D, ed), exposure_time_map=A(T, e_t), gain=gain)
        r["adus"] = ai(_native(adus), 2.0 ** (ed + e_t - eg) / L)
        r["aback"] = ai(_native(pp.array_adus_to_eps(array_adus=adus, exposure_time_map=A(T, e_t), gain=gain)), 2.0 ** ed)
        aeps = pp.array_adus_to_eps(array_adus=A(D, ed), exposure_time_map=A(T, e_t), gain=gain)
        r["aeps"] = ai(_native(aeps), 2.0 ** (ed + eg - e_t) / L)
        r["aeback"] = ai(_native(pp.array_eps_to_adus(array_eps=aeps, exposure_time_map=A(T, e_t), gain=gain)), 2.0 ** ed)
        r["cps"] = ai(_native(pp.array_counts_to_counts_per_second(array_counts=A(D, ed), exposure_time=etime)), 2.0 ** (ed - ex) / L)
        r["_exps"] = {"ed": ed, "et": e_t, "eg": eg, "ex": ex}
        recs.append(r)

        # noise builders: data 2^(2eb+et), exposure time 2^et, background noise 2^eb, variances 2^(2eb+et); results 2^eb
        eb, e_t = (int(x) for x in rng.integers(-3, 4, size=2))
        ed = 2 * eb + e_t
        unit = 2.0 ** eb
        n = _base(src, "noise")
        n.update({"sn": sn, "d": D, "t": T, "b": B, "fs": FS, "ff": FF, "den": _lcm(tu)})
        x = pp.noise_map_via_data_eps_and_exposure_time_map_from(data_eps=A(D, ed), exposure_time_map=A(T, e_t))
        n["pn"], n["pnf"] = fx(_native(x), FS, unit), fx(_native(x), FF, unit)
        x = pp.noise_map_via_data_eps_exposure_time_map_and_background_noise_map_from(
            data_eps=A(D, ed), exposure_time_map=A(T, e_t), background_noise_map=A(B, eb))
        n["bn"], n["bnf"] = fx(_native(x), FS, unit), fx(_native(x), FF, unit)
        x = pp.noise_map_via_data_eps_exposure_time_map_and_background_variances_from(
            data_eps=A(D, ed), exposure_time_map=A(T, e_t), background_variances=A(B, ed))
        n["bv"], n["bvf"] = fx(_native(x), FS, unit), fx(_native(x), FF, unit)
        x = pp.noise_map_via_inverse_noise_map_from(inverse_noise_map=A(T, e_t))
        n["inv"] = ai(_native(x), 2.0 ** (-e_t) / n["den"])
        n["_exps"] = {"eb": eb, "et": e_t}
        recs.append(n)
    return recs


def records_weight(src):
    from autoarray.dataset import preprocess as pp

    h, w, u = src["h"], src["w"], src["u"]
    rng = _rng_for(src)
    mask = _mask(h, w, u)
    recs = []
    for sn in ((False, True) if src.get("both_forms") else (bool(src.get("sn", False)),)):
        e = int(rng.integers(-3, 4))
        wm = _arr([a / b for a, b in zip(src["wn"], src["wd"])], h, w, mask, 4.0 ** e, sn)
        with np.errstate(all="ignore"):
            x = pp.noise_map_via_weight_map_from(weight_map=wm)
        unit = 2.0 ** (-e)
        r = _base(src, "weight")
        r.update({"sn": sn, "wn": src["wn"], "wd": src["wd"], "fs": FS, "ff": FF,
                  "out": fx(_native(x), FS, unit), "outf": fx(_native(x), FF, unit), "_exps": {"e": e}})
        recs.append(r)
    return recs


# ---- edges and background estimators ------------------------------------------------------------------------------
def _pow2_floor(x):
    return 1 << max(int(math.floor(math.log2(max(x, 1.0)))), 0)


def records_edges(src):
    from autoarray.dataset import preprocess as pp

    h, w, u, n, V = src["h"], src["w"], src["u"], src["n"], src["v"]
    rng = _rng_for(src)
    mask = _mask(h, w, u)
    e = int(rng.integers(-3, 4))
    unit = 2.0 ** e
    vmax = max(1, max(abs(x) for x in V))
    fs = min(FS, _pow2_floor(40000.0 / (2 * h * w * vmax)))  # (sd+1) * n <= 46000 and S^2 * n^2 * variance < 2^31
    r = _base(src, "edges")
    r.update({"v": V, "n": n, "fs": fs, "raised": "", "tags": [], "sky2": OFF, "sd": OFF, "sdmax": OFF, "boh": 0, "bow": 0})
    try:
        tagged = _arr(np.arange(1, h * w + 1), h, w, mask)
        img = _arr(V, h, w, mask, unit)
        r["tags"] = tags_of(pp.edges_from(image=tagged, no_edges=n), h * w)
        with np.errstate(all="ignore"):
            sky = pp.background_sky_level_via_edges_from(image=img, no_edges=n)
            bg = pp.background_noise_map_via_edges_from(image=img, no_edges=n)
        r["sky2"] = ai([2.0 * float(sky)], unit)[0]
        nb = _native(bg)
        r["boh"], r["bow"] = (int(nb.shape[0]), int(nb.shape[1])) if nb.ndim == 2 else (0, 0)
        r["sd"] = fx([nb.min()], fs, unit)[0]
        r["sdmax"] = fx([nb.max()], fs, unit)[0]
    except Exception as ex:  # the property quantifies over every frame: an exception is a verdict, not a machinery failure
        r["raised"] = type(ex).__name__
    r["_exps"] = {"e": e}
    return [r]


# ---- signal-to-noise limit ---------------------------------------------------------------------------------------------
def records_snr(src):
    from autoarray.dataset import preprocess as pp

    h, w, u = src["h"], src["w"], src["u"]
    rng = _rng_for(src)
    mask = _mask(h, w, u)
    e = int(rng.integers(-3, 4))
    unit = 2.0 ** e
    ln, ld = src["ln"], src["ld"]
    r = _base(src, "snr")
    r.update({"d": src["d"], "nz": src["nz"], "ln": ln, "ld": ld, "haslm": bool(src["haslm"]), "lm": list(src["lm"]),
              "raised": "", "out": [], "oh": 0, "ow": 0})
    lm = None
    if src["haslm"]:
        lm = np.zeros(h * w, dtype=bool)
        lm[list(src["lm"])] = True
        lm = lm.reshape(h, w)
    try:
        x = pp.noise_map_with_signal_to_noise_limit_from(
            data=_arr(src["d"], h, w, mask, unit), noise_map=_arr(src["nz"], h, w, mask, unit), signal_to_noise_limit=ln / ld,
            noise_limit_mask=lm)
        nx = _native(x)
        r["oh"], r["ow"] = (int(nx.shape[0]), int(nx.shape[1])) if nx.ndim == 2 else (1, int(nx.size))
        r["out"] = ai(nx, unit / ln)
    except Exception as ex:
        r["raised"] = type(ex).__name__
    r["_exps"] = {"e": e}
    return [r]


# ---- resize / odd PSF ------------------------------------------------------------------------------------------
def records_newshape(src):
    from autoarray.dataset import preprocess as pp

    h, w, u, h2, w2 = src["h"], src["w"], src["u"], src["h2"], src["w2"]
    mask = _mask(h, w, u)
    x = pp.array_with_new_shape(array=_arr(np.arange(1, h * w + 1), h, w, mask), new_shape=(h2, w2))
    nx = _native(x)
    r = _base(src, "newshape")
    r.update({"h2": h2, "w2": w2, "oh": int(nx.shape[0]), "ow": int(nx.shape[1]), "src": tags_of(nx, h * w),
              "um": [int(k) for k in np.flatnonzero(~np.asarray(x.mask, dtype=bool).ravel())]})
    return [r]


def records_psf(src):
    import autoarray as aa
    from autoarray.dataset import preprocess as pp

    h, w = src["h"], src["w"]
    r = _base(src, "psf")
    r.update({"raised": "", "oh": 0, "ow": 0, "src": []})
    try:
        k = aa.Kernel2D.no_mask(values=np.arange(1, h * w + 1, dtype=float).reshape(h, w), pixel_scales=1.0)
        x = pp.psf_with_odd_dimensions_from(psf=k)
        nx = _native(x)
        r["oh"], r["ow"] = int(nx.shape[0]), int(nx.shape[1])
        if h % 2 == 1 and w % 2 == 1:
            r["src"] = tags_of(nx, h * w)
    except Exception as ex:
        r["raised"] = type(ex).__name__
    return [r]


# ---- random functions ----------------------------------------------------------------------------------------------
def records_rng(src):
    import autoarray as aa
    from autoarray.dataset import preprocess as pp

    fn, seed, g1, g2 = src["fn"], int(src["seed"]), int(src["g1"]), int(src["g2"])
    rng = _rng_for(src)
    h, w = (int(x) for x in rng.integers(1, 5, size=2))
    keep = rng.random(h * w) < 0.7
    keep[int(rng.integers(0, h * w))] = True
    mask = _mask(h, w, np.flatnonzero(keep))
    data = _arr(rng.integers(0, 9, size=h * w), h, w, mask, 0.5)
    tmap = _arr(rng.integers(1, 9, size=h * w), h, w, mask, 4.0)
    vis = aa.Visibilities(visibilities=rng.integers(-4, 5, size=5) + 1j * rng.integers(-4, 5, size=5))
    ul = 2.0 ** -4
    if fn in ("poisson_noise_via_data_eps_from", "data_eps_with_poisson_noise_added"):
        inputs = [data, tmap]
        call = lambda: getattr(pp, fn)(data_eps=data, exposure_time_map=tmap, seed=seed)  # noqa: E731
    elif fn == "gaussian_noise_via_shape_and_sigma_from":
        inputs = []
        call = lambda: pp.gaussian_noise_via_shape_and_sigma_from(shape=(h, w), sigma=0.5, seed=seed)  # noqa: E731
    elif fn == "data_with_gaussian_noise_added":
        inputs = [data]
        call = lambda: pp.data_with_gaussian_noise_added(data=data, sigma=0.5, seed=seed)  # noqa: E731
    elif fn == "data_with_complex_gaussian_noise_added":
        inputs = [vis]
        call = lambda: pp.data_with_complex_gaussian_noise_added(data=vis, sigma=0.5, seed=seed)  # noqa: E731
    elif fn == UNIFORM:
        inputs = [data]
        call = lambda: pp.array_with_random_uniform_values_added(array=data, upper_limit=ul)  # noqa: E731
    else:
        raise core.MachineryError(f"unknown random function {fn}")

    def fps():
        out = []
        for x in inputs:
            out.append(exact.fp(np.array(x.array)))
            if isinstance(x, aa.Array2D):
                out.append(exact.fp(np.array(x.native.array)))
        return out

    names = {}

    def cid(f):
        return names.setdefault(f, len(names))

    state = np.random.get_state()
    try:
        ids, inb, ina = [], [], []
        q = []
        # the same (input, seed) under: global state g1; global state g2 advanced by a few draws; whatever the previous
        # call left behind.  (uniform values have no seed argument: their "seed" is the global state itself.)
        for rep, g in enumerate((g1, g2, None)):
            if g is not None:
                np.random.seed(g)
                np.random.random(rep * 3)
            if fn == UNIFORM:
                np.random.seed(seed)
            before = fps()
            out = call()
            after = fps()
            ids.append(cid(exact.fp(np.array(out.array if hasattr(out, "array") else out))))
            inb += [cid(f) for f in before]
            ina += [cid(f) for f in after]
            if fn == UNIFORM and rep == 0:
                diff = (np.array(out.array) - np.array(data.array)) / ul
                q = [int(math.floor(v * 1024)) if math.isfinite(v) and abs(v) < 1e6 else -1 for v in diff]
    finally:
        np.random.set_state(state)
    r = {"api": "rng", "h": h, "w": w, "u": [int(k) for k in np.flatnonzero(keep)], "fn": fn, "seed": seed, "g1": g1, "g2": g2,
         "ids": ids, "inb": inb, "ina": ina, "q": q, "qn": 1024, "_src": src}
    return [r]


KINDS = {"pix": records_pix, "weight": records_weight, "edges": records_edges, "snr": records_snr, "newshape": records_newshape,
         "psf": records_psf, "rng": records_rng}


def records_for(src):
    return KINDS[src["kind"]](src)


def _many(srcs):
    out = []
    for s in srcs:
        out.extend(records_for(s))
    return out


# ------------------------------------------------------------------------------------------------------------
# instance sources
# ------------------------------------------------------------------------------------------------------------
def src_from_tlc(r, sid, seed):
    s = {k: v for k, v in r.items() if k != "k"}
    s.update({"sid": sid, "seed": seed if r["kind"] != "rng" else r["seed"], "origin": "tlc", "both_forms": True})
    if r["kind"] == "snr":
        # the limit mask {} is explored both as "no mask given" and as an all-False mask
        s["haslm"] = not (len(r["lm"]) == 0 and sid % 2 == 0)
    return s


def random_mask(rng, h, w):
    style = int(rng.integers(0, 4))
    m = rng.random(h * w) < (0.3, 0.6, 0.9, 1.1)[style]
    if not m.any():
        m[int(rng.integers(0, h * w))] = True
    return [int(k) for k in np.flatnonzero(m)]


WEIGHT_POOL = [(1, 4), (1, 1), (4, 1), (16, 1), (9, 4), (1, 16), (4, 9), (25, 16), (2, 1), (3, 4), (5, 1), (1, 2), (0, 1), (0, 1),
               (-1, 1), (-4, 1), (-1, 4), (-3, 2)]


def random_sources(rng, count, max_side, seed, sid0):
    out = []
    for k in range(count):
        kind = ("pix", "weight", "edges", "snr", "newshape", "psf", "rng", "pix", "edges", "snr")[k % 10]
        h, w = (int(x) for x in rng.integers(1, max_side + 1, size=2))
        if k % 7 == 0:
            h = 1 + k % 2 * int(rng.integers(0, 3))  # thin frames
        n = h * w
        s = {"kind": kind, "h": h, "w": w, "u": random_mask(rng, h, w), "sid": sid0 + k, "seed": seed, "origin": "random",
             "sn": bool(rng.integers(0, 4) == 0)}
        if kind == "pix":
            s.update({"d": [int(x) for x in rng.integers(-8, 9, size=n)], "t": [int(x) for x in rng.integers(1, 9, size=n)],
                      "b": [int(x) for x in rng.integers(0, 9, size=n)], "g": int(rng.integers(1, 9)), "et": int(rng.integers(1, 9))})
        elif kind == "weight":
            pick = rng.integers(0, len(WEIGHT_POOL), size=n)
            s.update({"wn": [WEIGHT_POOL[p][0] for p in pick], "wd": [WEIGHT_POOL[p][1] for p in pick]})
        elif kind == "edges":
            h, w = min(h, 9), min(w, 9)
            rings = (min(h, w) + 1) // 2
            s.update({"h": h, "w": w, "u": random_mask(rng, h, w) if k % 3 == 0 else list(range(h * w)),
                      "v": [int(x) for x in rng.integers(-6, 7, size=h * w)], "n": int(rng.integers(1, rings + 1))})
        elif kind == "snr":
            lm = [int(x) for x in np.flatnonzero(rng.random(n) < 0.4)]
            s.update({"d": [int(x) for x in rng.integers(-8, 9, size=n)], "nz": [int(x) for x in rng.integers(1, 7, size=n)],
                      "ln": int(rng.choice([1, 2, 3, 5])), "ld": int(rng.choice([1, 2, 4])), "haslm": bool(k % 20 < 10), "lm": lm})
        elif kind == "newshape":
            s.update({"h2": int(rng.integers(1, max_side + 3)), "w2": int(rng.integers(1, max_side + 3))})
        elif kind == "psf":
            s.update({"h": min(h, 8), "w": min(w, 8)})
            s["u"] = list(range(s["h"] * s["w"]))
        elif kind == "rng":
            s.update({"fn": RNG_FNS[int(rng.integers(0, len(RNG_FNS)))],
                      "seed": int(rng.choice([0, 0, 1, int(rng.integers(2, 2 ** 31 - 1))])),
                      "g1": int(rng.integers(0, 1000)), "g2": int(rng.integers(0, 1000))})
        out.append(s)
    return out


# ------------------------------------------------------------------------------------------------------------
# validation
# ------------------------------------------------------------------------------------------------------------
def _describe(rec):
    s = rec["_src"]
    if rec["api"] == "rng":
        return f"{rec['fn']} seed={rec['seed']} global seeds {rec['g1']}/{rec['g2']}"
    extra = {"edges": lambda: f" no_edges={rec['n']} image={rec['v']}",
             "snr": lambda: f" limit={rec['ln']}/{rec['ld']} limit_mask={'none' if not rec['haslm'] else rec['lm']} data={rec['d']} noise={rec['nz']}",
             "newshape": lambda: f" new_shape=({rec['h2']},{rec['w2']})",
             "weight": lambda: f" weights={list(zip(rec['wn'], rec['wd']))}"}.get(rec["api"], lambda: "")()
    return f"{rec['api']} on {rec['h']}x{rec['w']} unmasked={rec['u']}{extra} [{s.get('origin')}]"


def validate(ctx, records, tag, chunk=2500):
    import concurrent.futures as cf

    for n, r in enumerate(records):
        r["id"] = n
    nchunks = max(1, min(16, (len(records) + chunk - 1) // chunk))
    chunks = [records[k::nchunks] for k in range(nchunks)]
    rejects = []

    def one(args):
        k, ch = args
        clean = [{a: b for a, b in r.items() if not a.startswith("_")} for r in ch]
        res, rej = ctx.validate_trace("Trace_Preprocess", TRACE_CFG, clean, tag=f"{tag}-{k}", timeout=1800, defs=TRACE_DEFS,
                                      env={"JAVA_TOOL_OPTIONS": "-XX:ParallelGCThreads=2 -XX:CICompilerCount=2"})
        return rej

    with cf.ThreadPoolExecutor(max_workers=min(8, len(chunks))) as ex:
        for rej in ex.map(one, list(enumerate(chunks))):
            rejects.extend(rej)
    for rj in rejects:
        rec = records[rj["id"]]
        ctx.violation(
            rj["sig"],
            f"{_describe(rec)}: failed {rj['clauses']}",
            {"record": {a: b for a, b in rec.items() if not a.startswith("_")}, "src": rec["_src"], "exponents": rec.get("_exps"),
             "failed_clauses": rj["clauses"], "spec_wanted": rj.get("want")},
            cls=",".join(rj["clauses"]),
        )
    return rejects


# ------------------------------------------------------------------------------------------------------------
def _bounds(quick, rng):
    data = [-3, -1, 0, 2, 5]
    times = [1, 2, 3, 4]
    bgs = [0, 1, 3]
    tuples = [(d, t, b) for d in data for t in times for b in bgs]
    rng.shuffle(tuples)
    tuples = [tuple(int(x) for x in t) for t in tuples]
    snr = [(d, n) for d in (-6, -1, 0, 1, 2, 3, 6, 8) for n in (1, 2, 4)]
    rng.shuffle(snr)
    snr = [tuple(int(x) for x in t) for t in snr]
    small = [(h, w) for h in (1, 2, 3) for w in (1, 2, 3, 4)]
    weights = [(1, 4), (1, 1), (4, 1), (16, 1), (0, 1), (-1, 1), (9, 4), (2, 1), (-4, 1), (1, 16), (3, 4)]
    b = {
        "pix_shapes": [(1, 1), (1, 3), (2, 2), (2, 3), (3, 1), (3, 4)] if quick else small + [(4, 1), (4, 2), (4, 3)],
        "mask_all_up_to_cells": 4 if quick else 6,
        "pix_tuples": tuples,
        "pix_offsets": list(range(0, len(tuples), 6 if quick else 3)),
        "gains": [1, 3] if quick else [1, 2, 3],
        "exposure_times": [2] if quick else [1, 3, 4],
        "weights": weights,
        "weight_offsets": [0, 4, 7] if quick else list(range(len(weights))),
        "edge_shapes": small + [(4, 1), (4, 3), (5, 2)] if quick else small + [(4, 1), (4, 2), (4, 3), (5, 1), (5, 2), (4, 4), (5, 3), (5, 5)],
        "edge_values": [0, 3, -2, 5, 1, 1, -4, 2, 0, 5, -1, 3, 4],
        "edge_offsets": [0, 5] if quick else [0, 3, 5, 8, 11],
        "snr_shapes": [(1, 1), (1, 3), (2, 2), (3, 1), (2, 3)] if quick else small + [(4, 1), (4, 2)],
        "snr_tuples": snr,
        "snr_offsets": [0, 9, 14] if quick else [0, 5, 9, 14, 19],
        "limits": [(2, 1), (3, 2), (1, 2)] if quick else [(1, 1), (2, 1), (3, 2), (5, 4), (1, 2)],
        "resize_in": [(1, 1), (2, 3), (3, 2), (3, 3), (3, 4), (1, 4)] if quick else small + [(4, 3), (4, 4)],
        "resize_out": [(1, 1), (2, 2), (3, 3), (2, 5), (5, 2), (4, 4), (1, 6), (6, 5)] if quick
        else [(a, c) for a in range(1, 7) for c in range(1, 7)],
        "psf_shapes": [(h, w) for h in range(1, 5) for w in range(1, 5)] if quick else [(h, w) for h in range(1, 7) for w in range(1, 7)],
        "seeds": [0, 1, 7] if quick else [0, 1, 2, 7, 12345],
        "global_seeds": [3, 4] if quick else [0, 3, 4],
        "fixed_point_scales": {"coarse": FS, "fine": FF},
        "random_instances": 2000 if quick else 12000,
        "random_max_side": 12,
    }
    return b


def run(ctx):
    quick = ctx.quick
    rng = np.random.default_rng(ctx.seed)
    b = _bounds(quick, rng)
    ctx.bounds = b
    res = ctx.tlc("Preprocess", MC_CFG % (b["mask_all_up_to_cells"], FS), defs=mc_defs(b), tag="MC_Preprocess", timeout=2400)
    insts = sorted(res.by_kind("inst"), key=lambda r: json.dumps(r, sort_keys=True))  # (workers print in any order)
    if not insts or res.distinct != 2 * len(insts):
        raise core.MachineryError(f"Preprocess.tla dumped {len(insts)} instances for {res.distinct} states")
    kinds = {}
    for r in insts:
        kinds[r["kind"]] = kinds.get(r["kind"], 0) + 1
    if set(kinds) != set(KINDS):
        raise core.MachineryError(f"Preprocess.tla enumerated kinds {sorted(kinds)}, expected {sorted(KINDS)}")
    ctx.exhaustive = True
    srcs = [src_from_tlc(r, k, ctx.seed) for k, r in enumerate(insts)]
    rnd = random_sources(rng, b["random_instances"], b["random_max_side"], ctx.seed, len(srcs))
    allsrc = srcs + rnd
    groups = [allsrc[k: k + 40] for k in range(0, len(allsrc), 40)]
    recs = []
    for part in core.pmap(_many, groups, chunksize=1):
        recs.extend(part)
    ctx.replayed = len(insts)
    for api in ("noise", "edges"):
        smp = next((r for r in recs if r["api"] == api and r["_src"]["origin"] == "tlc" and len(r["u"]) >= 3), None)
        if smp:
            ctx.sample({"tlc_instance_replayed": {k: v for k, v in smp.items() if not k.startswith("_") and k != "id"},
                        "exponents": smp.get("_exps")})
    smp = next((r for r in recs if r["api"] == "snr" and r["_src"]["origin"] == "random" and r["raised"] == ""), None)
    if smp:
        ctx.sample({"random_instance": {k: v for k, v in smp.items() if not k.startswith("_") and k != "id"}})
    rejects = validate(ctx, recs, "X01")
    per_api = {}
    for r in recs:
        per_api[r["api"]] = per_api.get(r["api"], 0) + 1
    ctx.note(f"TLC enumerated {len(insts)} instances {kinds}; with {len(rnd)} seeded random larger instances -> {len(recs)} records "
             f"{per_api} judged by Trace_Preprocess; {len(rejects)} rejected")
    ctx.note("documentation vs statement: background_sky_level_via_edges_from is documented (docstring, repository tests) as the MEDIAN of "
             "the edge pixels and is judged as the median; the noise estimator is the population standard deviation (norm.fit)")
    ctx.assumptions = [
        "values are integer mantissas (|d| <= 8, 1 <= t, g <= 8, ...) times powers of two 2^-3..2^3 chosen per call; every operator is "
        "homogeneous, so IEEE arithmetic is exact up to the one division / square root, judged through a common denominator (residual "
        "<= 1e-6) or in fixed point (perfect squares: scale 2^20, half a unit; other radicands: scale <= 256, one unit, 32-bit range guarded "
        "by the specification)",
        "edges_from is judged for 1 <= no_edges <= number of rings of the frame (beyond that the docstring defines nothing)",
        "zero weights must come back as a finite value >= 1e8 ('converted to large values'; the exact value is not pinned); negative weights are outside the documented domain and may come back as a large value or nan",
        "the mask of the array returned by noise_map_with_signal_to_noise_limit_from is not constrained (values only); origins are C12's",
        "psf_with_odd_dimensions_from interpolates (scikit-image): only the shape, and identity on odd x odd kernels, are pinned",
        "random functions: equality of contents by SHA-256 fingerprints; seeds >= 0; array_with_random_uniform_values_added has no seed "
        "argument and is judged as a function of (input, state of the global generator)",
    ]


def replay(ctx, rp):
    from harness import repo_env

    repo_env.setup()
    src = rp["src"]
    recs = [r for r in records_for(src) if r["api"] == rp["record"]["api"] and r.get("sn") == rp["record"].get("sn")]
    rej = validate(ctx, recs, "X01-replay")
    print("replayed", len(recs), "records; rejected:", [(r["sig"], r["clauses"]) for r in rej])
    return ctx.finish()
