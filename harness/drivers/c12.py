"""C12 -- all geometry is covariant under translation of the coordinate origin.

Translation.tla defines the lattice geometry (pixel centres, index of a point, extent, sub-pixel centres, padded frame) and
TLC checks on the bounded family that coordinate-valued observations translate by exactly d and index-valued ones do not
change. The binding is a metamorphic replay: every frame/origin/translation enumerated by TLC (and seeded random larger masks)
is realised with real objects at origin o and at o + d, every public entry point of the property's observe_at list is evaluated
at both, and the element-wise differences (in ticks) are validated by Trace_Translation.tla."""
import json

import numpy as np

from harness import core

TAU = 2.0 ** -4  # concrete length of one half-tick (dyadic: differences are exact)
OFF = 999999


def _ticks(x):
    a = np.asarray(x, dtype=float) / TAU
    r = np.rint(a)
    bad = ~np.isfinite(a) | (np.abs(a - r) > 1e-6)
    r = np.where(bad, OFF, r)
    return r.astype(np.int64)


def _pair(entry, kind, f0, f1, d, origin_of=None):
    """evaluate an entry point at both origins and abstract the difference"""
    rec = {"p": "C12", "entry": entry, "kind": kind, "dy": int(d[0]), "dx": int(d[1]), "raised0": False, "raised1": False,
           "same_shape": True, "delta": [], "has_origin": False, "origin_delta": [0, 0], "max_dev": 0}
    res = []
    for k, f in enumerate((f0, f1)):
        try:
            res.append(f())
        except Exception as e:
            res.append(None)
            rec["raised%d" % k] = True
            rec["err%d" % k] = f"{type(e).__name__}: {str(e)[:60]}"
    if rec["raised0"] or rec["raised1"]:
        return rec
    a0, a1 = res
    if origin_of is not None:
        o0, o1 = origin_of(a0), origin_of(a1)
        if o0 is not None:
            rec["has_origin"] = True
            rec["origin_delta"] = [int(x) for x in _ticks(np.array(o1, dtype=float) - np.array(o0, dtype=float))]
    v0 = np.asarray(getattr(a0, "array", a0), dtype=float)
    v1 = np.asarray(getattr(a1, "array", a1), dtype=float)
    if v0.shape != v1.shape:
        rec["same_shape"] = False
        rec["shapes"] = [list(v0.shape), list(v1.shape)]
        return rec
    if kind == "coord":
        dl = _ticks((v1 - v0).reshape(-1, 2))
        rec["delta"] = [[int(a), int(b)] for a, b in np.unique(dl, axis=0)] if dl.size else []
        dev = np.abs((v1 - v0).reshape(-1, 2) / TAU - np.array([d[0], d[1]], dtype=float)) if dl.size else np.zeros(1)
        rec["max_dev"] = int(min(10 ** 8, np.ceil(float(np.nanmax(dev))))) if np.all(np.isfinite(dev)) else 10 ** 8
    elif kind == "extent":
        dl = _ticks(v1 - v0).reshape(2, 2)  # (x0, x1, y0, y1)
        rec["delta"] = [[int(dl[0, 0]), int(dl[0, 1])], [int(dl[1, 0]), int(dl[1, 1])]]
    else:
        diff = v1 - v0
        scale = max(1.0, float(np.abs(v0).max()) if v0.size else 1.0)
        bad = np.abs(diff) > 1e-9 * scale
        rec["delta"] = [1] if bad.any() else [0]
    return rec


def _origin(x):
    m = getattr(x, "mask", None)
    o = getattr(m, "origin", None) if m is not None else getattr(x, "origin", None)
    return None if o is None else (float(o[0]), float(o[1]))


def entry_points(inst):
    """inst: {h, w, u, sy, sx, oy, ox, dy, dx, n} in half-ticks. -> list of records"""
    import autoarray as aa
    from autoarray.dataset import preprocess

    h, w = inst["h"], inst["w"]
    m = np.ones(h * w, dtype=bool)
    m[inst["u"]] = False
    m = m.reshape(h, w)
    sy, sx = inst["sy"] * TAU, inst["sx"] * TAU
    d = (inst["dy"], inst["dx"])
    o0 = (inst["oy"] * TAU, inst["ox"] * TAU)
    o1 = ((inst["oy"] + inst["dy"]) * TAU, (inst["ox"] + inst["dx"]) * TAU)
    dvec = np.array([inst["dy"] * TAU, inst["dx"] * TAU])
    n = inst["n"]
    rng = np.random.default_rng(h * 100 + w + len(inst["u"]))
    vals = rng.random((h, w)) + 1.0
    noise = rng.random((h, w)) + 0.5
    recs = []

    def mk(o):
        return aa.Mask2D(mask=m.copy(), pixel_scales=(sy, sx), origin=o)

    def both(entry, kind, fn, origin_of=None):
        recs.append(_pair(entry, kind, lambda: fn(mk(o0), np.zeros(2)), lambda: fn(mk(o1), dvec), d, origin_of))

    both("Grid2D.from_mask", "coord", lambda mk_, s: aa.Grid2D.from_mask(mask=mk_), _origin)
    both("Mask2D.derive_grid.all_false", "coord", lambda mk_, s: mk_.derive_grid.all_false, _origin)
    both("Mask2D.derive_grid.unmasked", "coord", lambda mk_, s: mk_.derive_grid.unmasked, _origin)
    both("Mask2D.derive_grid.edge", "coord", lambda mk_, s: mk_.derive_grid.edge)
    both("Mask2D.derive_grid.border", "coord", lambda mk_, s: mk_.derive_grid.border)
    both("Grid2D.blurring_grid_from", "coord", lambda mk_, s: aa.Grid2D.blurring_grid_from(mask=mk_, kernel_shape_native=(3, 3)), _origin)
    both("Grid2D.padded_grid_from", "coord", lambda mk_, s: aa.Grid2D.from_mask(mask=mk_).padded_grid_from(kernel_shape_native=(3, 5)), _origin)
    both("OverSamplerUniform.over_sampled_grid", "coord", lambda mk_, s: aa.OverSamplerUniform(mask=mk_, sub_size=n).over_sampled_grid)
    both("BorderRelocator.sub_grid", "coord", lambda mk_, s: aa.BorderRelocator(mask=mk_, sub_size=n).sub_grid)
    both("BorderRelocator.sub_border_grid", "coord", lambda mk_, s: aa.BorderRelocator(mask=mk_, sub_size=n).sub_border_grid)
    both("Mask2D.mask_centre", "coord", lambda mk_, s: np.array([mk_.mask_centre]))
    both("Mask2D.geometry.extent", "extent", lambda mk_, s: np.array(mk_.geometry.extent))
    both("Mask2D.geometry.scaled_maxima_minima", "coord", lambda mk_, s: np.array([mk_.geometry.scaled_maxima, mk_.geometry.scaled_minima]))
    both("Mask2D.zoom_mask_unmasked", "coord", lambda mk_, s: mk_.zoom_mask_unmasked.derive_grid.all_false, _origin)
    both("Array2D.zoomed_around_mask", "coord",
         lambda mk_, s: aa.Grid2D.from_mask(mask=aa.Array2D(values=vals, mask=mk_).zoomed_around_mask(buffer=1).mask), _origin)
    both("Array2D.zoomed_around_mask(values)", "invariant", lambda mk_, s: aa.Array2D(values=vals, mask=mk_).zoomed_around_mask(buffer=1).native)
    both("Grid2D.grid_2d_radial_projected_from", "coord",
         lambda mk_, s: aa.Grid2D.from_mask(mask=mk_).grid_2d_radial_projected_from(centre=(o0[0] + 0.25 + s[0], o0[1] - 0.125 + s[1]), angle=30.0))
    both("Mask2D.resized_from", "coord", lambda mk_, s: aa.Grid2D.from_mask(mask=mk_.resized_from(new_shape=(h + 2, w + 4), pad_value=0)), _origin)
    both("Mask2D.derive_mask.blurring_from", "coord", lambda mk_, s: aa.Grid2D.from_mask(mask=mk_.derive_mask.blurring_from(kernel_shape_native=(3, 3))), _origin)
    both("Mask2D.derive_mask.edge_buffed", "coord", lambda mk_, s: aa.Grid2D.from_mask(mask=mk_.derive_mask.edge_buffed), _origin)
    # a mask re-built from a Mask2D OBJECT that lives at another origin (the library does this itself in Grid2D.subtracted_from):
    # the new mask is at the origin asked for, whatever that is - in particular exactly (0, 0)
    src_o = (o0[0] + 1.0, o0[1] - 2.0)

    def rebuilt(mk_):
        return aa.Mask2D(mask=aa.Mask2D(mask=m.copy(), pixel_scales=(sy, sx), origin=src_o), pixel_scales=(sy, sx), origin=tuple(mk_.origin))

    both("Mask2D(mask=Mask2D at another origin)", "coord", lambda mk_, s: aa.Grid2D.from_mask(mask=rebuilt(mk_)), _origin)
    both("Mask2D(mask=Mask2D at another origin).mask_centre", "coord", lambda mk_, s: np.array([rebuilt(mk_).mask_centre]))
    both("Grid2D.subtracted_from(offset=own origin)", "invariant",
         lambda mk_, s: np.array(aa.Grid2D.from_mask(mask=mk_).subtracted_from(offset=tuple(mk_.origin))))
    both("Grid2D.subtracted_from(offset=own origin).mask", "invariant",
         lambda mk_, s: np.array(aa.Grid2D.from_mask(mask=aa.Grid2D.from_mask(mask=mk_).subtracted_from(offset=tuple(mk_.origin)).mask)))
    both("Grid2D.subtracted_from(fixed offset)", "coord",
         lambda mk_, s: aa.Grid2D.from_mask(mask=aa.Grid2D.from_mask(mask=mk_).subtracted_from(offset=(0.5, -0.25)).mask), _origin)
    both("Mask2D.rescaled_from?skip", "invariant", lambda mk_, s: np.zeros(1))
    recs.pop()
    both("image_mesh.Overlay.image_plane_mesh_grid_from", "coord", lambda mk_, s: aa.image_mesh.Overlay(shape=(4, 4)).image_plane_mesh_grid_from(mask=mk_, adapt_data=None))
    # (a 4x4 overlay never puts an overlay centre exactly on an image-pixel boundary for bounding boxes of fewer than 8 pixels;
    #  with 3 rows the middle centre sits on a boundary whenever the box has an even number of rows, and which side such a tie
    #  falls to is floating-point noise that legitimately varies with the origin)
    both("Mesh2DRectangular.overlay_grid", "coord",
         lambda mk_, s: aa.Mesh2DRectangular.overlay_grid(grid=np.array(aa.Grid2D.from_mask(mask=mk_)), shape_native=(3, 4)))
    # points translated with the origin: indices must not change
    pts0 = np.array(aa.Grid2D.from_mask(mask=mk(o0))) + np.array([0.3 * sy, -0.2 * sx])
    both("geometry.grid_pixel_indexes_2d_from", "invariant",
         lambda mk_, s: mk_.geometry.grid_pixel_indexes_2d_from(grid_scaled_2d=aa.Grid2DIrregular(pts0 + s)))
    both("geometry.grid_pixel_centres_2d_from", "invariant",
         lambda mk_, s: mk_.geometry.grid_pixel_centres_2d_from(grid_scaled_2d=aa.Grid2DIrregular(pts0 + s)))
    both("geometry.grid_pixels_2d_from", "invariant",
         lambda mk_, s: mk_.geometry.grid_pixels_2d_from(grid_scaled_2d=aa.Grid2DIrregular(pts0 + s)))
    both("geometry.pixel_coordinates_2d_from", "invariant",
         lambda mk_, s: np.array(mk_.geometry.pixel_coordinates_2d_from(scaled_coordinates_2d=tuple(pts0[0] + s))))
    both("geometry.scaled_coordinates_2d_from", "coord",
         lambda mk_, s: np.array([mk_.geometry.scaled_coordinates_2d_from(pixel_coordinates_2d=(1, 2))]))
    # mappers on translated grids: tables and mapping matrix unchanged
    def rect_mapper(mk_, s):
        grid = aa.OverSamplerUniform(mask=mk_, sub_size=n).over_sampled_grid
        pos = np.array(grid) * np.array([1.0, 0.75])  # a linear "lens" about the origin ...
        pos = pos + s * (1 - np.array([1.0, 0.75]))  # ... expressed relative to the translated origin
        mesh = aa.Mesh2DRectangular.overlay_grid(grid=pos, shape_native=(3, 3))
        mg = aa.MapperGrids(mask=mk_, source_plane_data_grid=aa.Grid2DIrregular(pos), source_plane_mesh_grid=mesh, image_plane_mesh_grid=None, adapt_data=None)
        return aa.MapperRectangular(mapper_grids=mg, over_sampler=aa.OverSamplerUniform(mask=mk_, sub_size=n), border_relocator=None, regularization=None)

    both("MapperRectangular.mapping_matrix", "invariant", lambda mk_, s: rect_mapper(mk_, s).mapping_matrix)
    both("MapperRectangular.pix_indexes_for_sub_slim_index", "invariant", lambda mk_, s: rect_mapper(mk_, s).pix_indexes_for_sub_slim_index)

    def del_mapper(mk_, s):
        grid = aa.OverSamplerUniform(mask=mk_, sub_size=1).over_sampled_grid
        pos = np.array(grid)
        ext = mk_.geometry.extent  # x0 x1 y0 y1
        vr = np.random.default_rng(7).random((9, 2))
        verts = np.stack([ext[2] + vr[:, 0] * (ext[3] - ext[2]), ext[0] + vr[:, 1] * (ext[1] - ext[0])], axis=1)
        mesh = aa.Mesh2DDelaunay(values=verts)
        mg = aa.MapperGrids(mask=mk_, source_plane_data_grid=aa.Grid2DIrregular(pos), source_plane_mesh_grid=mesh, image_plane_mesh_grid=None, adapt_data=None)
        return aa.MapperDelaunay(mapper_grids=mg, over_sampler=aa.OverSamplerUniform(mask=mk_, sub_size=1), border_relocator=None, regularization=None)

    both("MapperDelaunay.mapping_matrix", "invariant", lambda mk_, s: del_mapper(mk_, s).mapping_matrix)
    # datasets
    def dataset(mk_, s, psf=True):
        full = aa.Mask2D.all_false(shape_native=(h, w), pixel_scales=(sy, sx), origin=mk_.origin)
        return aa.Imaging(data=aa.Array2D(values=vals, mask=full), noise_map=aa.Array2D(values=noise, mask=full),
                          psf=aa.Kernel2D.no_mask(values=np.ones((3, 3)), pixel_scales=(sy, sx)) if psf else None)

    both("Imaging.apply_mask.grids.uniform", "coord", lambda mk_, s: dataset(mk_, s).apply_mask(mask=mk_).grids.uniform, _origin)
    both("Imaging.apply_mask.data", "invariant", lambda mk_, s: dataset(mk_, s).apply_mask(mask=mk_).data.native, _origin)
    both("Imaging.apply_mask.grids.blurring", "coord", lambda mk_, s: dataset(mk_, s).apply_mask(mask=mk_).grids.blurring)
    both("Imaging.apply_noise_scaling.grid", "coord", lambda mk_, s: aa.Grid2D.from_mask(mask=dataset(mk_, s).apply_noise_scaling(mask=mk_).data.mask), _origin)
    both("Imaging.apply_noise_scaling.noise_map", "invariant", lambda mk_, s: dataset(mk_, s).apply_noise_scaling(mask=mk_).noise_map.native, _origin)
    both("Imaging.apply_over_sampling.grids.uniform", "coord",
         lambda mk_, s: dataset(mk_, s).apply_mask(mask=mk_).apply_over_sampling(aa.OverSamplingDataset(uniform=aa.OverSamplingUniform(sub_size=2))).grids.uniform, _origin)
    both("Imaging.trimmed_after_convolution_from.grid", "coord",
         lambda mk_, s: aa.Grid2D.from_mask(mask=dataset(mk_, s).trimmed_after_convolution_from(kernel_shape=(3, 3)).data.mask), _origin)
    both("SimulatorImaging.via_image_from.grid", "coord",
         lambda mk_, s: aa.Grid2D.from_mask(mask=aa.SimulatorImaging(exposure_time=100.0, add_poisson_noise_to_data=False, noise_seed=1).via_image_from(
             image=aa.Array2D(values=vals, mask=aa.Mask2D.all_false(shape_native=(h, w), pixel_scales=(sy, sx), origin=mk_.origin))).data.mask), _origin)
    def simulated(mk_, **kw):
        return aa.SimulatorImaging(exposure_time=100.0, noise_seed=1, **kw).via_image_from(
            image=aa.Array2D(values=vals, mask=aa.Mask2D.all_false(shape_native=(h, w), pixel_scales=(sy, sx), origin=mk_.origin)))

    both("SimulatorImaging(background_sky).via_image_from.grid", "coord",
         lambda mk_, s: aa.Grid2D.from_mask(mask=simulated(mk_, background_sky_level=0.5, add_poisson_noise_to_data=False).data.mask), _origin)
    both("SimulatorImaging(background_sky).via_image_from.noise_map.grid", "coord",
         lambda mk_, s: aa.Grid2D.from_mask(mask=simulated(mk_, background_sky_level=0.5, add_poisson_noise_to_data=True).noise_map.mask), _origin)
    both("SimulatorImaging(noise_map_without_poisson).via_image_from.noise_map.grid", "coord",
         lambda mk_, s: aa.Grid2D.from_mask(mask=simulated(mk_, include_poisson_noise_in_noise_map=False, add_poisson_noise_to_data=False).noise_map.mask), _origin)
    both("SimulatorImaging(psf).via_image_from.grid", "coord",
         lambda mk_, s: aa.Grid2D.from_mask(mask=simulated(mk_, psf=aa.Kernel2D.no_mask(values=np.ones((3, 3)), pixel_scales=(sy, sx)), add_poisson_noise_to_data=False).data.mask), _origin)
    both("preprocess.noise_map_with_signal_to_noise_limit_from.grid", "coord",
         lambda mk_, s: aa.Grid2D.from_mask(mask=preprocess.noise_map_with_signal_to_noise_limit_from(
             data=aa.Array2D(values=vals, mask=mk_), noise_map=aa.Array2D(values=noise, mask=mk_), signal_to_noise_limit=1.5).mask), _origin)
    both("Array2D.padded_before_convolution_from.grid", "coord",
         lambda mk_, s: aa.Grid2D.from_mask(mask=aa.Array2D(values=vals, mask=mk_).padded_before_convolution_from(kernel_shape=(3, 3)).mask), _origin)
    both("Array2D.resized_from.grid", "coord",
         lambda mk_, s: aa.Grid2D.from_mask(mask=aa.Array2D(values=vals, mask=mk_).resized_from(new_shape=(h + 2, w + 2)).mask), _origin)
    for r in recs:
        r["_inst"] = inst
    return recs


def hilbert_records(seed):
    """Hilbert image mesh (circular masks only)"""
    import autoarray as aa

    recs = []
    for k, (d, o) in enumerate([((24, -20), (0, 0)), ((-22, 26), (18, -22)), ((40, 24), (24, -20)), ((-24, 20), (24, -20))]):
        o0 = (o[0] * TAU, o[1] * TAU)
        o1 = ((o[0] + d[0]) * TAU, (o[1] + d[1]) * TAU)

        def f(orig):
            mk_ = aa.Mask2D.circular(shape_native=(16, 16), pixel_scales=(8 * TAU, 8 * TAU), radius=30 * TAU * 2, origin=orig,
                                     centre=(0.0, 0.0))  # constructor centres are measured relative to the mask origin
            ad = aa.Array2D(values=np.exp(-np.sum((np.array(aa.Grid2D.from_mask(mask=mk_)) - np.array(orig)) ** 2, axis=1)) + 0.01, mask=mk_)
            return aa.image_mesh.Hilbert(pixels=12, weight_floor=0.1, weight_power=1.0).image_plane_mesh_grid_from(mask=mk_, adapt_data=ad)

        r = _pair("image_mesh.Hilbert.image_plane_mesh_grid_from", "coord", lambda: f(o0), lambda: f(o1), d)
        r["_inst"] = {"hilbert": k}
        recs.append(r)
    return recs


def _many(insts):
    out = []
    for i in insts:
        out.extend(entry_points(i))
    return out


CFG_MC = """CONSTANTS
  Shapes <- MCShapes
  Scales = {4, 8, 12}
  Origins <- MCOrigins
  Shifts <- MCShifts
  Subs = {1, 2}
SPECIFICATION Spec
INVARIANT CoordinatesCovariant
INVARIANT IndicesInvariant
INVARIANT CentreIndexRoundTrip
"""
CFG_TRACE = """CONSTANTS
  Shapes = {}
  Scales = {}
  Origins = {}
  Shifts = {}
  Subs = {}
SPECIFICATION TraceSpec
POSTCONDITION TraceAccepted
"""


def validate(ctx, recs, tag, chunk=3000):
    import concurrent.futures as cf

    insts = {}
    for k, r in enumerate(recs):
        r["id"] = k
        insts[k] = r.pop("_inst", None)
    chunks = [recs[k : k + chunk] for k in range(0, len(recs), chunk)]
    rejects = []

    def one(kc):
        k, ch = kc
        return ctx.validate_trace("Trace_Translation", CFG_TRACE, ch, tag=f"{tag}_{k}")[1]

    with cf.ThreadPoolExecutor(max_workers=min(16, len(chunks) or 1)) as ex:
        for rej in ex.map(one, list(enumerate(chunks))):
            rejects.extend(rej)
    for rj in rejects:
        rec = recs[rj["id"]]
        ctx.violation(rj["sig"], f"{rec['entry']} d=({rec['dy']},{rec['dx']}) ticks: delta={rec['delta'][:4]} origin_delta={rec['origin_delta']} "
                      f"same_shape={rec['same_shape']} raised=({rec['raised0']},{rec['raised1']}) failed {rj['clauses']}",
                      {"instance": insts.get(rj["id"]), "record": rec, "failed_clauses": rj["clauses"]}, cls=",".join(rj["clauses"]))
    return rejects


def run(ctx):
    quick = ctx.quick
    rng = np.random.default_rng(ctx.seed)
    shapes = [(2, 3), (3, 3)] if quick else [(2, 3), (3, 3), (3, 4), (4, 3)]
    res = ctx.tlc("Translation", CFG_MC, defs="MCShapes == {" + ", ".join(f"<<{a},{b}>>" for a, b in shapes) + "}\nMCOrigins == {-6, 0, 2, 10}\nMCShifts == {-6, -2, 0, 4}", tag="MC_Translation", timeout=1500)
    ctx.exhaustive = True
    n_inst = 40 if quick else 3000
    insts = []
    for k in range(n_inst):
        h, w = int(rng.integers(7, 11)), int(rng.integers(7, 11))
        m = np.zeros((h, w), dtype=bool)
        m[2 : h - 2, 2 : w - 2] = rng.random((h - 4, w - 4)) < 0.7
        if m.sum() < 3:
            m[2 : h - 2, 2 : w - 2] = True
        insts.append({"h": h, "w": w, "u": [int(x) for x in np.flatnonzero(m.ravel())], "sy": int(rng.choice([8, 16, 24])), "sx": int(rng.choice([8, 16, 24])),
                      "oy": int(rng.choice([-6, 0, 2, 10, 32])), "ox": int(rng.choice([-10, 0, 4, 6, -48])),
                      "dy": int(rng.choice([-14, -2, 6, 40])), "dx": int(rng.choice([-8, 2, 10, -34])), "n": int(rng.choice([1, 2, 4]))})
        if k % 4 == 1:  # the translated origin is EXACTLY (0, 0) (d = -origin), or only one of its components is
            insts[-1]["dy"] = -insts[-1]["oy"] if insts[-1]["oy"] else insts[-1]["dy"]
            insts[-1]["dx"] = -insts[-1]["ox"] if insts[-1]["ox"] else insts[-1]["dx"]
        if k % 4 == 3 and insts[-1]["oy"] == 0 and insts[-1]["ox"] == 0:  # ... or the first origin is, and the second is not
            insts[-1]["oy"] = 0
    ctx.bounds = {"tlc_shapes": shapes, "tlc_scales": [4, 8, 12], "tlc_origins": [-6, 0, 2, 10], "tlc_shifts": [-6, -2, 0, 4],
                  "replayed_instances": n_inst, "mask_shapes": "7..10 x 7..10 random interiors", "tick": TAU}
    recs = []
    for part in core.pmap(_many, [insts[k : k + 2] for k in range(0, len(insts), 2)]):
        recs.extend(part)
    recs.extend(hilbert_records(ctx.seed))
    ctx.replayed = n_inst
    ctx.sample({"instance": insts[0]})
    ctx.sample({k: v for k, v in recs[0].items() if k != "_inst"})
    validate(ctx, recs, "C12")
    ctx.note(f"{len(recs)} entry-point pairs (origin o vs o+d) validated by Trace_Translation; entry points: {sorted(set(r['entry'] for r in recs))}")
    ctx.assumptions = ["origins, scales and translations are dyadic so differences of coordinates are exact in IEEE arithmetic",
                       "values of the observations are decided by C02/C09/C10/C14; C12 decides the relation between the two runs"]


def replay(ctx, rp):
    inst = rp.get("instance") or {}
    recs = hilbert_records(ctx.seed) if "hilbert" in inst else entry_points(inst)
    recs = [r for r in recs if r["entry"] == rp["record"]["entry"]]
    rej = validate(ctx, recs, "replay")
    print("replayed", len(recs), "records; rejected:", [(r["sig"], r["clauses"]) for r in rej])
    return ctx.finish()
