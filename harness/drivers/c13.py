"""C13 -- direct Fourier transform, preloaded variant and adjoint are exact and consistent; interferometer D and F.

Dft.tla defines the transform over the Gaussian integers on the quarter-turn lattice (pixel centres in half pixels, baselines
as integer multiples of 1/(4 pixel)), its table-driven ("preloaded") and sparse second formulations, the adjoint and the
noise-weighted normal equations; TLC checks the design theorems on every bounded transformer (mask, origin, baselines) and
every input of the bounded families, and dumps each (transformer, call, input).  S->C: every dumped call is replayed through
TransformerDFT (preload on and off), the transformer_util functions and InversionInterferometerMapping.  C->S: every returned
value -- also for seeded random larger masks (<= 6x6), up to 8 baselines, random signed images / matrices / complex noise --
is abstracted back onto the lattice (alpha rejects residuals > 1e-9) and judged by Trace_Dft.tla."""
import math

import numpy as np

from harness import core

INVARIANTS = ["InstancesOnLattice", "PhaseIsPowerOfMinusI", "TablesArePhases", "PreloadEqualsDirect", "BaselineSymmetries",
              "AdjointIsConjugateTranspose", "AdjointOnBasisPairs", "SparseSkipIsExact", "PositiveOnlyExactOnNonNegative",
              "TransformIsOdd", "NormalEquationsAreGramProducts"]

MC_CFG = """CONSTANTS
  Shapes <- MCShapes
  Origins <- MCOrigins
  Mult <- MCMult
  MaxB = {maxb}
  MaskMode = "{mode}"
  Rich = {rich}
SPECIFICATION Spec
""" + "".join(f"INVARIANT {n}\n" for n in INVARIANTS)

TRACE_CFG = """CONSTANTS
  Shapes = {}
  Origins = {}
  Mult = {}
  MaxB = 0
  MaskMode = "few"
  Rich = FALSE
SPECIFICATION TraceSpec
POSTCONDITION TraceAccepted
"""

ALL_SHAPES = [(1, 1), (1, 2), (2, 1), (2, 2), (1, 3), (3, 1), (2, 3), (3, 2), (3, 3)]
# (sy, sx) arcsec per pixel: dyadic, decimal, anisotropic and non-terminating values
SCALES = [(1.0, 1.0), (0.5, 0.5), (0.1, 0.1), (0.05, 0.2), (2.0, 0.25), (1.0 / 3.0, 1.0 / 3.0), (0.7, 1.3)]
# power-of-two exponents for the value groups (image / matrix / visibilities): 2^-10 is below any plausible sparsity cut
EXPS = [0, -10, 3, -1]
TOL = 1e-9
# trace validation runs one single-worker JVM per chunk, many at a time: keep each of them small
JVM_ENV = {"JAVA_TOOL_OPTIONS": "-XX:ParallelGCThreads=2 -XX:CICompilerCount=2 -Xmx3g"}
CLIP = 2 ** 30


def tla_pairs(pairs):
    return "{" + ", ".join(f"<<{a},{b}>>" for a, b in pairs) + "}"


def tla_set(vals):
    return "{" + ", ".join(str(int(v)) for v in vals) + "}"


# --------------------------------------------------------------------------------------------
# TLC: enumerate the bounded machine
# --------------------------------------------------------------------------------------------
def enumerate_machine(ctx, tag, shapes, origins, mult, maxb, mode, rich, timeout=3000):
    defs = f"MCShapes == {tla_pairs(shapes)}\nMCOrigins == {tla_pairs(origins)}\nMCMult == {tla_set(mult)}"
    cfg = MC_CFG.format(maxb=maxb, mode=mode, rich="TRUE" if rich else "FALSE")
    res = ctx.tlc("Dft", cfg, defs=defs, tag=tag, timeout=timeout)
    insts = res.by_kind("inst")
    if res.depth != 2 or len(insts) != res.distinct - res.init_states or res.init_states == 0:
        raise core.MachineryError(
            f"Dft.tla [{tag}]: {len(insts)} dumped calls for {res.distinct} states / {res.init_states} transformers, depth {res.depth}")
    return insts, res


def group_calls(insts):
    groups = {}
    for r in insts:
        key = (r["h"], r["w"], tuple(r["u"]), tuple(r["org"]), tuple(tuple(x) for x in r["b"]))
        groups.setdefault(key, []).append({"act": r["act"], "inp": r["inp"]})
    out = []
    for n, (key, calls) in enumerate(sorted(groups.items())):
        h, w, u, org, b = key
        out.append({"h": h, "w": w, "u": list(u), "org": list(org), "b": [list(x) for x in b], "calls": calls, "salt": n})
    return out


# --------------------------------------------------------------------------------------------
# alpha
# --------------------------------------------------------------------------------------------
def _ints(a, scale):
    """real array / scale -> (nested int lists, off-lattice flag)"""
    x = np.asarray(a, dtype=float) / scale
    ok = np.isfinite(x)
    r = np.rint(np.where(ok, x, 0.0))
    off = bool((~ok).any() or (x.size and np.max(np.abs(np.where(ok, x, 0.0) - r)) > TOL) or (np.abs(r) > CLIP).any())
    r = np.clip(r, -CLIP, CLIP)
    return r.astype(np.int64).tolist(), off


def _gauss(a, scale):
    """complex array / scale -> (nested lists of [re, im] ints, off-lattice flag)"""
    z = np.asarray(a, dtype=complex)
    re, o1 = _ints(z.real, scale)
    im, o2 = _ints(z.imag, scale)
    pair = np.stack([np.asarray(re, dtype=np.int64), np.asarray(im, dtype=np.int64)], axis=-1)
    return pair.tolist(), (o1 or o2)


def _shape_is(a, shape):
    try:
        return tuple(np.shape(a)) == tuple(shape)
    except Exception:
        return False


# --------------------------------------------------------------------------------------------
# gamma + the calls
# --------------------------------------------------------------------------------------------
def build(g, scales):
    """abstract transformer -> concrete mask, uv_wavelengths (quarter-turn lattice)"""
    import autoarray as aa

    h, w = g["h"], g["w"]
    sy, sx = scales
    m = np.ones(h * w, dtype=bool)
    m[g["u"]] = False
    oy, ox = g["org"][0] * sy / 2.0, g["org"][1] * sx / 2.0
    mask = aa.Mask2D(mask=m.reshape(h, w), pixel_scales=(sy, sx), origin=(oy, ox))
    unit_x = 648000.0 / (4.0 * sx * math.pi)
    unit_y = 648000.0 / (4.0 * sy * math.pi)
    uv = np.array([[b[0] * unit_x, b[1] * unit_y] for b in g["b"]], dtype=float).reshape(-1, 2)
    return mask, uv


def _call(rec, fn):
    """run fn() -> dict of fields; on exception mark the record"""
    try:
        rec.update(fn())
    except Exception as e:  # noqa
        rec["raised"] = True
        rec["exc"] = f"{type(e).__name__}: {str(e)[:120]}"
    return rec


def records_for_group(g, seed=0):
    import autoarray as aa
    from autoarray.operators import transformer_util as tu
    from autoarray.inversion.inversion.dataset_interface import DatasetInterface
    from autoarray.inversion.inversion.interferometer import inversion_interferometer_util as iu

    salt = int(g.get("salt", 0))
    rng = np.random.default_rng([seed, salt, g["h"], g["w"], len(g["u"])])
    scales = g.get("scales") or SCALES[(salt + seed) % len(SCALES)]
    mask, uv = build(g, scales)
    h, w = g["h"], g["w"]
    P, K = len(g["u"]), len(g["b"])
    base = {"p": "C13", "h": h, "w": w, "u": g["u"], "org": g["org"], "b": g["b"], "raised": False, "off": False,
            "shape_ok": True, "scales": list(scales)}
    recs = []
    tr = {}
    for pre in (True, False):
        try:
            tr[pre] = aa.TransformerDFT(uv_wavelengths=uv.copy(), real_space_mask=mask, preload_transform=pre)
        except Exception as e:  # construction failure: every call of this transformer is a failed call
            tr[pre] = e
    grid_rad = np.array(mask.derive_grid.unmasked.in_radians)

    def new(api, via, pre, **kw):
        r = dict(base)
        r.update({"api": api, "via": via, "pre": bool(pre)})
        r.update(kw)
        return r

    def transformer(pre):
        if isinstance(tr[pre], Exception):
            raise tr[pre]
        return tr[pre]

    # ---- tables (state of a preloading transformer, and the utility functions that build it)
    def tables_fields(re, im):
        ok = _shape_is(re, (P, K)) and _shape_is(im, (P, K))
        if not ok:
            return {"shape_ok": False, "re": [], "im": []}
        a, o1 = _ints(re, 1.0)
        b, o2 = _ints(im, 1.0)
        return {"re": a, "im": b, "off": o1 or o2}

    recs.append(_call(new("tables", "class", True, re=[], im=[]),
                      lambda: tables_fields(transformer(True).preload_real_transforms, transformer(True).preload_imag_transforms)))
    util = bool(g.get("util", True))
    if util:
        recs.append(_call(new("tables", "util", True, re=[], im=[]),
                          lambda: tables_fields(tu.preload_real_transforms(grid_radians=grid_rad, uv_wavelengths=uv),
                                                tu.preload_imag_transforms(grid_radians=grid_rad, uv_wavelengths=uv))))

    for ci, call in enumerate(g["calls"]):
        act, inp = call["act"], call["inp"]
        e1 = EXPS[int(rng.integers(0, len(EXPS)))]
        e2 = EXPS[int(rng.integers(0, len(EXPS)))]
        if call.get("exps"):
            e1, e2 = call["exps"]
        base["exps"] = [e1, e2]
        if act == "vis":
            img = [int(x) for x in inp["img"]]
            s = 2.0 ** e1
            slim = np.array(img, dtype=float) * s

            def vis_fields(v, s=s):
                if not _shape_is(v, (K,)):
                    return {"shape_ok": False, "out": []}
                out, off = _gauss(np.asarray(v), s)
                return {"out": out, "off": off}

            stored_kinds = ["slim", "native"] if (ci == 0 or call.get("native")) else ["slim"]
            for pre in (True, False):
                for stored in stored_kinds:
                    def f(pre=pre, stored=stored):
                        image = aa.Array2D(values=slim, mask=mask, store_native=(stored == "native"))
                        v = transformer(pre).visibilities_from(image=image)
                        d = vis_fields(v)
                        if type(v).__name__ != "Visibilities":
                            d["shape_ok"] = False
                        return d
                    recs.append(_call(new("vis", "class", pre, img=img, stored=stored, out=[]), f))
            if util:
                recs.append(_call(new("vis", "util", True, img=img, stored="slim", out=[]),
                                  lambda: vis_fields(tu.visibilities_via_preload_jit_from(
                                      image_1d=slim.copy(),
                                      preloaded_reals=tu.preload_real_transforms(grid_radians=grid_rad, uv_wavelengths=uv),
                                      preloaded_imags=tu.preload_imag_transforms(grid_radians=grid_rad, uv_wavelengths=uv)))))
                recs.append(_call(new("vis", "util", False, img=img, stored="slim", out=[]),
                                  lambda: vis_fields(tu.visibilities_jit(image_1d=slim.copy(), grid_radians=grid_rad,
                                                                         uv_wavelengths=uv))))
        elif act == "image":
            v = [[int(a), int(b)] for a, b in inp["v"]]
            s = 2.0 ** e1
            vc = np.array([a + 1j * b for a, b in v], dtype=complex) * s
            for pre in (True, False):
                def f(pre=pre):
                    im = transformer(pre).image_from(visibilities=aa.Visibilities(visibilities=vc.copy()))
                    sl, nat = np.asarray(im.slim), np.asarray(im.native)
                    if not (_shape_is(sl, (P,)) and _shape_is(nat, (h, w))) or type(im).__name__ != "Array2D":
                        return {"shape_ok": False}
                    if not np.array_equal(np.asarray(im.mask, dtype=bool), np.asarray(mask, dtype=bool)):
                        return {"shape_ok": False}
                    a, o1 = _ints(sl, s)
                    b, o2 = _ints(nat.ravel(), s)
                    return {"out": a, "native": b, "off": o1 or o2}
                recs.append(_call(new("image", "class", pre, v=v, out=[], native=[]), f))

            def fu():
                vis_arr = np.stack([vc.real, vc.imag], axis=-1)
                im = tu.image_via_jit_from(n_pixels=P, grid_radians=grid_rad, uv_wavelengths=uv, visibilities=vis_arr)
                if not _shape_is(im, (P,)):
                    return {"shape_ok": False}
                a, o1 = _ints(im, s)
                return {"out": a, "off": o1}
            if util:
                recs.append(_call(new("image", "util", False, v=v, out=[], native=[]), fu))
        elif act == "tmm":
            m = [[int(x) for x in row] for row in inp["m"]]
            J = len(m[0])
            s = 2.0 ** e1
            mf = np.array(m, dtype=float).reshape(P, J) * s

            def tmm_fields(t, s=s, J=J):
                if not _shape_is(t, (K, J)):
                    return {"shape_ok": False, "out": []}
                out, off = _gauss(np.asarray(t), s)
                return {"out": out, "off": off}

            for pre in (True, False):
                recs.append(_call(new("tmm", "class", pre, m=m, out=[]),
                                  lambda pre=pre: tmm_fields(transformer(pre).transform_mapping_matrix(mapping_matrix=mf.copy()))))
            if util:
                recs.append(_call(new("tmm", "util", True, m=m, out=[]),
                                  lambda: tmm_fields(tu.transformed_mapping_matrix_via_preload_jit_from(
                                      mapping_matrix=mf.copy(),
                                      preloaded_reals=tu.preload_real_transforms(grid_radians=grid_rad, uv_wavelengths=uv),
                                      preloaded_imags=tu.preload_imag_transforms(grid_radians=grid_rad, uv_wavelengths=uv)))))
                recs.append(_call(new("tmm", "util", False, m=m, out=[]),
                                  lambda: tmm_fields(tu.transformed_mapping_matrix_jit(mapping_matrix=mf.copy(), grid_radians=grid_rad,
                                                                                       uv_wavelengths=uv))))
        elif act == "inv":
            m = [[int(x) for x in row] for row in inp["m"]]
            v = [[int(a), int(b)] for a, b in inp["v"]]
            se = [[int(a), int(b)] for a, b in inp["se"]]
            emax = int(inp["emax"])
            J = len(m[0])
            sm, sv = 2.0 ** e1, 2.0 ** e2
            mf = np.array(m, dtype=float).reshape(P, J) * sm
            vc = np.array([a + 1j * b for a, b in v], dtype=complex) * sv
            nz = np.array([2.0 ** a + 1j * 2.0 ** b for a, b in se], dtype=complex)
            S = 4.0 ** emax
            for pre in (True, False):
                for split in ((False, True) if J > 1 and ci % 2 == 0 else (False,)):
                    def f(pre=pre, split=split):
                        ds = DatasetInterface(data=aa.Visibilities(visibilities=vc.copy()),
                                              noise_map=aa.VisibilitiesNoiseMap(visibilities=nz.copy()),
                                              transformer=transformer(pre))
                        cols = [[j] for j in range(J)] if split else [list(range(J))]
                        objs = [aa.m.MockMapper(mapping_matrix=mf[:, c].copy(), parameters=len(c),
                                                regularization=aa.m.MockRegularization(regularization_matrix=np.eye(len(c))))
                                for c in cols]
                        inv = aa.InversionInterferometerMapping(dataset=ds, linear_obj_list=objs,
                                                                settings=aa.SettingsInversion(use_w_tilde=False))
                        d, fm = inv.data_vector, inv.curvature_matrix
                        if not (_shape_is(d, (J,)) and _shape_is(fm, (J, J))):
                            return {"shape_ok": False}
                        a, o1 = _ints(d, sm * sv / S)
                        b, o2 = _ints(fm, sm * sm / S)
                        return {"d": a, "f": b, "off": o1 or o2}
                    recs.append(_call(new("inv", "inversion", pre, m=m, v=v, se=se, emax=emax, d=[], f=[], split=split), f))
        elif act == "dvec":
            t = [[[int(a), int(b)] for a, b in row] for row in inp["t"]]
            v = [[int(a), int(b)] for a, b in inp["v"]]
            se = [[int(a), int(b)] for a, b in inp["se"]]
            emax = int(inp["emax"])
            J = len(t[0])
            st, sv = 2.0 ** e1, 2.0 ** e2
            tc = np.array([[a + 1j * b for a, b in row] for row in t], dtype=complex).reshape(K, J) * st
            vc = np.array([a + 1j * b for a, b in v], dtype=complex) * sv
            nz = np.array([2.0 ** a + 1j * 2.0 ** b for a, b in se], dtype=complex)
            S = 4.0 ** emax

            def f():
                d = iu.data_vector_via_transformed_mapping_matrix_from(transformed_mapping_matrix=tc.copy(), visibilities=vc.copy(),
                                                                       noise_map=nz.copy())
                if not _shape_is(d, (J,)):
                    return {"shape_ok": False}
                a, o1 = _ints(d, st * sv / S)
                return {"out": a, "off": o1}
            recs.append(_call(new("dvec", "util", False, t=t, v=v, se=se, emax=emax, out=[]), f))
        else:
            raise core.MachineryError(f"unknown call {act}")
    for r in recs:
        r["salt"] = salt
    return recs


def _many(args):
    groups, seed = args
    out = []
    for g in groups:
        out.extend(records_for_group(g, seed))
    return out


# --------------------------------------------------------------------------------------------
# random larger transformers (beyond the exhaustive bound)
# --------------------------------------------------------------------------------------------
def random_groups(rng, n, max_side=6, max_b=8):
    out = []
    for k in range(n):
        h = int(rng.integers(1, max_side + 1))
        w = int(rng.integers(1, max_side + 1))
        dens = float(rng.choice([0.3, 0.6, 1.0]))
        m = rng.random((h, w)) < dens
        if not m.any():
            m[int(rng.integers(0, h)), int(rng.integers(0, w))] = True
        u = [int(x) for x in np.flatnonzero(m.ravel())]
        org = [int(rng.integers(-3, 4)), int(rng.integers(-3, 4))]
        py, px = (h - 1 + org[0]) % 2, (w - 1 + org[1]) % 2
        K = int(rng.integers(1, max_b + 1))
        b = []
        for _ in range(K):
            au, av = int(rng.integers(-8, 9)), int(rng.integers(-8, 9))
            if px and not py:
                au -= au % 2
            elif py and not px:
                av -= av % 2
            elif px and py and (au + av) % 2:
                av += 1
            b.append([au, av])
        if K >= 2 and k % 3 == 0:
            b[int(rng.integers(0, K))] = [0, 0]
        if K >= 2 and k % 4 == 0:
            b[-1] = list(b[0])
        if K >= 3 and k % 5 == 0:
            b[1] = [-b[0][0], -b[0][1]]
        P = len(u)
        calls = []
        for _ in range(2):
            calls.append({"act": "vis", "inp": {"img": rng.integers(-8, 9, size=P).tolist()}, "native": True})
        calls.append({"act": "image", "inp": {"v": rng.integers(-5, 6, size=(K, 2)).tolist()}})
        for J, signed in ((int(rng.integers(1, 5)), True), (2, False)):
            mm = rng.integers(-4, 5, size=(P, J))
            mm[rng.random((P, J)) < 0.4] = 0
            if not signed:
                mm = np.abs(mm)  # a non-negative matrix as well
            calls.append({"act": "tmm", "inp": {"m": mm.tolist()}})
        for sign in (1, -1):
            J = int(rng.integers(1, 4))
            mm = rng.integers(0, 5, size=(P, J))
            mm[rng.random((P, J)) < 0.4] = 0
            if sign < 0:
                mm = mm - rng.integers(0, 3, size=(P, J))
            calls.append({"act": "inv", "inp": {"m": mm.tolist(), "v": rng.integers(-5, 6, size=(K, 2)).tolist(),
                                                "se": rng.integers(-2, 3, size=(K, 2)).tolist(), "emax": 2}})
        J = int(rng.integers(1, 4))
        calls.append({"act": "dvec", "inp": {"t": rng.integers(-6, 7, size=(K, J, 2)).tolist(),
                                             "v": rng.integers(-5, 6, size=(K, 2)).tolist(),
                                             "se": rng.integers(-2, 3, size=(K, 2)).tolist(), "emax": 2}})
        out.append({"h": h, "w": w, "u": u, "org": org, "b": b, "calls": calls, "salt": 100000 + k})
    return out


# --------------------------------------------------------------------------------------------
# validation through Trace_Dft
# --------------------------------------------------------------------------------------------
_SPEC_KEYS = {"api", "via", "pre", "h", "w", "u", "org", "b", "raised", "off", "shape_ok", "re", "im", "img", "stored", "out",
              "v", "native", "m", "t", "se", "emax", "d", "f"}


def describe(rec):
    s = f"{rec['api']} via {rec['via']} ({'preload' if rec['pre'] else 'direct'}) on {rec['h']}x{rec['w']} mask u={rec['u']} " \
        f"origin(half px)={rec['org']} baselines={rec['b']}"
    for k in ("img", "stored", "v", "m"):
        if k in rec:
            s += f" {k}={rec[k]}"
    if rec.get("raised"):
        s += f" RAISED {rec.get('exc')}"
    return s


def validate(ctx, records, tag, chunk=None):
    import concurrent.futures as cf

    if chunk is None:  # at most 16 JVMs at a time, each with enough records to amortise its start
        chunk = min(4000, max(800, -(-len(records) // 16)))

    slim = []
    for n, r in enumerate(records):
        r["id"] = n
        s = {k: v for k, v in r.items() if k in _SPEC_KEYS}
        s["id"] = n
        slim.append(s)
    chunks = [slim[k: k + chunk] for k in range(0, len(slim), chunk)]
    rejects = []

    def one(args):
        k, ch = args
        res, rej = ctx.validate_trace("Trace_Dft", TRACE_CFG, ch, tag=f"{tag}-{k}", timeout=3000, env=JVM_ENV)
        return rej

    with cf.ThreadPoolExecutor(max_workers=min(16, len(chunks) or 1)) as ex:
        for rej in ex.map(one, list(enumerate(chunks))):
            rejects.extend(rej)
    for rj in rejects:
        rec = records[rj["id"]]
        if "input-on-lattice" in rj["clauses"]:
            raise core.MachineryError(f"driver produced an off-lattice transformer: {describe(rec)}")
        ctx.violation(rj["sig"], f"{describe(rec)}: failed {rj['clauses']}",
                      {"record": rec, "failed_clauses": rj["clauses"], "spec_wanted": rj.get("want")},
                      cls=",".join(c for c in rj["clauses"]))
    return rejects


# --------------------------------------------------------------------------------------------
def run(ctx):
    quick = ctx.quick
    small = [(1, 1), (2, 2), (2, 3), (3, 3)]
    if quick:
        runs = [("wide", [(1, 1), (1, 2), (2, 1), (2, 2), (3, 2), (3, 3)], [(0, 0)], list(range(-2, 3)), 1, "few", False),
                ("deep", [(2, 2), (3, 3)], [(2, -2)], [0, 1], 3, "two", False)]
        n_random = 120
        util_every = 4
    else:
        runs = [("wide", ALL_SHAPES, [(0, 0)], list(range(-3, 4)), 1, "ends", False),
                ("rich", small, [(1, 1)], list(range(-2, 3)), 1, "few", True),
                ("pairs", small + [(3, 2)], [(0, 0)], list(range(-2, 3)), 2, "two", False),
                ("deep", ALL_SHAPES, [(0, 0), (-1, 0)], [0, 1], 3, "two", False)]
        n_random = 1000
        util_every = 4
    ctx.bounds = {"tlc_runs": [{"name": r[0], "shapes": r[1], "origins_half_px": r[2], "multipliers": r[3], "max_baselines": r[4],
                                "masks": r[5], "rich_inputs": r[6]} for r in runs],
                  "values": "images, matrices -2..2; visibilities Gaussian integers |.|<=2; noise 2^-1..2^1 per part",
                  "random_transformers": n_random, "random_max_side": 6, "random_max_baselines": 8,
                  "random_values": "images -8..8, matrices -4..4 (1-4 columns), visibilities -5..5, noise parts 2^-2..2^2",
                  "pixel_scales": SCALES, "value_scales_log2": EXPS, "alpha_tolerance": TOL,
                  "util_functions_replayed_for_every_nth_transformer": util_every}
    ctx.exhaustive = True
    total = {"groups": 0, "calls": 0, "records": 0}
    salt = [0]

    pending = []

    def replay_and_judge(groups, tag, count=True, last=False):
        """S->C replay of a batch of transformers, then C->S judgement of everything they returned."""
        for g in groups:
            if "salt" not in g:
                g["salt"] = salt[0]
                g["util"] = salt[0] % util_every == 0
                salt[0] += 1
        step = 4000
        for k0 in range(0, len(groups), step):
            part = groups[k0: k0 + step]
            batch = 8
            outs = core.pmap(_many, [(part[k: k + batch], ctx.seed) for k in range(0, len(part), batch)])
            recs = [r for o in outs for r in o]
            if len(ctx.samples) < 5 and recs:
                ctx.sample({"record": {k: v for k, v in recs[len(recs) // 2].items() if k not in ("exc", "id")}})
            total["records"] += len(recs)
            if quick:  # one judgement phase for everything (all JVMs side by side)
                pending.extend(recs)
            else:
                validate(ctx, recs, f"{tag}-{k0}")
        if quick and last:
            validate(ctx, pending, "C13-all")
        if count:
            total["groups"] += len(groups)
            total["calls"] += sum(len(g["calls"]) for g in groups)

    for name, shapes, origins, mult, maxb, mode, rich in runs:
        insts, res = enumerate_machine(ctx, f"MC_Dft_{name}", shapes, origins, mult, maxb, mode, rich)
        gs = group_calls(insts)
        for g in gs:
            del g["salt"]
        if len(gs) != res.init_states:
            raise core.MachineryError(f"{name}: {len(gs)} transformers dumped, TLC counted {res.init_states}")
        ctx.note(f"TLC {name}: {res.init_states} transformers, {len(insts)} calls, {res.distinct} states, invariants {len(INVARIANTS)}")
        if len(ctx.samples) < 2:
            ctx.sample({"dumped_call": insts[len(insts) // 2]})
        del insts
        replay_and_judge(gs, f"C13-{name}")
    ctx.replayed = total["calls"]
    rng = np.random.default_rng(ctx.seed)
    rnd = random_groups(rng, n_random)
    for g in rnd:
        g["util"] = True
    replay_and_judge(rnd, "C13-random", count=False, last=True)
    ctx.note(f"{total['groups']} enumerated transformers ({total['calls']} calls) + {len(rnd)} random transformers -> "
             f"{total['records']} records judged by Trace_Dft (class preload on/off, util functions, inversion objects)")
    ctx.assumptions = [
        "baselines are a*648000/(4*s*pi) for the pixel scale s, so every phase is a quarter turn up to ~1e-15; alpha accepts a "
        "residual of 1e-9 lattice units and rejects anything else (values-on-lattice clause)",
        "pixel centres are those of the mask geometry (C02 decides them); the mask origin is included",
        "inversion objects are built with a dataset stand-in (DatasetInterface) and mock mappers carrying the mapping matrix and "
        "a regularization, so no no-regularization diagonal term is added to F",
        "NUFFT transformer and interferometer w-tilde path out of scope (libraries / code absent)"]


def replay(ctx, rp):
    rec = rp["record"]
    act = {"vis": "vis", "image": "image", "tmm": "tmm", "inv": "inv", "dvec": "dvec"}.get(rec["api"])
    calls = []
    if act == "vis":
        calls = [{"act": "vis", "inp": {"img": rec["img"]}, "native": True}]
    elif act == "image":
        calls = [{"act": "image", "inp": {"v": rec["v"]}}]
    elif act == "tmm":
        calls = [{"act": "tmm", "inp": {"m": rec["m"]}}]
    elif act == "inv":
        calls = [{"act": "inv", "inp": {"m": rec["m"], "v": rec["v"], "se": rec["se"], "emax": rec["emax"]}}]
    elif act == "dvec":
        calls = [{"act": "dvec", "inp": {"t": rec["t"], "v": rec["v"], "se": rec["se"], "emax": rec["emax"]}}]
    for c in calls:
        c["exps"] = rec.get("exps")
    g = {"h": rec["h"], "w": rec["w"], "u": rec["u"], "org": rec["org"], "b": rec["b"], "calls": calls,
         "salt": rec.get("salt", 0), "scales": tuple(rec["scales"]) if rec.get("scales") else None}
    recs = [r for r in records_for_group(g, ctx.seed) if r["api"] == rec["api"]]
    rej = validate(ctx, recs, "C13-replay")
    print("replayed", len(recs), "records; rejected:", [(recs[r["id"]]["via"], recs[r["id"]]["pre"], r["clauses"]) for r in rej])
    return ctx.finish()
