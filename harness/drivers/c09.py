"""C09 -- over-sampling partitions pixels uniformly and bins by exact per-pixel means; decorator dispatch;
the stopping rule of the iterative scheme.

Part A (single step).  OverSample.tla (SpecA) enumerates masks x per-pixel sub-size maps x geometries on the tick lattice
and checks the design-level theorems (tiling, order, affine/constant reproduction, areas, two formulations agree).
S->C: every enumerated instance is replayed through OverSamplerUniform (over_sampled_grid, slim_for_sub_slim,
      sub_pixel_areas, binned_array_2d_from, array_via_func_from) and through @over_sample-decorated methods.
C->S: the abstracted outputs are validated by Trace_OverSample.tla, also for seeded random larger instances.

Part B (multi step).  SpecB is the iterative scheme as a per-pixel machine over the binned values it can observe.
TLC checks it exhaustively on a small bound and simulates behaviours; each behaviour is replayed through the real
OverSamplerIterate with a *table function* that recognises (pixel, sub size) from the coordinates it is asked about,
returns the behaviour's values, and logs who was asked at which level.  Trace_OverSample.tla judges the result and the
evaluated sets against the declarative rule (and against the machine's final state)."""
import glob
import math
import threading

import numpy as np

from harness import core

# concrete tick lengths (gamma): dyadic (float arithmetic exact) and arbitrary reals
TAUS = [2.0**-6, 2.0**-3, 1.0, 0.05, 0.1, 1.0 / 3.0, 0.7, 2.0**4]
ALL_SUBS = (1, 2, 3, 4, 8)
SUBS18 = (1, 2, 3, 4, 5, 6, 7, 8)
INT_MAX = 2**31 - 1
POISON = 7  # table entry of a (pixel, level) the scheme must never ask for
SENTINEL = 12345.0  # returned for a point the probe cannot attribute to (unmasked pixel, known sub size)

MC_A_CFG = """CONSTANTS
  Families <- MCFamilies
  Geoms <- MCGeoms
  Coefs <- MCCoefs
  MaxPix = 1
  Schedules = {}
  Values = {}
  FAs = {}
  RAs = {}
SPECIFICATION SpecA
INVARIANT InstOnLattice
INVARIANT CountIsSumOfSquares
INVARIANT OwnBlocks
INVARIANT Tiling
INVARIANT OrderInBlock
INVARIANT AffineReproduced
INVARIANT ConstantsReproduced
INVARIANT AreasSumToUnmaskedArea
INVARIANT CodeFormulationAgrees
INVARIANT DispatchConsistent
INVARIANT EqualBlocksAreNotOwnBlocks
"""

MC_B_CFG = """CONSTANTS
  Families = {}
  Geoms = {}
  Coefs = {}
  MaxPix = %d
  Schedules <- MCSchedules
  Values <- MCValues
  FAs <- MCFAs
  RAs <- MCRAs
SPECIFICATION SpecB
INVARIANT TypeOKB
INVARIANT ResultIsFirstAgreeingLevel
INVARIANT UnresolvedHaveNoAgreeingLevel
INVARIANT EvaluatedAreTheUnresolved
PROPERTY ResolvedNeverReevaluated
"""

TRACE_CFG = """CONSTANTS
  Families = {}
  Geoms = {}
  Coefs = {}
  MaxPix = 1
  Schedules = {}
  Values = {}
  FAs = {}
  RAs = {}
SPECIFICATION TraceSpec
POSTCONDITION TraceAccepted
"""

JVM = {"JDK_JAVA_OPTIONS": "-Xmx3g"}  # the machine is shared: cap the heap of every JVM this driver starts
VALUES = (-2, 0, 1, 2, 3, 4)
FAS = ((1, 2), (3, 4), (99, 100))
RAS = (-1, 1)


# ---------------------------------------------------------------------------------------------
# TLA+ literals
# ---------------------------------------------------------------------------------------------
def _tla_set(xs):
    return "{" + ", ".join(str(x) for x in xs) + "}"


def _tla_seq(xs):
    return "<<" + ", ".join(str(x) for x in xs) + ">>"


def _families_def(fams):
    return "{" + ", ".join(f'<<{h}, {w}, {_tla_set(s)}, "{sel}", {{{", ".join(_tla_seq(g) for g in gs)}}}>>'
                           for h, w, s, sel, gs in fams) + "}"


def _b_defs(schedules):
    return (f"MCSchedules == {{{', '.join(_tla_seq(s) for s in schedules)}}}\n"
            f"MCValues == {_tla_set(VALUES)}\n"
            f"MCFAs == {{{', '.join(_tla_seq(f) for f in FAS)}}}\n"
            f"MCRAs == {{{', '.join('NoTol' if r < 0 else str(r) for r in RAS)}}}\n")


# ---------------------------------------------------------------------------------------------
# alpha: floats -> lattice integers, counting (never hiding) what is off the lattice
# ---------------------------------------------------------------------------------------------
def _alpha(x, scale=1.0, tol=1e-6):
    a = np.asarray(x, dtype=float) / scale
    r = np.rint(a)
    with np.errstate(invalid="ignore"):
        bad = ~np.isfinite(a) | (np.abs(a - r) > tol + 1e-12 * np.abs(r)) | (np.abs(r) >= 2**31 - 1)
    r = np.where(bad, -1.0, r)
    return r.astype(np.int64), int(np.count_nonzero(bad))


def _lcm(xs):
    out = 1
    for x in xs:
        out = out * int(x) // math.gcd(out, int(x))
    return out


# ---------------------------------------------------------------------------------------------
# gamma: abstract instance -> concrete objects
# ---------------------------------------------------------------------------------------------
def _mask(rec):
    import autoarray as aa

    tau = TAUS[rec["ti"]]
    h, w = rec["h"], rec["w"]
    m = np.ones(h * w, dtype=bool)
    m[rec["u"]] = False
    return aa.Mask2D(mask=m.reshape(h, w), pixel_scales=(rec["sy"] * tau, rec["sx"] * tau),
                     origin=(rec["oy"] * tau, rec["ox"] * tau))


def _sub_size(rec, mask):
    import autoarray as aa

    sub = rec["sub"]
    if rec.get("subrep") == "int" and len(set(sub)) == 1:
        return int(sub[0])
    return aa.Array2D(values=np.array(sub, dtype=int), mask=mask)


# ---------------------------------------------------------------------------------------------
# Shared over-sampling objects (the history part of the check).  One OverSamplingUniform per sub size / sub-size map and
# one OverSamplingIterate per (schedule, accuracies) is kept by the driver and handed to several grids in a row: grids
# with the same mask layout but different scales and origin (a decoy before or after the real one) and the grids of
# consecutive instances.  Every use is recorded and judged on its own geometry: what an over-sampling object returns
# for a grid must not depend on which grids it served before.  The pool is reset at the start of every replay group,
# so a group (the unit stored in a replay file) reproduces its own history.
# ---------------------------------------------------------------------------------------------
_POOL = {}


def _pool_reset():
    _POOL.clear()


def _pooled(key, make):
    """Returns (shared object, number of earlier uses of it in this group)."""
    ent = _POOL.get(key)
    if ent is None:
        ent = _POOL[key] = [make(), 0]
    ent[1] += 1
    return ent[0], ent[1] - 1


def _shared_uniform(rec, mask):
    import autoarray as aa

    sub = rec["sub"]
    if rec.get("subrep") == "int" and len(set(sub)) == 1:
        key = ("uniform", int(sub[0]))
    else:
        key = ("uniform-map", rec["h"], rec["w"], tuple(rec["u"]), tuple(sub))
    return _pooled(key, lambda: aa.OverSamplingUniform(sub_size=_sub_size(rec, mask)))


def _shared_iterate(rec, fa, ra, sched):
    import autoarray as aa

    key = ("iterate", tuple(sched), tuple(rec["fa"]), rec["ra"])
    return _pooled(key, lambda: aa.OverSamplingIterate(fractional_accuracy=fa, relative_accuracy=ra, sub_steps=sched))


def _decoy(rec, subs):
    """Same mask layout and sub sizes, different scales AND origin (still on the lattice)."""
    L = _lcm(subs)
    return dict(rec, sy=rec["sy"] + 4 * L, sx=rec["sx"] * 3, oy=rec["oy"] + 6, ox=rec["ox"] - 10, decoy=True)


def _check_lattice(rec, subs):
    L = _lcm(subs)
    if rec["sy"] <= 0 or rec["sx"] <= 0 or rec["sy"] % (4 * L) or rec["sx"] % (4 * L):
        raise core.MachineryError(f"driver produced an off-lattice geometry: {rec}")


# ---------------------------------------------------------------------------------------------
# user functions of the lattice point (mirror of F in OverSample.tla) and the probe that serves them
# ---------------------------------------------------------------------------------------------
def _F(fn, y, x):
    c = fn["c"]
    k = fn["kind"]
    if k == "affine":
        return c[0] * y + c[1] * x + c[2]
    if k == "quad":
        return c[0] * y * y + c[1] * y * x + c[2] * x + c[3]
    if k == "abs":
        return np.abs(c[0] * y + c[1] * x + c[2]) - c[3]
    if k == "step":
        return np.where(c[0] * y + c[1] * x + c[2] > 0, c[3], c[4])
    if k == "mod":
        return np.mod(c[0] * y + c[1] * x + c[2], c[3]) - c[4]
    if k == "ind":
        return c[0] * y + c[1] * x + c[2] > 0
    if k == "disc":
        return c[0] * (y - c[2]) ** 2 + c[1] * (x - c[3]) ** 2 < c[4]
    if k == "floor":
        return np.floor_divide(c[0] * y + c[1] * x + c[2], c[3])
    raise ValueError(k)


def _extent(geo):
    """Largest |y| and |x| (ticks) of any point of the frame."""
    return abs(geo["oy"]) + (geo["h"] * geo["sy"]) // 2, abs(geo["ox"]) + (geo["w"] * geo["sx"]) // 2


def _fn_bound(fn, Ry, Rx):
    """Upper bound of |value| and of every intermediate the specification computes, on the frame."""
    c = [abs(int(v)) for v in fn["c"]]
    k = fn["kind"]
    if k in ("affine", "ind"):
        return c[0] * Ry + c[1] * Rx + c[2]
    if k == "quad":
        return c[0] * Ry * Ry + c[1] * Ry * Rx + c[2] * Rx + c[3]
    if k == "abs":
        return c[0] * Ry + c[1] * Rx + c[2] + c[3]
    if k == "step":
        return max(c[0] * Ry + c[1] * Rx + c[2], c[3], c[4])
    if k == "mod":
        return c[0] * Ry + c[1] * Rx + c[2] + c[3] + c[4]
    if k == "disc":
        return c[0] * (Ry + c[2]) ** 2 + c[1] * (Rx + c[3]) ** 2 + c[4]
    if k == "floor":
        return c[0] * Ry + c[1] * Rx + c[2]
    raise ValueError(k)


ALL_KINDS = ("affine", "quad", "abs", "step", "mod", "ind", "disc", "floor")
# element type the user function returns: float profiles, integer profiles (np.where(r < R, 1, 0), floor(...).astype(int),
# counts) and boolean indicators
DTYPES = {"affine": ("float", "float", "int"), "quad": ("float", "float", "int"), "abs": ("float", "int"),
          "step": ("float", "int"), "mod": ("float", "int"), "ind": ("bool", "int", "float"),
          "disc": ("bool", "int", "float"), "floor": ("int", "int", "float")}
NP_DTYPE = {"float": np.float64, "int": np.int64, "bool": np.bool_}


def _random_fn(rng, geo, kinds=ALL_KINDS, positive=False, summed=64, factor=1, bound_geo=None):
    """A random user function on the frame `geo` whose values (x `summed` sub-values x `factor`) and intermediates stay
    inside TLC's 32-bit integers."""
    r = lambda lo, hi: int(rng.integers(lo, hi + 1))
    Ry, Rx = _extent(bound_geo or geo)
    for attempt in range(40):
        k = kinds[int(rng.integers(0, len(kinds)))]
        if k == "affine":
            c = [r(-3, 3), r(-3, 3), r(-9, 9)]
            if positive:
                c[2] = r(0, 400)
        elif k == "quad":
            c = [r(-1, 1), r(-1, 1), r(-3, 3), r(-9, 9)]
        elif k == "abs":
            c = [r(-3, 3), r(-3, 3), r(-20, 20), r(0, 60)]
            if positive:
                c[3] = r(-5, 20)
        elif k == "step":
            c = [r(-2, 2), r(-2, 2), r(-30, 30), r(-3, 9), r(-3, 9)]
            if c[0] == 0 and c[1] == 0:
                c[0] = 1
        elif k == "mod":
            c = [r(-3, 3), r(-3, 3), r(-9, 9), r(2, 40), r(0, 10)]
        elif k == "ind":
            # a half plane through the neighbourhood of a random pixel of the frame
            c = [r(-3, 3), r(-3, 3), 0]
            if c[0] == 0 and c[1] == 0:
                c[1] = 1
            y0 = geo["oy"] + r(-geo["h"], geo["h"]) * (geo["sy"] // 4)
            x0 = geo["ox"] + r(-geo["w"], geo["w"]) * (geo["sx"] // 4)
            c[2] = -(c[0] * y0 + c[1] * x0) + r(-1, 1)
        elif k == "disc":
            # a top-hat of about a pixel, centred on a quarter-pixel lattice point (pixel centres, corners, edges)
            y0 = geo["oy"] + r(-geo["h"], geo["h"]) * (geo["sy"] // 4)
            x0 = geo["ox"] + r(-geo["w"], geo["w"]) * (geo["sx"] // 4)
            rad = max(2, (min(geo["sy"], geo["sx"]) * r(2, 14)) // 8)
            c = [r(1, 2), r(1, 2), y0, x0, rad * rad]
        else:  # floor: a staircase with steps of a fraction of a pixel
            c = [r(-3, 3), r(-3, 3), r(-9, 9), max(2, (min(geo["sy"], geo["sx"]) * r(1, 6)) // 4)]
            if c[0] == 0 and c[1] == 0:
                c[0] = 1
            if positive:
                c[2] = c[3] * r(1, 6) + (abs(c[0]) * Ry + abs(c[1]) * Rx)
        fn = {"kind": k, "c": c}
        b = _fn_bound(fn, Ry, Rx)
        if k == "disc":
            ok = b < INT_MAX // 2
        elif k == "ind":
            ok = b < INT_MAX // 2
        else:
            ok = b * summed * factor < INT_MAX // 2
        if ok:
            dts = DTYPES[k]
            fn["dt"] = dts[int(rng.integers(0, len(dts)))]
            return fn
    return {"kind": "step", "c": [1, 0, -geo["oy"], 1, 0], "dt": "int"}


class Probe:
    """A user function.  From the coordinates it is asked about it recognises the pixel (through the mask geometry) and
    the sub size (through the sub-pixel spacing inside that pixel), returns value(pixel, sub size, y, x) and logs
    which pixels were asked at which sub size.  It is the linearisation-point probe of the iterative scheme."""

    def __init__(self, rec, value, dt="float"):
        self.dtype = NP_DTYPE[dt]
        self.tau = TAUS[rec["ti"]]
        self.h, self.w, self.sy, self.sx = rec["h"], rec["w"], rec["sy"], rec["sx"]
        self.yT = rec["oy"] + (self.h * self.sy) // 2  # top edge of the frame
        self.xL = rec["ox"] - (self.w * self.sx) // 2  # left edge
        self.slim_of = -np.ones(self.h * self.w, dtype=np.int64)
        self.slim_of[np.array(rec["u"], dtype=int)] = np.arange(len(rec["u"]))
        self.value = value
        self.calls = []  # one entry per call: list of [n, sorted pixel list]
        self.bad = 0  # points not attributable to (unmasked pixel, consistent sub size) or off the lattice
        self.kw = []

    def __call__(self, grid):
        g = np.array(grid, dtype=float).reshape(-1, 2)
        t = g / self.tau
        r = np.rint(t)
        offl = np.abs(t - r).max(axis=1) > 1e-6 if len(g) else np.zeros(0, bool)
        ry, rx = r[:, 0].astype(np.int64), r[:, 1].astype(np.int64)
        dy, dx = self.yT - ry, rx - self.xL
        i, j = dy // self.sy, dx // self.sx
        ok = (~offl) & (i >= 0) & (i < self.h) & (j >= 0) & (j < self.w) & (dy % self.sy != 0) & (dx % self.sx != 0)
        p = np.where(ok, self.slim_of[np.clip(i, 0, self.h - 1) * self.w + np.clip(j, 0, self.w - 1)], -1)
        n = np.zeros(len(g), dtype=np.int64)
        per_n = {}
        for q in np.unique(p):
            sel = p == q
            if q < 0:
                continue
            cnt = int(sel.sum())
            m = math.isqrt(cnt)
            # the spacing: the first sub-centre sits half a sub-pixel from the pixel edge
            if m * m == cnt and (dy[sel] % self.sy).min() * 2 * m == self.sy and (dx[sel] % self.sx).min() * 2 * m == self.sx:
                n[sel] = m
                per_n.setdefault(m, []).append(int(q))
        known = (p >= 0) & (n > 0)
        out = np.full(len(g), SENTINEL)
        if known.any():
            vals, recognised = self.value(p[known], n[known], ry[known], rx[known])
            out[known] = np.where(recognised, vals, SENTINEL)
            self.bad += int(np.count_nonzero(~recognised))
        self.bad += int(np.count_nonzero(~known))
        self.calls.append([[int(m), sorted(px)] for m, px in sorted(per_n.items())])
        return out.astype(self.dtype)

    def evals(self):
        return [{"n": m, "px": px} for call in self.calls for m, px in call]


def _lattice_value(fn):
    def value(p, n, y, x):
        return np.asarray(_F(fn, y, x), dtype=float), np.ones(len(p), dtype=bool)

    return value


def _table_value(v, sched):
    level_of = {1: 0}
    for k, s in enumerate(sched):
        level_of[int(s)] = k + 1
    tab = np.array(v, dtype=float)

    def value(p, n, y, x):
        lv = np.array([level_of.get(int(m), -1) for m in n])
        rec = lv >= 0
        return tab[p, np.clip(lv, 0, tab.shape[1] - 1)], rec

    return value


_CLS = {}


def _profiles():
    """The harness's profile classes (their names are registered in harness/conf/grids.yaml for the decorator's
    config look-ups).  Built lazily so that autoarray is imported from $VERIF_REPO after repo_env.setup()."""
    if _CLS:
        return _CLS
    import autoarray as aa

    class VOverSampleProfile:
        def __init__(self, probe):
            self.centre = (0.0, 0.0)
            self.probe = probe

        @aa.over_sample
        def values_from(obj, grid, *args, **kwargs):
            return obj.probe(grid)

    class VProfile:
        def __init__(self, probe):
            self.centre = (0.0, 0.0)
            self.probe = probe

        @aa.over_sample
        @aa.grid_dec.to_array
        def values_from(self, grid, *args, **kwargs):
            return self.probe(grid)

    def plain(obj, grid, *args, **kwargs):
        return obj.probe(grid)

    def plain_noobj(grid, *args, **kwargs):
        return plain_noobj.probe(grid)

    _CLS.update(VOverSampleProfile=VOverSampleProfile, VProfile=VProfile, plain=plain, plain_noobj=plain_noobj)
    return _CLS


def _exc(e):
    return f"{type(e).__name__}: {str(e)[:120]}"


# ---------------------------------------------------------------------------------------------
# Part A records
# ---------------------------------------------------------------------------------------------
FUNC_VIAS = ("sampler", "sampler_noobj", "decorator", "decorator_to_array", "decorator_grid_ctor",
             "decorator_oversampled_grid", "decorator_dataset_grid")
# entry points that take an OverSamplingUniform object: these get the driver's shared instance, and a decoy grid
SHARED_VIAS = ("decorator", "decorator_to_array", "decorator_grid_ctor", "decorator_dataset_grid")


def rec_partition(rec):
    import autoarray as aa

    _check_lattice(rec, rec["sub"])
    tau = TAUS[rec["ti"]]
    out = dict(rec, p="C09", api="partition", via=rec.get("via", "sampler"), grid=[], off=0, sfs=[], areas=[], total=-1, exc="", hist=0, dt="float")
    try:
        mask = _mask(rec)
        if out["via"] == "over_sampling_shared":
            ov, out["hist"] = _shared_uniform(rec, mask)
            os_ = ov.over_sampler_from(mask=mask)
        elif out["via"] == "grid_over_sampler_shared":
            ov, out["hist"] = _shared_uniform(rec, mask)
            os_ = aa.Grid2D.from_mask(mask=mask, over_sampling=ov).over_sampler
        else:
            os_ = aa.OverSamplerUniform(mask=mask, sub_size=_sub_size(rec, mask))
        g, off1 = _alpha(np.array(os_.over_sampled_grid).reshape(-1, 2), tau)
        ar, off2 = _alpha(np.array(os_.sub_pixel_areas), tau * tau)
        out.update(grid=g.tolist(), off=off1 + off2, sfs=[int(x) for x in np.array(os_.slim_for_sub_slim).ravel()],
                   areas=ar.tolist(), total=int(os_.sub_total))
    except core.MachineryError:
        raise
    except Exception as e:  # an exception of the code under test on a valid input is a verdict, not a machinery failure
        out["exc"] = _exc(e)
    return out


def rec_bin(rec):
    import autoarray as aa

    out = dict(rec, p="C09", api="bin", num=[], off=0, exc="", hist=0, dt=rec.get("dt", "float"))
    try:
        mask = _mask(rec)
        os_ = aa.OverSamplerUniform(mask=mask, sub_size=_sub_size(rec, mask))
        vals = np.array(rec["vals"]).astype(NP_DTYPE[out["dt"]])  # float, integer or boolean sub-values
        arr = vals if rec["via"] == "ndarray" else aa.ArrayIrregular(values=vals)
        b = np.array(os_.binned_array_2d_from(array=arr), dtype=float).ravel()
        sub2 = np.array(rec["sub"], dtype=float) ** 2
        if len(b) != len(sub2):
            out["num"], out["off"] = [-1] * len(b), 1
        else:
            num, off = _alpha(b * sub2)
            out.update(num=num.tolist(), off=off)
    except Exception as e:
        out["exc"] = _exc(e)
    return out


def _call_func(rec, mask, probe, over_sampling, sampler):
    """Evaluate the probe through the entry point named by rec['via']; returns the returned structure."""
    import autoarray as aa

    P = _profiles()
    via = rec["via"]
    if via == "sampler":
        return sampler().array_via_func_from(func=P["plain"], obj=P["VOverSampleProfile"](probe))
    if via == "sampler_noobj":
        P["plain_noobj"].probe = probe
        return sampler().array_via_func_from(func=P["plain_noobj"], obj=None)
    if via == "decorator":
        return P["VOverSampleProfile"](probe).values_from(aa.Grid2D.from_mask(mask=mask, over_sampling=over_sampling()))
    if via == "decorator_to_array":
        return P["VProfile"](probe).values_from(aa.Grid2D.from_mask(mask=mask, over_sampling=over_sampling()))
    if via == "decorator_grid_ctor":
        plain_grid = aa.Grid2D.from_mask(mask=mask)
        grid = aa.Grid2D(values=np.array(plain_grid), mask=mask, over_sampling=over_sampling())
        return P["VOverSampleProfile"](probe).values_from(grid)
    if via == "decorator_oversampled_grid":
        os_ = sampler()
        grid = aa.Grid2DOverSampled(grid=os_.over_sampled_grid, over_sampler=os_, pixels_in_mask=mask.pixels_in_mask)
        return P["VOverSampleProfile"](probe).values_from(grid)
    if via == "decorator_dataset_grid":
        from autoarray.dataset.grids import GridsDataset

        grids = GridsDataset(mask=mask, over_sampling=aa.OverSamplingDataset(uniform=over_sampling()))
        return P["VProfile"](probe).values_from(grids.uniform)
    if via == "decorator_default":
        # no over sampling given: the decorator takes the adaptive scheme from the config, which for the harness's
        # class names is sub size 1 everywhere
        return P["VOverSampleProfile"](probe).values_from(aa.Grid2D.from_mask(mask=mask))
    raise ValueError(via)


def rec_func(rec):
    import autoarray as aa

    _check_lattice(rec, rec["sub"])
    out = dict(rec, p="C09", api="func", num=[], off=0, bad=0, exc="", hist=0, dt=rec["fn"].get("dt", "float"))
    try:
        mask = _mask(rec)
        probe = Probe(rec, _lattice_value(rec["fn"]), out["dt"])

        def over_sampling():
            if not rec.get("share"):
                return aa.OverSamplingUniform(sub_size=_sub_size(rec, mask))
            ov, out["hist"] = _shared_uniform(rec, mask)
            return ov

        res = _call_func(rec, mask, probe,
                         over_sampling=over_sampling,
                         sampler=lambda: aa.OverSamplerUniform(mask=mask, sub_size=_sub_size(rec, mask)))
        b = np.array(res, dtype=float).ravel()
        sub2 = np.array(rec["sub"], dtype=float) ** 2
        if len(b) != len(sub2):
            out.update(num=[-1] * len(b), off=1, bad=probe.bad)
        else:
            num, off = _alpha(b * sub2)
            out.update(num=num.tolist(), off=off, bad=probe.bad)
    except core.MachineryError:
        raise
    except Exception as e:
        out["exc"] = _exc(e)
    return out


def records_a(inst, seed, n_func=2):
    """All Part A records of one abstract instance (h, w, u, sub, sy, sx, oy, ox)."""
    h, w, u, sub = inst["h"], inst["w"], inst["u"], inst["sub"]
    rng = np.random.default_rng([seed, h, w, len(u), sum(sub), inst["sy"], inst["sx"], abs(inst["oy"]), sum(u), 9])
    base = dict(h=h, w=w, u=list(u), sub=list(sub), sy=inst["sy"], sx=inst["sx"], oy=inst["oy"], ox=inst["ox"],
                ti=int(rng.integers(0, len(TAUS))), subrep=("int", "array")[int(rng.integers(0, 2))])
    pvia = ("sampler", "over_sampling_shared", "grid_over_sampler_shared")[int(rng.integers(0, 3))]
    recs = []
    if pvia == "sampler":
        recs.append(rec_partition(base))
    total = sum(s * s for s in sub)
    bdt = ("float", "int", "bool")[int(rng.integers(0, 3))]  # element type of the sub-values handed to the binning
    vals = rng.integers(-9, 10, size=total)
    if rng.integers(0, 3) == 0:
        vals = np.arange(1, total + 1)  # position tags: every sub-value distinct
    if bdt == "bool":
        vals = rng.integers(0, 2, size=total)
    recs.append(rec_bin(dict(base, vals=[int(x) for x in vals], dt=bdt, via=("ndarray", "irregular")[int(rng.integers(0, 2))])))
    vias = list(rng.permutation(len(FUNC_VIAS))[:n_func])
    for v in vias:
        via = FUNC_VIAS[int(v)]
        real = dict(base, fn=_random_fn(rng, base), via=via)
        if via not in SHARED_VIAS:
            recs.append(rec_func(real))
            continue
        # the shared OverSamplingUniform serves a decoy grid (same layout, other scales and origin) before the real
        # grid -- or after it; both uses are judged
        real["share"] = True
        dec = _decoy(base, sub)
        dec = dict(dec, fn=_random_fn(rng, dec), via=via, share=True)
        for r in ([dec, real] if rng.integers(0, 3) > 0 else [real, dec]):
            recs.append(rec_func(r))
    if pvia != "sampler":
        recs.append(rec_partition(dict(base, via=pvia)))
    if all(s == 1 for s in sub):
        recs.append(rec_func(dict(base, fn=_random_fn(rng, base), via="decorator_default")))
    return recs


def _many_a(args):
    """One replay group: consecutive instances share the driver's over-sampling objects."""
    gid, insts, seed, n_func = args
    _pool_reset()
    out = []
    for inst in insts:
        out.extend(records_a(inst, seed, n_func))
    for k, r in enumerate(out):
        r["grp"], r["gk"] = gid, k
    return out


def random_instances_a(rng, n, max_side):
    out = []
    for k in range(n):
        h = int(rng.integers(2, max_side + 1))
        w = int(rng.integers(2, max_side + 1))
        m = rng.random((h, w)) < rng.choice([0.25, 0.6, 0.9])
        if k % 5 == 1:
            m[:, ::2] = False
        if k % 5 == 2:
            m[int(rng.integers(0, h)), :] = True
        if not m.any():
            m[int(rng.integers(0, h)), int(rng.integers(0, w))] = True
        u = [int(x) for x in np.flatnonzero(m.ravel())]
        pool = SUBS18
        style = k % 4
        if style == 0:
            sub = [int(rng.choice(pool))] * len(u)
        elif style == 1:  # any per-pixel map over 1..8, not monotone in anything
            sub = [int(x) for x in rng.choice(pool, size=len(u))]
        elif style == 2:  # adaptive-like: large in the middle, one at the rim
            big = int(rng.choice((4, 5, 8)))
            sub = [big if (abs(c // w - (h - 1) / 2) <= 1 and abs(c % w - (w - 1) / 2) <= 1) else 1 for c in u]
        else:  # a non-uniform map with as many sub-pixels as a uniform one: 5,5 <-> 1,7 and 3,3,3 <-> 1,1,5
            s0 = int(rng.choice((5, 5, 3)))
            sub = [s0] * len(u)
            free = list(rng.permutation(np.arange(0 if rng.integers(0, 2) else 1, len(u))))
            while (s0 == 5 and len(free) >= 2) or (s0 == 3 and len(free) >= 3):
                if rng.integers(0, 3) == 0 and sub != [s0] * len(u):
                    break
                for idx, val in zip([free.pop() for _ in range(2 if s0 == 5 else 3)], (1, 7) if s0 == 5 else (1, 1, 5)):
                    sub[int(idx)] = val
        L = _lcm(sub)
        my, mx = (int(rng.integers(1, 3)), int(rng.integers(1, 3))) if L <= 12 else (1, 1)
        out.append(dict(h=h, w=w, u=u, sub=sub, sy=4 * L * my, sx=4 * L * mx,
                        oy=2 * int(rng.integers(-20, 21)), ox=2 * int(rng.integers(-20, 21))))
    return out


# ---------------------------------------------------------------------------------------------
# Part B records
# ---------------------------------------------------------------------------------------------
def _tie_exact(fa):
    """Does IEEE evaluation of the ratio, the way any implementation has to do it (smaller/larger directly, or
    larger/smaller inverted), reproduce `ratio >= fa` when the real ratio EQUALS fa = n/d?  A fact about the threshold
    constant alone: the quotients of (n*m, d*m) round like those of (n, d)."""
    n, d = float(fa[0]), float(fa[1])
    t = n / d
    return bool(n == d or (n / d >= t and 1.0 / (d / n) >= t))


def _iterate_call(rec, probe):
    import autoarray as aa

    P = _profiles()
    mask = _mask(rec)
    fa = rec["fa"][0] / rec["fa"][1]
    ra = None if rec["ra"] < 0 else float(rec["ra"]) * rec.get("ra_unit", 1.0)
    sched = [int(s) for s in rec["sched"]]
    if rec["via"] == "sampler":
        it = aa.OverSamplerIterate(mask=mask, fractional_accuracy=fa, relative_accuracy=ra, sub_steps=sched)
        return it.array_via_func_from(func=P["plain"], obj=P["VOverSampleProfile"](probe))
    if rec.get("share"):
        ov, rec["hist"] = _shared_iterate(rec, fa, ra, sched)
    else:
        ov = aa.OverSamplingIterate(fractional_accuracy=fa, relative_accuracy=ra, sub_steps=sched)
    cls = P["VProfile"] if rec["via"] == "decorator_to_array" else P["VOverSampleProfile"]
    return cls(probe).values_from(aa.Grid2D.from_mask(mask=mask, over_sampling=ov))


ITER_VIAS = ("sampler", "decorator", "decorator_to_array")


def rec_iterate(rec):
    """Table function: rec['v'][p] = [value at sub size 1, value at schedule entry 1, ...]."""
    _check_lattice(rec, rec["sched"])
    rec = dict(rec, hist=0, tie_exact=_tie_exact(rec["fa"]), dt=rec.get("dt", "float"))
    out = dict(rec, p="C09", api="iterate", result=[], evals=[], off=0, bad=0, exc="")
    try:
        probe = Probe(rec, _table_value(rec["v"], rec["sched"]), rec["dt"])
        res = np.array(_iterate_call(rec, probe), dtype=float).ravel()
        out["hist"] = rec["hist"]
        num, off = _alpha(res, 1.0, tol=1e-9)
        out.update(result=num.tolist(), off=off, bad=probe.bad, evals=probe.evals())
    except core.MachineryError:
        raise
    except Exception as e:
        out["exc"] = _exc(e)
    return out


def rec_iterate_fn(rec):
    """Function of the lattice point; the trace spec computes the table itself.  Values scaled by den = max sub^2."""
    _check_lattice(rec, rec["sched"])
    rec = dict(rec, hist=0, tie_exact=_tie_exact(rec["fa"]), dt=rec["fn"].get("dt", "float"))
    out = dict(rec, p="C09", api="iterate_fn", result=[], evals=[], off=0, bad=0, exc="")
    try:
        probe = Probe(rec, _lattice_value(rec["fn"]), rec["dt"])
        res = np.array(_iterate_call(rec, probe), dtype=float).ravel()
        out["hist"] = rec["hist"]
        num, off = _alpha(res * rec["den"], 1.0, tol=1e-6)
        out.update(result=num.tolist(), off=off, bad=probe.bad, evals=probe.evals())
    except core.MachineryError:
        raise
    except Exception as e:
        out["exc"] = _exc(e)
    return out


def _place_pixels(rng, npx, max_side=3):
    """gamma for the abstract pixels 1..np: a mask with exactly np unmasked cells."""
    while True:
        h, w = int(rng.integers(1, max_side + 1)), int(rng.integers(1, max_side + 1))
        if h * w >= npx:
            break
    u = sorted(int(x) for x in rng.choice(h * w, size=npx, replace=False))
    return h, w, u


def _geometry_b(rng, sched):
    L = _lcm(sched)
    return dict(sy=4 * L * int(rng.integers(1, 3)), sx=4 * L * int(rng.integers(1, 3)),
                oy=2 * int(rng.integers(-9, 10)), ox=2 * int(rng.integers(-9, 10)), ti=int(rng.integers(0, len(TAUS))))


def behaviour_to_record(states, seed, k):
    """One simulated behaviour of SpecB -> the iterate record to replay (gamma)."""
    last = states[-1][1]
    cfg = last["cfg"]
    npx, sched = cfg["np"], cfg["sched"]
    if last["level"] < 0:
        return None
    done = len(last["resolved"]["__set__"] if isinstance(last["resolved"], dict) else last["resolved"]) == npx
    if not done:
        raise core.MachineryError(f"behaviour {k} did not run to completion (depth too small?): level={last['level']}")
    rng = np.random.default_rng([seed, k, 77])
    h, w, u = _place_pixels(rng, npx)
    v = [list(vp) + [POISON] * (len(sched) + 1 - len(vp)) for vp in last["v"]]
    ev = [sorted(int(p) - 1 for p in (e["__set__"] if isinstance(e, dict) else e)) for e in last["evald"]]
    return dict(h=h, w=w, u=u, **_geometry_b(rng, sched), sched=list(sched), fa=list(cfg["fa"]), ra=int(cfg["ra"]),
                v=v, dt=("float", "int")[(k // 3) % 2], via=ITER_VIAS[k % len(ITER_VIAS)], has_m=True, m_result=list(last["result"]), m_evald=ev,
                m_actions=[a if a != "?" else f"Level({st['level']})" for a, st in states])


SCHED_POOL = (2, 4, 8, 16)


def random_schedule(rng, lo=2, hi=4, pool=SCHED_POOL):
    n = int(rng.integers(lo, min(hi, len(pool)) + 1))
    s = [int(x) for x in rng.choice(pool, size=n, replace=False)]
    if rng.integers(0, 3) > 0:
        s = sorted(s)
    return s


def random_iterate_records(rng, n, max_side):
    out = []
    for k in range(n):
        h, w = int(rng.integers(2, max_side + 1)), int(rng.integers(2, max_side + 1))
        m = rng.random((h, w)) < 0.6
        if not m.any():
            m[0, 0] = True
        u = [int(x) for x in np.flatnonzero(m.ravel())][:12]
        sched = random_schedule(rng, 2, 4)
        lo, hi = ((-3, 9), (0, 5), (1, 4), (90, 110))[k % 4]
        v = rng.integers(lo, hi + 1, size=(len(u), len(sched) + 1))
        if k % 7 == 3:
            v[:, 0] = 0  # zero at every pixel centre
        fa = ((1, 2), (3, 4), (99, 100), (9, 10), (1, 1))[int(rng.integers(0, 5))]
        ra = (-1, -1, 1, 2, 0)[int(rng.integers(0, 5))]
        out.append(dict(h=h, w=w, u=u, **_geometry_b(rng, sched), sched=sched, fa=list(fa), ra=int(ra),
                        dt=("float", "int")[k % 2], v=[[int(x) for x in row] for row in v], via=ITER_VIAS[k % len(ITER_VIAS)], has_m=False,
                        m_result=[], m_evald=[]))
    return out


def random_iterate_fn_records(rng, n, max_side):
    out = []
    for k in range(n):
        h, w = int(rng.integers(1, max_side + 1)), int(rng.integers(1, max_side + 1))
        m = rng.random((h, w)) < 0.7
        if not m.any():
            m[0, 0] = True
        u = [int(x) for x in np.flatnonzero(m.ravel())][:10]
        sched = random_schedule(rng, 2, 3, pool=(2, 4, 8))
        L = _lcm(sched)
        geo = dict(sy=4 * L * int(rng.integers(1, 3)), sx=4 * L * int(rng.integers(1, 3)),
                   oy=2 * int(rng.integers(-9, 10)), ox=2 * int(rng.integers(-9, 10)), ti=int(rng.integers(0, len(TAUS))))
        cover = dict(geo, h=h, w=w, sy=geo["sy"] * 2, sx=geo["sx"] * 3, oy=abs(geo["oy"]) + 6, ox=abs(geo["ox"]) + 10)  # decoy too
        fn = _random_fn(rng, dict(geo, h=h, w=w), kinds=("affine", "abs", "step", "mod", "ind", "disc", "floor"),
                        positive=(k % 2 == 0), summed=max(sched) ** 2, factor=100, bound_geo=cover)
        fa = ((1, 2), (3, 4), (99, 100), (9, 10))[int(rng.integers(0, 4))]
        ra = (-1, -1, 1, 5)[int(rng.integers(0, 4))]
        out.append(dict(h=h, w=w, u=u, **geo, fn=fn, sched=sched, fa=list(fa), ra=int(ra), den=max(sched) ** 2,
                        via=ITER_VIAS[k % len(ITER_VIAS)]))
    return out


def _many_b(args):
    """One replay group of Part B.  Decorator entry points use the driver's shared OverSamplingIterate, on a decoy grid
    (same layout, other scales and origin) before or after the real grid; both uses are judged."""
    gid, recs = args
    _pool_reset()
    out = []
    for n, r in enumerate(recs):
        one = rec_iterate if "v" in r else rec_iterate_fn
        if r["via"] == "sampler":
            out.append(one(r))
            continue
        real = dict(r, share=True)
        dec = dict(_decoy(r, r["sched"]), share=True)
        for x in ([dec, real] if (n + gid) % 3 else [real, dec]):
            out.append(one(x))
    for k, r in enumerate(out):
        r["grp"], r["gk"] = gid, k
    return out


# ---------------------------------------------------------------------------------------------
# validation through the trace specification
# ---------------------------------------------------------------------------------------------
def _describe(rec):
    s = f"{rec['api']} via {rec.get('via')} on {rec['h']}x{rec['w']} mask u={rec['u']} scales=({rec['sy']},{rec['sx']}) " \
        f"origin=({rec['oy']},{rec['ox']}) ticks tau={TAUS[rec['ti']]:.6g}"
    if "sub" in rec:
        s += f" sub={rec['sub']}"
    if "sched" in rec:
        s += f" schedule={rec['sched']} fa={rec['fa']} ra={rec['ra']}"
    if "v" in rec:
        s += f" table={rec['v']} got={rec.get('result')}"
    if "fn" in rec:
        s += f" fn={rec['fn']}"
    if rec.get("hist"):
        s += f" [use #{rec['hist'] + 1} of a shared over-sampling object{', decoy grid' if rec.get('decoy') else ''}]"
    if rec.get("exc"):
        s += f" raised {rec['exc']}"
    return s


def validate(ctx, records, tag, chunk=1500, context=None):
    """context(rec) -> what a replay file needs to reproduce the history of the record (its replay group)."""
    import concurrent.futures as cf

    for n, r in enumerate(records):
        r["id"] = n
    slim = [{k: v for k, v in r.items() if k not in ("m_actions", "grp", "gk")} for r in records]
    chunks = [slim[k : k + chunk] for k in range(0, len(slim), chunk)]
    rejects = []

    def one(args):
        k, ch = args
        res, rej = ctx.validate_trace("Trace_OverSample", TRACE_CFG, ch, tag=f"{tag}-{k}", timeout=1800, env={"JDK_JAVA_OPTIONS": "-Xmx2g"})
        return rej

    with cf.ThreadPoolExecutor(max_workers=min(12, len(chunks) or 1)) as ex:
        for rej in ex.map(one, list(enumerate(chunks))):
            rejects.extend(rej)
    for rj in rejects:
        rec = records[rj["id"]]
        rp = {"record": rec, "failed_clauses": rj["clauses"], "spec_wanted": rj.get("want")}
        if context is not None:
            rp["group"] = context(rec)
        ctx.violation(rj["sig"], f"{_describe(rec)}: failed {rj['clauses']}", rp, cls=",".join(rj["clauses"]))
    return rejects


# ---------------------------------------------------------------------------------------------
# the check
# ---------------------------------------------------------------------------------------------
G0, G1, G2 = (1, 1, 0, 0), (1, 2, 2, -6), (3, 1, -10, 4)  # (my, mx, oy, ox): isotropic at the origin, two anisotropic shifted
GEOMS = (G0, G1, G2)


def families(quick):
    """(H, W, sub sizes S, selection, geometries): every mask of the frame x every selected sub-size map x every geometry.
    selection: "all" = every per-pixel map over S, "uniform" = one size for all pixels, "ambiguous" = every non-uniform
    per-pixel map over S whose number of sub-pixels equals that of some uniform map (OverSample!TotalLooksUniform)."""
    F, E = ALL_SUBS, SUBS18
    if quick:
        return [(1, 1, E, "all", GEOMS), (1, 2, E, "all", (G1, G2)), (2, 1, E, "all", (G1,)),
                (1, 3, (1, 2, 3, 5, 7, 8), "all", (G1,)), (3, 1, (1, 2, 4), "all", (G2,)), (2, 2, (1, 2, 3), "all", (G1,)),
                (2, 2, E, "ambiguous", (G2,)), (1, 4, E, "ambiguous", (G1,)),
                (2, 3, (2, 8), "uniform", (G2,)), (3, 2, (3, 4), "uniform", (G1,)), (3, 3, (2,), "uniform", (G2,))]
    return [(1, 1, E, "all", GEOMS), (1, 2, E, "all", GEOMS), (2, 1, E, "all", GEOMS), (1, 3, E, "all", (G1, G2)),
            (3, 1, E, "all", (G2,)), (2, 2, F, "all", (G1,)), (2, 2, (1, 3, 5, 7), "all", (G2,)), (1, 4, (1, 5, 6, 7), "all", (G1,)),
            (2, 2, E, "ambiguous", GEOMS), (1, 4, E, "ambiguous", (G1, G2)), (1, 5, E, "ambiguous", (G2,)), (2, 3, (1, 3, 5, 7), "ambiguous", (G1,)),
            (2, 3, (1, 2, 3), "all", (G1,)), (3, 2, (1, 2, 4), "all", (G2,)),
            (2, 3, E, "uniform", GEOMS), (3, 2, E, "uniform", GEOMS), (3, 3, E, "uniform", (G1, G2)), (3, 3, (1, 2), "all", (G1,))]


def _family_count(fams):
    """Upper bound of the number of enumerated instances (selections only remove maps)."""
    tot = 0
    for h, w, s, sel, gs in fams:
        for ncell in range(1, h * w + 1):
            tot += math.comb(h * w, ncell) * (len(s) if sel == "uniform" else len(s) ** ncell) * len(gs)
    return tot


def enumerate_a(ctx, fams):
    defs = (f"MCFamilies == {_families_def(fams)}\n"
            f"MCGeoms == {{{', '.join(_tla_seq(g) for g in GEOMS)}}}\n"
            f"MCCoefs == {_tla_set((-2, 0, 1, 3))}\n")
    res = ctx.tlc("OverSample", MC_A_CFG, defs=defs, tag="MC_OverSampleA", timeout=3000, workers=8, env=JVM)
    insts = res.by_kind("inst")
    # families may overlap (a uniform map is also a per-pixel map): TLC's state set removes duplicates
    uniq = {(r["h"], r["w"], tuple(r["u"]), tuple(r["sub"]), r["sy"], r["sx"], r["oy"], r["ox"]) for r in insts}
    if len(insts) == 0 or len(uniq) != len(insts) or res.distinct != 2 * len(insts) or len(insts) > _family_count(fams):
        raise core.MachineryError(f"OverSample.tla (A) enumerated {len(insts)} instances ({len(uniq)} distinct) / "
                                  f"{res.distinct} states; at most {_family_count(fams)} expected")
    return insts


def run(ctx):
    quick = ctx.quick
    fams = families(quick)
    sim_scheds = [(2, 4), (4, 2), (2, 4, 8), (4, 2, 8), (2, 8, 16), (2, 4, 8, 16), (16, 2, 8, 4)]
    ctx.bounds = {
        "A_families(H,W,sub sizes,selection,geometries(my,mx,oy,ox))": [[h, w, list(s), sel, [list(g) for g in gs]] for h, w, s, sel, gs in fams], "A_random_instances": 60 if quick else 600, "A_random_max_side": 6,
        "B_exhaustive": "np<=2 x schedule length 2 (fa 1/2, 3/4); np=1 x lengths 3,4" if quick else "np<=2 x length 2; np=1 x length 4; np<=2 x length 3 and np<=3 x length 2 with values -2,0,1,2",
        "B_values": list(VALUES), "B_fa": [list(f) for f in FAS], "B_ra": ["none", 1],
        "B_simulated_behaviours": 240 if quick else 2000, "B_simulate_schedules": [list(s) for s in sim_scheds], "B_simulate_np": 3,
        "B_random_tables": 90 if quick else 900, "B_random_functions": 60 if quick else 600,
    }

    # ---- Part B exhaustive model checking runs in the background while Part A is enumerated and replayed
    bg_err = []

    small_values = f"MCValues == {_tla_set(VALUES)}", "MCValues == {-2, 0, 1, 2}"

    def exhaustive_b():
        try:
            d2 = _b_defs([(2, 4)])
            if quick:  # 99/100 is covered by the one-pixel run below
                d2 = d2.replace(", <<99, 100>>", "")
            ctx.tlc("OverSample", MC_B_CFG % 2, defs=d2, tag="MC_OverSampleB_np2", timeout=3000, workers=6, env=JVM)
            ctx.tlc("OverSample", MC_B_CFG % 1, defs=_b_defs([(2, 4, 8), (2, 4, 8, 16)] if quick else [(2, 4, 8, 16)]),
                    tag="MC_OverSampleB_np1", timeout=3000, workers=4, coverage=True, env=JVM)
            if not quick:
                ctx.tlc("OverSample", MC_B_CFG % 2, defs=_b_defs([(2, 4, 8)]).replace(*small_values),
                        tag="MC_OverSampleB_np2_len3", timeout=3000, workers=6, env=JVM)
                ctx.tlc("OverSample", MC_B_CFG % 3, defs=_b_defs([(2, 4)]).replace(*small_values),
                        tag="MC_OverSampleB_np3", timeout=3000, workers=6, env=JVM)
        except BaseException as e:  # noqa
            bg_err.append(e)

    # ---- Part B simulation (behaviours to replay), also in the background
    nsim = ctx.bounds["B_simulated_behaviours"]
    prefix = ctx.work / "simB"

    def simulate_b():
        try:
            ctx.tlc("OverSample", MC_B_CFG % 3, defs=_b_defs(sim_scheds), tag="SIM_OverSampleB", timeout=3000, workers=1, env=JVM,
                    simulate=f"file={prefix},num={nsim}", depth=8, seed=ctx.seed)
        except BaseException as e:  # noqa
            bg_err.append(e)

    th_sim = threading.Thread(target=simulate_b)
    th_sim.start()
    th = threading.Thread(target=exhaustive_b)
    th.start()

    # ---- Part A: enumerate, replay
    insts = enumerate_a(ctx, fams)
    ctx.exhaustive = True
    rnd = random_instances_a(np.random.default_rng([ctx.seed, 1]), ctx.bounds["A_random_instances"], ctx.bounds["A_random_max_side"])
    allinst = insts + rnd
    n_func = 2
    groups = [(g, allinst[k : k + 40], ctx.seed, n_func) for g, k in enumerate(range(0, len(allinst), 40))]
    a_out = []
    for part in core.pmap(_many_a, groups):
        a_out.extend(part)

    # ---- Part B: behaviours -> tables -> real code
    th_sim.join()
    if bg_err:
        raise bg_err[0]
    files = sorted(glob.glob(str(prefix) + "_*"))
    if len(files) < nsim // 2:
        raise core.MachineryError(f"TLC simulation wrote {len(files)} behaviours, expected about {nsim}")
    b_recs = []
    for k, f in enumerate(files):
        r = behaviour_to_record(core.parse_sim_file(f), ctx.seed, k)
        if r is not None:
            b_recs.append(r)
    n_beh = len(b_recs)
    rng_b = np.random.default_rng([ctx.seed, 2])
    b_recs += random_iterate_records(rng_b, ctx.bounds["B_random_tables"], 5)
    b_recs += random_iterate_fn_records(rng_b, ctx.bounds["B_random_functions"], 4)
    b_groups = [(g, b_recs[k : k + 10]) for g, k in enumerate(range(0, len(b_recs), 10))]
    b_out = []
    for part in core.pmap(_many_b, b_groups):
        b_out.extend(part)
    ctx.replayed = len(insts) + n_beh
    recs = a_out + b_out
    pick = lambda api: next((r for r in recs if r["api"] == api and len(r["u"]) > 1), None)
    for api in ("partition", "func", "iterate", "iterate_fn"):
        s = pick(api)
        if s is not None:
            s = {k: (v if not isinstance(v, list) or len(v) <= 24 else v[:24] + ["..."]) for k, v in s.items()}
            ctx.sample(s)
    def context(rec):
        if rec["api"] in ("iterate", "iterate_fn"):
            return {"part": "B", "recs": b_groups[rec["grp"]][1], "gid": rec["grp"], "gk": rec["gk"]}
        g = groups[rec["grp"]]
        return {"part": "A", "insts": g[1], "seed": g[2], "n_func": g[3], "gid": rec["grp"], "gk": rec["gk"]}

    rej = validate(ctx, recs, "C09", context=context)
    th.join()
    if bg_err:
        raise bg_err[0]
    kinds = {}
    for r in recs:
        kinds[r["api"]] = kinds.get(r["api"], 0) + 1
    ctx.note(f"Part A: {len(insts)} enumerated instances + {len(rnd)} random instances; Part B: {n_beh} simulated behaviours "
             f"+ {ctx.bounds['B_random_tables']} random tables + {ctx.bounds['B_random_functions']} random functions; "
             f"records by kind {kinds}; {len(rej)} rejected")
    ctx.assumptions = [
        "coordinates, scales and origins on the tick lattice (scales multiples of 4*lcm(sub sizes) ticks); tick length drawn from "
        "dyadic and non-dyadic reals; alpha rejects anything further than 1e-6 from the lattice",
        "user functions are integer-valued functions of the lattice point (affine, quadratic, |.|, step, mod, half-plane and "
        "top-hat indicators, floor staircases) returned as float64, int64 or bool arrays, or table functions (float64/int64); "
        "iterate schedules use pairwise distinct power-of-two sub sizes >= 2 so that binned table values are exact and the "
        "probe can recognise the level from the sub-pixel spacing",
        "the first schedule entry may be compared with the plain sub-size-1 evaluation (the documented scheme, which the machine "
        "models) or have no previous level: the statement is silent, the trace spec accepts either reading; the comparison with "
        "the machine's final state applies when the call follows the documented reading",
        "exact ties of the agreement ratio with a threshold whose float evaluation is not exact (9/10) may fall either side; "
        "for 1/2, 3/4, 99/100 and 1 ties are decided exactly (checked from float arithmetic of the threshold alone)",
        "one OverSamplingUniform / OverSamplingIterate object per sub size / schedule is shared by decoy and real grids and by "
        "consecutive instances of a replay group; every use is judged on its own geometry",
        "pixel geometry (centres from shape, scales, origin) is the one of C02",
    ]


def replay(ctx, rp):
    """Re-runs the replay group of the rejected record (the group carries the history of the shared over-sampling
    objects) through the real code and validates the record again."""
    grp = rp.get("group")
    if grp is not None:
        if grp["part"] == "A":
            out = _many_a((grp["gid"], grp["insts"], grp["seed"], grp["n_func"]))
        else:
            out = _many_b((grp["gid"], grp["recs"]))
        new = out[grp["gk"]]
    else:
        rec = dict(rp["record"])
        for k in ("id", "p", "exc", "hist", "grp", "gk"):
            rec.pop(k, None)
        api = rec.pop("api")
        fn = {"partition": rec_partition, "bin": rec_bin, "func": rec_func, "iterate": rec_iterate, "iterate_fn": rec_iterate_fn}[api]
        _pool_reset()
        new = fn(rec)
    rej = validate(ctx, [new], "C09-replay")
    print("replayed 1 record:", _describe(new))
    print("rejected:", [(r["clauses"], r["sig"]) for r in rej])
    return ctx.finish()
