"""X10 -- interferometer inversions solve the complex normal equations, identically in both formalisms.

VisNormalEq.tla EXTENDS Dft.tla (C13) and defines over Gaussian integers on the quarter-turn lattice: the mapping formalism
(T = forward transform of every column of the stacked mapping matrices; D and F as the noise-weighted real-plus-imaginary
products, blocks in linear-object order, the diagonal term on unregularised parameters), the w-tilde formalism (the real-space
cosine table of pixel offsets, the offset ("preload") table and its expansion, the dirty image, D = M' dirty, F = M' W M, the
offset-table loop of the code) and the mapped reconstructions; TLC checks the design theorems on every mask of the small frames
x lattice baselines x a rotating selection of (data, noise, object list) and dumps every instance.
S->C: every dumped instance is built with real objects (aa.Interferometer with TransformerDFT and the pylops stand-in, real
MapperRectangular objects, a function-list subclass) and run through InversionInterferometerMapping, InversionInterferometerWTilde
(tables built by the driver from the specification and, where the library can make them, the dataset's own), the aa.Inversion
factory, Interferometer.w_tilde and every function of inversion_interferometer_util.
C->S: every returned value -- also for seeded random larger instances (masks <= 5x5, <= 8 baselines) -- is abstracted onto the
integers (alpha rejects residuals > 1e-9) and judged by Trace_VisNormalEq.tla with total, named verdicts."""
import json
import math
import zlib

import numpy as np

from harness import core
from harness.drivers import c13

INVARIANTS = ["XOnLattice", "PreloadExpandsToFullTable", "WTildeIsGramOfPhases", "ZeroBaselineAllOnes", "DirtyImageSplitsIntoParts",
              "FIsSymmetricGram", "BlocksFollowObjectOrder", "ReversedListPermutesBlocks", "Homogeneity", "WTildeEqualsMapping",
              "WTildeUsesRealNoise", "PreloadRouteEqualsTableRoute", "MappedDataRoutesAgree", "MappedDataSumsOverObjects"]

MC_CFG = """CONSTANTS
  Shapes <- MCShapes
  Origins <- MCOrigins
  Mult <- MCMult
  Mult2 <- MCMult2
  MaxB = {maxb}
  MaskMode = "{mode}"
  Rich = FALSE
  NSel = {nsel}
  Salt = {salt}
SPECIFICATION XSpec
""" + "".join(f"INVARIANT {n}\n" for n in INVARIANTS)

TRACE_CFG = """CONSTANTS
  Shapes = {}
  Origins = {}
  Mult = {}
  Mult2 = {}
  MaxB = 0
  MaskMode = "few"
  Rich = FALSE
  NSel = 0
  Salt = 0
SPECIFICATION TraceSpec
POSTCONDITION TraceAccepted
"""

# isotropic pixel scales (arcsec per pixel): dyadic, decimal and non-terminating values
SCALES = [1.0, 0.5, 0.1, 0.05, 2.0, 1.0 / 3.0]
EXPS = [0, -10, 3, -1]      # power-of-two scale of the visibilities
MES = [0, -1, -12]          # power-of-two scale of a function list's mapping matrix
EMAX = 1                    # noise sigma = 2^e, e in -1..1; weights 4^(EMAX - e)
UTIL = "autoarray.inversion.inversion.interferometer.inversion_interferometer_util"


# --------------------------------------------------------------------------------------------
# TLC: enumerate the bounded machine
# --------------------------------------------------------------------------------------------
def enumerate_machine(ctx, tag, shapes, origins, mult, mult2, maxb, mode, nsel, timeout=3000, coverage=False, workers=8):
    defs = (f"MCShapes == {c13.tla_pairs(shapes)}\nMCOrigins == {c13.tla_pairs(origins)}\n"
            f"MCMult == {c13.tla_set(mult)}\nMCMult2 == {c13.tla_set(mult2)}")
    cfg = MC_CFG.format(maxb=maxb, mode=mode, nsel=nsel, salt=int(ctx.seed) % 1000)
    res = ctx.tlc("VisNormalEq", cfg, defs=defs, tag=tag, timeout=timeout, coverage=coverage, workers=workers)
    insts = res.by_kind("inst")
    if res.init_states == 0 or len(insts) != res.init_states or res.depth != 4:
        raise core.MachineryError(f"VisNormalEq.tla [{tag}]: {len(insts)} dumped instances for {res.init_states} initial states, depth {res.depth}")
    out = []
    for n, r in enumerate(insts):
        out.append({"h": r["h"], "w": r["w"], "u": r["u"], "org": r["org"], "b": r["b"], "v": r["v"], "se": r["se"], "emax": r["emax"],
                    "E": 1, "objs": [{"M": o["M"], "reg": o["reg"], "mapper": o["mapper"], "sub": o["sub"]} for o in r["objs"]]})
    return out, res


# --------------------------------------------------------------------------------------------
# driver-side integer reference of the tables it FEEDS into the w-tilde class (checked by the trace spec: FedOk)
# --------------------------------------------------------------------------------------------
def _cosq(n):
    return np.array([1, 0, -1, 0])[np.mod(n, 4)]


def _sinq(n):
    return np.array([0, -1, 0, 1])[np.mod(n, 4)]


def _cells(inst):
    return np.array([[k // inst["w"], k % inst["w"]] for k in inst["u"]], dtype=int)


def _extent(inst):
    c = _cells(inst)
    return int(c[:, 0].max() - c[:, 0].min() + 1), int(c[:, 1].max() - c[:, 1].min() + 1)


def ref_wtable(inst, wr):
    c = _cells(inst)
    b = np.array(inst["b"], dtype=int).reshape(-1, 2)
    dcol = c[:, None, 1] - c[None, :, 1]
    drow = c[:, None, 0] - c[None, :, 0]
    out = np.zeros((len(c), len(c)), dtype=int)
    for k in range(len(b)):
        out += _cosq(dcol * b[k, 0] - drow * b[k, 1]) * int(wr[k])
    return out


def ref_pretable(inst, wr):
    ys, xs = _extent(inst)
    b = np.array(inst["b"], dtype=int).reshape(-1, 2)
    out = np.zeros((2 * ys, 2 * xs), dtype=int)
    for a in range(-ys + 1, ys):
        for e in range(-xs + 1, xs):
            out[a, e] = sum(int(_cosq(e * b[k, 0] - a * b[k, 1])) * int(wr[k]) for k in range(len(b)))
    return out


def ref_dirty(inst, v, wt):
    h, w = inst["h"], inst["w"]
    c = _cells(inst)
    y2 = (h - 1) - 2 * c[:, 0] + inst["org"][0]
    x2 = 2 * c[:, 1] - (w - 1) + inst["org"][1]
    b = np.array(inst["b"], dtype=int).reshape(-1, 2)
    out = np.zeros(len(c), dtype=int)
    for k in range(len(b)):
        n = (x2 * b[k, 0] + y2 * b[k, 1]) // 2
        # Re(conj(phase) * V), phase = cos + i sin of n clockwise quarter turns
        out += _cosq(n) * int(v[k][0] * wt[k][0]) + _sinq(n) * int(v[k][1] * wt[k][1])
    return out


# --------------------------------------------------------------------------------------------
# gamma: real objects
# --------------------------------------------------------------------------------------------
def _func_list_class():
    from autoarray.inversion.linear_obj.func_list import AbstractLinearObjFuncList

    class VFuncList(AbstractLinearObjFuncList):
        def __init__(self, grid, mapping_matrix, regularization=None):
            super().__init__(grid=grid, regularization=regularization)
            self._mm = np.asarray(mapping_matrix, dtype=float)

        @property
        def params(self):
            return self._mm.shape[1]

        @property
        def mapping_matrix(self):
            return self._mm

    return VFuncList


def mapper_cells(o):
    """sub-pixel -> mesh cell, realising the counts of the abstract mapping matrix (rows sum to sub^2)"""
    cells = []
    for row in o["M"]:
        for c, cnt in enumerate(row):
            cells += [c] * int(cnt)
    return cells


def build_objects(inst, mask, mes):
    """-> (linear objects, column scales cs with M_real[:, c] = M_int[:, c] / cs[c], integer matrices AS REPORTED by the objects)"""
    import autoarray as aa

    VFuncList = _func_list_class()
    objs, cs, mints = [], [], []
    for o, me in zip(inst["objs"], mes):
        reg = aa.reg.Constant(coefficient=1.0) if o["reg"] else None
        if o["mapper"]:
            sub = int(o["sub"])
            mesh_shape = tuple(o.get("mesh") or (1, len(o["M"][0])))
            my, mx = mesh_shape
            cells = o.get("cells") or mapper_cells(o)
            mesh_grid = aa.Grid2D.uniform(shape_native=(my, mx), pixel_scales=1.0)
            mesh = aa.Mesh2DRectangular(values=np.array(mesh_grid), shape_native=(my, mx), pixel_scales=(1.0, 1.0))
            jit = np.random.default_rng(len(cells)).uniform(-0.4, 0.4, size=(len(cells), 2))
            pos = np.array([[(my - 1) / 2.0 - c // mx, c % mx - (mx - 1) / 2.0] for c in cells], dtype=float) + jit
            mg = aa.MapperGrids(mask=mask, source_plane_data_grid=aa.Grid2DIrregular(pos), source_plane_mesh_grid=mesh,
                                image_plane_mesh_grid=None, adapt_data=None)
            lo = aa.MapperRectangular(mapper_grids=mg, over_sampler=aa.OverSamplerUniform(mask=mask, sub_size=sub),
                                      border_relocator=None, regularization=reg)
            scale = float(sub * sub)
        else:
            scale = 2.0 ** (-me)
            lo = VFuncList(grid=aa.Grid2D.from_mask(mask), mapping_matrix=np.array(o["M"], dtype=float) / scale, regularization=reg)
        mi, off = c13._ints(np.asarray(lo.mapping_matrix, dtype=float), 1.0 / scale)
        if off or np.shape(mi) != (len(inst["u"]), lo.params):
            raise core.MachineryError("mapping matrix of a linear object is off the lattice (C06 decides mapping matrices)")
        objs.append(lo)
        cs += [scale] * lo.params
        mints.append(mi)
    return objs, np.array(cs, dtype=float), mints


def _err(e):
    return type(e).__name__


def _hash(*a):
    return zlib.crc32(json.dumps(a, sort_keys=True).encode())


# --------------------------------------------------------------------------------------------
# one instance -> records
# --------------------------------------------------------------------------------------------
def records_for(inst, seed=0):
    import importlib

    import autoarray as aa
    from autoarray.dataset.interferometer.w_tilde import WTildeInterferometer

    iu = importlib.import_module(UTIL)
    salt = int(inst.get("salt", 0))
    rng = np.random.default_rng([seed, salt, inst["h"], inst["w"], len(inst["u"])])
    scale = float(inst.get("scale") or SCALES[(salt + seed) % len(SCALES)])
    ev = int(inst["ev"]) if "ev" in inst else EXPS[int(rng.integers(0, len(EXPS)))]
    mes = inst.get("mes") or [MES[int(rng.integers(0, len(MES)))] for _ in inst["objs"]]
    inst = dict(inst, scale=scale, ev=ev, mes=list(mes), tabs=bool(inst.get("tabs", True)))
    geo = {k: inst[k] for k in ("h", "w", "u", "org", "b")}
    mask, uv = c13.build(geo, (scale, scale))
    P, K = len(inst["u"]), len(inst["b"])
    emax = int(inst["emax"])
    S = 4.0 ** emax
    v = [[int(a), int(b_)] for a, b_ in inst["v"]]
    se = [[int(a), int(b_)] for a, b_ in inst["se"]]
    wt = [[4 ** (emax - a), 4 ** (emax - b_)] for a, b_ in se]
    equal = all(a == b_ for a, b_ in se)
    sv = 2.0 ** ev
    vc = np.array([a + 1j * b_ for a, b_ in v], dtype=complex) * sv
    nz = np.array([2.0 ** a + 1j * 2.0 ** b_ for a, b_ in se], dtype=complex)
    E = int(inst.get("E", 1))
    eps_real = E / S
    recs = []

    def dataset(vcx):
        return aa.Interferometer(data=aa.Visibilities(visibilities=vcx.copy()), noise_map=aa.VisibilitiesNoiseMap(visibilities=nz.copy()),
                                 uv_wavelengths=uv.copy(), real_space_mask=mask, transformer_class=aa.TransformerDFT)

    ds = dataset(vc)
    objs, cs, mints = build_objects(inst, mask, mes)
    robjs = [{"M": mi, "reg": bool(o["reg"]), "mapper": bool(o["mapper"]), "sub": int(o["sub"]),
              "eps": int(E * (int(o["sub"]) ** 4 if o["mapper"] else 4 ** (-me)))}
             for o, mi, me in zip(inst["objs"], mints, mes)]
    T = int(len(cs))
    grid_rad = np.array(mask.derive_grid.unmasked.in_radians)
    native = np.array(mask.derive_indexes.native_for_slim)
    ys, xs = _extent(inst)
    ser = [a for a, _ in se]
    wr = [w_[0] for w_ in wt]

    # ---------------------------------------------------------------- utility functions and the dataset's tables
    def tab(api, fn, call, fields, **kw):
        r = dict(geo)
        r.update({"api": api, "site": ("util:" + fn) if fn != "Interferometer.w_tilde" else "dataset.w_tilde", "emax": emax,
                  "raised": False, "err": "", "ret": True, "off": False})
        r.update(kw)
        try:
            out = call()
            if out is None:
                r["ret"] = False
            else:
                r.update(fields(out))
        except core.MachineryError:
            raise
        except Exception as e:  # noqa
            r["raised"], r["err"] = True, _err(e)
        recs.append(r)
        return r

    def ints_field(name, scl, shape=None):
        def f(out):
            a = np.asarray(out)
            if a.dtype == object or (shape is not None and a.shape != shape):
                return {name: [], "off": False} if a.dtype != object else {name: [], "off": True}
            x, off = c13._ints(a, scl)
            return {name: x, "off": off}
        return f

    if inst.get("tabs", True):
        tab("wtilde", "w_tilde_curvature_interferometer_from",
            lambda: iu.w_tilde_curvature_interferometer_from(noise_map_real=nz.real.copy(), uv_wavelengths=uv.copy(), grid_radians_slim=grid_rad.copy()),
            ints_field("out", 1.0 / S), ser=ser, out=[])
        pre_out = {}

        def call_pre():
            out = iu.w_tilde_curvature_preload_interferometer_from(
                noise_map_real=nz.real.copy(), uv_wavelengths=uv.copy(), shape_masked_pixels_2d=np.array(mask.shape_native_masked_pixels),
                grid_radians_2d=np.array(mask.derive_grid.all_false.in_radians.native))
            pre_out["v"] = out
            return out
        tab("preload", "w_tilde_curvature_preload_interferometer_from", call_pre, ints_field("out", 1.0 / S), ser=ser, ys=ys, xs=xs, out=[])
        if pre_out.get("v") is not None:
            tab("compose", "w_tilde_via_preload_from",
                lambda: iu.w_tilde_via_preload_from(w_tilde_preload=np.array(pre_out["v"], dtype=float), native_index_for_slim_index=native.copy()),
                ints_field("out", 1.0 / S), ser=ser, out=[])
        tagged = (1 + np.arange(4 * ys * xs, dtype=float)).reshape(2 * ys, 2 * xs)
        tab("expand", "w_tilde_via_preload_from",
            lambda: iu.w_tilde_via_preload_from(w_tilde_preload=tagged.copy(), native_index_for_slim_index=native.copy()),
            ints_field("out", 1.0), pre=tagged.astype(int).tolist(), ys=ys, xs=xs, out=[])
        vr = [a for a, _ in v]
        tab("wdata", "w_tilde_data_interferometer_from",
            lambda: iu.w_tilde_data_interferometer_from(visibilities_real=np.array(vr, dtype=float) * sv, noise_map_real=nz.real.copy(),
                                                        uv_wavelengths=uv.copy(), grid_radians_slim=grid_rad.copy(),
                                                        native_index_for_slim_index=native.copy()),
            ints_field("out", sv / S), ser=ser, vr=vr, out=[])
        # the offset-table loop with pixel lists of one or two <<mesh, weight>> entries
        npx = 3
        pixw, idx, sizes, wts_ = [], np.full((P, 2), -1, dtype=int), np.zeros(P, dtype=int), np.zeros((P, 2), dtype=float)
        for q in range(P):
            n_ = 1 + int(rng.integers(0, 2))
            row = []
            for t_ in range(n_):
                a, wgt = int(rng.integers(0, npx)), int(rng.integers(1, 4))
                idx[q, t_], wts_[q, t_] = a, float(wgt)
                row.append([a + 1, wgt])
            sizes[q] = n_
            pixw.append(row)
        tab("curvpre", "curvature_matrix_via_w_tilde_curvature_preload_interferometer_from",
            lambda: iu.curvature_matrix_via_w_tilde_curvature_preload_interferometer_from(
                curvature_preload=tagged.copy(), pix_indexes_for_sub_slim_index=idx.copy(), pix_size_for_sub_slim_index=sizes.copy(),
                pix_weights_for_sub_slim_index=wts_.copy(), native_index_for_slim_index=native.copy(), pix_pixels=npx),
            ints_field("out", 1.0), pre=tagged.astype(int).tolist(), ys=ys, xs=xs, pixw=pixw, np=npx, out=[])
        J = 1 + int(rng.integers(0, 3))
        tg = rng.integers(-6, 7, size=(K, J, 2))
        sg = rng.integers(-4, 5, size=J)
        tc = (tg[..., 0] + 1j * tg[..., 1]) * 2.0 ** EXPS[salt % len(EXPS)]

        def gfield(scl):
            def f(out):
                a = np.asarray(out)
                if a.shape != (K,):
                    return {"out": []}
                x, off = c13._gauss(a, scl)
                return {"out": x, "off": off}
            return f
        tab("mvis", "mapped_reconstructed_visibilities_from",
            lambda: iu.mapped_reconstructed_visibilities_from(transformed_mapping_matrix=tc.copy(), reconstruction=sg.astype(float)),
            gfield(2.0 ** EXPS[salt % len(EXPS)]), t=tg.tolist(), s=sg.tolist(), out=[])
        tab("dvec", "data_vector_via_transformed_mapping_matrix_from",
            lambda: iu.data_vector_via_transformed_mapping_matrix_from(transformed_mapping_matrix=tc.copy(), visibilities=vc.copy(), noise_map=nz.copy()),
            ints_field("out", 2.0 ** EXPS[salt % len(EXPS)] * sv / S), t=tg.tolist(), v=v, se=se, out=[])

    own = {}

    def call_dsw():
        w_ = ds.w_tilde
        own["w"] = w_
        return w_

    def dsw_fields(w_):
        wm, o1 = c13._ints(np.asarray(w_.w_matrix, dtype=float), 1.0 / S)
        pr, o2 = c13._ints(np.asarray(w_.curvature_preload, dtype=float), 1.0 / S)
        di, o3 = c13._ints(np.asarray(w_.dirty_image.slim if hasattr(w_.dirty_image, "slim") else w_.dirty_image, dtype=float), sv / S)
        return {"wm": wm, "pre": pr, "dirty": di, "off": o1 or o2 or o3, "nv_ok": bool(w_.noise_map_value == nz[0])}
    if inst.get("tabs", True):
        tab("dsw", "Interferometer.w_tilde", call_dsw, dsw_fields, v=v, se=se, ys=ys, xs=xs, wm=[], pre=[], dirty=[], nv_ok=False)

    # ---------------------------------------------------------------- inversions
    wgiven = ref_wtable(inst, wr)
    pgiven = ref_pretable(inst, wr)
    recon = {}

    def given_tables(data_v, vcx):
        dirty = ref_dirty(inst, data_v, wt)
        wobj = WTildeInterferometer(w_matrix=wgiven.astype(float) / S, curvature_preload=pgiven.astype(float) / S,
                                    dirty_image=aa.Array2D(values=dirty.astype(float) * sv / S, mask=mask), real_space_mask=mask,
                                    noise_map_value=nz[0])
        return wobj, dirty

    def run_inv(form, route, tables, usew, dset, lobjs, data_v, wobj=None, vdonor=None, dirtygiven=None, keep=None):
        r = dict(geo)
        r.update({"api": "inv", "v": data_v, "se": se, "emax": emax, "objs": robjs, "form": form, "route": route, "tables": tables,
                  "usew": bool(usew), "vdonor": vdonor if vdonor is not None else data_v, "wgiven": wgiven.tolist() if wobj is not None else [],
                  "dirtygiven": [int(x) for x in dirtygiven] if dirtygiven is not None else [], "cls": "", "raised": False, "err": "",
                  "off": False, "t": [], "d": [], "f": [], "f2": []})
        order = _hash(data_v, se, geo, form, route, tables, seed) % 3
        r["order"] = ("DF-first", "reconstruction-first", "curvature_reg-first")[order]
        try:
            st = aa.SettingsInversion(use_w_tilde=bool(usew), use_w_tilde_numpy=(route == "numpy"), use_linear_operators=False,
                                      use_positive_only_solver=False, no_regularization_add_to_curvature_diag_value=eps_real)
            if form == "mapping":
                inv = aa.InversionInterferometerMapping(dataset=dset, linear_obj_list=lobjs, settings=st)
            elif form == "w_tilde":
                inv = aa.InversionInterferometerWTilde(dataset=dset, w_tilde=wobj, linear_obj_list=lobjs, settings=st)
            else:
                inv = aa.Inversion(dataset=dset, linear_obj_list=lobjs, settings=st)
            r["cls"] = type(inv).__name__
            if order:
                try:
                    with np.errstate(all="ignore"):
                        if order == 1:
                            inv.reconstruction, inv.mapped_reconstructed_data
                        else:
                            inv.curvature_reg_matrix
                except Exception:  # noqa -- singular systems / the w-tilde defects show up below
                    pass
            off = False
            if r["cls"] == "InversionInterferometerMapping":
                tm = np.asarray(inv.operated_mapping_matrix)
                if tm.shape == (K, T):
                    r["t"], o_ = c13._gauss(tm * cs[None, :], 1.0)
                    off = off or o_
                else:
                    r["t"] = [[[0, 0]]]
            dv = np.asarray(inv.data_vector, dtype=float)
            fm = np.asarray(inv.curvature_matrix, dtype=float)
            if dv.ndim == 1:
                r["d"], o_ = c13._ints(dv * cs[: len(dv)] if len(dv) <= T else dv, sv / S)
                off = off or o_
            if fm.ndim == 2 and fm.shape == (T, T):
                r["f"], o_ = c13._ints(fm * cs[:, None] * cs[None, :], 1.0 / S)
                off = off or o_
            elif fm.ndim == 2:
                r["f"] = np.zeros(fm.shape, dtype=int).tolist()
            r["off"] = bool(off)
            s = None
            try:
                with np.errstate(all="ignore"):
                    s = np.asarray(inv.reconstruction, dtype=float)
                    if s.shape != (T,) or not np.all(np.isfinite(s)):
                        s = None
            except Exception:  # noqa -- the solver belongs to C05
                s = None
            fm2 = np.asarray(inv.curvature_matrix, dtype=float)
            if fm2.ndim == 2 and fm2.shape == (T, T):
                r["f2"] = c13._ints(fm2 * cs[:, None] * cs[None, :], 1.0 / S)[0]
            if s is not None and keep is not None:
                map_record(inv, s, form, route, keep)
                if form in keep:
                    keep[form] = keep[form] + (r["d"], r["f"])
        except core.MachineryError:
            raise
        except Exception as e:  # noqa
            r["raised"], r["err"] = True, _err(e)
        recs.append(r)
        return r

    def map_record(inv, s, form, route, keep):
        r = dict(geo)
        r.update({"api": "map", "objs": robjs, "form": form, "route": route, "raised": False, "err": "", "g": 0, "s": [], "data": [],
                  "image": [], "datao": [], "imageo": []})
        try:
            sp = s / cs
            with np.errstate(all="ignore"):
                md = np.asarray(inv.mapped_reconstructed_data)
                mi = np.asarray(inv.mapped_reconstructed_image.slim, dtype=float)
                ddict, idict = inv.mapped_reconstructed_data_dict, inv.mapped_reconstructed_image_dict
                mdo = [np.asarray(ddict[lo]) for lo in inv.linear_obj_list]
                mio = [np.asarray(idict[lo].slim, dtype=float) for lo in inv.linear_obj_list]
            big = max([1e-30, float(np.abs(sp).max()), float(np.abs(md).max()), float(np.abs(mi).max())])
            if not np.isfinite(big) or big > 1e9:
                return
            gexp = int(min(6, math.floor(5 - math.log10(big))))
            G = 10.0 ** gexp

            def fx(a):
                return np.rint(np.asarray(a, dtype=float) * G).astype(np.int64)

            def gx(a):
                a = np.asarray(a, dtype=complex)
                return np.stack([fx(a.real), fx(a.imag)], axis=-1).tolist()
            r.update({"g": gexp, "s": fx(sp).tolist(), "data": gx(md), "image": fx(mi).tolist(), "datao": [gx(a) for a in mdo],
                      "imageo": [fx(a).tolist() for a in mio]})
            keep[form] = (s.copy(), md.copy(), np.asarray(inv.curvature_reg_matrix, dtype=float).copy())
        except Exception as e:  # noqa
            r["raised"], r["err"] = True, _err(e)
        recs.append(r)

    run_inv("mapping", "direct", "none", False, ds, objs, v, keep=recon)
    run_inv("factory", "auto", "none", False, ds, objs, v)
    if equal:
        run_inv("factory", "auto", "none", True, ds, objs, v)
        wobj, dirty = given_tables(v, vc)
        run_inv("w_tilde", "numpy", "given", True, ds, objs, v, wobj=wobj, dirtygiven=dirty, keep=recon)
        run_inv("w_tilde", "preload", "given", True, ds, objs, v, wobj=wobj, dirtygiven=dirty)
        if own.get("w") is not None:
            run_inv("w_tilde", ("numpy", "preload")[salt % 2], "own", True, ds, objs, v, wobj=own["w"])
        # a second dataset (same mask, baselines, noise; DIFFERENT data) re-using the first dataset's w-tilde object
        v2 = [[int(3 - a) if k % 2 else int(-a - 1), int(b_ + 2 - k % 3)] for k, (a, b_) in enumerate(v)]
        vc2 = np.array([a + 1j * b_ for a, b_ in v2], dtype=complex) * sv
        ds2 = dataset(vc2)
        objs2, _, _ = build_objects(inst, mask, mes)
        run_inv("w_tilde", "numpy", "shared", True, ds2, objs2, v2, wobj=wobj, vdonor=v, dirtygiven=dirty)
    # both formalisms give the same reconstruction when F + H is well conditioned
    if recon.get("mapping") is not None and recon.get("w_tilde") is not None:
        (sm, mm, fh, dm_, fm_), (sw, mw, _, dw_, fw_) = recon["mapping"], recon["w_tilde"]
        # well conditioned = the a-priori float perturbation of the solution, ||(F+H)^-1|| * 1e-12 * (magnitude of the terms summed
        # in D), is below 1e-7 of the solution itself (an exactly vanishing D gives pure rounding noise: nothing to compare)
        with np.errstate(all="ignore"):
            sv_ = np.linalg.svd(fh, compute_uv=False) if fh.size else np.zeros(1)
            cond = float(sv_.max() / sv_.min()) if sv_.min() > 0 else float("inf")
        mreal = np.hstack([np.asarray(lo.mapping_matrix, dtype=float) for lo in objs])
        dscale = float(np.abs(mreal).sum(axis=0).max()) * float(np.sum(np.abs(vc.real) / nz.real ** 2 + np.abs(vc.imag) / nz.imag ** 2))
        noise = 1e-12 * dscale / float(sv_.min()) if sv_.min() > 0 else float("inf")
        if np.isfinite(cond) and cond < 1e6 and float(np.abs(sm).max()) > 0 and noise <= 1e-7 * float(np.abs(sm).max()):
            # reconstructions in the units of the integer mapping matrices
            sm, sw = sm / cs, sw / cs
            gs = 10.0 ** 7 / float(np.abs(sm).max())
            gm = 10.0 ** 7 / max(1e-6 * sv, float(np.abs(mm).max()))

            def fl(a):
                a = np.asarray(a, dtype=complex)
                return np.rint(np.concatenate([a.real, a.imag]) * gm).astype(np.int64).tolist()
            recs.append({"api": "pair", "objs": robjs, "raised": False, "err": "", "tol": 20, "D_m": dm_, "F_m": fm_, "D_w": dw_, "F_w": fw_,
                         "sig_m": np.rint(sm * gs).astype(np.int64).tolist(), "sig_w": np.rint(sw * gs).astype(np.int64).tolist(),
                         "map_m": fl(mm), "map_w": fl(mw)})
    for r in recs:
        r["_inst"] = inst
    return recs


def _many(args):
    insts, seed = args
    out = []
    for inst in insts:
        out.extend(records_for(inst, seed))
    return out


# --------------------------------------------------------------------------------------------
# random larger instances (beyond the exhaustive bound)
# --------------------------------------------------------------------------------------------
def random_instances(rng, n, max_side=5, max_b=8):
    out = []
    layouts = ("m", "mm", "mf", "fm", "f", "fmf", "mmm")
    for k in range(n):
        h, w = int(rng.integers(1, max_side + 1)), int(rng.integers(1, max_side + 1))
        dens = float(rng.choice([0.3, 0.6, 1.0]))
        m = rng.random((h, w)) < dens
        if not m.any():
            m[int(rng.integers(0, h)), int(rng.integers(0, w))] = True
        u = [int(x) for x in np.flatnonzero(m.ravel())]
        org = [int(rng.integers(-3, 4)), int(rng.integers(-3, 4))]
        py, px = (h - 1 + org[0]) % 2, (w - 1 + org[1]) % 2
        K = int(rng.integers(1, max_b + 1))
        b = []
        for _ in range(K):
            au, av = int(rng.integers(-8, 9)), int(rng.integers(-8, 9))
            if px and not py:
                au -= au % 2
            elif py and not px:
                av -= av % 2
            elif px and py and (au + av) % 2:
                av += 1
            b.append([au, av])
        if K >= 2 and k % 3 == 0:
            b[int(rng.integers(0, K))] = [0, 0]
        if K >= 2 and k % 4 == 0:
            b[-1] = list(b[0])
        if K >= 3 and k % 5 == 0:
            b[1] = [-b[0][0], -b[0][1]]
        P = len(u)
        if rng.random() < 0.6:
            e = rng.integers(-1, 2, size=K)
            se = [[int(x), int(x)] for x in e]
        else:
            se = rng.integers(-1, 2, size=(K, 2)).tolist()
        objs = []
        for ch in layouts[int(rng.integers(0, len(layouts)))]:
            if ch == "m":
                my, mx = [(1, 2), (2, 2), (2, 3), (3, 3)][int(rng.integers(0, 4))]
                sub = int(rng.integers(1, 3))
                cells = [int(x) for x in rng.integers(0, my * mx, size=P * sub * sub)]
                M = np.zeros((P, my * mx), dtype=int)
                for q, c in enumerate(cells):
                    M[q // (sub * sub), c] += 1
                objs.append({"mapper": True, "mesh": [my, mx], "sub": sub, "cells": cells, "M": M.tolist(), "reg": bool(rng.random() < 0.8)})
            else:
                p = int(rng.integers(1, 3))
                M = rng.integers(-3, 4, size=(P, p))
                M[rng.random((P, p)) < 0.3] = 0
                objs.append({"mapper": False, "sub": 1, "M": M.tolist(), "reg": bool(rng.random() < 0.3)})
        out.append({"h": h, "w": w, "u": u, "org": org, "b": b, "v": rng.integers(-5, 6, size=(K, 2)).tolist(), "se": se, "emax": EMAX,
                    "E": int(rng.integers(1, 4)), "objs": objs, "salt": 100000 + k})
    return out


# --------------------------------------------------------------------------------------------
# validation through Trace_VisNormalEq
# --------------------------------------------------------------------------------------------
def describe(rec):
    s = f"{rec['api']}"
    if rec["api"] in ("inv", "map"):
        s += f" form={rec['form']} route={rec['route']}" + (f" tables={rec['tables']} order={rec['order']} class={rec['cls']}" if rec["api"] == "inv" else "")
        s += " objects=" + "".join("m" if o["mapper"] else "f" for o in rec["objs"])
    elif rec["api"] == "pair":
        s += " objects=" + "".join("m" if o["mapper"] else "f" for o in rec["objs"])
    else:
        s += f" {rec['site']}"
    if "h" in rec:
        s += f" on {rec['h']}x{rec['w']} mask u={rec['u']} origin(half px)={rec['org']} baselines={rec['b']}"
    if rec.get("se") is not None and rec["api"] == "inv":
        s += f" noise exps={rec['se']} v={rec['v']}"
    if rec.get("raised"):
        s += f" RAISED {rec.get('err')}"
    elif rec.get("ret") is False:
        s += " RETURNED None"
    return s


def validate(ctx, records, tag, chunk=None):
    import concurrent.futures as cf

    if chunk is None:
        chunk = min(3000, max(1200, -(-len(records) // 12)))
    insts_of = {}
    for n, r in enumerate(records):
        r["id"] = n
        insts_of[n] = r.pop("_inst", None)
    # interleave so that costly records spread evenly over the JVMs
    nch = max(1, -(-len(records) // chunk))
    chunks = [records[k::nch] for k in range(nch)]
    rejects = []

    def one(args):
        k, ch = args
        res, rej = ctx.validate_trace("Trace_VisNormalEq", TRACE_CFG, ch, tag=f"{tag}-{k}", timeout=3000, env=c13.JVM_ENV)
        return rej

    with cf.ThreadPoolExecutor(max_workers=min(16, len(chunks) or 1)) as ex:
        for rej in ex.map(one, list(enumerate(chunks))):
            rejects.extend(rej)
    for rj in rejects:
        rec = records[rj["id"]]
        if "input-on-lattice" in rj["clauses"] or "input-fed-by-driver-is-consistent" in rj["clauses"] or "malformed-record" in rj["clauses"] \
                or "input-extent-is-the-mask-extent" in rj["clauses"]:
            raise core.MachineryError(f"driver produced an inconsistent input {rj['clauses']}: {describe(rec)}")
        slim = {k: v for k, v in rec.items() if k not in ("wgiven",)}
        ctx.violation(rj["sig"], f"{describe(rec)}: failed {rj['clauses']}",
                      {"instance": insts_of.get(rj["id"]), "record": slim, "failed_clauses": rj["clauses"], "spec_wanted": rj.get("want")},
                      cls=",".join(rj["clauses"]))
    return rejects


# --------------------------------------------------------------------------------------------
def run(ctx):
    quick = ctx.quick
    if quick:
        runs = [("all", [(1, 1), (1, 2), (2, 1), (2, 2)], [(0, 0)], [-1, 0, 1, 2], [0, 1, 2], 4, "all", 2),
                ("wide", [(2, 3), (3, 3)], [(1, -1)], [0, 1, 2], [0, 2], 4, "few", 1)]
        n_random = 150
    else:
        runs = [("all", [(1, 1), (1, 2), (2, 1), (2, 2), (1, 3), (3, 1)], [(0, 0)], [-2, -1, 0, 1, 2], [0, 1, 2], 4, "all", 2),
                ("all23", [(2, 3), (3, 2)], [(0, 0)], [-1, 0, 1, 2], [0, 2], 4, "all", 1),
                ("all33", [(3, 3)], [(0, 0)], [0, 1], [1], 4, "all", 1),
                ("wide", [(3, 4), (4, 4)], [(1, -1)], [0, 1, 2], [0, 2], 4, "few", 1)]
        n_random = 2500
    ctx.bounds = {"tlc_runs": [{"name": r[0], "shapes": r[1], "origins_half_px": r[2], "multipliers_1_baseline": r[3],
                                "multipliers_2_to_4_baselines": r[4], "max_baselines": r[5], "masks": r[6],
                                "combinations_per_transformer": r[7]} for r in runs],
                  "combinations": "7 object lists (m, m unregularised, mm, mf, fm, fm with regularised function list, f; mappers sub-size 1-2, "
                                  "signed function columns) x 12 noise maps (sigma in {1/2,1,2} per part: 9 constant pairs, 3 varying) x 3 "
                                  "Gaussian-integer data vectors, rotating with the transformer and VERIF_SEED",
                  "random_instances": n_random, "random": "masks <= 5x5 (density 0.3/0.6/1), origins -3..3 half px, 1..8 lattice baselines "
                  "(zero / repeated / opposite), data -5..5, noise 2^-1..2^1 per part (60% re = im), lists m, mm, mf, fm, f, fmf, mmm, meshes "
                  "1x2..3x3, sub-size 1-2, function entries -3..3, diagonal term 1/4..3/4",
                  "pixel_scales": SCALES, "data_scales_log2": EXPS, "function_list_scales_log2": MES, "alpha_tolerance": c13.TOL,
                  "pair_tolerance": "2e-6 of the largest entry, compared when cond(F + H) < 1e6 and the float perturbation bound of the solution is below 1e-7 of it"}
    ctx.exhaustive = True
    all_insts = []
    import concurrent.futures as cf

    with cf.ThreadPoolExecutor(max_workers=len(runs) + 1) as ex:
        futs = [ex.submit(enumerate_machine, ctx, f"MC_VisNormalEq_{r[0]}", *r[1:]) for r in runs]
        # per-action coverage from a small run of its own (coverage makes the large runs several times slower)
        cov = ex.submit(enumerate_machine, ctx, "MC_VisNormalEq_coverage", [(1, 2)], [(0, 0)], [0, 2], [0, 2], 2, "all", 1, 600, True, 2)
        results = [f.result() for f in futs]
        cov.result()
    for (name, *_), (insts, res) in zip(runs, results):
        ctx.note(f"TLC {name}: {res.init_states} instances, {res.distinct} states, {len(INVARIANTS)} invariants, {res.wall:.1f}s")
        if len(ctx.samples) < 1 and insts:
            ctx.sample({"dumped_instance": insts[len(insts) // 2]})
        all_insts.extend(insts)
    for n, inst in enumerate(all_insts):
        inst["salt"] = n
        # the tables depend on (mask, baselines, real noise) only: the quick tier judges the utility functions and
        # Interferometer.w_tilde on every second enumerated instance (and on every random one)
        inst["tabs"] = (not quick) or n % 2 == 0
    ctx.replayed = len(all_insts)
    rng = np.random.default_rng(ctx.seed)
    rnd = random_instances(rng, n_random)
    work = all_insts + rnd
    batch = 6
    kinds = {}
    total = 0
    step = 3000     # instances replayed and judged at a time (bounds the memory of the thorough tier)
    for k0 in range(0, len(work), step):
        part = work[k0: k0 + step]
        outs = core.pmap(_many, [(part[k: k + batch], ctx.seed) for k in range(0, len(part), batch)])
        recs = [r for o in outs for r in o]
        del outs
        for r in recs:
            if r["api"] == "inv" and not r["raised"] and len(ctx.samples) < 2 and r["form"] == "mapping":
                ctx.sample({"record": {k: v for k, v in r.items() if k not in ("_inst", "wgiven")}})
                break
        for r in recs:
            key = r["api"] if r["api"] != "inv" else f"inv:{r['form']}:{r['route']}:{r['tables']}"
            kinds[key] = kinds.get(key, 0) + 1
        total += len(recs)
        validate(ctx, recs, f"X10-{k0}")
        del recs
    ctx.note(f"{len(all_insts)} enumerated + {len(rnd)} random instances -> {total} records judged by Trace_VisNormalEq: {kinds}")
    ctx.assumptions = [
        "baselines are a*648000/(4*s*pi) for the (isotropic) pixel scale s, so every phase is a quarter turn up to ~1e-15; alpha accepts a "
        "residual of 1e-9 lattice units and rejects anything else (values-on-lattice clause)",
        "the w-tilde formalism takes one noise value per baseline (the documented input is the real noise map): w-tilde inversions are "
        "compared with the mapping formalism on the sub-family sigma_re = sigma_im only; the utility functions and Interferometer.w_tilde "
        "are judged for every noise map against their real-noise definition",
        "the mapping matrices in the records are the linear objects' own (C06 decides those); reconstructions come from the library's solver "
        "with the positive-only solver switched off (C05 decides solvers); mapped data / images are judged in fixed point against T s / M s "
        "with the rounding bound 1/2 + sum|T_kc|/2; reconstructions of the two formalisms within 2e-6 when cond(F+H) < 1e6",
        "the tables fed into InversionInterferometerWTilde as 'given' are built by the driver and re-derived by the trace spec (a mismatch is a "
        "machinery failure, not a verdict); the offset table is laid out [rows down, columns right] with negative offsets at negative indices",
        "not covered: use_linear_operators=True (needs pylops), settings.use_source_loop=True, TransformerNUFFT (needs pynufft)"]


def replay(ctx, rp):
    inst = rp["instance"]
    recs = records_for(inst, ctx.seed)
    rej = validate(ctx, recs, "X10-replay")
    print("replayed", len(recs), "records; rejected:", [(r["sig"], r["clauses"]) for r in rej])
    return ctx.finish()
