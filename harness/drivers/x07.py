"""X07 -- geometric mask constructors unmask exactly the pixels whose centres satisfy the documented inequality, and the
mask summaries are functions of the current unmasked set.

S->C: MaskShapes.tla enumerates (a) every constructor call of a bounded family (frames, anisotropic scales, origins,
      centres on / off pixel centres / outside the frame, radii tight around every pixel, far radii, exact boundary
      probes, ellipses at quarter turns with axis ratio 1/2 and 1), (b) every non-empty pixel list of small frames with
      buffers, (c) every mask of every frame with <= 9 cells (summaries), (d) every history ReadAll / Edit ... on one
      mask object of small frames; TLC checks the design theorems on each (code-like formulation = definition, invert =
      complement, translation covariance, a disc reports itself as circular, Chebyshev growth, consistency of the zoom
      quantities, cache coherence of a remembered radius) and dumps the instances.  Each instance is replayed through the
      real Mask2D / mask_2d_util API with concrete tick lengths (gamma).
C->S: what comes back is abstracted to integer half-ticks / index sets (alpha rejects off-lattice values) and judged by
      Trace_MaskShapes.tla; seeded random larger frames (up to 21x17) extend the reach."""
import math
import os

import numpy as np

from harness import core

OFFV = 2000000001  # sentinel for "not on the lattice" (never a legitimate value; < 2^31)
TOL = 1e-6  # residual allowed by alpha, in half-ticks
TAUS = [("dyadic", 0.125), ("decimal", 0.05), ("third", 1.0 / 3.0)]
INT31 = 2**31 - 1

ALL_KINDS = ["circular", "annular", "anti_annular", "elliptical", "elliptical_annular"]
# ellipses of the bounded family: axis ratios 1/2 and 1 at multiples of 90 degrees (exact on the lattice)
ELLS = [(1, 2, 1, 0, 1), (1, 2, 0, 1, 1), (1, 2, -1, 0, 1), (1, 2, 0, -1, 1), (1, 1, 0, 1, 1)]
ELL_PAIRS = [((1, 2, 1, 0, 1), (1, 1, 0, 1, 1)), ((1, 2, 0, 1, 1), (1, 2, -1, 0, 1)), ((1, 1, 1, 0, 1), (1, 2, 0, -1, 1))]
# further exact rotations (Pythagorean pairs) and axis ratios for the random part
ROTATIONS = [(1, 0, 1), (0, 1, 1), (-1, 0, 1), (0, -1, 1), (3, 4, 5), (4, 3, 5), (-3, 4, 5), (5, 12, 13), (-4, -3, 5)]
AXIS_RATIOS = [(1, 1), (1, 2), (3, 4), (1, 3)]
NOELL = {"qn": 1, "qd": 1, "c": 1, "s": 0, "n": 1}

SUMMARY_NAMES = ["pixels_in_mask", "is_all_false", "is_all_true", "total_pixels", "mask_centre",
                 "shape_native_masked_pixels", "zoom_centre", "zoom_offset_pixels", "zoom_offset_scaled", "zoom_region",
                 "zoom_shape_native", "zoom_mask_unmasked", "is_circular", "circular_radius"]

CONST_NAMES = ["ShapeFrames", "ShapeScalePairs", "OriginCentres", "FarR2", "Ells", "EllPairs", "Kinds",
               "PixFrames", "Buffers", "SumFrames", "SumGeoms", "HistFrames", "HistGeoms", "HistOrders"]
INVARIANTS = ["InputsWellFormed", "ShapeFormulationsAgree", "ShapesAreRadialSets", "ShapeTranslationCovariance",
              "CircularMaskReportsItself", "BuffedIsChebyshevDilation", "SummariesConsistent", "SummariesOfEmptyMask",
              "HistoryMaskIsTheFoldOfItsEdits", "HistoryCacheIsCoherent", "EveryReadDescribesTheCurrentMask"]


def mc_cfg(probes=False, depth=3, forget=True):
    lines = ["CONSTANTS"] + [f"  {c} <- MC{c}" for c in CONST_NAMES]
    lines += [f"  Probes = {'TRUE' if probes else 'FALSE'}", f"  HistDepth = {depth}",
              f"  ForgetOnEdit = {'TRUE' if forget else 'FALSE'}", "SPECIFICATION Spec"]
    lines += [f"INVARIANT {i}" for i in INVARIANTS]
    return "\n".join(lines) + "\n"


TRACE_CFG = "CONSTANTS\n" + "".join(f"  {c} = {{}}\n" for c in CONST_NAMES) + \
    "  Probes = FALSE\n  HistDepth = 0\n  ForgetOnEdit = TRUE\nSPECIFICATION TraceSpec\nPOSTCONDITION TraceAccepted\n"


# ---------------------------------------------------------------------------------------------
# TLA+ constant syntax
# ---------------------------------------------------------------------------------------------
def _tup(t):
    return "<<" + ", ".join(_tup(x) if isinstance(x, (tuple, list)) else str(x) for x in t) + ">>"


def _set(items):
    return "{" + ", ".join(_tup(x) if isinstance(x, (tuple, list)) else (f'"{x}"' if isinstance(x, str) else str(x)) for x in items) + "}"


def mc_defs(**kw):
    """kw: python values for the constants (lower-case keys, see _KEYMAP); missing ones are empty sets"""
    out = []
    for c in CONST_NAMES:
        v = kw.get(_KEYMAP[c], ())
        out.append(f"MC{c} == {_set(v)}")
    return "\n".join(out)


_KEYMAP = {"ShapeFrames": "shape_frames", "ShapeScalePairs": "scale_pairs", "OriginCentres": "origin_centres", "FarR2": "far_r2",
           "Ells": "ells", "EllPairs": "ell_pairs", "Kinds": "kinds", "PixFrames": "pix_frames", "Buffers": "buffers",
           "SumFrames": "sum_frames", "SumGeoms": "sum_geoms", "HistFrames": "hist_frames", "HistGeoms": "hist_geoms",
           "HistOrders": "hist_orders"}


# ---------------------------------------------------------------------------------------------
# alpha: floats -> integers (rejecting)
# ---------------------------------------------------------------------------------------------
class _Alpha:
    def __init__(self, tau):
        self.tau = tau
        self.off = 0
        self.where = []

    def _conv(self, a, name):
        try:
            a = np.asarray(a, dtype=float)
        except Exception:
            self.off += 1
            self.where.append(name)
            return OFFV
        r = np.rint(a)
        ok = np.isfinite(a) & (np.abs(a - r) <= TOL) & (np.abs(r) < 1.0e9)
        bad = int(np.size(ok) - np.count_nonzero(ok))
        if bad:
            self.off += bad
            if name not in self.where:
                self.where.append(name)
        return np.where(ok, r, OFFV).astype(np.int64).tolist()

    def ticks(self, x, name):
        """scaled coordinates -> half-ticks"""
        return self._conv(np.asarray(x, dtype=float) / self.tau, name)

    def ints(self, x, name, scale=1.0):
        """values that must be whole numbers after multiplication by `scale`"""
        return self._conv(np.asarray(x, dtype=float) * scale, name)


def _unmasked(mask, shape):
    a = np.asarray(mask)
    if a.shape != tuple(shape):
        return [-2]
    return [int(k) for k in np.flatnonzero(~a.astype(bool).ravel())]


def _np_mask(h, w, u):
    m = np.ones(h * w, dtype=bool)
    if len(u):
        m[np.asarray(u, dtype=int)] = False
    return m.reshape(h, w)


def _order(ord_, n=len(SUMMARY_NAMES)):
    """the read order number `ord_` as a permutation of the summary names"""
    idx = list(range(n))
    if ord_ == 1:
        return idx
    if ord_ == 2:
        return idx[::-1]
    if ord_ == 3:  # the derived quantities first
        return [13, 12, 11, 9, 10] + [k for k in idx if k not in (13, 12, 11, 9, 10)]
    return [int(k) for k in np.random.default_rng(ord_).permutation(n)]


def read_summaries(mask, tau, ord_=1):
    """every summary of the Mask2D object, read in the order number ord_, abstracted to integers"""
    import autoarray as aa
    from autoarray import exc

    al = _Alpha(tau)
    s = {"err": [], "npix": -9, "tp": -9, "all_false": False, "all_true": False, "centre": [OFFV, OFFV], "smp": [-9, -9],
         "zc2": [OFFV, OFFV], "zop2": [OFFV, OFFV], "zos": [OFFV, OFFV], "zr": [-9, -9, -9, -9], "zsn": [-9, -9],
         "zm": {"h": -9, "w": -9, "nun": -9, "sy": -9, "sx": -9, "oy": OFFV, "ox": OFFV}, "circ": 3, "rad": -3}
    empty = not bool((~np.asarray(mask).astype(bool)).any())
    for k in _order(ord_):
        name = SUMMARY_NAMES[k]
        if empty and name not in ("pixels_in_mask", "is_all_false", "is_all_true", "total_pixels"):
            continue  # undefined for an entirely masked mask (not documented; not judged)
        try:
            if name == "pixels_in_mask":
                s["npix"] = int(mask.pixels_in_mask)
            elif name == "is_all_false":
                s["all_false"] = bool(mask.is_all_false)
            elif name == "is_all_true":
                s["all_true"] = bool(mask.is_all_true)
            elif name == "total_pixels":
                s["tp"] = int(aa.util.mask_2d.total_pixels_2d_from(mask_2d=np.array(mask)))
            elif name == "mask_centre":
                s["centre"] = al.ticks(mask.mask_centre, name)
            elif name == "shape_native_masked_pixels":
                s["smp"] = al.ints(mask.shape_native_masked_pixels, name)
            elif name == "zoom_centre":
                s["zc2"] = al.ints(mask.zoom_centre, name, 2.0)
            elif name == "zoom_offset_pixels":
                s["zop2"] = al.ints(mask.zoom_offset_pixels, name, 2.0)
            elif name == "zoom_offset_scaled":
                s["zos"] = al.ticks(mask.zoom_offset_scaled, name)
            elif name == "zoom_region":
                s["zr"] = al.ints(list(mask.zoom_region), name)
            elif name == "zoom_shape_native":
                s["zsn"] = al.ints(mask.zoom_shape_native, name)
            elif name == "zoom_mask_unmasked":
                z = mask.zoom_mask_unmasked
                za = np.asarray(z)
                ps = al.ticks(z.pixel_scales, name)
                og = al.ticks(z.origin, name)
                s["zm"] = {"h": int(za.shape[0]), "w": int(za.shape[1]), "nun": int((~za.astype(bool)).sum()),
                           "sy": ps[0], "sx": ps[1], "oy": og[0], "ox": og[1]}
            elif name == "is_circular":
                try:
                    s["circ"] = 1 if bool(mask.is_circular) else 0
                except exc.MaskException:
                    s["circ"] = 2
            elif name == "circular_radius":
                try:
                    s["rad"] = al.ticks(mask.circular_radius, name)
                except exc.MaskException:
                    s["rad"] = -1
        except Exception as e:  # an exception of the code under test inside the domain is a rejection
            s["err"].append(f"{name}:{type(e).__name__}")
    s["off"] = al.off
    s["offw"] = al.where
    return s


# ---------------------------------------------------------------------------------------------
# gamma + the real calls + alpha, one record per instance
# ---------------------------------------------------------------------------------------------
def _geo_tuple(g):
    return g["h"], g["w"], g["sy"], g["sx"], g["oy"], g["ox"]


def _ell(e):
    return e["qn"], e["qd"], e["c"], e["s"], e["n"]


def fits32(g, par):
    """every intermediate of the specification's integer inequalities stays below 2^31"""
    h, w, sy, sx, oy, ox = _geo_tuple(g)
    dy = h * (sy // 2) + abs(par["cy"]) + 2 * sy
    dx = w * (sx // 2) + abs(par["cx"]) + 2 * sx
    worst = 8 * (4 * dy * dy + 4 * dx * dx) + 8 * (max(par["r"]) + 2)
    for e in (par["e1"], par["e2"]):
        qn, qd, c, s, n = _ell(e)
        m = 2 * (dx + dy) * max(abs(c), abs(s), 1)
        worst = max(worst, 2 * (qn * qn + qd * qd) * m * m + 2, 4 * (max(par["r"]) + 2) * n * n * qn * qn)
    return worst < INT31


def has_probe(par):
    return any(r % 2 == 0 for r in par["r"])


def _call_shape(aa, kind, r, par, variant, tau, kw):
    def rad(r2):
        if r2 % 2 == 0:  # boundary probe: 2 d^2 with d a whole number of half-ticks -> the radius is exactly d tau
            d = math.isqrt(r2 // 2)
            if 2 * d * d != r2:
                raise core.MachineryError(f"even radius {r2} is not a boundary probe")
            return d * tau
        return math.sqrt(r2 / 2.0) * tau

    def ang(e, k):
        # the same ellipse is described by angle + any multiple of 180 degrees
        return math.degrees(math.atan2(e["s"], e["c"])) + 180.0 * [0, 1, -1, 2][k % 4]

    if kind == "circular":
        return aa.Mask2D.circular(radius=rad(r[0]), **kw)
    if kind == "annular":
        return aa.Mask2D.circular_annular(inner_radius=rad(r[0]), outer_radius=rad(r[1]), **kw)
    if kind == "anti_annular":
        return aa.Mask2D.circular_anti_annular(inner_radius=rad(r[0]), outer_radius=rad(r[1]), outer_radius_2=rad(r[2]), **kw)
    if kind == "elliptical":
        e = par["e1"]
        return aa.Mask2D.elliptical(major_axis_radius=rad(r[0]), axis_ratio=e["qn"] / e["qd"], angle=ang(e, variant), **kw)
    if kind == "elliptical_annular":
        e1, e2 = par["e1"], par["e2"]
        return aa.Mask2D.elliptical_annular(
            inner_major_axis_radius=rad(r[0]), inner_axis_ratio=e1["qn"] / e1["qd"], inner_phi=ang(e1, variant),
            outer_major_axis_radius=rad(r[1]), outer_axis_ratio=e2["qn"] / e2["qd"], outer_phi=ang(e2, variant + 1), **kw)
    raise core.MachineryError(f"unknown constructor kind {kind}")


def rec_shape(g, par, tau, variant=0):
    """one constructor call (invert False and True, and once more with another origin) + the summaries of the returned
    mask.  par["cy"], par["cx"]: the centre of the shape, measured relative to the mask origin (the constructors' convention)"""
    import autoarray as aa

    h, w, sy, sx, oy, ox = _geo_tuple(g)
    if has_probe(par) and not (sy in (4, 8, 16) and sx in (4, 8, 16) and math.log2(tau).is_integer()):
        raise core.MachineryError(f"boundary probe on a geometry / tick without exact float arithmetic: {g} tau={tau}")
    kw = dict(shape_native=(h, w), pixel_scales=(sy * tau, sx * tau), origin=(oy * tau, ox * tau),
              centre=(par["cy"] * tau, par["cx"] * tau))
    kind, r = par["kind"], par["r"]
    # a decoy call first: the same shape and radii around another centre (a result remembered per shape / radius shows)
    decoy = dict(kw, centre=((par["cy"] + sy) * tau, (par["cx"] - sx) * tau))
    _call_shape(aa, kind, r, par, variant, tau, dict(decoy, invert=bool(variant % 2)))
    mk = _call_shape(aa, kind, r, par, variant, tau, dict(kw, invert=False))
    mi = _call_shape(aa, kind, r, par, variant, tau, dict(kw, invert=True))
    # the same call with another origin: the origin only labels the result
    o2 = [(0, 0), (oy + 6, ox - 10), (oy - 2 * sy, ox + sx), (-oy - 2, ox)][variant % 4]
    if o2 == (oy, ox):
        o2 = (oy + 6, ox - 10)
    m2 = _call_shape(aa, kind, r, par, variant, tau, dict(kw, origin=(o2[0] * tau, o2[1] * tau), invert=False))
    al = _Alpha(tau)
    rec = {"api": "shape", "g": dict(g), "par": par, "tau": repr(float(tau)), "variant": int(variant),
           "out": _unmasked(mk, (h, w)), "out_inv": _unmasked(mi, (h, w)),
           "lab": al.ticks(list(mk.pixel_scales) + list(mk.origin), "labels"),
           "o2": [int(o2[0]), int(o2[1])], "out_o2": _unmasked(m2, (h, w)),
           "lab2": al.ticks(list(m2.pixel_scales) + list(m2.origin), "labels")}
    rec["has_s"] = bool(rec["out"]) and rec["out"] != [-2]
    rec["s"] = read_summaries(mk, tau, 1 + variant % 3) if rec["has_s"] else {"circ": 3, "rad": -3}
    return rec


def rec_pix(g, pix, b, tau, variant=0):
    """Mask2D.from_pixel_coordinates / mask_2d_util.buffed_mask_2d_from for one pixel list (flattened indices)"""
    import autoarray as aa

    h, w, sy, sx, oy, ox = _geo_tuple(g)
    coords = [[int(k) // w, int(k) % w] for k in pix]
    if variant % 3 == 1:
        coords = [tuple(c) for c in coords]
    elif variant % 3 == 2:
        coords = np.array(coords, dtype=int).reshape(-1, 2)
    kw = dict(shape_native=(h, w), pixel_coordinates=coords, pixel_scales=(sy * tau, sx * tau), origin=(oy * tau, ox * tau), buffer=b)
    mk = aa.Mask2D.from_pixel_coordinates(invert=False, **kw)
    mi = aa.Mask2D.from_pixel_coordinates(invert=True, **kw)
    base = _np_mask(h, w, sorted(set(int(k) for k in pix)))
    keep = base.copy()
    bm = aa.util.mask_2d.buffed_mask_2d_from(mask_2d=base, buffer=b)
    al = _Alpha(tau)
    rec = {"api": "pix", "g": dict(g), "pix": [int(k) for k in pix], "b": int(b), "tau": repr(float(tau)), "variant": int(variant),
           "out": _unmasked(mk, (h, w)), "out_inv": _unmasked(mi, (h, w)),
           "out_buffed": _unmasked(bm, (h, w)) if np.array_equal(base, keep) else [-2],
           "lab": al.ticks(list(mk.pixel_scales) + list(mk.origin), "labels")}
    rec["has_s"] = bool(rec["out"]) and rec["out"] != [-2]
    rec["s"] = read_summaries(mk, tau, 1 + variant % 3) if rec["has_s"] else {"circ": 3, "rad": -3}
    return rec


def rec_hist(g, u, steps, tau, variant=0):
    """a history on ONE Mask2D object: every "read" step reads every summary (in the order number `ord`), every "edit"
    step is mask[i, j] = True / False in place"""
    import autoarray as aa

    h, w, sy, sx, oy, ox = _geo_tuple(g)
    mask = aa.Mask2D(mask=_np_mask(h, w, u), pixel_scales=(sy * tau, sx * tau), origin=(oy * tau, ox * tau))
    out = []
    for st in steps:
        st2 = {"op": st["op"], "cell": int(st["cell"]), "val": int(st["val"]), "ord": int(st["ord"])}
        if st["op"] == "read":
            st2["s"] = read_summaries(mask, tau, st["ord"])
        else:
            i, j = st["cell"] // w, st["cell"] % w
            if variant % 2 == 0:
                mask[i, j] = bool(st["val"])
            else:
                mask[i:i + 1, j] = bool(st["val"])
            st2["s"] = {"npix": -1}
        out.append(st2)
    return {"api": "hist", "g": dict(g), "u": [int(k) for k in u], "steps": out, "tau": repr(float(tau)), "variant": int(variant)}


def rec_all_false(g, tau, invert):
    import autoarray as aa

    h, w, sy, sx, oy, ox = _geo_tuple(g)
    mk = aa.Mask2D.all_false(shape_native=(h, w), pixel_scales=(sy * tau, sx * tau), origin=(oy * tau, ox * tau), invert=invert)
    al = _Alpha(tau)
    out = _unmasked(mk, (h, w))
    full = list(range(h * w))
    # reported as if not inverted: `out` must be everything and `out_inv` nothing
    return {"api": "all_false", "g": dict(g), "invert": bool(invert), "tau": repr(float(tau)),
            "out": out if not invert else [k for k in full if k not in set(out)],
            "out_inv": [] if not invert else out,
            "lab": al.ticks(list(mk.pixel_scales) + list(mk.origin), "labels")}


def rec_nfs(g, pix, tau=1.0):
    import autoarray as aa

    h, w = g["h"], g["w"]
    nfs = np.array([[int(k) // w, int(k) % w] for k in pix], dtype=int).reshape(-1, 2)
    m = aa.util.mask_2d.mask_2d_via_shape_native_and_native_for_slim(shape_native=(h, w), native_for_slim=nfs)
    a = np.asarray(m)
    return {"api": "nfs", "g": dict(g), "pix": [int(k) for k in pix], "oh": int(a.shape[0]), "ow": int(a.shape[1]) if a.ndim == 2 else -1,
            "out": _unmasked(a, a.shape), "tau": repr(float(tau))}


def rec_centres(g, cy, cx, tau):
    import autoarray as aa

    h, w, sy, sx, _, _ = _geo_tuple(g)
    v = aa.util.mask_2d.mask_2d_centres_from(shape_native=(h, w), pixel_scales=(sy * tau, sx * tau), centre=(cy * tau, cx * tau))
    al = _Alpha(tau)
    val2 = al.ints([v[0] * 2 * sy, v[1] * 2 * sx], "centres")
    return {"api": "centres", "g": dict(g), "cy": int(cy), "cx": int(cx), "val2": val2, "off": al.off, "tau": repr(float(tau))}


def rec_rescale(g, u, num, den, tau, variant=0):
    import autoarray as aa

    h, w, sy, sx, oy, ox = _geo_tuple(g)
    mask = aa.Mask2D(mask=_np_mask(h, w, u), pixel_scales=(sy * tau, sx * tau), origin=(oy * tau, ox * tau))
    f = num / den
    if den == 1 and variant % 2 == 1:
        f = int(num)
    a = np.asarray(mask.rescaled_from(rescale_factor=f))
    return {"api": "rescale", "g": dict(g), "u": [int(k) for k in u], "num": int(num), "den": int(den), "tau": repr(float(tau)),
            "variant": int(variant), "oh": int(a.shape[0]), "ow": int(a.shape[1]) if a.ndim == 2 else -1, "out": _unmasked(a, a.shape)}


def run_task(t):
    kind = t[0]
    fn = {"shape": rec_shape, "pix": rec_pix, "hist": rec_hist, "all_false": rec_all_false, "nfs": rec_nfs,
          "centres": rec_centres, "rescale": rec_rescale}.get(kind)
    if fn is None:
        raise core.MachineryError(f"unknown task {kind}")
    try:
        rec = fn(*t[1:])
    except core.MachineryError:
        raise
    except Exception as e:  # an exception of the code under test inside the property's domain is a rejection
        rec = {"api": kind, "g": dict(t[1]), "raised": f"{type(e).__name__}: {e}"[:300]}
    rec.setdefault("raised", "")
    return rec


def _run_tasks(ts):
    return [run_task(t) for t in ts]


# ---------------------------------------------------------------------------------------------
# tasks from the TLC-enumerated instances
# ---------------------------------------------------------------------------------------------
def _key(r):
    import json

    return json.dumps(r, sort_keys=True)


def _pred_history(g, u, rng, n):
    """a history that ends at mask u: the object starts as a neighbouring mask (1 or 2 cells toggled), is read, edited in
    place into u, and read again"""
    h, w = g["h"], g["w"]
    cells = h * w
    cur = set(u)
    k = 1 + int(rng.integers(0, 2)) if cells > 2 else 1
    toggles = [int(c) for c in rng.choice(cells, size=min(k, cells), replace=False)]
    start = set(cur)
    for c in toggles:
        start ^= {c}
    if not start:
        return None
    steps = [{"op": "read", "cell": 0, "val": 0, "ord": 1 + n % 3}]
    now = set(start)
    for c in toggles:
        val = 1 if c in now else 0
        now ^= {c}
        if not now:
            return None
        steps.append({"op": "edit", "cell": c, "val": val, "ord": 0})
    steps.append({"op": "read", "cell": 0, "val": 0, "ord": 1 + (n + 1) % 3})
    return sorted(start), steps


def tasks_from_instances(shapes, pixs, sums, hists, quick, seed):
    rng = np.random.default_rng(seed + 17)
    tasks = []
    for n, r in enumerate(shapes):
        g, par = r["g"], r["par"]
        if not fits32(g, par):
            raise core.MachineryError(f"constructor instance exceeds 32-bit arithmetic: {r}")
        if has_probe(par):
            tasks.append(("shape", g, par, [0.125, 0.5, 2.0][n % 3], n))
            continue
        for k, (_, tau) in enumerate(TAUS):
            # one tick length per constructor call in the quick tier, two in the thorough tier (rotating)
            if (quick and k != n % 3) or (not quick and k == n % 3):
                continue
            tasks.append(("shape", g, par, tau, n + k))
        if n % 7 == 0:
            tasks.append(("centres", g, par["cy"], par["cx"], TAUS[n % 3][1]))
    geoms = [(4, 4, 0, 0), (8, 4, 6, -10), (4, 12, -2, 2)]
    for n, r in enumerate(pixs):
        sy, sx, oy, ox = geoms[n % 3]
        g = {"h": r["h"], "w": r["w"], "sy": sy, "sx": sx, "oy": oy, "ox": ox}
        pix = list(r["u"])
        if n % 2:  # any order, repetitions allowed
            pix = [int(k) for k in rng.permutation(pix)] + [pix[0]]
        tasks.append(("pix", g, pix, r["b"], TAUS[n % 3][1], n))
        if r["b"] == 0:
            tasks.append(("nfs", g, pix))
    for n, r in enumerate(sums):
        g, u = r["g"], r["u"]
        tau = TAUS[n % 3][1]
        tasks.append(("hist", g, u, [{"op": "read", "cell": 0, "val": 0, "ord": 1 + n % 3}], tau, n))
        if u and (not quick or n % 2 == 0):
            ph = _pred_history(g, u, rng, n)
            if ph is not None:
                tasks.append(("hist", g, ph[0], ph[1], TAUS[(n + 1) % 3][1], n))
            if g["h"] * g["w"] >= 6 and (n % (8 if quick else 1) == 0):
                tasks.append(("rescale", g, u, 2 + n % 2, 1, tau, n))
    for n, r in enumerate(hists):
        tasks.append(("hist", r["g"], r["u"], r["steps"], TAUS[n % 3][1], n))
    return tasks


# ---------------------------------------------------------------------------------------------
# random larger instances (beyond the exhaustive bound)
# ---------------------------------------------------------------------------------------------
def random_mask(rng, h, w, style):
    m = np.zeros((h, w), dtype=bool)  # True = unmasked here
    if style == 0:
        m = rng.random((h, w)) < rng.choice([0.1, 0.5, 0.9])
    elif style == 1:  # a disc
        cy, cx, r = rng.uniform(0, h), rng.uniform(0, w), rng.uniform(1, max(h, w) / 2)
        yy, xx = np.mgrid[0:h, 0:w]
        m = (yy - cy) ** 2 + (xx - cx) ** 2 <= r * r
    elif style == 2:  # a rectangle, possibly touching the frame
        y0, y1 = sorted(int(x) for x in rng.integers(0, h, size=2))
        x0, x1 = sorted(int(x) for x in rng.integers(0, w, size=2))
        m[y0:y1 + 1, x0:x1 + 1] = True
    elif style == 3:  # two far-apart pixels
        m[rng.integers(0, h), rng.integers(0, w)] = True
        m[rng.integers(0, h), rng.integers(0, w)] = True
    elif style == 4:  # a ring
        cy, cx = (h - 1) / 2, (w - 1) / 2
        yy, xx = np.mgrid[0:h, 0:w]
        d2 = (yy - cy) ** 2 + (xx - cx) ** 2
        r = min(h, w) / 2
        m = (d2 <= r * r) & (d2 >= (r / 2) ** 2)
    else:  # everything
        m[:, :] = True
    if not m.any():
        m[rng.integers(0, h), rng.integers(0, w)] = True
    return [int(k) for k in np.flatnonzero(m.ravel())]


def random_tasks(rng, n_shape, n_pix, n_hist, n_rescale, seed):
    ts = []
    made = 0
    while made < n_shape:
        h, w = int(rng.integers(2, 22)), int(rng.integers(2, 18))
        if made % 9 == 0:
            h, w = 21, 17
        if made % 9 == 1:
            h, w = 1, int(rng.integers(2, 18))
        sy, sx = (int(x) for x in rng.choice([4, 8, 12], size=2))
        oy, ox = (0, 0) if made % 2 == 0 else tuple(int(2 * x) for x in rng.integers(-30, 31, size=2))
        g = {"h": h, "w": w, "sy": sy, "sx": sx, "oy": oy, "ox": ox}
        # the centre (relative to the origin): anywhere in the frame and a little outside it, on and off pixel centres
        cy = int(rng.integers(-(h * sy) // 2 - 6, (h * sy) // 2 + 7))
        cx = int(rng.integers(-(w * sx) // 2 - 6, (w * sx) // 2 + 7))
        kind = ALL_KINDS[made % 5]
        e1 = dict(zip(("qn", "qd"), AXIS_RATIOS[int(rng.integers(0, 4))]))
        e1.update(dict(zip(("c", "s", "n"), ROTATIONS[int(rng.integers(0, len(ROTATIONS)))])))
        e2 = dict(zip(("qn", "qd"), AXIS_RATIOS[int(rng.integers(0, 4))]))
        e2.update(dict(zip(("c", "s", "n"), ROTATIONS[int(rng.integers(0, len(ROTATIONS)))])))
        if kind in ("circular", "annular", "anti_annular"):
            e1, e2 = NOELL, NOELL
        elif kind == "elliptical":
            e2 = NOELL
        nr = {"circular": 1, "annular": 2, "anti_annular": 3, "elliptical": 1, "elliptical_annular": 2}[kind]
        rr = set()
        while len(rr) < nr:  # radii tight around randomly chosen pixels (2 d^2 +- 1), sorted, distinct
            i, j = int(rng.integers(0, h)), int(rng.integers(0, w))
            dy = (h - 1 - 2 * i) * (sy // 2) - cy
            dx = (2 * j - w + 1) * (sx // 2) - cx
            v = 2 * (dy * dy + dx * dx) + int(rng.choice([-1, 1]))
            if v >= 1:
                rr.add(v)
        par = {"kind": kind, "cy": cy, "cx": cx, "r": sorted(rr), "e1": e1, "e2": e2}
        if not fits32(g, par):
            continue
        # tau >= 1e-2 keeps every pixel centre further than 1e-9 (in scaled units) from every radius
        tau = float(np.exp(rng.uniform(np.log(1e-2), np.log(50.0))))
        ts.append(("shape", g, par, tau, made))
        made += 1
    for k in range(n_pix):
        h, w = int(rng.integers(1, 22)), int(rng.integers(1, 18))
        g = {"h": h, "w": w, "sy": int(rng.choice([4, 8])), "sx": int(rng.choice([4, 12])),
             "oy": int(2 * rng.integers(-9, 10)), "ox": int(2 * rng.integers(-9, 10))}
        n = int(rng.integers(1, 7))
        pix = [int(x) for x in rng.integers(0, h * w, size=n)]
        if k % 4 == 0:  # corners and the frame ring
            pix += [0, h * w - 1, w - 1]
        ts.append(("pix", g, pix, int(rng.integers(0, 4)), float(np.exp(rng.uniform(np.log(1e-2), np.log(50.0)))), k))
    for k in range(n_hist):
        h, w = int(rng.integers(2, 22)), int(rng.integers(2, 18))
        if k % 5 == 0:
            h = w  # square frames: circular masks are circular
        s = int(rng.choice([4, 8, 12]))
        g = {"h": h, "w": w, "sy": s, "sx": s if k % 3 else int(rng.choice([4, 8, 12])),
             "oy": int(2 * rng.integers(-9, 10)) if k % 2 else 0, "ox": int(2 * rng.integers(-9, 10)) if k % 2 else 0}
        u = random_mask(rng, h, w, k % 6)
        cur = set(u)
        steps = []
        for q in range(int(rng.integers(2, 7))):
            if q % 2 == 0 or rng.random() < 0.3:
                steps.append({"op": "read", "cell": 0, "val": 0, "ord": int(rng.integers(1, 40))})
            else:
                for _ in range(int(rng.integers(1, 5))):
                    b = np.array(sorted(cur))
                    # edits that move the bounding box / the central row: an extreme pixel, or a random cell
                    c = int(rng.choice([b[0], b[-1], int(rng.integers(0, h * w))]))
                    val = 1 if c in cur else 0
                    if val == 1 and len(cur) == 1:
                        continue
                    cur ^= {c}
                    steps.append({"op": "edit", "cell": c, "val": val, "ord": 0})
        steps.append({"op": "read", "cell": 0, "val": 0, "ord": int(rng.integers(1, 40))})
        ts.append(("hist", g, u, steps, float(np.exp(rng.uniform(np.log(1e-2), np.log(50.0)))), k))
    for k in range(n_rescale):
        down = k % 2 == 0
        if down:
            h, w = 2 * int(rng.integers(3, 9)), 2 * int(rng.integers(3, 9))
        else:
            h, w = int(rng.integers(2, 9)), int(rng.integers(2, 9))
        g = {"h": h, "w": w, "sy": 4, "sx": 8, "oy": 2, "ox": -6}
        u = random_mask(rng, h, w, [0, 1, 2, 3][k % 4] if down else k % 6)
        ts.append(("rescale", g, u, 1 if down else int(rng.integers(2, 4)), 2 if down else 1, 0.25, k))
    return ts


# ---------------------------------------------------------------------------------------------
# validation through Trace_MaskShapes
# ---------------------------------------------------------------------------------------------
def _describe(rec):
    g = rec["g"]
    geo = f"{g['h']}x{g['w']} scales ({g['sy']},{g['sx']})u origin ({g['oy']},{g['ox']})u tau={rec.get('tau')}"
    if rec.get("raised"):
        return f"{rec['api']} call on {geo} raised {rec['raised']}"
    if rec["api"] == "shape":
        p = rec["par"]
        meth = {"annular": "circular_annular", "anti_annular": "circular_anti_annular"}.get(p["kind"], p["kind"])
        return (f"Mask2D.{meth} on {geo} centre-from-origin ({p['cy']},{p['cx']})u R2={p['r']} e1={_ell(p['e1'])} e2={_ell(p['e2'])} "
                f"-> unmasked {rec['out'][:40]}")
    if rec["api"] == "pix":
        return f"Mask2D.from_pixel_coordinates on {geo} pixels {rec['pix'][:30]} buffer {rec['b']} -> unmasked {rec['out'][:40]}"
    if rec["api"] == "hist":
        st = [(s["op"], s["cell"], s["val"]) if s["op"] == "edit" else ("read", s["ord"]) for s in rec["steps"]]
        return f"history on one Mask2D {geo} starting unmasked {rec['u'][:40]} steps {st[:12]}"
    if rec["api"] == "rescale":
        return f"Mask2D.rescaled_from({rec['num']}/{rec['den']}) on {geo} unmasked {rec['u'][:40]} -> {rec['oh']}x{rec['ow']} unmasked {rec['out'][:40]}"
    return f"{rec['api']} on {geo}"


def validate(ctx, records, tasks, tag, chunk=3000):
    import concurrent.futures as cf

    for n, r in enumerate(records):
        r["id"] = n
    nchunks = max(1, min(16, (len(records) + chunk - 1) // chunk * 2)) if len(records) > 200 else 1
    chunks = [records[k::nchunks] for k in range(nchunks)]  # interleaved: costly records spread evenly
    rejects = []
    env = {"JAVA_TOOL_OPTIONS": "-XX:ParallelGCThreads=2 -XX:CICompilerCount=2"}

    def one(args):
        k, ch = args
        _, rej = ctx.validate_trace("Trace_MaskShapes", TRACE_CFG, ch, tag=f"{tag}-{k}", timeout=1800, env=env)
        return rej

    before = ctx.traces_validated
    with cf.ThreadPoolExecutor(max_workers=min(16, len(chunks) or 1)) as ex:
        for rej in ex.map(one, list(enumerate(chunks))):
            rejects.extend(rej)
    # (the per-chunk additions to the counter are made from several threads; recount here)
    ctx.traces_validated = before + len(records) - len({rj["id"] for rj in rejects})
    for rj in rejects:
        rec = records[rj["id"]]
        ctx.violation(rj["sig"], f"{_describe(rec)}: failed {rj['clauses'][:6]}",
                      {"task": tasks[rj["id"]], "record": rec, "failed_clauses": rj["clauses"], "spec_wanted": rj.get("want")},
                      cls=",".join(sorted(set(c.split(":")[-1] for c in rj["clauses"])))[:200])
    return rejects


# ---------------------------------------------------------------------------------------------
def _frames_upto(max_cells):
    return [(h, w) for h in range(1, max_cells + 1) for w in range(1, max_cells + 1) if h * w <= max_cells]


def _bounds(quick):
    oc_a = [((0, 0), (0, 0)), ((0, 0), (2, -2)), ((6, -10), (0, 0)), ((-4, 8), (4, -4))]
    oc_b = [((0, 0), (0, 0)), ((0, 0), (-3, 1)), ((10, -6), (2, -4)), ((-4, 8), (30, 2))]
    if quick:
        return {
            "shape_families": [
                dict(shape_frames=[(5, 5), (4, 4)], scale_pairs=[(4, 4), (8, 8)], origin_centres=oc_a, far_r2=[1, 129, 20001],
                     ells=ELLS, ell_pairs=ELL_PAIRS[:2], kinds=ALL_KINDS, probes=True),
                dict(shape_frames=[(3, 5), (5, 2), (1, 4), (2, 2), (1, 1)], scale_pairs=[(4, 8), (12, 4)], origin_centres=oc_b,
                     far_r2=[9, 20001], ells=ELLS, ell_pairs=ELL_PAIRS[1:], kinds=ALL_KINDS, probes=False),
            ],
            "masks": dict(pix_frames=[(2, 3), (3, 3), (1, 4)], buffers=[0, 1, 2],
                          sum_frames=_frames_upto(9), sum_geoms=[(4, 4, 0, 0), (8, 4, 6, -10)],
                          hist_frames=[(2, 2), (2, 3)], hist_geoms=[(4, 4, 2, -2)], hist_orders=[1, 2], depth=3),
            "random_shape_masks": 300, "random_pixel_lists": 120, "random_histories": 200, "random_rescales": 60,
        }
    return {
        "shape_families": [
            dict(shape_frames=[(7, 7), (6, 6)], scale_pairs=[(4, 4), (8, 8)], origin_centres=oc_a, far_r2=[1, 129, 20001],
                 ells=ELLS, ell_pairs=ELL_PAIRS, kinds=ALL_KINDS, probes=True),
            dict(shape_frames=[(5, 5), (4, 4), (3, 3), (5, 4)], scale_pairs=[(4, 4), (4, 8), (16, 8)],
                 origin_centres=oc_a + [((-8, 12), (20, -20))], far_r2=[1, 129, 20001],
                 ells=ELLS, ell_pairs=ELL_PAIRS, kinds=ALL_KINDS, probes=True),
            dict(shape_frames=[(7, 6), (3, 7), (7, 2), (1, 7)], scale_pairs=[(4, 8), (12, 4), (12, 12)], origin_centres=oc_b,
                 far_r2=[9, 20001], ells=ELLS, ell_pairs=ELL_PAIRS, kinds=ALL_KINDS, probes=False),
            dict(shape_frames=[(3, 5), (5, 2), (1, 4), (2, 2), (1, 1), (2, 5), (4, 3)], scale_pairs=[(4, 8), (12, 4), (8, 20)],
                 origin_centres=oc_b + [((2, -2), (5, 6))], far_r2=[1, 129, 20001],
                 ells=ELLS, ell_pairs=ELL_PAIRS, kinds=ALL_KINDS, probes=False),
        ],
        "masks": dict(pix_frames=[(2, 3), (3, 3), (1, 4), (2, 5), (3, 4), (4, 2)], buffers=[0, 1, 2, 3],
                      sum_frames=_frames_upto(10) + [(3, 4), (4, 3), (2, 6), (6, 2)], sum_geoms=[(4, 4, 0, 0), (8, 4, 6, -10)],
                      hist_frames=[(2, 2), (2, 3), (1, 4)], hist_geoms=[(4, 4, 2, -2)],
                      hist_orders=[1, 2], depth=4),
        "random_shape_masks": 4000, "random_pixel_lists": 1500, "random_histories": 3000, "random_rescales": 600,
    }


def _design_counterexample(ctx):
    """Design-level sanity check: WITHOUT the rule 'an in-place edit forgets what the object remembers' the history
    machine must violate its coherence invariant (a remembered circular radius goes stale)."""
    defs = mc_defs(hist_frames=[(2, 2)], hist_geoms=[(4, 4, 0, 0)], hist_orders=[1])
    res = ctx.tlc("MaskShapes", mc_cfg(depth=3, forget=False), defs=defs, tag="MC_MaskShapes_noforget", timeout=600,
                  workers=2, allow_errors=True)
    if not any("HistoryCacheIsCoherent" in e or "EveryReadDescribesTheCurrentMask" in e for e in res.errors):
        raise core.MachineryError("MaskShapes.tla: dropping ForgetOnEdit did not break the coherence invariants "
                                  f"(errors: {res.errors[:3]})")
    return res


def run(ctx):
    import concurrent.futures as cf

    quick = ctx.quick
    b = _bounds(quick)
    ctx.bounds = {"unit": "half-tick u; pixel scales multiples of 4u, origins multiples of 2u; radii as R2 = 2 r^2 (odd: generic, "
                          "even: exact boundary probes with dyadic ticks only)",
                  "tick_lengths": [t for _, t in TAUS] + ["random in [1e-2, 50] for the random instances"], **b}

    # 1. TLC on the bounded machines (constructor families and the mask families side by side)
    jobs = []
    for k, fam in enumerate(b["shape_families"]):
        fam = dict(fam)
        probes = fam.pop("probes")
        jobs.append((f"MC_MaskShapes_s{k}", mc_cfg(probes=probes), mc_defs(**fam), k == len(b["shape_families"]) - 1))
    mk = dict(b["masks"])
    depth = mk.pop("depth")
    jobs.append(("MC_MaskShapes_m", mc_cfg(depth=depth), mc_defs(**mk), True))
    ncpu = max(2, (os.cpu_count() or 4) // 2)

    def mc(job):
        tag, cfg, defs, cov = job
        return ctx.tlc("MaskShapes", cfg, defs=defs, tag=tag, timeout=3000, workers=ncpu, coverage=cov)

    with cf.ThreadPoolExecutor(max_workers=len(jobs) + 1) as ex:
        fneg = ex.submit(_design_counterexample, ctx)
        results = list(ex.map(mc, jobs))
        fneg.result()
    insts = [r for res in results for r in res.by_kind("inst")]
    shapes = sorted((r for r in insts if r["mode"] == "shape"), key=_key)
    pixs = sorted((r for r in insts if r["mode"] == "pix"), key=_key)
    sums = sorted((r for r in insts if r["mode"] == "sum"), key=_key)
    hists = sorted((r for res in results for r in res.by_kind("hist")), key=_key)
    want_pix = sum(2 ** (h * w) - 1 for h, w in mk["pix_frames"]) * len(mk["buffers"])
    want_sum = sum(2 ** (h * w) for h, w in mk["sum_frames"]) * len(mk["sum_geoms"])
    if len(pixs) != want_pix or len(sums) != want_sum or not shapes or not hists:
        raise core.MachineryError(f"MaskShapes.tla enumerated {len(shapes)} constructor calls / {len(pixs)} pixel lists / "
                                  f"{len(sums)} masks / {len(hists)} histories, expected >0 / {want_pix} / {want_sum} / >0")
    kinds_seen = {r["par"]["kind"] for r in shapes}
    if kinds_seen != set(ALL_KINDS) or not any(has_probe(r["par"]) for r in shapes):
        raise core.MachineryError(f"MaskShapes.tla: constructor family incomplete (kinds {sorted(kinds_seen)})")
    ctx.exhaustive = True

    # 2. S->C: every enumerated instance through the real API;  3. seeded random larger instances
    tasks = tasks_from_instances(shapes, pixs, sums, hists, quick, ctx.seed)
    for f in ([(1, 1), (1, 5), (4, 4), (3, 6)] if quick else [(1, 1), (1, 5), (4, 4), (3, 6), (7, 7), (2, 9)]):
        for q, inv in (((4, 4, 0, 0), False), ((8, 12, -6, 2), True), ((12, 4, 10, -2), False), ((4, 8, 2, 2), True)):
            g = {"h": f[0], "w": f[1], "sy": q[0], "sx": q[1], "oy": q[2], "ox": q[3]}
            tasks.append(("all_false", g, TAUS[(f[0] + q[0]) % 3][1], inv))
    n_exh = len(tasks)
    rng = np.random.default_rng(ctx.seed)
    tasks += random_tasks(rng, b["random_shape_masks"], b["random_pixel_lists"], b["random_histories"], b["random_rescales"], ctx.seed)

    size = 40
    order = np.random.default_rng(ctx.seed + 1).permutation(len(tasks))  # spread costly tasks over the worker groups
    tasks = [tasks[k] for k in order]
    groups = [tasks[k: k + size] for k in range(0, len(tasks), size)]
    recs = []
    for part in core.pmap(_run_tasks, groups):
        recs.extend(part)
    ctx.replayed = len(shapes) + len(pixs) + len(sums) + len(hists)
    by_api = {}
    for r in recs:
        by_api.setdefault(r["api"], []).append(r)
    for api in ("shape", "hist", "pix"):
        if by_api.get(api):
            ctx.sample(by_api[api][len(by_api[api]) // 3])

    # 4. C->S: every record judged by Trace_MaskShapes
    validate(ctx, recs, tasks, "X07")
    ctx.note(f"{len(shapes)} constructor calls, {len(pixs)} pixel lists, {len(sums)} masks (summaries) and {len(hists)} histories "
             f"enumerated by TLC; {n_exh} replays of them + {len(tasks) - n_exh} random larger instances -> {len(recs)} records "
             f"({ {k: len(v) for k, v in by_api.items()} }) judged by Trace_MaskShapes")
    ctx.note("design check: without 'an in-place edit forgets what the object remembers' TLC finds a stale circular radius")
    ctx.assumptions = [
        "half-tick lattice: generic radii have 2 r^2 odd (no pixel centre at distance exactly r); radii through pixel centres "
        "(2 r^2 even) are probed only for circular / annular masks with dyadic tick lengths and power-of-two pixel scales, where "
        "the float arithmetic of the code is exact, and a pixel exactly on the circle counts as within it (<=)",
        "ellipses: axis ratios qn/qd with qn odd and rotations by exact (quarter-turn or Pythagorean) angles, so the elliptical "
        "inequality is decided at least 3e-8 (relative) away from equality",
        "convention judged for the shape constructors (the code base's, shared with C02 / C12): `centre` is measured relative "
        "to the mask origin (pixel centres with origin (0,0)); `origin` is only attached to the result and the boolean array "
        "is the same for every origin",
        "is_circular / circular_radius: when the mask centre lies on the boundary between two rows (columns) either of them may "
        "be taken as the central one; summaries of an entirely masked mask other than the three counts are not judged",
        "mask_centre is the centre of the bounding box of the unmasked pixel coordinates (grid_2d_centre_from; pinned by the "
        "repository's own tests), not their mean",
        "rescaled_from is judged for whole factors and for 1/2 on even frames only (what the docstring describes)",
        "alpha divides by the tick length, rounds, and rejects residuals > 1e-6 half-ticks (clause 'offlattice')",
        "TLC 1.8 / SANY / CommunityModules",
    ]


def replay(ctx, rp):
    t = rp["task"]
    new = run_task(tuple(t))
    rej = validate(ctx, [new], [t], "X07-replay")
    print("replayed 1 record; rejected clauses:", [r["clauses"] for r in rej])
    return ctx.finish()
