"""C17 -- grid decorators return containers mirroring the input grid, entry k for point k; radial-minimum relocation.

S->C: Decorators.tla enumerates every call (decorator x grid kind x result kind x single/list) on every mask inside the
      bound, the transform-keyword protocol at several nesting depths and every single lattice point around the radial
      minimum; each instance is replayed through the real aa.grid_dec decorators on table-valued profile classes.
C->S: the function is a TABLE function of the coordinate it receives (tag k for the expected coordinate k, a fresh tag for
      any other coordinate), so the record of a call shows which points reached the function, in which order, and where
      every returned entry ended up; Trace_Decorators.tla judges every record, also for seeded random larger instances.

Histories: the caller's grid object is machine state.  Decorators.tla's second machine (SpecH) enumerates sequences of decorated
calls on ONE grid object (relocating call first, then any); the driver builds that object once, remembers the coordinates it was
built with, makes the calls on it and judges every call against the BUILT coordinates; after every call (single calls too) the
object is read again and the clause `input-grid-unchanged` demands position k still holds built coordinate k.

Derived grids: a history may contain `derive` steps (arithmetic with a scalar, slicing of irregular grids, item assignment in
place); the specification tracks the coordinates of the derived grid and every later call is judged at THOSE coordinates.
Directions: project_grid is run for profile angles in every quadrant, negative and beyond a full turn; the direction of the
projected line is pinned (exactly for multiples of 90 degrees, numerically otherwise).

Lattice: coordinates, pixel scales, origins and profile centres are integer multiples of a unit tau (tau = 1/(4m) where a
radial minimum of 2.5 / 0.75 is involved, so that the comparison |p| < r_min is exact); points the code computes (relocated
coordinates, projected lines) are recorded in fixed point round(p / tau * S) and judged through the defining relation with the
rounding bound derived in Decorators.tla."""
import json
import math
import os

import numpy as np

from harness import core, exact

BIG = 1000        # tag layout: value = 1 + tag + (2*element + component) * BIG
LIM = 30000       # fixed-point components beyond this are recorded as LIM + 1 (the spec's InRange rejects them)
MAXRS = 16384
RMIN = {"VProfile": 2.5, "VProfileSmall": 0.75}   # registered in harness/conf/grids.yaml
# the configurations a process may be in: directory pushed with autoconf, radial minima in units of 1/4 (= ConfMin of the spec)
CONF_DIRS = {1: "conf", 2: "conf_c17b", 3: "conf_c17c"}
CONF_MIN = {1: {"VProfile": 10, "VProfileSmall": 3}, 2: {"VProfile": 3, "VProfileSmall": 10}, 3: {"VProfile": 5, "VProfileSmall": 6}}


def push_conf(c):
    """Reconfigure: push configuration c (another grids.yaml with other radial minima for the same profile classes)."""
    from autoconf import conf

    conf.instance.push(new_path=os.path.join(os.path.dirname(os.path.dirname(os.path.abspath(__file__))), CONF_DIRS[c]))


def conf_seen():
    """alpha: the radial minima the library's configuration reports now, in units of 1/4 (OFF when not on that lattice)."""
    from autoconf import conf

    out = []
    for name in ("VProfile", "VProfileSmall"):
        v = float(conf.instance["grids"]["radial_minimum"]["radial_minimum"][name]) * 4.0
        out.append(int(v) if float(v).is_integer() else exact.OFF)
    return out
# lengths far below any lattice unit: the coordinate EPS[e-1] * (dy, dx) is a hair away from the profile centre (a rounding
# residue, an origin offset of 1e-13, ...).  All are large enough for y*y + x*x and r_min / radius to stay normal numbers.
EPS = (1.0e-13, 1.0e-15, 2.0 ** -60, 1.0e-150, 4.0e-13, 1.0e-9, 0.1 + 0.2 - 0.3)
TINY_DIRS = ((1, 0), (0, -1), (1, 1), (-1, 1), (3, -4), (-2, 1))

MC_CFG = """CONSTANTS
  Shapes <- MCShapes
  MidShapes <- MCMidShapes
  Lens <- MCLens
  Geoms <- MCGeoms
  PGeoms <- MCPGeoms
  Depths <- MCDepths
  Lattice <- MCLattice
  TinyEps <- MCTinyEps
  TinyDirs <- MCTinyDirs
  TinyShapes <- MCTinyShapes
  HistShapes <- MCNone
  HistLens <- MCNone
  HistGeoms <- MCNone
  HistLen = 0
  DerShapes <- MCNone
  DerLens <- MCNone
  DerGeoms <- MCNone
  DerOps <- MCNone
  ProjShapes <- MCProjShapes
  AngleQs <- MCAngleQs
  ClsShapes <- MCClsShapes
  ClsLens <- MCClsLens
  RecShapes <- MCNone
  RecLens <- MCNone
  RecGeoms <- MCNone
  Confs <- MCNone
  Families <- MCFamilies
SPECIFICATION Spec
INVARIANT GridAsBuilt
PROPERTY GridNeverWritten
INVARIANT DomainAndKinds
INVARIANT PairingSlimNative
INVARIANT ListElementwise
INVARIANT TransformOnce
INVARIANT ScaleMeetsPostcondition
INVARIANT CentreCase
INVARIANT PostconditionIsTight
INVARIANT TinyJudgedByDirection
INVARIANT LineAnyDirection
INVARIANT QuarterTurnsPinned
INVARIANT ProjectedCountFitsExtent
INVARIANT Line1DAnyDirection
"""

MC_H_CFG = """CONSTANTS
  Shapes <- MCNone
  MidShapes <- MCNone
  Lens <- MCNone
  Geoms <- MCNone
  PGeoms <- MCNone
  Depths <- MCNone
  Lattice <- MCNone
  TinyEps <- MCNone
  TinyDirs <- MCNone
  TinyShapes <- MCNone
  HistShapes <- MCHistShapes
  HistLens <- MCHistLens
  HistGeoms <- MCHistGeoms
  HistLen <- MCHistLen
  DerShapes <- MCDerShapes
  DerLens <- MCDerLens
  DerGeoms <- MCDerGeoms
  DerOps <- MCDerOps
  ProjShapes <- MCNone
  AngleQs <- MCNone
  ClsShapes <- MCNone
  ClsLens <- MCNone
  RecShapes <- MCRecShapes
  RecLens <- MCRecLens
  RecGeoms <- MCRecGeoms
  Confs <- MCConfs
  Families <- MCNone
SPECIFICATION SpecH
INVARIANT GridAsBuilt
INVARIANT HistorySeesBuiltGrid
INVARIANT HistoryShape
INVARIANT TermsDenoteCoordinates
INVARIANT ConfigurationInForce
INVARIANT CallsUseCurrentConfiguration
INVARIANT ConfigurationsDiffer
PROPERTY ConfigurationOnlyPushed
PROPERTY GridNeverWritten
"""

TRACE_CFG = """CONSTANTS
  Shapes = {}
  MidShapes = {}
  Lens = {}
  Geoms = {}
  PGeoms = {}
  Depths = {}
  Lattice = {}
  TinyEps = {}
  TinyDirs = {}
  TinyShapes = {}
  HistShapes = {}
  HistLens = {}
  HistGeoms = {}
  HistLen = 0
  DerShapes = {}
  DerLens = {}
  DerGeoms = {}
  DerOps = {}
  ProjShapes = {}
  AngleQs = {}
  ClsShapes = {}
  ClsLens = {}
  RecShapes = {}
  RecLens = {}
  RecGeoms = {}
  Confs = {}
  Families = {}
SPECIFICATION TraceSpec
POSTCONDITION TraceAccepted
"""

WRAPS = ("to_array", "to_grid", "to_vector_yx")
STACKS = ("stack_array", "stack_grid")


def _rk_of(api):
    return "values" if api in ("to_array", "stack_array") else "pairs"


# ---------------------------------------------------------------------------------------------
# the user's side: table-valued profile classes
# ---------------------------------------------------------------------------------------------
def _T(a, centre, quarter):
    """The profile's change of frame: shift to the centre, then `quarter` quarter turns (exact on the lattice)."""
    d = np.asarray(a, dtype=float) - np.asarray(centre, dtype=float)
    y, x = d[:, 0], d[:, 1]
    if quarter % 4 == 0:
        out = (y, x)
    elif quarter % 4 == 1:
        out = (x, 0.0 - y)
    elif quarter % 4 == 2:
        out = (0.0 - y, 0.0 - x)
    else:
        out = (0.0 - x, y)
    return np.stack(out, axis=-1)


class Probe:
    """f(p) = Tag(p): tag k for the expected coordinate k (exact equality of both components), a fresh tag for any other
    coordinate (the same coordinate always gets the same tag).  With `payload` the tags index arrays of arbitrary reals."""

    def __init__(self, expected, rk, lst, payload=None):
        e = np.asarray(expected, dtype=float).reshape(-1, 2)
        self.table = {(float(y), float(x)): k for k, (y, x) in enumerate(e)}
        self.n = e.shape[0]
        self.distinct = len(self.table) == self.n
        self.fresh = {}
        self.rk, self.lst, self.payload = rk, lst, payload
        self.unmasked = None     # linear indices of the unmasked pixels (native-stored input grids)
        self.ret = "ndarray"     # "struct": return structures derived from the input grid instead of plain ndarrays
        self.hook = None         # re-entrant user function: called once, before the function computes its own values
        self.calls = 0
        self.recv = np.zeros((0, 2))
        self.rid = []
        self.bad = ""

    def tags(self, a):
        out = []
        for y, x in a:
            key = (float(y), float(x))
            k = self.table.get(key)
            if k is None:
                k = self.fresh.get(key)
                if k is None:
                    k = self.n + len(self.fresh)
                    self.fresh[key] = k
            out.append(min(k, BIG - 1))
        return out

    def __call__(self, grid):
        self.calls += 1
        if self.hook is not None:
            hook, self.hook = self.hook, None
            hook()
        a = np.array(grid, dtype=float)
        native_shape = None
        if a.ndim == 3 and a.shape[-1] == 2 and self.unmasked is not None:
            # a native-stored grid [ny, nx, 2]: the function is evaluated at every entry; what it received at the unmasked
            # pixels (row-major) is what is judged, and the values go back in the same layout
            native_shape = a.shape[:2]
            a = a.reshape(-1, 2)
        if a.ndim != 2 or a.shape[-1] != 2:
            self.bad = f"function received an array of shape {a.shape}"
            a = a.reshape(-1, 2) if a.size % 2 == 0 else np.zeros((0, 2))
        alltags = self.tags(a)
        if native_shape is not None:
            self.recv = a[self.unmasked].copy()
            self.rid = [alltags[k] for k in self.unmasked]
        else:
            self.recv = a.copy()
            self.rid = alltags
        ids = np.asarray(alltags, dtype=int)

        def comp(e, c):
            if self.payload is None:
                return 1.0 + ids + (2 * e + c) * BIG
            return self.payload[e][c][ids]

        def el(e):
            v = comp(e, 0) if self.rk == "values" else np.stack([comp(e, 0), comp(e, 1)], axis=-1)
            if native_shape is not None:
                v = v.reshape(native_shape + v.shape[1:])
            return self.struct(v, grid, native_shape is not None) if self.ret == "struct" else v

        return [el(0), el(1)] if self.lst else el(0)

    def struct(self, v, grid, native):
        """A structure derived from the input grid, holding the values v (arithmetic on the grid / built on the grid's mask)."""
        import autoarray as aa

        if self.rk == "pairs":
            return (0.0 * grid + v) if self.api != "to_vector_yx" else aa.VectorYX2D(values=v, grid=grid, mask=grid.mask, store_native=native)
        return aa.Array2D(values=v, mask=grid.mask, store_native=native)


_CLS = {}


def _profiles():
    """Profile classes named VProfile / VProfileSmall (radial minima 2.5 / 0.75 in harness/conf/grids.yaml), written the
    way profiles are written downstream.  Built lazily: autoarray must come from $VERIF_REPO after repo_env.setup()."""
    if _CLS:
        return _CLS
    import autoarray as aa

    dec = aa.grid_dec

    class _Base:
        def __init__(self, probe, centre=(0.0, 0.0), angle=None, quarter=0, depth=1, keep=True):
            self.probe = probe
            self.centre = centre
            if angle is not None:
                self.angle = angle
            self.quarter = quarter
            self.depth = depth
            self.keep = keep
            self.level = 0
            self.tcount = 0

        # what the decorators ask of a profile
        def radial_grid_from(self, grid, **kwargs):
            g = np.array(grid, dtype=float)
            return np.sqrt(np.add(np.square(g[:, 0]), np.square(g[:, 1])))

        def transformed_to_reference_frame_grid_from(self, grid, **kwargs):
            self.tcount += 1
            new = _T(np.array(grid, dtype=float), self.centre, self.quarter)
            if self.keep and hasattr(grid, "with_new_array"):
                return grid.with_new_array(new)
            return new

        # decorated methods
        @dec.to_array
        def to_array_from(self, grid, *args, **kwargs):
            return self.probe(grid)

        @dec.to_grid
        def to_grid_from(self, grid, *args, **kwargs):
            return self.probe(grid)

        @dec.to_vector_yx
        def to_vector_yx_from(self, grid, *args, **kwargs):
            return self.probe(grid)

        @dec.project_grid
        def project_from(self, grid, *args, **kwargs):
            return self.probe(grid)

        @dec.transform
        def transform_from(self, grid, *args, **kwargs):
            self.level += 1
            if self.level < self.depth:
                return self.transform_from(grid, *args, **kwargs)
            return self.probe(grid)

        @dec.relocate_to_radial_minimum
        def reloc_from(self, grid, *args, **kwargs):
            return self.probe(grid)

        @dec.to_array
        @dec.transform
        @dec.relocate_to_radial_minimum
        def stack_array_from(self, grid, *args, **kwargs):
            return self.probe(grid)

        @dec.to_grid
        @dec.transform
        @dec.relocate_to_radial_minimum
        def stack_grid_from(self, grid, *args, **kwargs):
            return self.probe(grid)

    class VProfile(_Base):
        pass

    class VProfileSmall(_Base):
        pass

    _CLS.update(VProfile=VProfile, VProfileSmall=VProfileSmall)
    return _CLS


_GCLS = {}
CONTAINERS = ("Array2D", "Grid2D", "VectorYX2D", "ArrayIrregular", "Grid2DIrregular", "VectorYX2DIrregular", "Array1D", "Grid1D")
CLASSES_OF = {"g2d": ("base", "sub"), "irr": ("base", "uniform", "sub"), "g1d": ("base", "sub"), "nd": ("base",)}


def _grid_classes():
    """Concrete classes of the three grid kinds: the kind's own class, the other public classes of the kind exported by the
    library (found by isinstance over the package's namespace: Grid2DIrregularUniform), and a trivial subclass defined here, the way
    downstream projects extend the grid classes."""
    if _GCLS:
        return _GCLS
    import inspect

    import autoarray as aa

    class MyGrid2D(aa.Grid2D):
        pass

    class MyGrid2DIrregular(aa.Grid2DIrregular):
        pass

    class MyGrid1D(aa.Grid1D):
        pass

    public = {n for n in dir(aa) if inspect.isclass(getattr(aa, n)) and issubclass(getattr(aa, n), (aa.Grid2D, aa.Grid2DIrregular, aa.Grid1D))}
    if public != {"Grid2D", "Grid2DIrregular", "Grid1D", "Grid2DIrregularUniform"}:
        raise core.MachineryError(f"the library exports grid classes the C17 instance family does not know: {sorted(public)}")
    _GCLS.update({("g2d", "sub"): MyGrid2D, ("irr", "sub"): MyGrid2DIrregular, ("g1d", "sub"): MyGrid1D,
                  ("irr", "uniform"): aa.Grid2DIrregularUniform})
    return _GCLS


def _container_name(el):
    """The library container class an object is an instance of (first one in its MRO), else its own class name."""
    for c in type(el).__mro__:
        if c.__name__ in CONTAINERS and c.__module__.startswith("autoarray."):
            return c.__name__
    return type(el).__name__


# ---------------------------------------------------------------------------------------------
# gamma: instance -> concrete objects
# ---------------------------------------------------------------------------------------------
TAUS = (0.25, 0.125, 0.05, 1.0 / 3.0, 1.0)
DYADIC_TAUS = (0.25, 0.125, 0.5, 1.0)
DS = 16384
NO_ANGLE = -1000.0
_P = math.degrees(math.atan2(3.0, 4.0))   # 36.87 degrees: the 3-4-5 angle
# profile angles: every quadrant, negative, beyond a full turn; multiples of 90 keep the projected line on the lattice
ANGLES_90 = (0.0, 90.0, 180.0, 270.0, -90.0, -180.0, 360.0, 450.0)
ANGLES_NUMERIC = (45.0, 30.0, 120.0, 200.0, -100.0, 315.0, _P, 90.0 - _P, 90.0 + _P, 180.0 + _P, 270.0 - _P, -_P, 360.0 + _P)


def _angle_pool(rng):
    r = rng.random()
    if r < 0.12:
        return NO_ANGLE
    if r < 0.5:
        return float(ANGLES_90[int(rng.integers(0, len(ANGLES_90)))])
    if r < 0.85:
        return float(ANGLES_NUMERIC[int(rng.integers(0, len(ANGLES_NUMERIC)))])
    return float(np.round(rng.uniform(-360, 720), 3))


def line_direction(theta):
    """The documented direction of a projected line: the +x half-line rotated CLOCKWISE by theta degrees, as (y, x)
    components; returned as (aq, D): aq = theta / 90 when that is an integer (else 99), D = round(DS * unit vector) computed with
    math.sin / math.cos (the mathematical functions, not the implementation under test)."""
    t = math.radians(theta)
    D = [int(round(-math.sin(t) * DS)), int(round(math.cos(t) * DS))]
    aq = int(round(theta / 90.0)) if float(theta / 90.0).is_integer() else 99
    return aq, D


def complete(inst, seed):
    """Add the concrete choices the abstract instance leaves open (unit, scales, origin, centre, quarter turns, angle,
    irregular coordinates), seeded by the instance itself."""
    inst = dict(inst)
    inst.setdefault("cls", "base")
    key = json.dumps({k: inst[k] for k in ("api", "gk", "rk", "lst", "h", "w", "u", "par", "depth", "flag", "cls")}, sort_keys=True)
    rng = np.random.default_rng([seed, int.from_bytes(key.encode()[-8:].rjust(8, b"0"), "little") % (2 ** 31), len(key),
                                 sum(key.encode()) % 65521])
    api, gk = inst["api"], inst["gk"]
    n = len(inst["u"])
    radial = api in ("reloc",) + STACKS
    if radial and inst["par"][0] < 0:
        # enumerated by Decorators.tla (TinyInst): the coordinate EPS[e-1]*(dy,dx) as a one-point set, or as the central pixel
        # of a grid with pixel scale 2 units centred, like the profile, on the origin
        e, dy, dx = -inst["par"][0], inst["par"][1], inst["par"][2]
        inst.update({"oy": 0, "ox": 0, "cy": 0, "cx": 0, "sy": 2, "sx": 2})
        if gk == "g2d":
            h, w = inst["h"], inst["w"]
            mid = (h // 2) * w + w // 2
            inst["tiny"] = [[inst["u"].index(mid), e, dy, dx]] if (h % 2 and w % 2 and mid in inst["u"]) else []
        else:
            inst["pts"] = [[0, 0]]
            inst["tiny"] = [[0, e, dy, dx]]
    if radial:
        inst.setdefault("m", 1)
        inst.setdefault("tau", 0.25 / inst["m"])
        inst.setdefault("prof", "VProfile" if inst["par"][3] == 10 * inst["m"] else "VProfileSmall")
        inst.setdefault("tiny", [])
    else:
        # enumerated project_grid instances stay on a power-of-two lattice (the count of projected points is exact there);
        # decimal pixel scales are the business of the random part, which sets tau itself
        pool = DYADIC_TAUS if (api == "project" and gk == "g2d") else TAUS
        inst.setdefault("tau", float(pool[int(rng.integers(0, len(pool)))]))
        inst.setdefault("prof", "VProfile")
    s = inst["par"][0] if inst["par"][0] > 0 else 2 * int(rng.integers(1, 4))
    if inst.get("tiny"):
        # a tiny offset survives the change of frame only if nothing of lattice size is subtracted from it
        inst["cy"], inst["cx"] = 0, 0
        if gk == "g2d" and inst["par"][0] > 0:
            inst["oy"], inst["ox"] = -inst["par"][1], -inst["par"][2]
    if gk == "g2d":
        if api in WRAPS:
            inst.setdefault("sy", 2 * int(rng.integers(1, 4)))
            inst.setdefault("sx", 2 * int(rng.integers(1, 4)))
        else:
            inst.setdefault("sy", s)
            inst.setdefault("sx", s)
        if api == "reloc":
            # no change of frame: the coordinates themselves are relative to the centre
            inst.setdefault("oy", -inst["par"][1])
            inst.setdefault("ox", -inst["par"][2])
            inst.setdefault("cy", 0)
            inst.setdefault("cx", 0)
        elif api in STACKS:
            inst.setdefault("oy", int(rng.integers(-6, 7)))
            inst.setdefault("ox", int(rng.integers(-6, 7)))
            inst.setdefault("cy", inst["oy"] + inst["par"][1])
            inst.setdefault("cx", inst["ox"] + inst["par"][2])
        else:
            inst.setdefault("oy", int(rng.integers(-6, 7)))
            inst.setdefault("ox", int(rng.integers(-6, 7)))
            inst.setdefault("cy", inst["par"][1] if api == "project" else int(rng.integers(-5, 6)))
            inst.setdefault("cx", inst["par"][2] if api == "project" else int(rng.integers(-5, 6)))
    elif gk == "g1d":
        inst.setdefault("sx", s)
        inst.setdefault("ox", int(rng.integers(-9, 10)))
        inst.setdefault("cy", int(rng.integers(-5, 6)))
        inst.setdefault("cx", int(rng.integers(-5, 6)))
    else:
        if "pts" not in inst:
            if api == "reloc" and n == 1 and inst["par"][0] == 0:
                inst["pts"] = [[inst["par"][1], inst["par"][2]]]
                inst.setdefault("cy", 0)
                inst.setdefault("cx", 0)
            else:
                seen = set()
                while len(seen) < n:
                    seen.add((int(rng.integers(-12, 13)), int(rng.integers(-12, 13))))
                pts = sorted(seen)
                rng.shuffle(pts)
                inst["pts"] = [list(map(int, p)) for p in pts]
        inst.setdefault("cy", 0 if api == "reloc" else int(rng.integers(-5, 6)))
        inst.setdefault("cx", 0 if api == "reloc" else int(rng.integers(-5, 6)))
    inst.setdefault("quarter", int(rng.integers(0, 4)))
    inst.setdefault("keep", bool(rng.integers(0, 2)))
    if "angle" not in inst:
        aq = inst["par"][3] if (api == "project" and gk != "irr") else 98
        # enumerated project instances carry the profile angle in quarter turns (99 = no angle attribute, 98 = numeric)
        inst["angle"] = NO_ANGLE if aq == 99 else (90.0 * aq if aq != 98 else
                                                   (_angle_pool(rng) if api != "project" else float(ANGLES_NUMERIC[int(rng.integers(0, len(ANGLES_NUMERIC)))])))
    return inst


def build_grid(inst):
    """The grid of the instance, as an object of the instance's concrete class."""
    grid = _build_base_grid(inst)
    cls, gk = inst.get("cls", "base"), inst["gk"]
    if gk == "g2d" and inst.get("store", "slim") != "slim":
        import autoarray as aa

        if inst["store"] == "native_view":
            grid = grid.native
        else:
            grid = aa.Grid2D(values=np.array(grid.native, dtype=float), mask=grid.mask, store_native=True)
        if np.array(grid).ndim != 3:
            raise core.MachineryError(f"could not build a native-stored Grid2D for {inst}")
        return grid
    if cls == "base" or gk == "nd":
        return grid
    import autoarray as aa

    C = _grid_classes()[(gk, cls)]
    vals = np.array(grid, dtype=float)
    if gk == "g2d":
        over = {"over_sampling": aa.OverSamplingUniform(sub_size=inst["sub"])} if inst.get("sub") else {}
        new = C(values=vals, mask=grid.mask, **over)
    elif gk == "g1d":
        new = C(values=vals, mask=grid.mask)
    elif cls == "uniform":
        new = C(values=vals, shape_native=(1, vals.shape[0]), pixel_scales=(1.0, 1.0))
    else:
        new = C(values=[(float(y), float(x)) for y, x in vals])
    if type(new) is not C or not np.array_equal(np.array(new, dtype=float), vals):
        raise core.MachineryError(f"could not build a {C.__name__} holding the coordinates of {inst}")
    return new


def _build_base_grid(inst):
    import autoarray as aa

    tau, gk = inst["tau"], inst["gk"]
    if gk == "g2d":
        m = np.ones(inst["h"] * inst["w"], dtype=bool)
        m[inst["u"]] = False
        mask = aa.Mask2D(mask=m.reshape(inst["h"], inst["w"]), pixel_scales=(inst["sy"] * tau, inst["sx"] * tau),
                         origin=(inst["oy"] * tau, inst["ox"] * tau))
        over = {"over_sampling": aa.OverSamplingUniform(sub_size=inst["sub"])} if inst.get("sub") else {}
        grid = aa.Grid2D.from_mask(mask, **over)
        if inst["api"] in ("reloc",) + STACKS or inst.get("exact"):
            # The comparison |p| < r_min must be decided exactly, so the pixel centres have to be ON the lattice, not one
            # rounding error away from it (the library computes them through origin / pixel_scale, which is inexact for
            # scales such as 0.75): where they are not, the same grid is built from the exact centres.
            h, w = inst["h"], inst["w"]
            ex = np.array([[(inst["oy"] + (h - 1 - 2 * (k // w)) * (inst["sy"] // 2)) * tau,
                            (inst["ox"] + (2 * (k % w) - (w - 1)) * (inst["sx"] // 2)) * tau] for k in inst["u"]])
            if np.max(np.abs(np.array(grid, dtype=float) - ex)) > 1e-9:
                raise core.MachineryError(f"pixel centres of {inst} are not where the lattice puts them")
            for k, e, dy, dx in inst.get("tiny", []):
                if ex[k, 0] != inst["cy"] * tau or ex[k, 1] != inst["cx"] * tau:
                    raise core.MachineryError(f"tiny offset on a pixel that is not at the profile centre: {inst}")
                ex[k] = (EPS[e - 1] * dy, EPS[e - 1] * dx)
            if not np.array_equal(np.array(grid, dtype=float), ex):
                grid = aa.Grid2D(values=ex, mask=mask, **over)
        return grid
    if gk == "g1d":
        m = np.ones(inst["w"], dtype=bool)
        m[inst["u"]] = False
        mask = aa.Mask1D(mask=m, pixel_scales=inst["sx"] * tau, origin=(inst["ox"] * tau,))
        return aa.Grid1D.from_mask(mask)
    vals = np.array(inst["pts"], dtype=float) * tau
    for k, e, dy, dx in inst.get("tiny", []):
        if inst["pts"][k] != [inst["cy"], inst["cx"]] or inst["cy"] or inst["cx"]:
            raise core.MachineryError(f"tiny offset on a point that is not at the (origin) profile centre: {inst}")
        vals[k] = (EPS[e - 1] * dy, EPS[e - 1] * dx)
    if gk == "irr":
        return aa.Grid2DIrregular(values=[(float(y), float(x)) for y, x in vals])
    return vals


# ---------------------------------------------------------------------------------------------
# alpha: results -> tags, lattice integers, fixed point
# ---------------------------------------------------------------------------------------------
def _decode(vals, e, c):
    out = []
    for v in np.asarray(vals, dtype=float).ravel():
        if v == 0:
            out.append(-1)
            continue
        t = v - 1.0 - (2 * e + c) * BIG
        out.append(int(t) if float(t).is_integer() and 0 <= t < BIG else exact.OFF)
    return out


def _view(el, view):
    obj = getattr(el, view) if hasattr(el, view) else el
    return np.array(obj, dtype=float)


def _tags_of(el, e, rk, view):
    a = _view(el, view)
    if rk == "values":
        return _decode(a, e, 0)
    if a.ndim < 2 or a.shape[-1] != 2:
        return [exact.OFF] * max(int(a.size), 1)
    a = a.reshape(-1, 2)
    t0, t1 = _decode(a[:, 0], e, 0), _decode(a[:, 1], e, 1)
    return [x if x == y else exact.OFF for x, y in zip(t0, t1)]


def _payload_ok(el, e, rk, view, ids, payload):
    a = _view(el, view)
    ids = np.asarray(ids, dtype=int)
    if (ids == exact.OFF).any():
        return False
    ncomp = 1 if rk == "values" else 2
    if a.size != ids.size * ncomp:
        return False
    a = a.reshape(-1, ncomp)
    for c in range(ncomp):
        want = np.where(ids >= 0, payload[e][c][np.clip(ids, 0, BIG - 1)], 0.0)
        if not np.array_equal(want, a[:, c]):
            return False
    return True


def _fix(points, scale):
    """round(p * scale) per component; non-finite or beyond LIM -> LIM + 1."""
    out = []
    for y, x in np.asarray(points, dtype=float).reshape(-1, 2):
        row = []
        for v in (y, x):
            w = v * scale
            row.append(int(np.rint(w)) if np.isfinite(w) and abs(w) <= LIM else LIM + 1)
        out.append(row)
    return out


def _exact_units(points, tau):
    """Lattice integers of points that must be EXACTLY on the lattice (no tolerance)."""
    a = np.asarray(points, dtype=float)
    r = np.rint(a / tau)
    if a.size and not (np.all(np.isfinite(a)) and np.array_equal(r * tau, a)):
        raise exact.OffLattice(f"coordinates not exactly on the lattice of unit {tau}: {a[np.flatnonzero((r * tau != a).any(axis=-1))][:3]}")
    return r.astype(np.int64).tolist()


def _units_or_off(points, tau, off=99999):
    """Exact lattice integers, `off` for a component that is not exactly on the lattice."""
    a = np.asarray(points, dtype=float)
    r = np.rint(a / tau)
    ok = np.isfinite(a) & (r * tau == a) & (np.abs(r) < off)
    return np.where(ok, r, off).astype(np.int64).tolist()


def _pow2_floor(x):
    return 2 ** int(math.floor(math.log2(x))) if x >= 1 else 1


def _geo(mask, tau):
    ps, org = mask.pixel_scales, mask.origin
    return exact.to_int_exact([ps[0], ps[1], org[0], org[1]], scale=tau, what="mask geometry")


def _exc(e):
    return f"{type(e).__name__}: {str(e)[:160]}"


def _containers(rec, inst, res, call, grid, coords, two_d):
    """alpha of the returned container(s): class names, slim / native entries as tags, mask, payload independence."""
    api, rk, tau = inst["api"], inst["rk"], inst["tau"]
    n = len(inst["u"])
    els = list(res) if isinstance(res, list) else [res]
    rec["kinds"] = [_container_name(el) for el in els]
    rec["out"] = [_tags_of(el, e, rk, "slim") for e, el in enumerate(els)]
    rng = np.random.default_rng(n * 7 + len(api))
    payload = [[rng.standard_normal(BIG) * s for s in (1.0, 1e-300)], [rng.standard_normal(BIG) * s for s in (1e290, 3.0)]]
    ok = True
    els2 = []
    try:
        if call is None:
            raise LookupError("no payload run")
        _, _, res2 = call(payload)
        els2 = list(res2) if isinstance(res2, list) else [res2]
        ok = len(els2) == len(els)
        for e, el in enumerate(els2[: len(els)]):
            ok = ok and _payload_ok(el, e, rk, "slim", rec["out"][e], payload)
    except LookupError:
        ok, els2 = True, []
    except Exception:  # noqa
        ok = False
    if two_d:
        # the container as it is stored (no .slim / .native view): one entry per unmasked pixel, in slim order
        rec["raw"] = [_tags_of(el, e, rk, "__raw__") for e, el in enumerate(els)]
        rec["rawdim"] = [int(np.array(el).ndim) for el in els]
        rec["nat"] = [_tags_of(el, e, rk, "native") for e, el in enumerate(els)]
        for e, el in enumerate(els2[: len(els)] if ok else []):
            ok = ok and _payload_ok(el, e, rk, "native", rec["nat"][e], payload)
        m0 = els[0].mask
        rec["rh"], rec["rw"] = int(m0.shape_native[0]), int(m0.shape_native[1])
        rec["ru"] = [int(x) for x in np.flatnonzero(~np.asarray(m0, dtype=bool).ravel())]
        same = all(np.array_equal(np.asarray(el.mask), np.asarray(m0)) and tuple(el.mask.pixel_scales) == tuple(m0.pixel_scales)
                   and tuple(el.mask.origin) == tuple(m0.origin) for el in els[1:])
        try:
            rec["geo_in"] = _geo(grid.mask, tau)
            rec["geo_out"] = _geo(m0, tau)
            rec["geo_ok"] = bool(same)
        except exact.OffLattice:
            rec["geo_ok"] = False
    if api == "to_vector_yx":
        vg = []
        for el in els:
            t = Probe(coords, rk, False).tags(np.array(el.grid, dtype=float).reshape(-1, 2))
            vg = t if (not vg or vg == t) else [exact.OFF] * len(t)
        rec["vgrid"] = vg
    rec["payload_ok"] = bool(ok)


def _snapshot(grid):
    return np.array(grid, dtype=float).copy()


def _grid_tags(grid, built):
    """alpha of the caller's grid object after a call: k where position k still holds exactly the coordinate it was built
    with, OFF otherwise (a changed shape gives one OFF)."""
    try:
        cur = np.array(grid, dtype=float)
    except Exception:  # noqa
        return [exact.OFF]
    if cur.shape != built.shape:
        return [exact.OFF]
    same = (cur == built) if cur.ndim == 1 else (cur == built).all(axis=-1)
    return [k if ok else exact.OFF for k, ok in enumerate(same.tolist())]


INNER_GRIDS = {"g2d": {"h": 1, "w": 2, "u": [0, 1]}, "irr": {"h": 1, "w": 2, "u": [0, 1]}, "g1d": {"h": 1, "w": 3, "u": [0, 2]}}


def _reenter(prof, outer_probe, inst, meth, out):
    """The user function, while being evaluated on grid A, evaluates the SAME decorated method and ANOTHER decorated method of
    the same object on a second grid B; each inner result is abstracted into its own record, judged against grid B."""
    gkB = inst["inner"]
    other = "to_grid_from" if meth == "to_array_from" else "to_array_from"
    try:
        for m in (meth, other):
            apiB = m[:-5]
            if apiB == "to_vector_yx" and gkB == "g1d":
                continue
            instB = complete(dict(INNER_GRIDS[gkB], api=apiB, gk=gkB, rk=_rk_of(apiB), lst=False, par=[0, 0, 0, 0], depth=0, flag=False), 11)
            gridB = build_grid(instB)
            builtB = _snapshot(gridB)
            recB = {"p": "C17", "api": apiB, "gk": gkB, "cls": "base", "rk": instB["rk"], "lst": False, "h": instB["h"], "w": instB["w"],
                    "u": list(instB["u"]), "raised": False, "inst": dict(instB, inner_of=inst["api"]), "hid": 0, "step": 0, "ops": [],
                    "store": "slim", "ret": "ndarray", "inner": "none", "tcount": 0, "depth": 0, "flag": False}
            pB = Probe(builtB.reshape(-1, 2) if gkB != "g1d" else np.zeros((0, 2)), instB["rk"], False)
            pB.api = apiB
            prof.probe = pB
            try:
                resB = getattr(prof, m)(gridB)
            except Exception as e:  # noqa
                recB["raised"], recB["exc"] = True, _exc(e)
                out.append(recB)
                continue
            finally:
                prof.probe = outer_probe
            recB.update({"calls": pB.calls, "rid": list(pB.rid), "islist": isinstance(resB, list), "kinds": [], "out": [], "payload_ok": False})
            two_d = gkB == "g2d"
            if two_d:
                recB.update({"raw": [], "rawdim": [], "nat": [], "rh": 0, "rw": 0, "ru": [], "geo_in": [0, 0, 0, 0], "geo_out": [0, 0, 0, 0], "geo_ok": False})
            if apiB == "to_vector_yx":
                recB["vgrid"] = []
            try:
                _containers(recB, instB, resB, None, gridB, builtB.reshape(-1, 2) if gkB != "g1d" else None, two_d)
            except Exception as e:  # noqa
                recB["bad_container"] = _exc(e)
            if gkB == "g1d":
                aq, D = line_direction(0.0)
                S = min(4096, _pow2_floor(MAXRS / max(1.0, float(np.max(np.abs(builtB))) / instB["tau"] + 1.0)))
                recB.update({"S": S, "s": instB["sx"], "n1": instB["w"], "o": instB["ox"], "q": _fix(pB.recv, S / instB["tau"]), "aq": aq, "D": D})
            recB["gafter"] = _grid_tags(gridB, builtB)
            out.append(recB)
    finally:
        prof.probe = outer_probe


def record_for(inst, shared=None):
    """Run the instance through the real decorators and abstract what happened.  `shared` = {"grid", "built"}: the call is
    one of a history of calls on ONE grid object and is judged against the coordinates that object was BUILT with."""
    inst = dict(inst)
    api, gk, rk, lst = inst["api"], inst["gk"], inst["rk"], inst["lst"]
    tau = inst["tau"]
    n = len(inst["u"])
    rec = {"p": "C17", "api": api, "gk": gk, "cls": inst.get("cls", "base"), "rk": rk, "lst": lst, "h": inst["h"], "w": inst["w"],
           "u": list(inst["u"]), "raised": False, "inst": inst}
    cls = _profiles()[inst["prof"]]
    centre = (inst["cy"] * tau, inst["cx"] * tau)
    angle = None if inst["angle"] <= -999 else inst["angle"]
    grid = shared["grid"] if shared else build_grid(inst)
    native_in = gk == "g2d" and inst.get("store", "slim") != "slim"
    reader = (lambda: grid.slim) if native_in else (lambda: grid)     # the caller's coordinates, one row per unmasked pixel
    built = shared["built"] if shared else _snapshot(reader())
    rec.update({"store": inst.get("store", "slim"), "ret": inst.get("ret", "ndarray"), "inner": inst.get("inner", "none")})
    inner_recs = []
    rec["hid"], rec["step"] = (shared["hid"], shared["step"]) if shared else (0, 0)
    rec["ops"] = [list(o) for o in shared["ops"]] if shared else []
    if shared and gk != "g1d":
        rec["base"] = shared["base"]
        rec["cq"] = [inst["cy"], inst["cx"], inst["quarter"]] if api in STACKS else [0, 0, 0]
    coords = built.reshape(-1, 2).copy() if gk != "g1d" else None
    changes_frame = api in STACKS or (api == "transform" and not inst["flag"])
    if gk == "g1d":
        expected = np.zeros((0, 2))   # the projected points are the code's own: every one gets a fresh tag
    elif api == "project" and gk == "g2d":
        expected = np.zeros((0, 2))
    elif changes_frame:
        expected = _T(coords, centre, inst["quarter"])
    else:
        expected = coords
    if expected.shape[0] and len({(float(y), float(x)) for y, x in expected}) != expected.shape[0]:
        raise core.MachineryError(f"instance has repeated coordinates: {inst}")

    def call(payload):
        probe = Probe(expected, rk, lst, payload)
        probe.api, probe.ret = api, inst.get("ret", "ndarray")
        if native_in:
            probe.unmasked = list(inst["u"])
        prof = cls(probe, centre=centre, angle=angle, quarter=inst["quarter"], depth=max(inst["depth"], 1), keep=inst["keep"])
        meth = {"project": "project_from", "transform": "transform_from", "reloc": "reloc_from"}.get(api, api + "_from")
        kw = {"is_transformed": True} if (api == "transform" and inst["flag"]) else {}
        if inst.get("inner", "none") != "none":
            probe.hook = lambda: _reenter(prof, probe, inst, meth, inner_recs if payload is None else [])
        return probe, prof, getattr(prof, meth)(grid, **kw)

    try:
        probe, prof, res = call(None)
    except Exception as e:  # noqa
        rec["raised"] = True
        rec["exc"] = _exc(e)
        rec["gafter"] = _grid_tags(reader(), built)
        return rec
    rec["calls"] = probe.calls
    rec["rid"] = list(probe.rid)
    if probe.bad:
        rec["bad"] = probe.bad
        rec["calls"] = -1
    rec["tcount"] = prof.tcount
    rec["depth"] = inst["depth"]
    rec["flag"] = bool(inst["flag"])

    # ---- containers
    if api in WRAPS + STACKS + ("project",):
        two_d = gk == "g2d" and api != "project"
        rec.update({"islist": isinstance(res, list), "kinds": [], "out": [], "payload_ok": False})
        if two_d:
            rec.update({"raw": [], "rawdim": [], "nat": [], "rh": 0, "rw": 0, "ru": [], "geo_in": [0, 0, 0, 0], "geo_out": [0, 0, 0, 0], "geo_ok": False})
        if api == "to_vector_yx":
            rec["vgrid"] = []
        try:
            _containers(rec, inst, res, call, grid, coords, two_d)
        except Exception as e:  # noqa -- a result that cannot even be read as a container is a rejection, not a crash
            rec["bad_container"] = _exc(e)
            rec["payload_ok"] = False

    # ---- points the code computed
    recv = probe.recv
    if gk == "g1d":
        # the scale only has to keep |coordinate| * S inside the spec's range (the spec checks that): take it from the grid
        S = min(4096, _pow2_floor(MAXRS / max(1.0, float(np.max(np.abs(built))) / tau + 1.0)))
        aq, D = line_direction((angle + 90.0) if (api == "project" and angle is not None) else 0.0)
        rec.update({"S": S, "s": inst["sx"], "n1": inst["w"], "o": inst["ox"], "q": _fix(recv, S / tau), "aq": aq, "D": D})
    elif api == "project" and gk == "g2d":
        c = np.array(centre)
        far = max([1.0] + [float(np.max(np.abs(p - c))) / tau for p in recv if np.all(np.isfinite(p))])
        big = max([1.0] + [float(np.max(np.abs(p))) / tau for p in recv if np.all(np.isfinite(p))])   # absolute size: q is not relative to c
        S = min(4096, _pow2_floor(MAXRS / (2.0 * far)), _pow2_floor(0.9 * LIM / big))
        aq, D = line_direction((angle + 90.0) if angle is not None else 0.0)
        rec.update({"S": S, "s": inst["sx"], "c": [inst["cy"], inst["cx"]], "q": _fix(recv, S / tau), "aq": aq, "D": D,
                    "oy": inst["oy"], "ox": inst["ox"], "dyadic": bool(float(np.log2(tau)).is_integer())})
    if api in ("reloc",) + STACKS:
        confs = list(shared["confs"]) if shared else []
        R = CONF_MIN[confs[-1] if confs else 1][inst["prof"]] * inst["m"]     # the minimum configured NOW
        rmax = max(CONF_MIN[c][inst["prof"]] for c in [1] + confs) * inst["m"]
        S = min(4096, _pow2_floor(MAXRS / rmax)) if confs else (1024 if inst["prof"] == "VProfile" else 4096) // inst["m"]
        rec.update({"confs": confs, "prof": inst["prof"], "m": inst["m"]})
        # a tiny coordinate is described by its integer direction (after the profile's quarter turns), everything else by
        # its exact lattice position
        lat = np.array(expected, dtype=float)
        tiny = [False] * lat.shape[0]
        for k, e, dy, dx in inst.get("tiny", []):
            want = _T(np.array([[EPS[e - 1] * dy, EPS[e - 1] * dx]]), (0.0, 0.0), inst["quarter"] if api in STACKS else 0)[0]
            if not np.array_equal(lat[k], want):
                raise core.MachineryError(f"tiny coordinate {k} of {inst} is {lat[k]}, expected {want}")
            lat[k] = _T(np.array([[float(dy), float(dx)]]), (0.0, 0.0), inst["quarter"] if api in STACKS else 0)[0] * tau
            tiny[k] = True
        rec.update({"R": R, "S": S, "pt": _exact_units(lat, tau), "tiny": tiny, "q": _fix(recv, S / tau)})
    if shared and gk in ("g2d", "irr") and (api in WRAPS or api == "project" and gk == "irr"):
        rec["recvu"] = _units_or_off(recv, tau)
    if inner_recs:
        rec["_inner"] = inner_recs
    # ---- the caller's grid object, read again after everything that was done with it
    rec["gafter"] = _grid_tags(reader(), built)
    return rec


# ---------------------------------------------------------------------------------------------
# histories: several decorated calls on ONE grid object
# ---------------------------------------------------------------------------------------------
def complete_history(H, seed):
    """Concrete choices for a history {gk, h, w, u, par=[s, cy, cx, R], calls=[api or dict, ...]}: the grid (exactly on the
    lattice of unit 1/(4m), near the origin so that bare relocation finds coordinates inside the minimum), the profile (centre
    near the origin too, quarter turns, angle), the over-sampling the Grid2D carries, and per call the open parameters."""
    H = dict(H)
    H.setdefault("cls", "base")
    key = json.dumps({k: H[k] for k in ("gk", "h", "w", "u", "par", "calls", "cls")}, sort_keys=True, default=str)
    H["calls"] = [dict(c) if isinstance(c, dict) else c for c in H["calls"]]
    rng = np.random.default_rng([seed, len(key), sum(key.encode()) % 65521, int.from_bytes(key.encode()[-6:], "little") % (2 ** 31)])
    gk, par = H["gk"], H["par"]
    n = len(H["u"])
    H.setdefault("m", 1)
    m = H["m"]
    if gk == "g1d":
        H.setdefault("tau", float(DYADIC_TAUS[int(rng.integers(0, len(DYADIC_TAUS)))]))   # derived coordinates stay exact
        H.setdefault("prof", "VProfile")
        # a power-of-two pixel scale: the library computes pixel centres through origin / pixel_scale, which is exact then, so
        # the coordinates of the 1D grid (and of everything derived from it) are exactly on the lattice
        H.setdefault("sx", int(rng.choice([2, 4, 8])))
        H.setdefault("ox", int(rng.integers(-9, 10)))
    else:
        H.setdefault("tau", 0.25 / m)
        H.setdefault("prof", "VProfile" if par[3] == 10 * m else "VProfileSmall")
    if gk == "g2d":
        H.setdefault("sy", par[0])
        H.setdefault("sx", par[0])
        H.setdefault("oy", -par[1])
        H.setdefault("ox", -par[2])
        H.setdefault("sub", int(rng.choice([1, 2, 4])))
    if gk in ("irr", "nd") and "pts" not in H:
        R = par[3]
        seen = set()
        while len(seen) < n:
            if rng.random() < 0.3:
                a, b = PYTH[int(rng.integers(0, len(PYTH)))]
                seen.add((a * m * int(rng.choice([-1, 1])), b * m * int(rng.choice([-1, 1]))))
            else:
                seen.add((int(rng.integers(-R - 3, R + 4)), int(rng.integers(-R - 3, R + 4))))
        pts = sorted(seen)
        rng.shuffle(pts)
        H["pts"] = [[int(a), int(b)] for a, b in pts]
    H.setdefault("cy", int(rng.integers(-2, 3)))
    H.setdefault("cx", int(rng.integers(-2, 3)))
    H.setdefault("quarter", int(rng.integers(0, 4)))
    H.setdefault("keep", bool(rng.integers(0, 2)))
    if "angle" not in H:
        H["angle"] = _angle_pool(rng)
    calls = []
    for c in H["calls"]:
        c = {"api": c} if isinstance(c, str) else dict(c)
        api = c["api"]
        if api in ("derive", "reconfigure"):
            c["op"] = [int(x) for x in c["op"]]
            calls.append(c)
            continue
        c.pop("op", None)
        c.setdefault("rk", ("values" if gk != "irr" else ["values", "pairs"][int(rng.integers(0, 2))]) if api == "project"
                     else ("pairs" if api == "reloc" else ("values" if api == "transform" else _rk_of(api))))
        c.setdefault("lst", bool(rng.integers(0, 2)) if api in WRAPS else False)
        c.setdefault("depth", int(rng.integers(1, 4)) if api == "transform" else (1 if api in ("reloc",) + STACKS else 0))
        c.setdefault("flag", bool(rng.integers(0, 2)) if api == "transform" else False)
        calls.append(c)
    H["calls"] = calls
    return H


def _derive(grid, op, gk, tau):
    """The caller derives a grid: arithmetic with a scalar, item assignment in place, slicing (public operators only)."""
    code, a, b, c = op
    if code == 1:
        return (grid + a * tau) if a % 2 else (a * tau + grid)
    if code == 2:
        return (-grid) if a == -1 else ((float(a) * grid) if a % 2 else (grid * float(a)))
    if code == 3:
        grid[a] = b * tau if gk == "g1d" else (b * tau, c * tau)
        return grid
    return grid[a:]


def _derive_units(cur, op, gk):
    """gamma's own bookkeeping of a derivation, on exact lattice integers (the trace spec recomputes it: DeriveAll)."""
    code, a, b, c = op
    one = gk == "g1d"
    if code == 1:
        return [x + a for x in cur] if one else [[y + a, x + a] for y, x in cur]
    if code == 2:
        return [a * x for x in cur] if one else [[a * y, a * x] for y, x in cur]
    if code == 3:
        out = [x if one else list(x) for x in cur]
        out[a] = b if one else [b, c]
        return out
    return cur[a:]


def history_records(H, hid=1):
    """Build the grid ONCE, remember the coordinates it was built with, make the calls one after the other on that object;
    a `derive` step replaces the object by the one the caller derives from it (new coordinates, tracked by the spec)."""
    shared_fields = {k: v for k, v in H.items() if k not in ("calls", "k")}
    base = dict(shared_fields, api="history", exact=True, tiny=[])
    gk, tau = H["gk"], H["tau"]
    grid = build_grid(base)
    # everything is decided exactly: the fresh grid must be ON the lattice (a freshly built grid that is not is a harness error)
    cur = _exact_units(_snapshot(grid), tau)
    if gk == "g1d" and cur != [H["ox"] + (2 * j - (H["w"] - 1)) * (H["sx"] // 2) for j in H["u"]]:
        raise core.MachineryError(f"1D pixel centres of {H} are not where the lattice puts them")
    base_units = [list(p) for p in cur] if gk != "g1d" else []
    # `built`: the coordinates the caller's grid holds BY CONSTRUCTION (built, then derived by the caller) -- computed on the
    # lattice, never read back from the object, so that an object corrupted by an earlier call cannot excuse a later one
    built = np.array(cur, dtype=float) * tau
    # an item assignment must not create two equal 2D coordinates (the table function identifies a point by its coordinates):
    # where a randomly chosen value collides with another point of the grid, it is moved on
    sim = [list(p) if gk != "g1d" else p for p in cur]
    for c in H["calls"]:
        if c["api"] == "derive":
            if c["op"][0] == 3 and gk != "g1d":
                while [c["op"][2], c["op"][3]] in [p for i, p in enumerate(sim) if i != c["op"][1]]:
                    c["op"][2] += 1
            sim = _derive_units(sim, c["op"], gk)
    ops = []
    confs = []
    u, w = list(H["u"]), H["w"]
    recs = []
    try:
        _history_steps(H, hid, base, gk, tau, grid, built, cur, base_units, ops, confs, u, w, recs)
    finally:
        if confs:
            push_conf(1)      # the process goes on with the configuration it started with
    return recs


def _history_steps(H, hid, base, gk, tau, grid, built, cur, base_units, ops, confs, u, w, recs):
    for step, c in enumerate(H["calls"], start=1):
        if c["api"] == "reconfigure":
            rec = {"p": "C17", "api": "reconfigure", "gk": gk, "cls": H.get("cls", "base"), "rk": "values", "lst": False, "h": H["h"],
                   "w": w, "u": list(u), "raised": False, "hid": hid, "step": step, "conf": int(c["op"][0]), "seen": [],
                   "inst": dict(base, **c, history=H, step=step)}
            try:
                push_conf(rec["conf"])
                confs.append(rec["conf"])
                rec["seen"] = conf_seen()
            except Exception as e:  # noqa
                rec["raised"], rec["exc"] = True, _exc(e)
            recs.append(rec)
            continue
        if c["api"] == "derive":
            op = c["op"]
            rec = {"p": "C17", "api": "derive", "gk": gk, "cls": H.get("cls", "base"), "rk": "values", "lst": False, "h": H["h"], "raised": False,
                   "hid": hid, "step": step, "inplace": op[0] == 3, "pn": len(u), "pafter": [], "dcoords": [],
                   "base": base_units, "inst": dict(base, **c, history=H, step=step)}
            if gk == "g1d":
                rec.update({"s": H["sx"], "n1": H["w"], "o": H["ox"]})
            parent, parent_built = grid, built
            try:
                new = _derive(grid, op, gk, tau)
                if type(new) is not type(parent):
                    raise TypeError(f"derived object is a {type(new).__name__}, parent a {type(parent).__name__}")
                grid = new
                cur = _derive_units(cur, op, gk)
                built = np.array(cur, dtype=float).reshape((-1,) if gk == "g1d" else (-1, 2)) * tau
                ops = ops + [list(op)]
                if op[0] == 4:
                    u, w = list(range(len(u) - op[1])), w - op[1]
                rec["dcoords"] = _units_or_off(_snapshot(new), tau)
                rec["pafter"] = _grid_tags(parent, parent_built) if op[0] != 3 else []
            except Exception as e:  # noqa
                rec["raised"], rec["exc"] = True, _exc(e)
            rec.update({"ops": [list(o) for o in ops], "w": w, "u": list(u)})
            recs.append(rec)
            continue
        inst = dict(base, **c, w=w, u=list(u))
        rec = record_for(inst, shared={"grid": grid, "built": built, "hid": hid, "step": step, "ops": ops, "base": base_units,
                                       "confs": confs})
        rec["inst"] = dict(inst, history=H, step=step)
        recs.append(rec)


def _many_h(items):
    out = []
    for hid, H in items:
        try:
            out.extend(history_records(H, hid))
        except exact.OffLattice as e:
            raise core.MachineryError(f"driver produced an off-lattice history {H}: {e}")
    return out


def _many(insts):
    out = []
    for inst in insts:
        try:
            r = record_for(inst)
            out.extend(r.pop("_inner", []))
            out.append(r)
        except exact.OffLattice as e:
            raise core.MachineryError(f"driver produced an off-lattice instance {inst}: {e}")
    return out


# ---------------------------------------------------------------------------------------------
# instances
# ---------------------------------------------------------------------------------------------
def _tla_set(xs):
    return "{" + ", ".join(xs) + "}"


def _tup(t):
    return "<<" + ",".join(str(int(x)) for x in t) + ">>"


def bounds(quick):
    all33 = [(h, w) for h in (1, 2, 3) for w in (1, 2, 3)]
    if quick:
        return {"shapes": all33, "mid_shapes": [s for s in all33 if s not in ((3, 3), (3, 2))], "lens": [1, 2, 3, 4],
                "geoms": [(2, 0, 0, 3), (4, 1, -2, 3), (8, 0, 0, 10), (8, 3, -4, 10)],
                "pgeoms": [(4, 1, -2), (2, 3, 3)], "depths": [1, 2, 3], "lattice": 10,
                "tiny_eps": [1, 2, 3, 4], "tiny_dirs": list(TINY_DIRS), "tiny_shapes": [(1, 1), (1, 3)],
                "hist_shapes": [(1, 2), (2, 2), (1, 3)], "hist_lens": [2, 3], "hist_geoms": [(4, 1, -2, 3), (8, 3, -4, 10)], "hist_len": 2,
                "der_shapes": [(1, 3)], "der_lens": [3], "der_geoms": [(4, 1, -2, 3)],
                "der_ops": [o for o in DER_OPS if o != (2, 2, 0, 0)],
                "rec_shapes": [(1, 3)], "rec_lens": [3], "rec_geoms": [(4, 1, -2, 3), (8, 3, -4, 10)], "confs": [1, 2, 3],
                "proj_shapes": [(1, 1), (1, 2), (2, 2), (1, 3)], "angle_qs": [-2, -1, 0, 1, 2, 3, 5, 98, 99],
                "cls_shapes": [(1, 2), (2, 2)], "cls_lens": [2, 3]}
    return {"shapes": all33 + [(2, 4), (4, 2), (1, 5), (5, 1)], "mid_shapes": all33, "lens": [1, 2, 3, 4, 5, 6],
            "geoms": [(2, 0, 0, 3), (2, 1, 1, 3), (4, 1, -2, 3), (4, 0, 0, 10), (8, 0, 0, 10), (8, 3, -4, 10), (6, 1, 2, 10), (10, 5, 0, 10)],
            "pgeoms": [(2, 0, 0), (4, 1, -2), (2, 3, 3), (6, -5, 2), (8, 0, 7)], "depths": [1, 2, 3, 4], "lattice": 14,
            "tiny_eps": list(range(1, len(EPS) + 1)), "tiny_dirs": list(TINY_DIRS) + [(-3, -4), (0, 2), (5, 12)],
            "tiny_shapes": [(1, 1), (1, 3), (3, 1)],
            "hist_shapes": [(1, 2), (2, 2), (1, 3), (3, 1)], "hist_lens": [2, 3, 4],
            "hist_geoms": [(4, 1, -2, 3), (8, 3, -4, 10), (6, 1, 2, 10)], "hist_len": 3,
            "der_shapes": [(1, 3)], "der_lens": [2, 3], "der_geoms": [(8, 3, -4, 10)],
            "der_ops": list(DER_OPS) + [(1, -3, 0, 0), (3, 1, -4, 2)],
            "rec_shapes": [(1, 2), (1, 3), (2, 2)], "rec_lens": [2, 3, 4], "rec_geoms": [(4, 1, -2, 3), (8, 3, -4, 10), (6, 1, 2, 10)],
            "confs": [1, 2, 3],
            "proj_shapes": [s for s in all33 if s != (3, 3)], "angle_qs": [-4, -3, -2, -1, 0, 1, 2, 3, 4, 5, 6, 98, 99],
            "cls_shapes": [(1, 2), (2, 1), (2, 2), (1, 3), (2, 3)], "cls_lens": [1, 2, 3, 4]}


def expected_count(b):
    nm = lambda shapes: sum(2 ** (h * w) - 1 for h, w in shapes)
    n1 = sum(2 ** n - 1 for n in b["lens"])
    nl = len(b["lens"])
    wrap = 6 * nm(b["shapes"]) + 6 * nl + 4 * n1
    proj = len(b["angle_qs"]) * (len(b["pgeoms"]) * nm(b["proj_shapes"]) + n1) + 2 * nl
    trans = 2 * len(b["depths"]) * (nm(b["mid_shapes"]) + 2 * nl)
    rs = {g[3] for g in b["geoms"]}
    reloc = 3 * len(b["geoms"]) * nm(b["mid_shapes"]) + 2 * (2 * b["lattice"] + 1) ** 2 * len(rs)
    tiny = len(b["tiny_eps"]) * len(b["tiny_dirs"]) * len(rs) * (2 + 3 * nm(b["tiny_shapes"]))
    # every decorator on the non-base classes of every kind (g2d: 1 class, irr: 2, g1d: 1)
    mc, lc = nm(b["cls_shapes"]), len(b["cls_lens"])
    m1 = sum(2 ** n - 1 for n in b["cls_lens"])
    aqs = len([a for a in b["angle_qs"] if a in (-1, 0, 1, 99)])
    cls = (6 * mc + len(b["pgeoms"]) * aqs * mc + 2 * len(b["depths"]) * mc + 3 * len(b["geoms"]) * mc) \
        + 2 * (6 * lc + 2 * lc + 2 * len(b["depths"]) * lc + 3 * lc * len(rs)) \
        + (4 * m1 + aqs * m1)
    cls += 5 * 6 * mc                              # native-stored inputs x structure results (all but the default pair)
    nre = 3 * (6 * mc + 6 * lc + 4 * m1)           # re-entrant functions: three kinds of inner grid
    return {"wrap": wrap, "project": proj, "transform": trans, "reloc": reloc, "tiny": tiny, "classes": cls + nre, "_three_state": nre}


def enumerate_instances(ctx, b):
    defs = "\n".join([
        f"MCShapes == {_tla_set(_tup(s) for s in b['shapes'])}",
        f"MCMidShapes == {_tla_set(_tup(s) for s in b['mid_shapes'])}",
        f"MCLens == {_tla_set(str(n) for n in b['lens'])}",
        f"MCGeoms == {_tla_set(_tup(g) for g in b['geoms'])}",
        f"MCPGeoms == {_tla_set(_tup(g) for g in b['pgeoms'])}",
        f"MCDepths == {_tla_set(str(d) for d in b['depths'])}",
        f"MCLattice == -{b['lattice']} .. {b['lattice']}",
        f"MCTinyEps == {_tla_set(str(e) for e in b['tiny_eps'])}",
        f"MCTinyDirs == {_tla_set(_tup(d) for d in b['tiny_dirs'])}",
        f"MCTinyShapes == {_tla_set(_tup(s) for s in b['tiny_shapes'])}",
        f"MCProjShapes == {_tla_set(_tup(s) for s in b['proj_shapes'])}",
        f"MCAngleQs == {_tla_set(str(a) for a in b['angle_qs'])}",
        f"MCClsShapes == {_tla_set(_tup(s) for s in b['cls_shapes'])}",
        f"MCClsLens == {_tla_set(str(n) for n in b['cls_lens'])}",
        "MCNone == {}",
    ])
    want = expected_count(b)
    # TLC computes initial states in one thread and slows down superlinearly with their number: split large bounds over runs
    three = want.pop("_three_state")
    groups = [["wrap", "project", "transform", "reloc", "tiny", "classes"]] if sum(want.values()) < 15000 else \
             [["wrap"], ["project", "transform"], ["reloc"], ["tiny", "classes"]]

    def one(fams):
        d = defs + "\nMCFamilies == " + _tla_set(f'"{f}"' for f in fams)
        res = ctx.tlc("Decorators", MC_CFG, defs=d, tag="MC_Decorators_" + "_".join(fams) if len(groups) > 1 else "MC_Decorators",
                      timeout=3000, coverage=True, workers=max(2, (os.cpu_count() or 4) // len(groups)))
        got = res.by_kind("inst")
        n = sum(want[f] for f in fams)
        if len(got) != n or res.distinct != 2 * n + (three if "classes" in fams else 0):
            raise core.MachineryError(f"Decorators.tla {fams} enumerated {len(got)} instances / {res.distinct} states, expected {n}")
        return got

    import concurrent.futures as cf
    insts = []
    with cf.ThreadPoolExecutor(max_workers=len(groups)) as ex:
        for got in ex.map(one, groups):
            insts.extend(got)
    for r in insts:
        r.pop("k", None)
    return insts


# derivations << code, a, b, c >>: add 6, multiply by 2, negate, g[0] = 5 / (5, -7) in place, g[1:]
DER_OPS = ((1, 6, 0, 0), (2, 2, 0, 0), (2, -1, 0, 0), (3, 0, 5, -7), (4, 1, 0, 0))
H_APIS = {"g1d": ("to_array", "to_grid", "project"),
          "g2d": ("reloc", "stack_array", "to_array", "to_grid", "to_vector_yx", "project"),
          "irr": ("reloc", "stack_array", "to_array", "to_grid", "to_vector_yx", "project")}
H_FIRST = {"g1d": H_APIS["g1d"], "g2d": ("reloc", "stack_array"), "irr": ("reloc", "stack_array")}


def expected_histories(b):
    """(complete histories, reachable states) of SpecH: plain histories, and histories call - derive - call(s)."""
    nm = lambda shapes: sum(2 ** (h * w) - 1 for h, w in shapes)
    L = b["hist_len"]
    F, A = (lambda gk: len(H_FIRST[gk])), (lambda gk: len(H_APIS[gk]))
    per = lambda gk: F(gk) * A(gk) ** (L - 1)
    states = lambda gk: 1 + sum(F(gk) * A(gk) ** (l - 1) for l in range(1, L + 1))
    rs = {g[3] for g in b["hist_geoms"]}
    n2, ni, n1 = len(b["hist_geoms"]) * nm(b["hist_shapes"]), len(b["hist_lens"]) * len(rs), sum(2 ** n - 1 for n in b["hist_lens"])
    leaves = n2 * per("g2d") + ni * per("irr") + n1 * per("g1d")
    st = n2 * states("g2d") + ni * states("irr") + n1 * states("g1d")
    # with a Derive step: the applicable derivations depend on the grid kind and on the number of points
    def nops(gk, n):
        return sum(1 for o in b["der_ops"] if (o[0] != 4 or (gk == "irr" and n > o[1] > 0)) and (o[0] != 3 or n > o[1]))
    def fam(gk, n, count):
        d = nops(gk, n)
        lv = F(gk) * d * A(gk) ** (L - 1)
        sts = 1 + F(gk) + F(gk) * d * sum(A(gk) ** l for l in range(0, L))
        return count * lv, count * sts
    drs = {g[3] for g in b["der_geoms"]}
    for h, w in b["der_shapes"]:
        for npix in range(1, h * w + 1):
            lv, sts = fam("g2d", npix, math.comb(h * w, npix) * len(b["der_geoms"]))
            leaves, st = leaves + lv, st + sts
    for n in b["der_lens"]:
        lv, sts = fam("irr", n, len(drs))
        leaves, st = leaves + lv, st + sts
        for npix in range(1, n + 1):
            lv, sts = fam("g1d", npix, math.comb(n, npix))
            leaves, st = leaves + lv, st + sts
    # with a Reconfigure step: call, reconfigure (to one of the other configurations), relocating call, then any calls
    C = len(b["confs"]) - 1
    def rfam(gk, count):
        lv = F(gk) * C * F(gk) * A(gk) ** (L - 2)
        sts = 1 + F(gk) + F(gk) * C + F(gk) * C * F(gk) * sum(A(gk) ** l for l in range(0, L - 1))
        return count * lv, count * sts
    for gk, count in (("g2d", len(b["rec_geoms"]) * nm(b["rec_shapes"])), ("irr", len(b["rec_lens"]) * len({g[3] for g in b["rec_geoms"]}))):
        lv, sts = rfam(gk, count)
        leaves, st = leaves + lv, st + sts
    return leaves, st


def enumerate_histories(ctx, b):
    """Exhaustive exploration of the history machine (SpecH): every sequence of hist_len decorated calls on one grid."""
    defs = "\n".join([
        f"MCHistShapes == {_tla_set(_tup(s) for s in b['hist_shapes'])}",
        f"MCHistLens == {_tla_set(str(n) for n in b['hist_lens'])}",
        f"MCHistGeoms == {_tla_set(_tup(g) for g in b['hist_geoms'])}",
        f"MCHistLen == {b['hist_len']}",
        f"MCDerShapes == {_tla_set(_tup(s) for s in b['der_shapes'])}",
        f"MCDerLens == {_tla_set(str(n) for n in b['der_lens'])}",
        f"MCDerGeoms == {_tla_set(_tup(g) for g in b['der_geoms'])}",
        f"MCDerOps == {_tla_set(_tup(o) for o in b['der_ops'])}",
        f"MCRecShapes == {_tla_set(_tup(s) for s in b['rec_shapes'])}",
        f"MCRecLens == {_tla_set(str(n) for n in b['rec_lens'])}",
        f"MCRecGeoms == {_tla_set(_tup(g) for g in b['rec_geoms'])}",
        f"MCConfs == {_tla_set(str(c) for c in b['confs'])}",
        "MCNone == {}",
    ])
    res = ctx.tlc("Decorators", MC_H_CFG, defs=defs, tag="MC_DecoratorsH", timeout=3000, coverage=True, workers=4)
    hs = res.by_kind("hist")
    want, states = expected_histories(b)
    if len(hs) != want or res.distinct != states:
        raise core.MachineryError(f"Decorators.tla (SpecH) enumerated {len(hs)} histories / {res.distinct} states, expected {want} / {states}")
    for r in hs:
        r.pop("k", None)
    return hs


def random_histories(rng, count, max_side=6):
    """Longer histories on larger grids: 2..5 calls on one object, a relocating call first where the grid kind has one, then
    anything (also transform, stack_grid, list results), finer lattices, ndarray inputs."""
    out = []
    for k in range(count):
        gk = ["g2d", "irr", "g1d", "g2d", "irr", "nd"][k % 6]
        L = int(rng.integers(2, 6))
        m = int(rng.choice([1, 2, 4]))
        big = bool(rng.integers(0, 2))
        R = (10 if big else 3) * m
        if gk == "g1d":
            w = int(rng.integers(2, 11))
            u = sorted(int(x) for x in rng.choice(w, size=int(rng.integers(1, w + 1)), replace=False))
            H = {"gk": gk, "h": 1, "w": w, "u": u, "par": [0, 0, 0, 0], "calls": [str(rng.choice(H_APIS["g1d"])) for _ in range(L)]}
        else:
            later = {"g2d": H_APIS["g2d"] + ("stack_grid", "transform"), "irr": H_APIS["irr"] + ("stack_grid", "transform"),
                     "nd": ("reloc", "transform")}[gk]
            first = ("reloc",) if gk == "nd" else ("reloc", "stack_array", "stack_grid")
            calls = [str(rng.choice(first))] + [str(rng.choice(later)) for _ in range(L - 1)]
            if gk == "g2d":
                h, w, u = _rand_mask(rng, max_side)
                s = 2 * int(rng.integers(1, 1 + (6 if big else 2) * m))
                H = {"gk": gk, "h": h, "w": w, "u": u, "par": [s, int(rng.integers(-s, s + 1)), int(rng.integers(-s, s + 1)), R], "calls": calls}
            else:
                n = int(rng.integers(2, 13))
                H = {"gk": gk, "h": 1, "w": n, "u": list(range(n)), "par": [0, 0, 0, R], "calls": calls}
            H["m"] = m
        # the caller derives new grids on the way (not from a plain ndarray): after the first call, never as the last step
        if gk != "nd" and rng.random() < 0.6:
            n = len(H["u"])
            calls = list(H["calls"])
            for _ in range(int(rng.integers(1, 3))):
                pos = int(rng.integers(1, len(calls)))
                code = int(rng.choice([1, 2, 3, 4] if (gk == "irr" and n > 1) else [1, 2, 3]))
                if code == 1:
                    op = [1, int(rng.choice([-1, 1])) * int(rng.integers(1, 9)), 0, 0]
                elif code == 2:
                    op = [2, int(rng.choice([2, 3, -1, -2])), 0, 0]
                elif code == 3:
                    op = [3, int(rng.integers(0, n)), int(rng.integers(-9, 10)), int(rng.integers(-9, 10))]
                else:
                    # slices are applied in list order: keep the bookkeeping simple by slicing only once, at the front
                    if any(isinstance(c, dict) and c["op"][0] == 4 for c in calls):
                        continue
                    op = [4, int(rng.integers(1, n)), 0, 0]
                    if any(isinstance(c, dict) and c["op"][0] == 3 for c in calls):
                        continue
                    n -= op[1]
                if op[0] == 3 and any(isinstance(c, dict) and c["op"][0] == 4 for c in calls):
                    continue
                calls.insert(pos, {"api": "derive", "op": op})
            H["calls"] = calls
        # the configuration changes on the way: other radial minima for the same profile class, once or twice
        if gk != "g1d" and rng.random() < 0.5:
            calls = list(H["calls"])
            cur_conf = 1
            for _ in range(int(rng.integers(1, 3))):
                pos = int(rng.integers(1, len(calls)))
                # (keep the bookkeeping simple: configurations in list order must differ from their predecessor)
                before = [c["op"][0] for c in calls[:pos] if isinstance(c, dict) and c["api"] == "reconfigure"]
                after = [c["op"][0] for c in calls[pos:] if isinstance(c, dict) and c["api"] == "reconfigure"]
                prev = before[-1] if before else 1
                choices = [c for c in (1, 2, 3) if c != prev and (not after or c != after[0])]
                calls.insert(pos, {"api": "reconfigure", "op": [int(rng.choice(choices)), 0, 0, 0]})
            # a relocating call at the end, so that the last configuration is used
            calls.append(str(rng.choice(["reloc", "stack_array"] if gk != "nd" else ["reloc"])))
            H["calls"] = calls
        cs = CLASSES_OF[gk]
        H["cls"] = cs[int(rng.integers(0, len(cs)))] if rng.random() < 0.5 else "base"
        out.append(H)
    return out


def _rand_mask(rng, max_side):
    h, w = int(rng.integers(2, max_side + 1)), int(rng.integers(2, max_side + 1))
    m = rng.random((h, w)) < rng.choice([0.3, 0.6, 1.0])
    if not m.any():
        m[rng.integers(0, h), rng.integers(0, w)] = True
    return h, w, [int(x) for x in np.flatnonzero(m.ravel())]


PYTH = [(3, 4), (4, 3), (6, 8), (8, 6), (0, 10), (10, 0), (0, 3), (3, 0), (5, 12), (12, 5), (0, 0)]


def _rand_tiny(rng):
    """[eps index, dy, dx] of a coordinate EPS[e-1]*(dy,dx) with a small non-zero integer direction."""
    while True:
        dy, dx = int(rng.integers(-4, 5)), int(rng.integers(-4, 5))
        if dy or dx:
            return [int(rng.integers(1, len(EPS) + 1)), dy, dx]


def _rand_project_2d(rng, canonical=None):
    """project_grid on a 2D grid with a decimal pixel scale (0.1, 0.2, 0.05, 0.3, ...: not exact in binary) on frames up to
    15 x 15, centres on and off the grid's own centre; the count of projected points is judged exactly."""
    tau, sc = [(0.05, 2), (0.05, 4), (0.025, 2), (0.05, 6), (0.1, 2), (0.1, 4), (1.0 / 3.0, 2), (0.35, 2), (0.25, 2)][int(rng.integers(0, 9))]
    h, w = int(rng.integers(1, 16)), int(rng.integers(1, 16))
    if canonical is not None:
        h, w, tau, sc = canonical
    m = rng.random((h, w)) < rng.choice([0.5, 1.0, 1.0])
    if not m.any():
        m[:, :] = True
    u = [int(x) for x in np.flatnonzero(m.ravel())]
    oy, ox = (0, 0) if (rng.random() < 0.5 or canonical) else (int(rng.integers(-6, 7)), int(rng.integers(-6, 7)))
    on_centre = rng.random() < 0.5 or canonical
    cy, cx = (oy, ox) if on_centre else (oy + int(rng.integers(-2 * sc, 2 * sc + 1)), ox + int(rng.integers(-2 * sc, 2 * sc + 1)))
    return h, w, u, [sc, cy, cx, 0], {"tau": tau, "oy": oy, "ox": ox, "cy": cy, "cx": cx}


def decimal_project_instances(rng, count):
    """More of the same, among them the plain uniform grids 10x10 at 0.1, 5x5 at 0.2, 12x12 at 0.05, 6x6 at 0.3, 15x15 at 0.1."""
    out = []
    canon = [(10, 10, 0.05, 2), (5, 5, 0.05, 4), (12, 12, 0.025, 2), (6, 6, 0.05, 6), (15, 15, 0.1, 1 * 2), (7, 9, 0.1, 2), (10, 10, 0.1, 4)]
    for k in range(count):
        h, w, u, par, extra = _rand_project_2d(rng, canon[k] if k < len(canon) else None)
        cs = CLASSES_OF["g2d"]
        out.append(dict({"api": "project", "gk": "g2d", "rk": "values", "lst": False, "h": h, "w": w, "u": u, "par": par, "depth": 0,
                         "flag": False, "angle": _angle_pool(rng), "cls": cs[int(rng.integers(0, len(cs)))] if rng.random() < 0.3 else "base"},
                        **extra))
    return out


def random_instances(rng, count, max_side=7):
    """Larger instances beyond the exhaustive bound: masks up to max_side^2, irregular sets up to 14 points, 1D grids up to 12
    pixels, finer lattices (tau = 1/8, 1/16) around the radial minimum, points exactly on the minimum circle."""
    out = []
    for k in range(count):
        kind = k % 10
        if kind in (0, 1, 2):
            api = WRAPS[kind]
            gk = ["g2d", "g2d", "irr", "g1d"][int(rng.integers(0, 3 if api == "to_vector_yx" else 4))]
            lst = bool(rng.integers(0, 2))
            if gk == "g2d":
                h, w, u = _rand_mask(rng, max_side)
            else:
                h, w = 1, int(rng.integers(2, 13))
                u = list(range(w)) if gk == "irr" else sorted(int(x) for x in rng.choice(w, size=int(rng.integers(1, w + 1)), replace=False))
            out.append({"api": api, "gk": gk, "rk": _rk_of(api), "lst": lst, "h": h, "w": w, "u": u, "par": [0, 0, 0, 0], "depth": 0, "flag": False})
        elif kind == 3:
            gk = ["g2d", "irr", "g1d"][int(rng.integers(0, 3))]
            rk = "values"
            extra = {}
            if gk == "g2d":
                h, w, u, par, extra = _rand_project_2d(rng)
            else:
                h, w, par = 1, int(rng.integers(2, 13)), [0, 0, 0, 0]
                u = list(range(w)) if gk == "irr" else sorted(int(x) for x in rng.choice(w, size=int(rng.integers(1, w + 1)), replace=False))
                rk = ["values", "pairs"][int(rng.integers(0, 2))] if gk == "irr" else "values"
            out.append(dict({"api": "project", "gk": gk, "rk": rk, "lst": False, "h": h, "w": w, "u": u, "par": par, "depth": 0, "flag": False,
                             "angle": _angle_pool(rng)}, **extra))
        elif kind == 4:
            gk = ["g2d", "irr", "nd"][int(rng.integers(0, 3))]
            if gk == "g2d":
                h, w, u = _rand_mask(rng, max_side)
            else:
                h, w = 1, int(rng.integers(2, 15))
                u = list(range(w))
            out.append({"api": "transform", "gk": gk, "rk": "values", "lst": False, "h": h, "w": w, "u": u, "par": [0, 0, 0, 0],
                        "depth": int(rng.integers(1, 6)), "flag": bool(rng.integers(0, 2))})
        else:
            api = ["reloc", "stack_array", "stack_grid"][int(rng.integers(0, 3))]
            gk = ["g2d", "irr", "nd"][int(rng.integers(0, 3 if api == "reloc" else 2))]
            m = int(rng.choice([1, 2, 4]))
            big = bool(rng.integers(0, 2))
            R = (10 if big else 3) * m
            inst = {"api": api, "gk": gk, "rk": _rk_of(api) if api != "reloc" else "pairs", "lst": False, "depth": 1, "flag": False, "m": m}
            if gk == "g2d":
                h, w, u = _rand_mask(rng, max_side)
                s = 2 * int(rng.integers(1, 1 + (6 if big else 2) * m))
                inst.update({"h": h, "w": w, "u": u, "par": [s, int(rng.integers(-s, s + 1)), int(rng.integers(-s, s + 1)), R]})
                if rng.random() < 0.35:
                    # put one unmasked pixel exactly at the profile centre, then a hair away from it
                    kk = int(rng.integers(0, len(u)))
                    i, j = u[kk] // w, u[kk] % w
                    inst["par"][1], inst["par"][2] = (h - 1 - 2 * i) * (s // 2), (2 * j - (w - 1)) * (s // 2)
                    inst["tiny"] = [[kk] + _rand_tiny(rng)]
            else:
                n = int(rng.integers(2, 15))
                seen = set()
                L = R + 3 * m
                while len(seen) < n:
                    r = rng.random()
                    if r < 0.3:
                        a, b = PYTH[int(rng.integers(0, len(PYTH)))]
                        sc = m if (a * a + b * b in (100, 9) or (a, b) == (0, 0)) else int(rng.integers(1, m + 1))
                        p = (a * sc * int(rng.choice([-1, 1])), b * sc * int(rng.choice([-1, 1])))
                    else:
                        p = (int(rng.integers(-L, L + 1)), int(rng.integers(-L, L + 1)))
                    seen.add(p)
                pts = sorted(seen)
                rng.shuffle(pts)
                cy, cx = (0, 0) if api == "reloc" else (int(rng.integers(-9, 10)), int(rng.integers(-9, 10)))
                if rng.random() < 0.35:
                    # one to three coordinates a hair away from the centre (profile centred on the origin, see `complete`)
                    cy, cx = 0, 0
                    pts = [q for q in pts if q != (0, 0)] if rng.random() < 0.5 else pts
                    tiny = {}
                    while len(tiny) < int(rng.integers(1, 4)):
                        t = _rand_tiny(rng)
                        tiny[tuple(t)] = t
                    inst["tiny"] = []
                    for t in tiny.values():
                        pos = int(rng.integers(0, len(pts) + 1))
                        pts.insert(pos, (0, 0))
                        inst["tiny"] = [[k + (1 if k >= pos else 0)] + r for k, *r in inst["tiny"]] + [[pos] + t]
                    n = len(pts)
                # pts are relative to the centre before the quarter turns; the grid holds the absolute coordinates
                inst.update({"h": 1, "w": n, "u": list(range(n)), "par": [0, 0, 0, R], "cy": cy, "cx": cx,
                             "pts": [[int(p[0]) + cy, int(p[1]) + cx] for p in pts]})
            out.append(inst)
    for inst in out:   # any concrete class of the grid kind
        cs = CLASSES_OF[inst["gk"]]
        inst["cls"] = cs[int(rng.integers(0, len(cs)))] if rng.random() < 0.5 else "base"
    return out


# ---------------------------------------------------------------------------------------------
# validation
# ---------------------------------------------------------------------------------------------
def type_name(rec):
    return {"uniform": "Grid2DIrregularUniform", "sub": "user-defined subclass"}.get(rec.get("cls"), rec.get("cls"))


def _describe(rec):
    i = rec.get("inst", {})
    s = f"{rec['api']} on {rec['gk']}{'' if rec.get('cls', 'base') == 'base' else '[' + type_name(rec) + ']'} ({rec['rk']}{', list' if rec['lst'] else ''}) {rec['h']}x{rec['w']} u={rec['u']}"
    if rec["api"] in ("reloc",) + STACKS:
        s += f" profile={i.get('prof')} r_min={rec.get('R')} units of {i.get('tau')}; points rel. centre {rec.get('pt')} -> received*S {rec.get('q')} (S={rec.get('S')})"
        if i.get("tiny"):
            s += "; tiny coordinates (index, eps, direction): " + str([(t[0], EPS[t[1] - 1], t[2:]) for t in i["tiny"]])
    elif "q" in rec:
        s += f" scale={rec.get('s')} centre={rec.get('c', [0, 0])} angle={i.get('angle')} received*S={rec.get('q')} (S={rec.get('S')})"
    elif rec["api"] == "transform":
        s += f" depth={rec.get('depth')} is_transformed={rec.get('flag')} changes of frame={rec.get('tcount')} rid={rec.get('rid')}"
    else:
        s += f" kinds={rec.get('kinds')} rid={rec.get('rid')} out={rec.get('out')}"
    if rec.get("raised"):
        s += f" RAISED {rec.get('exc')}"
    if rec.get("gafter") is not None and rec["gafter"] != list(range(len(rec["u"]))):
        s += f"; caller's grid after the call (k = still the built coordinate k, -2 = overwritten): {rec['gafter']}"
    if rec.get("step"):
        s += f"; call {rec['step']} of history {[c['api'] for c in i.get('history', {}).get('calls', [])]} on ONE grid object"
    for k in ("bad", "bad_container"):
        if rec.get(k):
            s += f" [{k}: {rec[k]}]"
    return s


def validate(ctx, records, tag, chunk=1500):
    import concurrent.futures as cf

    for n, r in enumerate(records):
        r["id"] = n
    slim = [{k: v for k, v in r.items() if k not in ("inst", "exc", "bad", "bad_container")} for r in records]
    chunks = [slim[k: k + chunk] for k in range(0, len(slim), chunk)]
    rejects = []

    def one(args):
        k, ch = args
        res, rej = ctx.validate_trace("Trace_Decorators", TRACE_CFG, ch, tag=f"{tag}-{k}", timeout=1800)
        return rej

    with cf.ThreadPoolExecutor(max_workers=min(12, len(chunks) or 1)) as ex:
        for rej in ex.map(one, list(enumerate(chunks))):
            rejects.extend(rej)
    for rj in rejects:
        rec = records[rj["id"]]
        ctx.violation(rj["sig"], f"{_describe(rec)}: failed {rj['clauses']}",
                      {"record": rec, "failed_clauses": rj["clauses"], "spec_wanted": rj.get("want")},
                      cls=",".join(rj["clauses"]))
    return rejects


# ---------------------------------------------------------------------------------------------
# the check
# ---------------------------------------------------------------------------------------------
def run(ctx):
    from autoconf import conf

    try:
        conf.instance["general"]["grid"]["remove_projected_centre"]
        for name, v in RMIN.items():
            if float(conf.instance["grids"]["radial_minimum"]["radial_minimum"][name]) != v:
                raise KeyError(name)
    except KeyError as e:
        raise core.MachineryError(f"harness/conf lacks a config entry the decorators need: {e}")
    for c in (2, 3, 1):      # the configuration directories hold what the spec's ConfMin says (1 last: it stays in force)
        push_conf(c)
        if conf_seen() != [CONF_MIN[c]["VProfile"], CONF_MIN[c]["VProfileSmall"]]:
            raise core.MachineryError(f"harness/{CONF_DIRS[c]}/grids.yaml does not hold the radial minima of configuration {c}: {conf_seen()}")
    quick = ctx.quick
    b = bounds(quick)
    nrand = 300 if quick else 6000
    ctx.bounds = {"exhaustive_2d_masks_of_shapes": b["shapes"], "shapes_for_project_transform_relocate": b["mid_shapes"],
                  "1d_and_irregular_lengths": b["lens"], "relocate_geometries(scale,cy,cx,r_min in units of 1/4)": b["geoms"],
                  "project_geometries(scale,cy,cx)": b["pgeoms"], "transform_depths": b["depths"],
                  "single_points_lattice": f"[-{b['lattice']},{b['lattice']}]^2 x r_min {{2.5, 0.75}}",
                  "coordinates_a_hair_from_centre": {"eps": [EPS[e - 1] for e in b["tiny_eps"]], "directions": [list(d) for d in b["tiny_dirs"]],
                                                     "as": "one-point ndarray / Grid2DIrregular; central pixel of every mask of " + str(b["tiny_shapes"])
                                                           + " through reloc, stack_array, stack_grid"},
                  "histories_on_one_grid_object": {"2d_frames": b["hist_shapes"], "1d_and_irregular_lengths": b["hist_lens"],
                                                   "geometries": b["hist_geoms"], "calls_per_history": b["hist_len"],
                                                   "first_call": {k: list(v) for k, v in H_FIRST.items()}, "calls": {k: list(v) for k, v in H_APIS.items()},
                                                   "grid2d_over_sampling_sub_sizes": [1, 2, 4]},
                  "histories_with_a_derive_step(call, derive, call...)": {"2d_frames": b["der_shapes"], "1d_and_irregular_lengths": b["der_lens"],
                                                                          "geometries": b["der_geoms"],
                                                                          "derivations(1 add a, 2 multiply by a, 3 g[a] = (b,c) in place, 4 g[a:])": [list(o) for o in b["der_ops"]]},
                  "project_grid_profile_angles_in_quarter_turns(98 numeric, 99 no angle attribute)": b["angle_qs"],
                  "project_grid_2d_frames": b["proj_shapes"],
                  "numeric_angles": [round(a, 4) for a in ANGLES_NUMERIC] + ["random in [-360, 720]"],
                  "grid_classes": {"per_kind": {k: list(v) for k, v in CLASSES_OF.items()}, "uniform": "aa.Grid2DIrregularUniform",
                                   "sub": "class MyGrid(aa.Grid2D / aa.Grid2DIrregular / aa.Grid1D): pass", "2d_frames": b["cls_shapes"],
                                   "1d_and_irregular_lengths": b["cls_lens"], "decorators": "all, plus random instances and histories"},
                  "histories_with_a_reconfigure_step(call, reconfigure, relocating call...)": {
                      "2d_frames": b["rec_shapes"], "irregular_lengths": b["rec_lens"], "geometries": b["rec_geoms"],
                      "configurations(radial minima of VProfile / VProfileSmall)": {str(c): [CONF_MIN[c]["VProfile"] / 4, CONF_MIN[c]["VProfileSmall"] / 4] for c in b["confs"]}},
                  "random_project_2d": "pixel scales 0.1, 0.2, 0.05, 0.3, 0.4, 2/3, 0.7, 0.5 on frames up to 15x15, count of projected points judged exactly",
                  "random_histories": 40 if quick else 600,
                  "random_instances": nrand, "random_max_side": 7 if quick else 9}
    insts = enumerate_instances(ctx, b)
    ctx.exhaustive = True
    rng = np.random.default_rng(ctx.seed)
    rnd = random_instances(rng, nrand, ctx.bounds["random_max_side"]) + decimal_project_instances(rng, 80 if quick else 2000)
    allinst = [complete(i, ctx.seed) for i in insts] + [complete(i, ctx.seed + 1) for i in rnd]
    groups = [allinst[k: k + 60] for k in range(0, len(allinst), 60)]
    recs = []
    for part in core.pmap(_many, groups):
        recs.extend(part)
    # ---- histories: several decorated calls on ONE grid object
    hists = enumerate_histories(ctx, b)
    rnd_h = random_histories(rng, ctx.bounds["random_histories"])
    allh = [complete_history(H, ctx.seed) for H in hists] + [complete_history(H, ctx.seed + 1) for H in rnd_h]
    items = list(enumerate(allh, start=1))
    hrecs = []
    for part in core.pmap(_many_h, [items[k: k + 25] for k in range(0, len(items), 25)]):
        hrecs.extend(part)
    hs = next((r for r in hrecs if r["step"] == 2 and r["gk"] == "g2d" and len(r["u"]) > 2 and not r["raised"]), None)
    recs.extend(hrecs)
    ctx.replayed = len(insts) + len(hists)
    for api, gk in (("to_grid", "g2d"), ("stack_array", "g2d"), ("project", "g2d"), ("reloc", "irr")):
        s = next((r for r in recs if r["api"] == api and r["gk"] == gk and len(r["u"]) > 2 and not r["raised"]), None)
        if s is not None:
            ctx.sample({k: v for k, v in s.items() if k != "inst"})
    if hs is not None:
        ctx.sample({k: v for k, v in hs.items() if k != "inst"} | {"history_calls": [c["api"] for c in hs["inst"]["history"]["calls"]]})
    rej = validate(ctx, recs, "C17")
    kinds = {}
    for r in recs:
        kinds[f"{r['api']}/{r['gk']}"] = kinds.get(f"{r['api']}/{r['gk']}", 0) + 1
    ctx.note(f"{len(hists)} enumerated histories of {b['hist_len']} calls + {len(rnd_h)} random histories of 2..5 calls on one grid object "
             f"-> {len(hrecs)} call records, each judged against the coordinates the grid was built with")
    ctx.note(f"{len(insts)} enumerated instances + {len(rnd)} random instances -> {len(recs)} records validated by Trace_Decorators; "
             f"records by call {kinds}; {len(rej)} rejected")
    ctx.assumptions = [
        "the user function is a table function of the coordinate it receives (tags), re-run with arbitrary real payloads and "
        "compared bit for bit through the recorded source map: data movement by the decorators is value-independent",
        "coordinates, scales, origins and centres on a lattice (unit tau; tau = 1/4, 1/8, 1/16 where a radial minimum is involved so "
        "that |p| < r_min is decided exactly); computed points are judged in fixed point with the rounding bound derived in Decorators.tla",
        "to_vector_yx on a 1D grid is outside the property (no 1D vector-field container exists; the library raises NotImplementedError); "
        "the container class of to_grid on a 1D grid and the mask of 1D results are not pinned by the statement and not checked",
        "project_grid on a 2D grid: the number of points is floor(longest path from the centre to the edge of the mask's extent / pixel "
        "scale) + 1 (documented construction), judged exactly; where that quotient is an exact integer and the lattice unit is not a power "
        "of two, one point fewer is accepted too (the quotient of two rounded floats may fall just below the integer); the first point is "
        "the centre or one pixel scale away from it (remove_projected_centre)",
        "native-stored input Grid2D objects (grid.native, store_native=True) and structure-valued user functions go through to_array / to_grid "
        "/ to_vector_yx only (project_grid, transform and the radial minimum were not tried on native-stored grids in this round); a native-stored "
        "grid is evaluated at every native entry and judged at the unmasked ones",
        "re-entrant user functions call the same and one other decorated method of the same object on a second grid (2 pixels / points) before "
        "returning their own values; inner results are judged as records of their own",
        "configuration: the radial minimum of a profile class is read from the configuration in force when the relocating call is made; the "
        "harness pushes its three configuration directories with autoconf and restores the first one after every history",
        "the DIRECTION of a projected line is pinned to the documented construction (+x half-line rotated clockwise by the profile's "
        "angle + 90 degrees; 0 for to_array / to_grid on a 1D grid and for profiles without an angle): exactly, on the lattice, for multiples "
        "of 90 degrees (the spec derives the direction from the integer quarter count); for other angles through a unit vector tabulated with "
        "math.sin / math.cos, tolerance 2 fixed-point units",
        "derived grids (g + a, a * g, -g, g[a:] for irregular grids, g[a] = v in place): the coordinates a call is judged at are computed on the "
        "lattice from the built coordinates and the caller's derivations (by the harness for gamma, recomputed by the trace spec), never read "
        "back from the objects; slicing a Grid2D / Grid1D is not used (the result keeps the full mask and is not a consistent grid)",
        "histories: one grid object (Grid2D with over-sampling sub size 1/2/4, Grid2DIrregular, Grid1D, ndarray) receives several decorated "
        "calls; expected coordinates of every call are the ones the object was built with, and the object is read again after every call",
        "the profile classes supply radial_grid_from (Euclidean radius) and the change of frame (shift + quarter turns), as profiles do downstream",
    ]


def replay(ctx, rp):
    inst = rp["record"]["inst"]
    if "history" in inst:
        recs = history_records(inst["history"])
        rej = validate(ctx, recs, "C17-replay")
        for r in recs:
            print(f"history call {r['step']}:", _describe(r))
        print("rejected:", [(recs[r["id"]]["step"], r["clauses"], r["sig"]) for r in rej])
        return ctx.finish()
    rec = record_for(inst)
    rej = validate(ctx, [rec], "C17-replay")
    print("replayed 1 record:", _describe(rec))
    print("rejected:", [(r["clauses"], r["sig"]) for r in rej])
    return ctx.finish()
