"""C03 -- masked PSF blurring equals true 2D convolution restricted to the mask.

S->C: Convolution.tla enumerates (frame, odd kernel shape, kernel variant, mask inside a window whose kernel footprint
      stays in the frame), TLC checks on each that the frame-table formulation (structured like Convolver.__init__ /
      convolve_jit / convolve_matrix_jit) realises the definition (full 2D convolution with the flipped, centred kernel,
      zero outside the frame) and dumps the instance with the definition's operator tables.  Every instance is replayed
      through the real Convolver / Kernel2D / SimulatorImaging / Imaging API: the implementation's operator is extracted
      on basis images (one per unmasked and per blurring pixel), mapping matrices (basis, fractional, dense, signed) are
      blurred, a dense signed image with junk outside mask + blurring region is blurred, whole-frame convolution and
      simulate -> mask -> fit are run -- for 4 of 5 instances with a kernel OBJECT that has a history (derived by
      2.0 * base, -base, base + ndarray or item assignment from a base kernel that was already used in whole-frame
      convolutions and in a simulation), and compared with Convolver(mask, that same object).
      For 2 of 3 instances the shared Convolver is first given calls it refuses part-way (over-long blurring image /
      image / mapping matrix, exception caught) before the judged calls (spec: action FailedCall changes nothing).
      Two further instance kinds of the bounded machine: STRUCTURED kernels (every pattern of zero / cancelling /
      generic first, last and inner rows and columns, Sobel / Prewitt / Laplacian / diagonal kernels, single entries,
      zero-padded kernels; operator extraction, basis matrix, whole frame + Convolver of the same kernel) and SIMULATION instances (every
      combination of the simulator options that keep the data noise-free: background sky 0 / small / large / negative,
      sky subtracted or left in, three PSF normalisation routes, three noise-map settings); every other instance runs
      simulate -> fit with one seeded combination.
C->S: every abstracted result (floats / known power-of-two scale -> integers, off-lattice values rejected) is judged by
      Trace_Convolution.tla; the same for seeded random larger masks (holes, several components) with signed non-square
      kernels up to 7x7.
"""
import numpy as np

from harness import core

KS = 2.0 ** -12  # kernel scale
IS = 2.0 ** -12  # image / matrix scale (entries below any plausible sparsity threshold such as 1e-3)
OFFV = 999999999  # "not on the lattice" marker understood by Trace_Convolution.tla

INVARIANTS = ["FootprintInside", "EvenKernelRejected", "BlurringIsMasksBlurring", "OperatorTableIsDefinitionOnBasis",
              "FramesImplementDefinition", "FailedCallLeavesOperator", "PaddingIsEntrywise", "ScatterIsMaskedBlur", "MatrixIsColumnwise",
              "SimulateThenFitResidualZero", "SimulatedDataFitsGeneratingImage", "CentreAndHomogeneity", "FrameShape"]

MC_CFG = ("CONSTANTS\n  Families <- MCFamilies\n  Variants <- MCVariants\n  EvenKernels <- MCEven\n"
          "  StructFamilies <- MCStruct\n  SimFamilies <- MCSim\nSPECIFICATION Spec\n"
          + "".join(f"INVARIANT {i}\n" for i in INVARIANTS))

TRACE_CFG = """CONSTANTS
  Families = {}
  Variants = {}
  EvenKernels = {}
  StructFamilies = {}
  SimFamilies = {}
SPECIFICATION TraceSpec
POSTCONDITION TraceAccepted
"""

# the machine is shared: keep the JVM heaps small (TLC keeps its state queue on disk; the default heap is 1/4 of the RAM)
JVM_MC = {"_JAVA_OPTIONS": "-Xmx4g"}
JVM_TRACE = {"_JAVA_OPTIONS": "-Xmx2g"}

EVEN_KERNELS = [(2, 2), (3, 4), (4, 3), (1, 2), (2, 5)]


# ------------------------------------------------------------------------------------------------
# bounded families
# ------------------------------------------------------------------------------------------------
def family(H, W, kh, kw, rh, rw, dy=0, dx=0):
    """Frame HxW, kernel kh x kw, and an rh x rw window inside the cells whose footprint stays in the frame."""
    r0, c0 = kh // 2, kw // 2
    ih, iw = H - 2 * r0, W - 2 * c0
    if rh > ih or rw > iw:
        raise core.MachineryError(f"window {rh}x{rw} does not fit the interior of {H}x{W} for kernel {kh}x{kw}")
    top = r0 + min(max((ih - rh) // 2 + dy, 0), ih - rh)
    left = c0 + min(max((iw - rw) // 2 + dx, 0), iw - rw)
    return (H, W, kh, kw, top, left, rh, rw)


def families(quick):
    fams = []
    for kh in (1, 3, 5):
        for kw in (1, 3, 5):
            if quick:
                if (kh, kw) == (3, 3):
                    fams.append(family(5, 5, 3, 3, 3, 3))  # every mask of the 3x3 interior (holes, components)
                else:
                    fams.append(family(6, 7, kh, kw, 2, 3))
            else:
                if kh == 5:
                    fams.append(family(6, 7, kh, kw, 2, 3))
                    fams.append(family(7, 7, kh, kw, 3, 3) if kw < 5 else family(7, 7, 5, 5, 3, 2))
                elif (kh, kw) == (3, 3):
                    fams.append(family(5, 5, 3, 3, 3, 3))
                    fams.append(family(5, 6, 3, 3, 3, 4))  # 4095 masks
                else:
                    fams.append(family(6, 7, kh, kw, 3, 3))
                    fams.append(family(5, 7, kh, kw, 2, 3, dy=1, dx=1))  # off-centre window
    return fams


def struct_families(quick):
    """Structured-kernel families: every kernel of Convolution!StructKernels(kh, kw, level) on a 2x2 block of unmasked
    pixels whose blurring region reaches every kernel offset (non-square frames)."""
    out = []
    for kh in (1, 3, 5):
        for kw in (1, 3, 5):
            H, W = 2 * (kh // 2) + 3, 2 * (kw // 2) + 4
            level = "full" if (not quick or (kh, kw) == (3, 3)) else "light"
            out.append(family(H, W, kh, kw, 2, 2) + (level, "full"))
    if not quick:
        out.append(family(6, 5, 3, 3, 1, 2, dy=1) + ("full", "all"))  # every mask of a 1x2 window x every structured 3x3 kernel
    return out


def sim_families(quick):
    """Simulation families: every mask of a small window x every noise-free combination of simulator options."""
    if quick:  # 1x2 window (3 masks) for the 3x3 kernel, one pixel for two non-square kernels
        return [family(5, 6, 3, 3, 1, 2), family(5, 8, 3, 5, 1, 1), family(7, 6, 5, 3, 1, 1)]
    return [family(2 * (kh // 2) + 3, 2 * (kw // 2) + 4, kh, kw, 1, 2) for kh in (1, 3, 5) for kw in (1, 3, 5)]


# Convolution!SimOptionSet: every combination of the simulator options that keep the simulated data noise-free
SIM_OPTIONS = [{"sky": sky, "subtract": sub, "norm": norm, "noise": noise}
               for sky in (0, 3, 64, -1, -200) for sub in (True, False) for norm in ("raw", "unit_norm", "unit_asis", "raw_asis")
               for noise in ("const1", "const8th", "poisson") if not (noise == "poisson" and sky < -1)]
N_SIM_OPTIONS = len(SIM_OPTIONS)


def expected_instances(fams, n_variants, n_even):
    return sum(2 ** (f[6] * f[7]) - 1 for f in fams) * n_variants + n_even * n_variants


def enumerate_instances(ctx, fams, sfams=(), mfams=(), variants=("pos", "signed"), even=EVEN_KERNELS, tag="MC_Convolution",
                        timeout=3000):
    tup = lambda t: "<<" + ",".join(f'"{x}"' if isinstance(x, str) else str(x) for x in t) + ">>"
    defs = ("MCFamilies == {" + ", ".join(tup(f) for f in fams) + "}\n"
            "MCVariants == {" + ", ".join(f'"{v}"' for v in variants) + "}\n"
            "MCEven == {" + ", ".join(tup(e) for e in even) + "}\n"
            "MCStruct == {" + ", ".join(tup(f) for f in sfams) + "}\n"
            "MCSim == {" + ", ".join(tup(f) for f in mfams) + "}")
    res = ctx.tlc("Convolution", MC_CFG, defs=defs, tag=tag, timeout=timeout, env=JVM_MC)
    insts = res.by_kind("inst")
    n = {v: sum(1 for i in insts if i["variant"] == v and not i["even"]) for v in ("pos", "signed", "struct", "sim")}
    n_even = sum(1 for i in insts if i["even"])
    odd = expected_instances(fams, len(variants), 0)
    want_sim = sum(2 ** (f[6] * f[7]) - 1 for f in mfams) * N_SIM_OPTIONS
    if (n["pos"] + n["signed"] != odd or n_even != len(even) * len(variants) or n["sim"] != want_sim
            or (sfams and n["struct"] < 20 * len(sfams))
            or res.distinct != 4 * odd + 3 * n["struct"] + 4 * n["sim"] + 2 * n_even):
        raise core.MachineryError(f"Convolution.tla enumerated {n} (+{n_even} even) instances / {res.distinct} states, expected "
                                  f"{odd} identifiable, {want_sim} simulation, {len(even) * len(variants)} even")
    return insts


# ------------------------------------------------------------------------------------------------
# alpha / gamma
# ------------------------------------------------------------------------------------------------
def alpha(x, scale):
    """float array -> nested python ints (value / scale), OFFV where not finite or not within 1e-6 of an integer."""
    a = np.asarray(x, dtype=float) / scale
    with np.errstate(invalid="ignore"):
        r = np.rint(a)
        ok = np.isfinite(a) & (np.abs(a - r) <= 1e-6) & (np.abs(a) < 1e8)
    out = np.where(ok, r, OFFV).astype(np.int64)
    return out.tolist()


def _mask_of(h, w, u):
    m = np.ones(h * w, dtype=bool)
    m[u] = False
    return m.reshape(h, w)


def _ident(k):
    """kernel ints with pairwise distinct magnitudes -> {magnitude: flat index}; None if not identifiable."""
    mags = [abs(v) for v in k]
    if 0 in mags or len(set(mags)) != len(mags):
        return None
    return {abs(v): n for n, v in enumerate(k)}


def pow2_kernel(kh, kw, rng=None):
    """non-negative asymmetric integer kernel whose entries sum to a power of two (exact normalisation)."""
    n = kh * kw
    if rng is None:
        k = np.arange(1, n + 1)
    else:
        k = rng.permutation(n) + 1
    s = int(k.sum())
    q = 1
    while q < s:
        q *= 2
    k = k.copy()
    k[(kh // 2) * kw + kw // 2] += q - s
    return [int(v) for v in k], q


def records_for(inst, seed=0):
    """Run the real API on one abstract instance; returns the list of records for Trace_Convolution."""
    import autoarray as aa
    from autoarray import exc

    h, w, kh, kw = inst["h"], inst["w"], inst["kh"], inst["kw"]
    u = list(inst["u"])
    variant = inst.get("variant", "random")
    salt = sum((n + 1) * (v % 251) for n, v in enumerate(inst.get("kern") or [])) % 65521
    so = inst.get("simopt") or {}
    salt2 = (so.get("sky", 0) % 97) + 101 * bool(so.get("subtract")) + 211 * len(str(so.get("norm"))) + 307 * len(str(so.get("noise")))
    rng = np.random.default_rng([seed, h, w, kh, kw, len(u), sum(u) % 65521, 1 if variant == "signed" else 0, salt, salt2])
    ps = [(1.0, 1.0), (0.1, 0.1), (0.5, 2.0)][int(rng.integers(0, 3))]
    m = _mask_of(h, w, u)
    mask = aa.Mask2D(mask=m, pixel_scales=ps)
    base = {"p": "C03", "h": h, "w": w, "kh": kh, "kw": kw, "u": u, "err": ""}

    def ename(e):
        return "KernelException" if isinstance(e, exc.KernelException) else type(e).__name__

    # ---------------- even kernels must be rejected at every entry point -------------------------
    if inst.get("even"):
        Kf = np.arange(1, kh * kw + 1, dtype=float).reshape(kh, kw) * KS
        full = aa.Array2D.no_mask(values=np.ones((h, w)), pixel_scales=ps)
        raised = []
        for call in (lambda: aa.Convolver(mask=mask, kernel=aa.Kernel2D.no_mask(values=Kf, pixel_scales=ps)),
                     lambda: aa.Kernel2D.no_mask(values=Kf, pixel_scales=ps).convolved_array_from(full),
                     lambda: aa.Kernel2D.no_mask(values=Kf, pixel_scales=ps).convolved_array_with_mask_from(full.native, mask)):
            try:
                call()
                raised.append("")
            except Exception as e:  # noqa
                raised.append(ename(e))
        return [dict(base, api="even", k=[], raised=raised)]

    k = [int(v) for v in inst["kern"]]
    base["k"] = k
    Kf = np.array(k, dtype=float).reshape(kh, kw) * KS
    nU = len(u)
    recs = []

    def guarded(api, fn, **empty):
        rec = dict(base, api=api, **empty)
        try:
            rec.update(fn())
        except core.MachineryError:
            raise
        except Exception as e:  # the call raised: a verdict for the spec ("no-error" clause), not a machinery failure
            rec["err"] = f"{ename(e)}: {str(e)[:120]}"
        recs.append(rec)
        return rec

    kern = aa.Kernel2D.no_mask(values=Kf, pixel_scales=ps)
    shared = {}

    def convolver():
        """one Convolver(mask, kernel) and the user's blurring mask per instance (construction errors are recorded
        by every group of calls that needs them)"""
        if "conv" not in shared:
            shared["conv"] = aa.Convolver(mask=mask, kernel=kern)
            shared["bmask"] = mask.derive_mask.blurring_from(kernel_shape_native=(kh, kw))
        return shared["conv"], shared["bmask"]

    # ---------------- an error step on the same Convolver object ---------------------------------
    # 2 of 3 instances: before judged calls the shared convolver is first given a call it refuses part-way (an
    # over-long blurring image / image / mapping matrix: IndexError after some accumulation).  The exception is caught;
    # the judged valid call that follows must be what it always is.
    with_failed = variant != "sim" and int(rng.integers(0, 3)) > 0
    over_long = aa.Array2D.no_mask(values=rng.integers(1, 9, size=(h, w)).astype(float), pixel_scales=ps)  # h*w entries

    def refused(which, failed):
        """make one call that must be refused; appends what was refused to `failed` (nothing if it was accepted)"""
        if not with_failed:
            return
        conv, bmask = convolver()
        try:
            if which == "blurring":
                conv.convolve_image(image=aa.Array2D(values=over_long.native, mask=mask), blurring_image=over_long)
            elif which == "image":
                conv.convolve_image_no_blurring(image=over_long)
            else:
                conv.convolve_mapping_matrix(mapping_matrix=np.ones((h * w + 1, 2)))
        except Exception as e:  # noqa
            failed.append(f"{which}:{type(e).__name__}")

    # ---------------- operator extraction on basis images ----------------------------------------
    def operator():
        conv, bmask = convolver()
        failed = []
        bl = [int(x) for x in np.flatnonzero(~np.asarray(bmask, dtype=bool).ravel())]
        nB = len(bl)
        zU, zB = np.zeros(nU), np.zeros(nB)
        opi, opn, opb = [], [], []
        for a in range(nU):
            amp = IS * (1 + a % 3) * (-1 if a % 2 else 1)  # signed amplitudes: no shortcut on the sign of image values
            e = zU.copy()
            e[a] = amp
            img = aa.Array2D(values=e, mask=mask)
            if a % 3 == 0:
                refused("blurring", failed)
            opi.append(alpha(np.array(conv.convolve_image(image=img, blurring_image=aa.Array2D(values=zB, mask=bmask))), KS * amp))
            if a % 3 == 1:
                refused("image", failed)
            opn.append(alpha(np.array(conv.convolve_image_no_blurring(image=img)), KS * amp))
        for b in range(nB):
            amp = IS * (1 + b % 2) * (-1 if b % 3 == 1 else 1)
            e = zB.copy()
            e[b] = amp
            if b % 4 == 0:
                refused("blurring", failed)
            opb.append(alpha(np.array(conv.convolve_image(image=aa.Array2D(values=zU, mask=mask),
                                                          blurring_image=aa.Array2D(values=e, mask=bmask))), KS * amp))
        # the same couplings must explain a run on arbitrary real kernel / image values
        real_ok = True
        idx = _ident(k)
        if idx is not None:
            Kr = rng.standard_normal((kh, kw)) * float(rng.choice([1e-5, 1.0, 300.0]))
            ir = rng.standard_normal(nU) * float(rng.choice([1e-4, 1.0, 1e3]))
            br = rng.standard_normal(nB)
            convr = aa.Convolver(mask=mask, kernel=aa.Kernel2D.no_mask(values=Kr, pixel_scales=ps))
            got = np.array(convr.convolve_image(image=aa.Array2D(values=ir, mask=mask), blurring_image=aa.Array2D(values=br, mask=bmask)))
            want = np.zeros(nU)
            mag = np.zeros(nU)
            krf = Kr.ravel()
            for tab, vec in ((opi, ir), (opb, br)):
                for a, row in enumerate(tab):
                    for t, v in enumerate(row):
                        if v != 0 and abs(v) in idx and k[idx[abs(v)]] == v:
                            want[t] += vec[a] * krf[idx[abs(v)]]
                            mag[t] += abs(vec[a] * krf[idx[abs(v)]])
                        elif v != 0:
                            real_ok = False
            if got.shape != want.shape or not np.all(np.abs(got - want) <= 1e-12 * mag + 1e-300):
                real_ok = False
        return {"bl": bl, "opi": opi, "opn": opn, "opb": opb, "real_ok": bool(real_ok), "failed": sorted(set(failed))}

    full_set = variant not in ("struct", "sim")
    if variant != "sim":
        guarded("operator", operator, bl=[], opi=[], opn=[], opb=[], real_ok=False, failed=[])

    # ---------------- one dense signed image with junk outside mask + blurring region -------------
    def image():
        conv, bmask = convolver()
        nat = rng.integers(1, 9, size=(h, w)) * rng.choice([-1, 1], size=(h, w))
        natf = nat.astype(float) * IS
        failed = []
        refused("blurring", failed)
        out = np.array(conv.convolve_image(image=aa.Array2D(values=natf, mask=mask), blurring_image=aa.Array2D(values=natf, mask=bmask)))
        refused("image", failed)
        outn = np.array(conv.convolve_image_no_blurring(image=aa.Array2D(values=natf, mask=mask)))
        refused("blurring", failed)
        inside = ~m | ~np.asarray(bmask, dtype=bool)
        junk = np.where(inside, natf, rng.standard_normal((h, w)) * 1e6)
        out2 = np.array(conv.convolve_image(image=aa.Array2D(values=junk, mask=mask), blurring_image=aa.Array2D(values=junk, mask=bmask)))
        return {"img": nat.ravel().astype(int).tolist(), "out": alpha(out, KS * IS), "outn": alpha(outn, KS * IS),
                "junk_ok": bool(out.shape == out2.shape and np.array_equal(out, out2)), "failed": sorted(set(failed))}

    if full_set:  # (structured kernels: the extracted operator and the basis matrix already pin both code paths)
        guarded("image", image, img=[], out=[], outn=[], junk_ok=False, failed=[])

    # ---------------- mapping matrices ------------------------------------------------------------
    def matrix(kind):
        def run():
            conv, _ = convolver()
            if kind == "basis":
                mi, sc = np.eye(nU, dtype=int), IS
            elif kind == "fraction":  # sparse, non-negative, every entry below 1e-3
                mi, sc = rng.integers(0, 4, size=(nU, 3)) * (rng.random((nU, 3)) < 0.7), IS
                mi[int(rng.integers(0, nU)), 0] = 1
            elif kind == "dense":  # positive, order one
                mi, sc = rng.integers(1, 9, size=(nU, 2)), 1.0
            else:  # "signed": negative, zero and positive entries
                mi, sc = rng.integers(-4, 5, size=(nU, 3)), IS
                mi[int(rng.integers(0, nU)), int(rng.integers(0, 3))] = -3
            mf = mi.astype(float) * sc
            keep = mf.copy()
            failed = []
            refused("matrix" if kind in ("basis", "signed") else "blurring", failed)
            out = np.asarray(conv.convolve_mapping_matrix(mapping_matrix=mf))
            if not np.array_equal(mf, keep):
                raise RuntimeError("mapping matrix modified in place")
            return {"m": mi.astype(int).tolist(), "out": alpha(out, KS * sc) if out.ndim == 2 else [], "failed": failed}

        return run

    for kind in (("basis", "fraction", "dense", "signed") if full_set else ("basis",) if variant == "struct" else ()):
        guarded("matrix", matrix(kind), kind=kind, m=[], out=[], failed=[])

    # ---------------- kernels with a history ---------------------------------------------------------
    HISTORIES = ("fresh", "scaled", "negated", "added", "item-assigned")

    def kernel_with_history(target, unit, mode):
        """A Kernel2D whose values are exactly `target` (2D floats on the lattice `unit`).  "fresh": straight from the
        constructor.  Otherwise a BASE kernel with different values is first used in both whole-frame convolutions and
        in a SimulatorImaging run, and the judged kernel is derived from it by ordinary array arithmetic (exact on
        the lattice): 2.0 * base, -base, base + ndarray, or a copy with one entry assigned."""
        import copy

        if mode == "fresh":
            return aa.Kernel2D.no_mask(values=target, pixel_scales=ps)
        j = int(rng.integers(0, target.size))
        if mode == "scaled":
            basev = target / 2.0
        elif mode == "negated":
            basev = -target
        elif mode == "added":
            basev = target - unit
        else:
            basev = target.copy()
            basev.flat[j] += 3 * unit
        base = aa.Kernel2D.no_mask(values=basev, pixel_scales=ps)
        # the base kernel is used: whole-frame convolutions and one simulation (of a blank image: any sign of kernel)
        warm = aa.Array2D.no_mask(values=rng.integers(-3, 4, size=(h, w)).astype(float), pixel_scales=ps)
        base.convolved_array_from(array=warm)
        base.convolved_array_with_mask_from(array=warm.native, mask=mask)
        aa.SimulatorImaging(exposure_time=1.0, psf=base, normalize_psf=False, add_poisson_noise_to_data=False,
                            include_poisson_noise_in_noise_map=False, noise_if_add_noise_false=1.0,
                            noise_seed=1).via_image_from(image=aa.Array2D.no_mask(values=np.zeros((h, w)), pixel_scales=ps))
        if mode == "scaled":
            d = 2.0 * base
        elif mode == "negated":
            d = -base
        elif mode == "added":
            d = base + np.full(target.size, unit)
        else:
            d = copy.copy(base)
            d[j] = float(target.flat[j])
        if not isinstance(d, aa.Kernel2D) or not np.array_equal(np.array(d.native), target):
            raise core.MachineryError(f"gamma: kernel derived by '{mode}' does not hold the intended values")
        return d

    # ---------------- whole-frame convolution (Kernel2D) ------------------------------------------
    def whole_frame():
        mode = HISTORIES[int(rng.integers(0, len(HISTORIES)))]
        rec = {"history": mode}
        kd = kernel_with_history(Kf, KS, mode)
        nat = rng.integers(-8, 9, size=(h, w))
        arr = aa.Array2D.no_mask(values=nat.astype(float) * IS, pixel_scales=ps)
        out = kd.convolved_array_from(array=arr)
        outm = kd.convolved_array_with_mask_from(array=arr.native, mask=mask)
        # the masked convolver of the very same kernel object, fed with the same native image
        convd = aa.Convolver(mask=mask, kernel=kd)
        bmask = mask.derive_mask.blurring_from(kernel_shape_native=(kh, kw))
        outc = convd.convolve_image(image=aa.Array2D(values=arr.native, mask=mask), blurring_image=aa.Array2D(values=arr.native, mask=bmask))
        rec.update({"img": nat.ravel().astype(int).tolist(), "out": alpha(np.array(out.native).ravel(), KS * IS),
                    "outm": alpha(np.array(outm.slim), KS * IS), "outc": alpha(np.array(outc.slim), KS * IS)})
        return rec

    if variant != "sim":
        guarded("whole_frame", whole_frame, history="", img=[], out=[], outm=[], outc=[])

    # ---------------- simulate (noise off) -> apply mask -> fit with the generating image ----------
    def simfit(opt):
        def run():
            if variant == "sim":  # the kernel of the bounded machine (entries sum to a power of two)
                kraw, q = k, int(sum(k))
            else:
                kraw, q = pow2_kernel(kh, kw, rng if inst.get("random") else None)
            if q & (q - 1) or min(kraw) < 0:
                raise core.MachineryError(f"gamma: simulation kernel {kraw} is not non-negative with a power-of-two sum")
            rec = {"k": kraw, "q": q, "sky": int(opt["sky"]), "subtract": bool(opt["subtract"]), "norm": opt["norm"], "noise": opt["noise"]}
            raw = np.array(kraw, dtype=float).reshape(kh, kw)
            if opt["norm"] == "raw":
                # unnormalised kernel from the constructor; simulator and dataset normalise it (exact: the sum is 2^p)
                mode, psf, normalize = "fresh", aa.Kernel2D.no_mask(values=raw, pixel_scales=ps), True
            elif opt["norm"] == "unit_norm":
                mode, psf, normalize = "fresh", aa.Kernel2D.no_mask(values=raw / q, pixel_scales=ps), True
            elif opt["norm"] == "raw_asis":
                # unnormalised kernel taken as it is: the effective kernel is raw = (q * raw) in data units of 1/q
                mode, psf, normalize = "fresh", aa.Kernel2D.no_mask(values=raw, pixel_scales=ps), False
                rec["k"] = [int(v) * q for v in kraw]
            else:
                # unit-sum kernel taken as it is; 4 times of 5 an object derived from a used base kernel
                mode = HISTORIES[int(rng.integers(0, len(HISTORIES)))]
                psf, normalize = kernel_with_history(raw / q, 1.0 / q, mode), False
            rec["history"] = mode
            include, noise_value, exposure = {"const1": (False, 1.0, 1.0), "const8th": (False, 0.125, 1.0),
                                              "poisson": (True, 0.1, 64.0)}[opt["noise"]]
            sky = opt["sky"] / q  # data units are 1/q
            if include:  # Poisson deviates are drawn from image + sky: keep it positive (entries >= 2, sky >= -1 unit)
                nat = rng.integers(2, 10, size=(h, w))
            else:
                nat = rng.integers(-9, 10, size=(h, w))
            image = aa.Array2D.no_mask(values=nat.astype(float), pixel_scales=ps)
            sim = aa.SimulatorImaging(exposure_time=exposure, background_sky_level=sky, subtract_background_sky=bool(opt["subtract"]),
                                      psf=psf, normalize_psf=normalize, add_poisson_noise_to_data=False,
                                      include_poisson_noise_in_noise_map=include, noise_if_add_noise_false=noise_value, noise_seed=1)
            dataset = sim.via_image_from(image=image)
            masked = dataset.apply_mask(mask=mask)
            conv = masked.convolver
            bmask = masked.mask.derive_mask.blurring_from(kernel_shape_native=masked.psf.shape_native)
            model = conv.convolve_image(image=aa.Array2D(values=nat.astype(float), mask=masked.mask),
                                        blurring_image=aa.Array2D(values=nat.astype(float), mask=bmask))
            data = np.array(masked.data.slim)
            model = np.array(model.slim)
            left = 0.0 if opt["subtract"] else sky  # the sky declared to be left in the data
            rec["psf_kept"] = bool(np.array_equal(np.array(masked.psf.native), np.array(sim.psf.native)))
            rz = bool(data.shape == model.shape and np.all((data - left) - model == 0.0))
            rec.update({"img": nat.ravel().astype(int).tolist(), "data": alpha(data, 1.0 / q), "model": alpha(model, 1.0 / q),
                        "resid_zero": rz})
            return rec

        return run

    if variant == "sim":
        opts = [inst["simopt"]]
    elif variant == "struct":
        opts = []
    else:
        opts = [SIM_OPTIONS[int(rng.integers(0, len(SIM_OPTIONS)))]]
    for opt in opts:
        guarded("simfit", simfit(opt), history="", q=1, psf_kept=False, sky=0, subtract=True, norm="", noise="", img=[], data=[], model=[], resid_zero=False)
    for r in recs:
        r["variant"] = variant
    return recs


def _many(args):
    insts, seed = args
    out = []
    for n, inst in insts:
        for r in records_for(inst, seed):
            r["inst"] = n
            out.append(r)
    return out


# ------------------------------------------------------------------------------------------------
# random larger instances (beyond the exhaustive bound)
# ------------------------------------------------------------------------------------------------
def random_kernel(rng, kh, kw, t):
    """signed integer kernels, sides 1..7: identifiable (distinct magnitudes) or with structured zeros / cancellations."""
    style = t % 6
    if style in (0, 1):  # signed, distinct magnitudes: the couplings are identifiable
        return (rng.permutation(kh * kw) + 1) * rng.choice([-1, 1], size=kh * kw)
    k = rng.integers(-4, 5, size=(kh, kw))
    if style == 2:  # some rows and columns zero, others summing to zero with non-zero entries (borders included)
        for axis, n in ((0, kh), (1, kw)):
            for a in range(n):
                line = k[a, :] if axis == 0 else k[:, a]
                kind = int(rng.integers(0, 4)) if a in (0, n - 1) else int(rng.integers(0, 8))
                if kind == 0:
                    line[:] = 0
                elif kind == 1 and line.size > 1:
                    line[-1] = -int(line[:-1].sum())
    elif style == 3:  # antisymmetric (derivative-like): k = -flip(k)
        k = k - k[::-1, ::-1]
    elif style == 4:  # zero-padded: a smaller odd kernel in the centre
        ih, iw = int(rng.choice(range(1, kh + 1, 2))), int(rng.choice(range(1, kw + 1, 2)))
        core = k[(kh - ih) // 2: (kh + ih) // 2, (kw - iw) // 2: (kw + iw) // 2].copy()
        k[:, :] = 0
        k[(kh - ih) // 2: (kh + ih) // 2, (kw - iw) // 2: (kw + iw) // 2] = core
    else:  # a single non-zero entry anywhere, or first/last rows and columns cancelling exactly
        if t % 2:
            k[:, :] = 0
            k[int(rng.integers(0, kh)), int(rng.integers(0, kw))] = int(rng.choice([-5, 3]))
        else:
            if kw > 1:
                k[0, -1] = -int(k[0, :-1].sum())
                k[-1, -1] = -int(k[-1, :-1].sum())
            if kh > 1:
                k[-1, 0] = -int(k[:-1, 0].sum())
                k[-1, -1] = -int(k[:-1, -1].sum())
    return k.ravel()


def random_instances(rng, n, max_side=9):
    out = []
    for t in range(n):
        while True:
            h = int(rng.integers(5, max_side + 1))
            w = int(rng.integers(5, max_side + 1))
            kh = int(rng.choice([1, 3, 3, 5, 5, 7]))
            kw = int(rng.choice([1, 3, 3, 5, 5, 7]))
            ih, iw = h - 2 * (kh // 2), w - 2 * (kw // 2)
            if ih >= 1 and iw >= 1 and (kh != kw or t % 3 == 0):
                break
        style = t % 4
        inner = rng.random((ih, iw)) < float(rng.choice([0.3, 0.6, 0.9]))
        if style == 1 and ih >= 3 and iw >= 3:  # a ring: one hole
            inner[:, :] = True
            inner[1:-1, 1:-1] = False
        elif style == 2:  # several components: alternate columns
            inner[:, 1::2] = False
        elif style == 3 and ih >= 3 and iw >= 3:  # full with random holes
            inner[:, :] = True
            inner[rng.integers(0, ih), rng.integers(0, iw)] = False
            inner[rng.integers(0, ih), rng.integers(0, iw)] = False
        if not inner.any():
            inner[rng.integers(0, ih), rng.integers(0, iw)] = True
        m = np.ones((h, w), dtype=bool)
        m[kh // 2: h - kh // 2, kw // 2: w - kw // 2] = ~inner
        kern = random_kernel(rng, kh, kw, t)
        out.append({"h": h, "w": w, "kh": kh, "kw": kw, "variant": "random", "random": True, "even": False,
                    "u": [int(x) for x in np.flatnonzero(~m.ravel())], "kern": [int(v) for v in kern]})
    return out


# ------------------------------------------------------------------------------------------------
# validation
# ------------------------------------------------------------------------------------------------
def describe(rec):
    s = f"{rec['api']}{'/' + rec['kind'] if 'kind' in rec else ''}{'/' + rec['history'] + '-kernel' if rec.get('history') else ''} on {rec['h']}x{rec['w']} frame, kernel {rec['kh']}x{rec['kw']} " \
        f"k={rec.get('k')}, unmasked={rec['u']} ({rec.get('variant', '')} instance)"
    if rec.get("failed"):
        s += f" after refused calls {rec['failed']} on the same Convolver"
    if rec.get("err"):
        s += f" raised {rec['err']}"
    return s


def validate(ctx, records, insts, tag, chunk=2000):
    import concurrent.futures as cf

    for n, r in enumerate(records):
        r["id"] = n
    nch = max(1, -(-len(records) // chunk))
    chunks = [records[k::nch] for k in range(nch)]  # interleaved: every chunk gets the same mix of cheap and costly records
    rejects = []

    def one(args):
        k, ch = args
        res, rej = ctx.validate_trace("Trace_Convolution", TRACE_CFG, ch, tag=f"{tag}-{k}", timeout=2400, env=JVM_TRACE)
        return rej

    with cf.ThreadPoolExecutor(max_workers=min(16, len(chunks) or 1)) as ex:
        for rej in ex.map(one, list(enumerate(chunks))):
            rejects.extend(rej)
    for rj in rejects:
        rec = records[rj["id"]]
        inst = insts[rec["inst"]] if insts is not None and "inst" in rec else None
        ctx.violation(
            rj["sig"],
            f"{describe(rec)}: failed {rj['clauses']}",
            {"record": rec, "instance": _slim_inst(inst) if inst else None, "failed_clauses": rj["clauses"], "spec_wanted": rj.get("want")},
            cls=",".join(rj["clauses"]),
        )
    return rejects


def _slim_inst(inst):
    return {k: inst[k] for k in ("h", "w", "kh", "kw", "variant", "u", "even", "kern", "random", "simopt") if k in inst}


def cross_check(records, insts, rejects):
    """The operator tables dumped by the bounded machine (definition) and the verdicts of the trace spec on the same
    instance must agree: a disagreement means the two layers of the specification drifted apart (machinery failure)."""
    bad_trace = {rj["id"] for rj in rejects if {"image-operator", "blurring-operator", "on-lattice"} & set(rj["clauses"])}
    for r in records:
        if r["api"] != "operator" or r["err"]:
            continue
        inst = insts[r["inst"]]
        if "opi" not in inst:
            continue
        differs = r["opi"] != inst["opi"] or r["opb"] != inst["opb"]
        if differs != (r["id"] in bad_trace):
            raise core.MachineryError(f"Convolution.tla and Trace_Convolution.tla disagree on record {r['id']}: {describe(r)}")


def run(ctx):
    quick = ctx.quick
    fams = families(quick)
    sfams, mfams = struct_families(quick), sim_families(quick)
    n_random = 72 if quick else 600
    ctx.bounds = {"families(H,W,kh,kw,top,left,win_h,win_w)": fams, "kernel_variants": ["pos", "signed"],
                  "structured_kernel_families(...,level,masks)": sfams, "simulation_families": mfams,
                  "simulator_option_combinations": N_SIM_OPTIONS,
                  "even_kernels": EVEN_KERNELS, "random_instances": n_random, "random_max_side": 9,
                  "random_kernel_sides": [1, 3, 5, 7], "random_kernel_styles": ["identifiable", "zero/cancelling rows+columns",
                                                                               "antisymmetric", "zero-padded", "single entry",
                                                                               "cancelling borders"], "kernel_scale": "2^-12", "image_and_matrix_scale": "2^-12"}
    tl = enumerate_instances(ctx, fams, sfams, mfams)
    ctx.exhaustive = True
    rng = np.random.default_rng(ctx.seed)
    rnd = random_instances(rng, n_random)
    insts = tl + rnd
    numbered = list(enumerate(insts))
    groups = [(numbered[k: k + 12], ctx.seed) for k in range(0, len(numbered), 12)]
    recs = []
    for part in core.pmap(_many, groups):
        recs.extend(part)
    ctx.replayed = len(tl)
    ex_op = next(r for r in recs if r["api"] == "operator" and len(r["u"]) >= 3 and r["kh"] != r["kw"])
    ctx.sample({"instance": _slim_inst(insts[ex_op["inst"]]), "operator_record": {k: ex_op[k] for k in ("bl", "opi", "opb", "real_ok")}})
    ctx.sample({"random_instance_record": next(r for r in recs if r["api"] == "image" and r["variant"] == "random")})
    rejects = validate(ctx, recs, insts, "C03", chunk=2600 if quick else 4000)
    cross_check(recs, insts, rejects)
    ctx.note(f"{len(tl)} enumerated instances + {len(rnd)} random instances -> {len(recs)} records validated by Trace_Convolution")
    ctx.assumptions = [
        "floats are small integers times 2^-12 (kernel) and 2^-12 / 1 (images, matrices): IEEE arithmetic is exact, alpha rejects "
        "anything farther than 1e-6 from the lattice",
        "arbitrary real payloads are covered through the extracted couplings (payload-independent clause, 1e-12 relative)",
        "simulate->fit uses non-negative kernels whose entries sum to a power of two (both normalisations exact), sky levels that "
        "are multiples of the data unit 1/sum, signed images when no Poisson deviates are drawn and positive images with "
        "image + sky >= 0 when the noise map includes Poisson noise (numpy refuses negative rates: not admitted by the API)",
        "with subtract_background_sky=False the documented behaviour ('otherwise it is left in') is judged: data = convolved "
        "image + sky, fitted with zero residual once that declared sky is removed; the noise map itself is not judged",
        "normalize_psf=False is exercised with unit-sum kernels and with unnormalised kernels (data and fit must then both use "
        "the unnormalised kernel; open finding: apply_mask renormalises it)",
        "Kernel2D.convolved_array_from is judged on unmasked input arrays (its use in the simulator)",
        "kernel histories: the judged kernel's values are asserted (gamma) to be exactly the intended ones before it is used",
    ]


def replay(ctx, rp):
    rec = rp["record"]
    inst = rp.get("instance") or {"h": rec["h"], "w": rec["w"], "kh": rec["kh"], "kw": rec["kw"], "u": rec["u"],
                                   "kern": rec.get("k"), "even": rec["api"] == "even", "variant": rec.get("variant")}
    recs = [r for r in records_for(inst, ctx.seed) if r["api"] == rec["api"] and r.get("kind") == rec.get("kind")]  # same rng stream -> same history
    for r in recs:
        r["inst"] = 0
    rej = validate(ctx, recs, [inst], "C03-replay")
    print("replayed", len(recs), "records; rejected:", [(r["clauses"], r["sig"]) for r in rej])
    return ctx.finish()
