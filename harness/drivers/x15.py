"""X15 (extra) -- a simulated dataset is the documented pipeline applied to the input image, stage by stage, and nothing else
(autoarray/dataset/imaging/simulator.py, autoarray/dataset/interferometer/simulator.py).

S->C: Simulate.tla is a machine over ONE simulator object: calls of via_image_from, each a sequence of the named stages
      Pad / Convolve / Trim / AddSky / Poisson / NoiseMap / SubtractSky (Transform / GaussianNoise / VisNoiseMap for the
      interferometer) selected by the option flags.  TLC enumerates every option combination x PSF shape x tiny frame x image
      pattern x sky level x exposure time x seed (thinned by a hash in the quick tier), histories of calls on one object, and
      interferometer simulators on every mask of tiny frames; it checks the design theorems (stage order as documented,
      pad/convolve/trim = C03's whole-frame convolution, noise-free data = convolved image + sky, the noise map follows its
      option and never sees the subtracted sky, output frame = image frame, calls are independent, the simulator keeps its
      configuration) and dumps every complete behaviour, which is replayed on real simulators.
C->S: every observed call is abstracted onto the exact domains (integers in the fine unit of the instance, fixed point with a
      derived bound for the square root of the noise map, SHA-256 content identifiers for the random stages, compared with
      X01's functions called directly with the same seed on the noise-free image of a fresh simulator) and judged by
      Trace_Simulate.tla -- also for seeded random larger frames (up to 9x11) and random histories."""
import json
import math

import numpy as np

from harness import core, exact

OFF = 2_000_000_000
FS_MAX = 256
FF_MAX = 1 << 20
TOL = 1e-9
JVM_ENV = {"JAVA_TOOL_OPTIONS": "-XX:ParallelGCThreads=2 -XX:CICompilerCount=2 -Xmx3g"}

INVARIANTS = ["StageOrderAsDocumented", "PadConvolveTrimIsSameConvolution", "KernelsAreExactlyNormalisable",
              "NoiseFreeDataIsConvolvedImagePlusSky", "SkyIsAddedBeforeTheDrawAndSubtractedAfter", "NoiseMapMatchesOption",
              "OutputFrameIsImageFrame", "CallsAreIndependent", "VisibilitiesAreTheForwardTransform"]
DEF_CONSTS = ["Kernels", "FlagSets", "Frames", "Geoms", "HistKernels", "HistFlagSets", "HistChoices", "VisShapes", "VisOrigins",
              "VisBaselines"]

MC_CFG = ("CONSTANTS\n" + "".join(f"  {c} <- MC{c}\n" for c in DEF_CONSTS)
          + "  SkyLevels = {sky}\n  Times = {times}\n  Seeds = {seeds}\n  ImgVariants = {variants}\n  Thin = {thin}\n  ThinOff = {thinoff}\n"
            "  HistSky = {hsky}\n  HistTime = {htime}\n  HistLen = {hlen}\n  VisMaskMode = \"{vmode}\"\n  VisHistLen = {vhlen}\n"
            "SPECIFICATION Spec\n" + "".join(f"INVARIANT {x}\n" for x in INVARIANTS) + "PROPERTY SimulatorKeepsItsConfiguration\n")

TRACE_CFG = ("CONSTANTS\n" + "".join(f"  {c} = {{}}\n" for c in DEF_CONSTS if c != "Geoms") + "  Geoms <- MCEmpty\n"
             "  SkyLevels = {}\n  Times = {}\n  Seeds = {}\n  ImgVariants = {}\n  Thin = 1\n  ThinOff = 0\n  HistSky = 0\n  HistTime = 1\n"
             "  HistLen = 0\n  VisMaskMode = \"few\"\n  VisHistLen = 0\nSPECIFICATION TraceSpec\nPOSTCONDITION TraceAccepted\n")
TRACE_DEFS = "MCEmpty == << >>"


# ------------------------------------------------------------------------------------------------------------
# TLA+ literals
# ------------------------------------------------------------------------------------------------------------
def _lit(x):
    if isinstance(x, bool):
        return "TRUE" if x else "FALSE"
    if isinstance(x, str):
        return '"%s"' % x
    if isinstance(x, (tuple, list)):
        return "<<" + ", ".join(_lit(v) for v in x) + ">>"
    return str(int(x))


def _set(items):
    return "{" + ", ".join(_lit(v) for v in items) + "}"


def mc_defs(b):
    d = {"Kernels": _set(b["kernels"]), "FlagSets": _set(b["flags"]), "Frames": _set(b["frames"]), "Geoms": _lit(b["geoms"]),
         "HistKernels": _set(b["hist_kernels"]), "HistFlagSets": _set(b["hist_flags"]), "HistChoices": _set(b["hist_choices"]),
         "VisShapes": _set(b["vis_shapes"]), "VisOrigins": _set(b["vis_origins"]), "VisBaselines": _set(b["vis_baselines"])}
    return "\n".join(f"MC{k} == {v}" for k, v in d.items())


# ------------------------------------------------------------------------------------------------------------
# alpha (always rejecting: what is not on the lattice becomes the sentinel OFF)
# ------------------------------------------------------------------------------------------------------------
def ai(x, unit, tol=1e-6):
    a = np.asarray(x, dtype=float).ravel() / unit
    out = []
    for v in a:
        if not math.isfinite(v) or abs(v) > 1e9:
            out.append(OFF)
            continue
        r = round(v)
        out.append(int(r) if abs(v - r) <= tol * max(1.0, abs(v)) else OFF)
    return out


def fx(x, unit, scale):
    a = np.asarray(x, dtype=float).ravel()
    out = []
    for v in a:
        q = v / unit * scale
        out.append(int(round(q)) if math.isfinite(q) and abs(q) < 1.9e9 else OFF)
    return out


def gauss_pairs(z, unit):
    """complex array / unit -> ([[re, im], ...], off-lattice flag) on the Gaussian integers (residual <= 1e-9)"""
    z = np.asarray(z, dtype=complex).ravel() / unit
    pairs, off = [], False
    for v in z:
        p = []
        for c in (v.real, v.imag):
            if not math.isfinite(c) or abs(c) > 1e9:
                p.append(OFF)
                off = True
                continue
            r = round(c)
            if abs(c - r) > TOL * max(1.0, abs(c)):
                off = True
            p.append(int(r))
        pairs.append(p)
    return pairs, off


def _pow2_floor(x):
    return 1 << max(int(math.floor(math.log2(max(x, 1.0)))), 0)


def _native(x):
    n = x.native
    return np.array(n.array if hasattr(n, "array") else n, dtype=float)


def _raw(x):
    return np.asarray(x.array if hasattr(x, "array") else x)


class Ids:
    """content identifiers: fingerprints numbered by first occurrence inside one record"""

    def __init__(self):
        self.names = {}

    def __call__(self, *arrays):
        key = "|".join(exact.fp(np.asarray(a)) for a in arrays)
        return self.names.setdefault(key, len(self.names))


def _geom(mask, tau_y, tau_x):
    ps, org = mask.pixel_scales, mask.origin
    return ai([ps[0] / tau_y, ps[1] / tau_x, org[0] / tau_y, org[1] / tau_x], 1.0, tol=1e-9)


def _rng_for(src, salt=0):
    return np.random.default_rng([int(src.get("vseed", 0)), int(src["sid"]), salt])


# ------------------------------------------------------------------------------------------------------------
# gamma: imaging
# ------------------------------------------------------------------------------------------------------------
class ImgGamma:
    """One abstract simulator configuration made concrete: units are powers of two chosen per instance such that every
    deterministic stage is exact in IEEE arithmetic (DESIGN section 3, small integers x powers of two)."""

    def __init__(self, cfg, rng):
        self.cfg = cfg
        self.k = [int(v) for v in cfg["kern"]]
        self.kh, self.kw = int(cfg["kh"]), int(cfg["kw"])
        self.psf = bool(cfg["psf"])
        self.norm, self.pn, self.nm, self.sub = (bool(cfg[x]) for x in ("norm", "pn", "nm", "sub"))
        self.Q = sum(self.k)
        if self.Q < 1 or self.Q & (self.Q - 1):
            raise core.MachineryError(f"gamma: kernel sum {self.Q} is not a power of two")
        self.tm = int(cfg["tm"])
        self.sky_i = int(cfg["sky"])
        self.uk = 2.0 ** int(rng.integers(-2, 3)) if self.psf else 1.0      # unit of the kernel mantissas
        ukk = 1.0 if self.norm or not self.psf else self.uk
        self.upsf = ukk / self.Q                                                # unit of PsfFine
        self.cw = int(rng.choice([1, 4]))
        ei = int(rng.integers(-3, 4))
        self.ui = 2.0 ** ei                                                     # unit of the image mantissas
        self.u = self.ui * ukk / self.Q                                         # the fine unit of every image value
        self.et2 = (1.0 / self.cw) / self.u                                     # 2^e with u * 2^e = one count = 1/cw
        self.t = self.tm * self.et2
        self.sky = self.sky_i * self.u
        self.un = math.sqrt(1.0 / self.cw) / self.et2                           # unit of the noise map: sqrt(N) / tm of it
        self.nf = float(rng.choice([0.1, 0.25, 3.0, 0.7]))
        self.tau = float(rng.choice([1.0, 0.25, 0.05, 1.0 / 3.0]))
        self.psf_scales = float(rng.choice([1.0, 0.1]))
        self.native_image = bool(rng.integers(0, 3) == 0)

    def make_psf(self):
        import autoarray as aa

        if not self.psf:
            return None
        return aa.Kernel2D.no_mask(values=np.array(self.k, dtype=float).reshape(self.kh, self.kw) * self.uk, pixel_scales=self.psf_scales)

    def make_sim(self, seed, psf, **over):
        import autoarray as aa

        kw = dict(exposure_time=self.t, background_sky_level=self.sky, subtract_background_sky=self.sub, psf=psf,
                  normalize_psf=self.norm, add_poisson_noise_to_data=self.pn, include_poisson_noise_in_noise_map=self.nm,
                  noise_if_add_noise_false=self.nf, noise_seed=int(seed))
        kw.update(over)
        return aa.SimulatorImaging(**kw)

    def make_image(self, ints, h, w, g):
        import autoarray as aa

        vals = np.array(ints, dtype=float).reshape(h, w) * self.ui
        ps = (g[0] * self.tau, g[1] * self.tau)
        org = (g[2] * self.tau, g[3] * self.tau)
        if self.native_image:
            mask = aa.Mask2D.all_false(shape_native=(h, w), pixel_scales=ps, origin=org)
            return aa.Array2D(values=vals, mask=mask, store_native=True)
        return aa.Array2D.no_mask(values=vals, pixel_scales=ps, origin=org)

    def base(self, call):
        return {"psf": self.psf, "kh": self.kh, "kw": self.kw, "k": self.k, "norm": self.norm, "pn": self.pn, "nm": self.nm,
                "sub": self.sub, "sky": self.sky_i, "tm": self.tm, "cw": self.cw, "seed": int(call["seed"]),
                "h": int(call["h"]), "w": int(call["w"]), "img": [int(v) for v in call["img"]], "g": [int(v) for v in call["g"]]}

    def units(self):
        return {"image_unit": self.ui, "kernel_unit": self.uk, "fine_unit": self.u, "exposure_time": self.t, "sky": self.sky,
                "noise_if_add_noise_false": self.nf, "tick": self.tau, "native_stored_image": self.native_image}


def _twin_and_reference(G, call, ids):
    """the noise-free image with sky from a FRESH simulator with every noise option off (judged on its own by the trace spec)
    and X01's function called directly on it with the seed of the call"""
    import autoarray as aa
    from autoarray.dataset import preprocess as pp

    h, w = int(call["h"]), int(call["w"])
    out = {"hastwin": False, "x0": [], "hasref": False, "ref": [], "rid": -1}
    try:
        twin = G.make_sim(call["seed"], G.make_psf(), add_poisson_noise_to_data=False, include_poisson_noise_in_noise_map=False,
                          subtract_background_sky=False)
        img = G.make_image(call["img"], h, w, call["g"])
        d0 = twin.via_image_from(image=img)
        out["hastwin"] = True
        out["x0"] = ai(_native(d0.data), G.u)
    except Exception:
        return out
    try:
        tmap = aa.Array2D.full(fill_value=G.t, shape_native=(h, w), pixel_scales=img.pixel_scales)
        ref = pp.data_eps_with_poisson_noise_added(data_eps=d0.data, exposure_time_map=tmap, seed=int(call["seed"]))
        out["hasref"] = True
        out["ref"] = ai(_native(ref), G.u / G.tm)
        out["rid"] = ids(_native(ref))
        out["_kr"] = exact.fp(_native(ref))
    except Exception:
        pass
    return out


def observe_img(G, sim, psf, call, fam, *, repeats=True):
    """call via_image_from on the simulator object `sim` (fresh or used) and abstract everything that comes back"""
    h, w = int(call["h"]), int(call["w"])
    ids = Ids()
    rec = dict(G.base(call), api="img", fam=fam, raised="", oh=0, ow=0, data=[], nh=0, nw=0, nconst=[], ns=[], nsf=[], fs=1, ff=1,
               gd=[], gn=[], gm=[], allfalse=False, fid=-1, gids=[], fresh=False, inb=[], ina=[])
    img = G.make_image(call["img"], h, w, call["g"])

    def inputs():
        out = [ids(_raw(img)), ids(_native(img))]
        if psf is not None:
            out.append(ids(_raw(psf)))
        return out

    rec["inb"] = inputs()
    state = np.random.get_state()
    ds = None
    try:
        gids = []
        runs = ((int(call.get("g1", 11)), 0), (int(call.get("g2", 12)), 5), (None, 0)) if repeats else ((int(call.get("g1", 11)), 0),)
        first = None
        for gseed, adv in runs:
            if gseed is not None:
                np.random.seed(gseed)
                np.random.random(adv)
            d = sim.via_image_from(image=img)
            gids.append(ids(_native(d.data), _native(d.noise_map)))
            if first is None:
                first = d
        ds = first
        if not repeats:
            gids = gids * 3
            rec["fresh"] = True
        else:
            rec["fresh"] = bool(d is not ds and d.data is not ds.data and d.noise_map is not ds.noise_map
                                and not np.shares_memory(_raw(d.data), _raw(ds.data))
                                and not np.shares_memory(_raw(d.noise_map), _raw(ds.noise_map)))
        rec["gids"] = gids
    except core.MachineryError:
        raise
    except Exception as ex:  # a verdict for the specification, not a machinery failure
        rec["raised"] = type(ex).__name__
    finally:
        np.random.set_state(state)
    rec["ina"] = inputs()
    rec.update(_twin_and_reference(G, call, ids))
    if ds is not None:
        dn = _native(ds.data)
        rec["oh"], rec["ow"] = (int(dn.shape[0]), int(dn.shape[1])) if dn.ndim == 2 else (0, 0)
        rec["data"] = ai(dn, G.u / G.tm)
        rec["fid"] = ids(dn)
        nn = _native(ds.noise_map)
        rec["_kd"], rec["_kn"] = exact.fp(dn), exact.fp(nn)
        rec["nh"], rec["nw"] = (int(nn.shape[0]), int(nn.shape[1])) if nn.ndim == 2 else (0, 0)
        rec["nid"] = ids(nn)
        if G.nm:
            big = [abs(v) for v in rec["ref"] + rec["data"] if v != OFF] + [1]
            nmax = 2.0 * (max(big) + G.sky_i * G.tm) + 16.0
            rec["fs"] = int(min(FS_MAX, _pow2_floor(math.sqrt(2.0e9 / nmax))))
            rec["ff"] = int(min(FF_MAX, _pow2_floor(1.9e9 / (math.sqrt(nmax) + 2.0))))
            rec["ns"], rec["nsf"] = fx(nn, G.un, rec["fs"]), fx(nn, G.un, rec["ff"])
        else:
            rec["nconst"] = [1 if v == G.nf else 0 for v in nn.ravel()]
        ty, tx = G.tau, G.tau
        rec["gd"], rec["gn"], rec["gm"] = _geom(ds.data.mask, ty, tx), _geom(ds.noise_map.mask, ty, tx), _geom(ds.mask, ty, tx)
        rec["allfalse"] = bool(all(tuple(np.shape(m)) == (h, w) and not np.asarray(m, dtype=bool).any()
                                   for m in (ds.data.mask, ds.noise_map.mask, ds.mask)))
    else:
        rec["nid"] = -1
    rec["_units"] = G.units()
    return rec, ds


def observe_psf(G, call_seed):
    """the PSF of a fresh simulator and of the dataset it returns (blank image, every noise option off)"""
    ids = Ids()
    rec = {"api": "imgpsf", "psf": G.psf, "kh": G.kh, "kw": G.kw, "k": G.k, "norm": G.norm, "raised": "", "simpsf": [], "dspsf": [],
           "dspsfn": [], "skh": 0, "skw": 0, "pkh": 0, "pkw": 0, "inb": [], "ina": []}
    try:
        psf = G.make_psf()
        if psf is not None:
            rec["inb"] = [ids(_raw(psf)), ids(_native(psf))]
        sim = G.make_sim(call_seed, psf, add_poisson_noise_to_data=False, include_poisson_noise_in_noise_map=False)
        ds = sim.via_image_from(image=G.make_image([0, 0], 1, 2, [2, 2, 0, 0]))
        if psf is not None:
            rec["ina"] = [ids(_raw(psf)), ids(_native(psf))]
        if getattr(sim, "psf", None) is not None:
            sp = _native(sim.psf)
            rec["skh"], rec["skw"] = int(sp.shape[0]), int(sp.shape[1])
            rec["simpsf"] = ai(sp, G.upsf)
        if ds.psf is not None:
            dp = _native(ds.psf)
            rec["pkh"], rec["pkw"] = int(dp.shape[0]), int(dp.shape[1])
            rec["dspsf"] = ai(dp, G.upsf)
            rec["dspsfn"] = ai(dp, 1.0 / G.Q)
    except core.MachineryError:
        raise
    except Exception as ex:
        rec["raised"] = type(ex).__name__
    rec["_units"] = G.units()
    return rec


def records_img(src):
    """one dumped behaviour of the imaging simulator: a simulator object and the calls made on it, in order"""
    rng = _rng_for(src)
    G = ImgGamma(src, rng)
    calls = src["calls"]
    recs = []
    psf = G.make_psf()
    sim = G.make_sim(calls[0]["seed"], psf)
    images = {}
    steps = []
    for j, call in enumerate(calls):
        if j > 0:
            sim.noise_seed = int(call["seed"])          # the seed is a public attribute of the simulator
        call = dict(call, g1=int(rng.integers(0, 1000)), g2=int(rng.integers(0, 1000)))
        rec, _ = observe_img(G, sim, psf, call, src["fam"])
        rec.update({"pos": j, "_src": src})
        recs.append(rec)
        if len(calls) > 1 or src.get("force_hist"):
            # the same call on a fresh simulator object
            cold, _ = observe_img(G, G.make_sim(call["seed"], G.make_psf()), None, call, src["fam"], repeats=False)
            key = (int(call["h"]), int(call["w"]), tuple(call["img"]))
            steps.append({"ii": images.setdefault(key, len(images)), "seed": int(call["seed"]), "_rec": rec, "_cold": cold})
    if steps:
        recs.append(_hist_record(src, "img", steps, G))
    if src.get("with_psf", src["sid"] % 3 == 0):
        p = observe_psf(G, calls[0]["seed"])
        p["_src"] = src
        recs.append(p)
    return recs


def _hist_record(src, kind, steps, G=None):
    """content identifiers across the calls of one history: warm (used object) against cold (fresh object), and the reference"""
    names = {}

    def cid(key):
        return -1 if key is None else names.setdefault(key, len(names))

    out = []
    for s in steps:
        w, c = s["_rec"], s["_cold"]
        out.append({"ii": s["ii"], "seed": s["seed"],
                    "fid": cid(w.get("_kd")), "nid": cid(w.get("_kn")), "cid": cid(c.get("_kd")), "cnid": cid(c.get("_kn")),
                    "rid": cid(w.get("_kr"))})
    r = {"api": "hist", "kind": kind, "steps": out, "_src": src,
         "psf": bool(src.get("psf", False)), "norm": bool(src.get("norm", False)), "pn": bool(src.get("pn", False)),
         "nm": bool(src.get("nm", False)), "sub": bool(src.get("sub", False)), "sigma": bool(src.get("sigma", False))}
    if G is not None:
        r["_units"] = G.units()
    return r


# ------------------------------------------------------------------------------------------------------------
# gamma: interferometer
# ------------------------------------------------------------------------------------------------------------
class VisGamma:
    def __init__(self, cfg, rng):
        self.cfg = cfg
        self.h, self.w = int(cfg["h"]), int(cfg["w"])
        self.u = [int(x) for x in cfg["u"]]
        self.org = [int(x) for x in cfg["org"]]
        self.b = [[int(x) for x in p] for p in cfg["b"]]
        self.sigma_on = bool(cfg["sigma"])
        self.sy, self.sx = [(1.0, 1.0), (0.5, 0.5), (0.1, 0.1), (0.05, 0.2), (2.0, 0.25), (0.7, 1.3)][int(rng.integers(0, 6))]
        self.ui = 2.0 ** int(rng.integers(-3, 4))
        self.sigma = 2.0 ** int(rng.integers(-3, 2)) if self.sigma_on else None
        self.nf = float(rng.choice([0.1, 0.5, 2.0]))
        self.native_image = bool(rng.integers(0, 3) == 0)
        self.unit_x = 648000.0 / (4.0 * self.sx * math.pi)
        self.unit_y = 648000.0 / (4.0 * self.sy * math.pi)

    def make_mask(self):
        import autoarray as aa

        m = np.ones(self.h * self.w, dtype=bool)
        m[self.u] = False
        return aa.Mask2D(mask=m.reshape(self.h, self.w), pixel_scales=(self.sy, self.sx),
                         origin=(self.org[0] * self.sy / 2.0, self.org[1] * self.sx / 2.0))

    def make_uv(self):
        return np.array([[p[0] * self.unit_x, p[1] * self.unit_y] for p in self.b], dtype=float).reshape(-1, 2)

    def make_sim(self, seed, **over):
        import autoarray as aa

        kw = dict(uv_wavelengths=self.make_uv(), exposure_time=1.0, transformer_class=aa.TransformerDFT, noise_sigma=self.sigma,
                  noise_if_add_noise_false=self.nf, noise_seed=int(seed))
        kw.update(over)
        return aa.SimulatorInterferometer(**kw)

    def make_image(self, ints, mask):
        import autoarray as aa

        if self.native_image:
            nat = np.zeros(self.h * self.w)
            nat[self.u] = np.array(ints, dtype=float) * self.ui
            return aa.Array2D(values=nat.reshape(self.h, self.w), mask=mask, store_native=True)
        return aa.Array2D(values=np.array(ints, dtype=float) * self.ui, mask=mask)

    def geom(self, mask):
        return _geom(mask, self.sy / 2.0, self.sx / 2.0)

    def units(self):
        return {"image_unit": self.ui, "pixel_scales": [self.sy, self.sx], "noise_sigma": self.sigma,
                "noise_if_add_noise_false": self.nf, "native_stored_image": self.native_image}


def observe_vis(G, sim, call, fam, *, repeats=True):
    import autoarray as aa
    from autoarray.dataset import preprocess as pp

    ids = Ids()
    mask = G.make_mask()
    img = G.make_image(call["img"], mask)
    K = len(G.b)
    rec = {"api": "vis", "fam": fam, "h": G.h, "w": G.w, "u": G.u, "org": G.org, "b": G.b, "img": [int(v) for v in call["img"]],
           "sigma": G.sigma_on, "seed": int(call["seed"]), "g": G.geom(mask), "raised": "", "off": False, "vis": [], "nmok": [],
           "uvb": [], "um": [], "gm": [], "tclass": False, "hastwin": False, "x0": [], "hasref": False, "fid": -1, "rid": -1,
           "gids": [], "fresh": False, "inb": [], "ina": [], "qre": [], "qim": []}
    rec["inb"] = [ids(_raw(img)), ids(_native(img)), ids(np.asarray(mask, dtype=bool))]
    state = np.random.get_state()
    ds = None
    try:
        gids, first, d = [], None, None
        runs = ((int(call.get("g1", 11)), 0), (int(call.get("g2", 12)), 5), (None, 0)) if repeats else ((int(call.get("g1", 11)), 0),)
        for gseed, adv in runs:
            if gseed is not None:
                np.random.seed(gseed)
                np.random.random(adv)
            d = sim.via_image_from(image=img)
            gids.append(ids(np.array(d.data), np.array(d.noise_map)))
            if first is None:
                first = d
        ds = first
        if not repeats:
            gids = gids * 3
            rec["fresh"] = True
        else:
            rec["fresh"] = bool(d is not ds and d.data is not ds.data and not np.shares_memory(_raw(d.data), _raw(ds.data)))
        rec["gids"] = gids
    except core.MachineryError:
        raise
    except Exception as ex:
        rec["raised"] = type(ex).__name__
    finally:
        np.random.set_state(state)
    rec["ina"] = [ids(_raw(img)), ids(_native(img)), ids(np.asarray(mask, dtype=bool))]
    twin_data = None
    if G.sigma_on:
        try:
            twin = G.make_sim(call["seed"], noise_sigma=None)
            d0 = twin.via_image_from(image=G.make_image(call["img"], G.make_mask()))
            twin_data = d0.data
            rec["x0"], off0 = gauss_pairs(np.array(d0.data), G.ui)
            rec["hastwin"] = True
            rec["off"] = rec["off"] or off0
            ref = pp.data_with_complex_gaussian_noise_added(data=d0.data, sigma=G.sigma, seed=int(call["seed"]))
            rec["hasref"] = True
            rec["rid"] = ids(np.array(ref))
            rec["_kr"] = exact.fp(np.array(ref))
        except Exception:
            pass
    if ds is not None:
        data = np.array(ds.data)
        rec["fid"] = ids(data)
        rec["_kd"], rec["_kn"] = exact.fp(data), exact.fp(np.array(ds.noise_map))
        if not G.sigma_on:
            rec["vis"], off = gauss_pairs(data, G.ui)
            rec["off"] = rec["off"] or off
        elif twin_data is not None and data.shape == np.array(twin_data).shape:
            q = (data - np.array(twin_data)) / G.sigma * 1024.0
            rec["qre"] = [int(round(v)) if math.isfinite(v) and abs(v) < 1e9 else OFF for v in q.real]
            rec["qim"] = [int(round(v)) if math.isfinite(v) and abs(v) < 1e9 else OFF for v in q.imag]
        c = G.sigma if G.sigma_on else G.nf
        rec["nmok"] = [1 if v == complex(c, c) else 0 for v in np.array(ds.noise_map).ravel()]
        uv = np.asarray(ds.uv_wavelengths, dtype=float)
        if uv.ndim == 2 and uv.shape[1] == 2:
            bx, by = ai(uv[:, 0], G.unit_x, tol=1e-9), ai(uv[:, 1], G.unit_y, tol=1e-9)
            rec["uvb"] = [[a, b] for a, b in zip(bx, by)]
        rm = ds.real_space_mask
        rec["um"] = [int(k) for k in np.flatnonzero(~np.asarray(rm, dtype=bool).ravel())] if tuple(np.shape(rm)) == (G.h, G.w) else [OFF]
        rec["gm"] = G.geom(rm)
        rec["tclass"] = bool(type(ds.transformer) is aa.TransformerDFT)
    rec["_units"] = G.units()
    return rec, ds


def records_vis(src):
    rng = _rng_for(src)
    G = VisGamma(src, rng)
    calls = src["calls"]
    sim = G.make_sim(calls[0]["seed"])
    recs, steps, images = [], [], {}
    for j, call in enumerate(calls):
        if j > 0:
            sim.noise_seed = int(call["seed"])
        call = dict(call, g1=int(rng.integers(0, 1000)), g2=int(rng.integers(0, 1000)))
        rec, _ = observe_vis(G, sim, call, src["fam"])
        rec.update({"pos": j, "_src": src})
        recs.append(rec)
        if len(calls) > 1:
            cold, _ = observe_vis(G, G.make_sim(call["seed"]), call, src["fam"], repeats=False)
            steps.append({"ii": images.setdefault(tuple(call["img"]), len(images)), "seed": int(call["seed"]), "_rec": rec, "_cold": cold})
    if steps:
        recs.append(_hist_record(src, "vis", steps))
    return recs


def records_for(src):
    recs = records_vis(src) if src["kind"] == "vis" else records_img(src)
    return recs


def _many(srcs):
    out = []
    for s in srcs:
        out.extend(records_for(s))
    return out


# ------------------------------------------------------------------------------------------------------------
# seeded random larger instances
# ------------------------------------------------------------------------------------------------------------
def _pow2_kernel(rng, kh, kw, signed):
    n = kh * kw
    k = rng.integers(-6, 7, size=n) if signed else rng.integers(0, 7, size=n)
    c = (kh // 2) * kw + kw // 2
    s = int(k.sum()) - int(k[c])
    q = 1
    while q < s + 1:
        q *= 2
    k[c] = q - s
    return [int(v) for v in k]


def random_img_source(rng, sid, vseed, max_h=9, max_w=11, ncalls=1):
    shapes = [(1, 1), (1, 3), (1, 5), (3, 1), (3, 3), (3, 5), (5, 1), (5, 3)]
    kh, kw = shapes[int(rng.integers(0, len(shapes)))]
    psf = bool(rng.integers(0, 8) != 0)
    if not psf:
        kh, kw = 1, 1
    k = _pow2_kernel(rng, kh, kw, bool(rng.integers(0, 2))) if psf else [1]
    norm = bool(rng.integers(0, 2)) if psf else True
    Q = sum(k)
    kf = [v * (1 if norm else Q) for v in k]
    lvl = int(rng.integers(0, 3))
    sky = (0, int(rng.integers(1, 6)), 6 * sum(abs(v) for v in kf))[lvl]
    src = {"kind": "img", "fam": "random" if ncalls == 1 else "random-hist", "psf": psf, "kh": kh, "kw": kw, "kern": k, "norm": norm,
           "pn": bool(rng.integers(0, 2)), "nm": bool(rng.integers(0, 2)), "sub": bool(rng.integers(0, 2)), "sky": sky,
           "tm": int(rng.choice([1, 3, 5])), "sid": sid, "vseed": vseed, "origin": "random", "calls": [], "force_hist": ncalls > 1}
    pool = []
    for _ in range(max(1, ncalls // 2)):
        h, w = int(rng.integers(1, max_h + 1)), int(rng.integers(1, max_w + 1))
        lo = -6 if (lvl == 2 or rng.integers(0, 4) == 0) else 0
        pool.append({"h": h, "w": w, "img": [int(v) for v in rng.integers(lo, 7, size=h * w)],
                     "g": [int(2 * rng.integers(1, 4)), int(2 * rng.integers(1, 4)), int(rng.integers(-4, 5)), int(rng.integers(-4, 5))], "iv": "random"})
    for _ in range(ncalls):
        c = dict(pool[int(rng.integers(0, len(pool)))])
        c["seed"] = int(rng.choice([0, 1, 7, 0, int(rng.integers(2, 2 ** 31 - 1))]))
        src["calls"].append(c)
    return src


def _on_lattice(h, w, u, org, b):
    for lin in u:
        i, j = divmod(lin, w)
        y2, x2 = (h - 1) - 2 * i + org[0], 2 * j - (w - 1) + org[1]
        for au, av in b:
            if (x2 * au + y2 * av) % 2:
                return False
    return True


def random_vis_source(rng, sid, vseed, max_side=6, ncalls=1):
    while True:
        h, w = int(rng.integers(1, max_side + 1)), int(rng.integers(1, max_side + 1))
        keep = rng.random(h * w) < float(rng.choice([0.4, 0.8, 1.1]))
        keep[int(rng.integers(0, h * w))] = True
        u = [int(k) for k in np.flatnonzero(keep)]
        org = [int(rng.integers(-3, 4)), int(rng.integers(-3, 4))]
        b = [[int(rng.integers(-4, 5)), int(rng.integers(-4, 5))] for _ in range(int(rng.integers(1, 7)))]
        if not _on_lattice(h, w, u, org, b):
            b = [[2 * p[0], 2 * p[1]] for p in b]
        if _on_lattice(h, w, u, org, b):
            break
    src = {"kind": "vis", "fam": "random" if ncalls == 1 else "random-hist", "h": h, "w": w, "u": u, "org": org, "b": b,
           "sigma": bool(rng.integers(0, 2)), "sid": sid, "vseed": vseed, "origin": "random", "calls": []}
    pool = [[int(v) for v in rng.integers(-8, 9, size=len(u))] for _ in range(max(1, ncalls // 2))]
    for _ in range(ncalls):
        src["calls"].append({"img": pool[int(rng.integers(0, len(pool)))], "seed": int(rng.choice([0, 1, 7, int(rng.integers(2, 2 ** 31 - 1))]))})
    return src


# ------------------------------------------------------------------------------------------------------------
# validation
# ------------------------------------------------------------------------------------------------------------
def _clean(r):
    return {a: b for a, b in r.items() if not a.startswith("_")}


def _describe(rec):
    s = rec["_src"]
    if rec["api"] == "img":
        return (f"SimulatorImaging(psf={'%dx%d %s' % (rec['kh'], rec['kw'], rec['k']) if rec['psf'] else None}, normalize_psf={rec['norm']}, "
                f"add_poisson_noise_to_data={rec['pn']}, include_poisson_noise_in_noise_map={rec['nm']}, subtract_background_sky={rec['sub']}, "
                f"sky={rec['sky']}u, t={rec['tm']}x2^e, seed={rec['seed']}).via_image_from({rec['h']}x{rec['w']} image {rec['img']}) "
                f"call #{rec.get('pos', 0)} [{s.get('fam')}] raised={rec['raised'] or 'no'}")
    if rec["api"] == "imgpsf":
        return f"PSF of SimulatorImaging(psf={rec['kh']}x{rec['kw']} {rec['k']}, normalize_psf={rec['norm']}) and of the dataset it returns"
    if rec["api"] == "vis":
        return (f"SimulatorInterferometer(noise_sigma={'on' if rec['sigma'] else None}, seed={rec['seed']}).via_image_from(image {rec['img']} on "
                f"{rec['h']}x{rec['w']} unmasked={rec['u']} origin={rec['org']} baselines={rec['b']}) [{s.get('fam')}] raised={rec['raised'] or 'no'}")
    return f"history of {len(rec['steps'])} calls on one {rec['kind']} simulator: {[(t['ii'], t['seed']) for t in rec['steps']]}"


def validate(ctx, records, tag, chunk=1500):
    import concurrent.futures as cf

    for n, r in enumerate(records):
        r["id"] = n
    nchunks = max(1, min(12, (len(records) + chunk - 1) // chunk))
    chunks = [records[k::nchunks] for k in range(nchunks)]
    rejects = []

    def one(args):
        k, ch = args
        res, rej = ctx.validate_trace("Trace_Simulate", TRACE_CFG, [_clean(r) for r in ch], tag=f"{tag}-{k}", timeout=1800,
                                      defs=TRACE_DEFS, env=JVM_ENV)
        return rej

    with cf.ThreadPoolExecutor(max_workers=min(8, len(chunks))) as ex:
        for rej in ex.map(one, list(enumerate(chunks))):
            rejects.extend(rej)
    for rj in rejects:
        rec = records[rj["id"]]
        src = {a: b for a, b in rec["_src"].items() if not a.startswith("_")}
        ctx.violation(rj["sig"], f"{_describe(rec)}: failed {rj['clauses']}",
                      {"record": _clean(rec), "src": src, "units": rec.get("_units"), "failed_clauses": rj["clauses"],
                       "spec_wanted": rj.get("want")}, cls=",".join(rj["clauses"]))
    return rejects


# ------------------------------------------------------------------------------------------------------------
def _bounds(quick, seed):
    shapes = [(1, 1), (1, 3), (1, 5), (3, 1), (3, 3), (3, 5)]
    kernels = [(0, 0, "none")] + [(a, b, v) for a, b in shapes for v in ("pos", "signed") if (a, b, v) != (1, 1, "signed")]
    flags = [(a, b, c, d) for a in (False, True) for b in (False, True) for c in (False, True) for d in (False, True)]
    b = {
        "kernels": kernels,
        "flags": flags,
        "sky_levels": [0, 1, 2],
        "times": [1, 3],
        "seeds": [0, 1, 7],
        "frames": [(1, 1), (1, 3), (2, 3), (3, 2)] if quick else [(1, 1), (1, 2), (1, 3), (2, 1), (2, 3), (3, 2), (3, 3), (2, 4)],
        "image_variants": ["pos", "signed"],
        "geoms": [(2, 2, 0, 0), (2, 6, 4, -2), (4, 2, -3, 5), (6, 4, 1, 1)],
        "thin": 3 if quick else 1,
        "thin_offset": seed % 3 if quick else 0,
        "hist_kernels": [(1, 3, "pos"), (3, 1, "signed"), (3, 3, "pos")] if quick else [(1, 3, "pos"), (3, 1, "signed"), (3, 3, "signed"), (3, 5, "pos"), (0, 0, "none")],
        "hist_flags": [(True, True, True, True), (False, False, False, False), (True, True, False, False), (False, False, True, True),
                       (True, False, True, False), (False, True, True, True)] if quick else flags,
        "hist_sky": 2,
        "hist_time": 3,
        "hist_choices": [(1, 2, "pos", 0), (1, 2, "signed", 1), (2, 2, "pos", 0), (1, 2, "pos", 7), (2, 1, "signed", 0)],
        "hist_len": 2 if quick else 3,
        "vis_shapes": [(1, 2), (2, 2), (2, 3)] if quick else [(1, 1), (1, 2), (2, 1), (2, 2), (1, 3), (2, 3), (3, 2)],
        "vis_origins": [(0, 0), (2, -2)] if quick else [(0, 0), (2, -2), (1, 1)],
        "vis_baselines": [((2, 0),), ((0, 2), (2, -2)), ((1, 1), (0, 0), (-2, 4))] if quick
        else [((2, 0),), ((0, 2), (2, -2)), ((1, 1), (0, 0), (-2, 4)), ((1, 0), (0, 1)), ((4, 2), (-1, 3), (2, 2))],
        "vis_mask_mode": "two" if quick else "few",
        "vis_hist_len": 2 if quick else 3,
        "random_imaging": 400 if quick else 4000,
        "random_imaging_histories": 40 if quick else 600,
        "random_interferometer": 150 if quick else 2000,
        "random_interferometer_histories": 30 if quick else 400,
        "random_max_frame": [9, 11],
        "fixed_point_scales": {"coarse_max": FS_MAX, "fine_max": FF_MAX},
    }
    return b


def _cfg(b, vis_hist_len=None):
    return MC_CFG.format(sky=_set(b["sky_levels"]), times=_set(b["times"]), seeds=_set(b["seeds"]), variants=_set(b["image_variants"]),
                         thin=b["thin"], thinoff=b["thin_offset"], hsky=b["hist_sky"], htime=b["hist_time"], hlen=b["hist_len"],
                         vmode=b["vis_mask_mode"], vhlen=vis_hist_len or b["vis_hist_len"])


def src_from_tlc(r, sid, vseed):
    s = {k: v for k, v in r.items() if k != "k"}
    s.update({"sid": sid, "vseed": vseed, "origin": "tlc"})
    return s


def enumerate_machine(ctx, b):
    res = ctx.tlc("Simulate", _cfg(b), defs=mc_defs(b), tag="MC_Simulate", timeout=3000, coverage=True,
                  env={"_JAVA_OPTIONS": "-Xmx6g"})
    insts = sorted(res.by_kind("inst"), key=lambda r: json.dumps(r, sort_keys=True))
    keys = {json.dumps(r, sort_keys=True) for r in insts}
    fams = {}
    for r in insts:
        fams[r["fam"]] = fams.get(r["fam"], 0) + 1
    if not insts or len(keys) != len(insts) or not {"single", "hist", "vsingle", "vhist"} <= set(fams):
        raise core.MachineryError(f"Simulate.tla dumped {len(insts)} behaviours ({len(keys)} distinct), families {fams}")
    need = {"Call", "Pad", "Convolve", "Trim", "AddSky", "Poisson", "NoiseMap", "SubtractSky", "Return", "VisCall", "Transform",
            "GaussianNoise", "VisNoiseMap", "ReturnVis"}
    idle = [a for a in need if res.coverage.get(a, (0, 0))[0] == 0]
    if idle:
        raise core.MachineryError(f"Simulate.tla: actions never taken: {idle}")
    return insts, fams, res


def run(ctx):
    quick = ctx.quick
    rng = np.random.default_rng(ctx.seed)
    b = _bounds(quick, ctx.seed)
    ctx.bounds = b
    insts, fams, res = enumerate_machine(ctx, b)
    ctx.exhaustive = True
    srcs = [src_from_tlc(r, k, ctx.seed) for k, r in enumerate(insts)]
    sid = len(srcs)
    rnd = []
    for _ in range(b["random_imaging"]):
        rnd.append(random_img_source(rng, sid + len(rnd), ctx.seed))
    for _ in range(b["random_imaging_histories"]):
        rnd.append(random_img_source(rng, sid + len(rnd), ctx.seed, max_h=6, max_w=7, ncalls=int(rng.integers(3, 7))))
    for _ in range(b["random_interferometer"]):
        rnd.append(random_vis_source(rng, sid + len(rnd), ctx.seed))
    for _ in range(b["random_interferometer_histories"]):
        rnd.append(random_vis_source(rng, sid + len(rnd), ctx.seed, max_side=4, ncalls=int(rng.integers(3, 7))))
    allsrc = srcs + rnd
    groups = [allsrc[k: k + 25] for k in range(0, len(allsrc), 25)]
    recs = []
    for part in core.pmap(_many, groups, chunksize=1):
        recs.extend(part)
    ctx.replayed = len(insts)
    for want in (lambda r: r["api"] == "img" and r["_src"]["origin"] == "tlc" and r["pn"] and r["nm"] and r["psf"] and r["raised"] == "" and r["h"] * r["w"] <= 3,
                 lambda r: r["api"] == "vis" and r["_src"]["origin"] == "tlc" and not r["sigma"] and len(r["u"]) >= 2,
                 lambda r: r["api"] == "hist" and r["_src"]["origin"] == "random"):
        smp = next((r for r in recs if want(r)), None)
        if smp:
            ctx.sample({"record": _clean(smp), "units": smp.get("_units")})
    rejects = validate(ctx, recs, "X15")
    per_api, observed = {}, {"negative_expected_counts_with_poisson_requested": {}, "noise_free_data_noise_map_of": {}}
    for r in recs:
        per_api[r["api"]] = per_api.get(r["api"], 0) + 1
        if r["api"] == "img" and (r["pn"] or r["nm"]) and not r["hasref"]:
            o = observed["negative_expected_counts_with_poisson_requested"]
            key = r["raised"] or "returned"
            o[key] = o.get(key, 0) + 1
    ctx.note(f"TLC enumerated {len(insts)} complete behaviours {fams}; with {len(rnd)} seeded random simulators (frames up to 9x11, histories "
             f"of 3-6 calls) -> {len(recs)} records {per_api} judged by Trace_Simulate; {len(rejects)} rejected")
    ctx.note(f"observed, not judged: calls with Poisson noise requested (in data or noise map) whose expected counts are negative somewhere: "
             f"{observed['negative_expected_counts_with_poisson_requested']} (numpy's Poisson generator rejects a negative mean)")
    ctx.note("observed, not judged: psf=None makes the simulator (and the dataset) carry a 3x3 delta kernel; with noise-free data and "
             "include_poisson_noise_in_noise_map=True the noise map is that of the seeded noisy realisation (pinned by the repository's "
             "tests; the noise map of the expected counts would be accepted too); noise_seed=-1 and masked input images are outside the quantifier")
    ctx.assumptions = [
        "images, kernels, sky levels are integer mantissas (|image| <= 8, kernel sums powers of two) times powers of two chosen per "
        "instance; exposure times are 1, 3, 5 times a power of two chosen such that one count is 1 or 1/4 of the fine unit: every "
        "deterministic stage is exact in IEEE arithmetic and alpha rejects residuals > 1e-6 (1e-9 for visibilities and geometry)",
        "the square root of the noise map is judged in fixed point (perfect squares: fine scale <= 2^20, half a unit; other radicands: "
        "coarse scale <= 256, one unit), scales chosen per record so that the 32-bit bound checks of Preprocess.tla hold",
        "random stages are judged by SHA-256 content identifiers against X01's functions (data_eps_with_poisson_noise_added, "
        "data_with_complex_gaussian_noise_added) called directly with the same seed on the noise-free output of a fresh simulator "
        "with every noise option off -- which is itself judged exactly; bit-for-bit where no sky is subtracted afterwards, on the "
        "integers of the unit u/tm otherwise",
        "a Poisson distribution of negative mean is not defined: calls that request Poisson noise (in the data or in the noise map) "
        "on an image with a negative pixel after convolution and sky are recorded as observed and not judged; with every noise "
        "option off such images ARE judged (the documented noise-free pipeline has no draw)",
        "seeds >= 0 only (0 is a real seed); input images are unmasked (Array2D.no_mask or an all-False mask, slim or native stored); "
        "interferometer images live on arbitrary masks; baselines on the quarter-turn lattice of Dft.tla",
    ]


def replay(ctx, rp):
    from harness import repo_env

    repo_env.setup()
    src = rp["src"]
    want = rp["record"]
    recs = [r for r in records_for(src) if r["api"] == want["api"] and r.get("pos") == want.get("pos")]
    rej = validate(ctx, recs, "X15-replay")
    print("replayed", len(recs), "records; rejected:", [(r["sig"], r["clauses"]) for r in rej])
    return ctx.finish()
